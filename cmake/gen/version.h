#pragma once
/* fixed copy for the verification build (the repository generates this from version.h.in) */
#define GSTLEARN_VERSION "1.6.0"
#define GSTLEARN_VERSION_NUMBER 10600
#define GSTLEARN_DATE    "2000-01-01 00:00:00 +0000"
#define GSTLEARN_COMMIT  "verif"
