
#ifndef GSTLEARN_EXPORT_H
#define GSTLEARN_EXPORT_H

#ifdef GSTLEARN_STATIC_DEFINE
#  define GSTLEARN_EXPORT
#  define GSTLEARN_NO_EXPORT
#else
#  ifndef GSTLEARN_EXPORT
#    ifdef shared_EXPORTS
        /* We are building this library */
#      define GSTLEARN_EXPORT __attribute__((visibility("default")))
#    else
        /* We are using this library */
#      define GSTLEARN_EXPORT __attribute__((visibility("default")))
#    endif
#  endif

#  ifndef GSTLEARN_NO_EXPORT
#    define GSTLEARN_NO_EXPORT __attribute__((visibility("hidden")))
#  endif
#endif

#ifndef GSTLEARN_DEPRECATED
#  define GSTLEARN_DEPRECATED __attribute__ ((__deprecated__))
#endif

#ifndef GSTLEARN_DEPRECATED_EXPORT
#  define GSTLEARN_DEPRECATED_EXPORT GSTLEARN_EXPORT GSTLEARN_DEPRECATED
#endif

#ifndef GSTLEARN_DEPRECATED_NO_EXPORT
#  define GSTLEARN_DEPRECATED_NO_EXPORT GSTLEARN_NO_EXPORT GSTLEARN_DEPRECATED
#endif

/* NOLINTNEXTLINE(readability-avoid-unconditional-preprocessor-if) */
#if 0 /* DEFINE_NO_DEPRECATED */
#  ifndef GSTLEARN_NO_DEPRECATED
#    define GSTLEARN_NO_DEPRECATED
#  endif
#endif

#ifdef SWIG
#    undef GSTLEARN_EXPORT
#    undef GSTLEARN_NO_EXPORT
#    undef GSTLEARN_DEPRECATED
#    undef GSTLEARN_DEPRECATED_EXPORT
#    undef GSTLEARN_DEPRECATED_NO_EXPORT
#    define GSTLEARN_EXPORT
#    define GSTLEARN_NO_EXPORT
#    define GSTLEARN_DEPRECATED
#    define GSTLEARN_DEPRECATED_EXPORT
#    define GSTLEARN_DEPRECATED_NO_EXPORT
#endif
#ifdef GSTLEARN_STATIC_DEFINE
#    define GSTLEARN_TEMPLATE_EXPORT
#else
#    ifdef shared_EXPORTS
#        define GSTLEARN_TEMPLATE_EXPORT
#    else
#        define GSTLEARN_TEMPLATE_EXPORT extern
#    endif
#endif

#endif /* GSTLEARN_EXPORT_H */
