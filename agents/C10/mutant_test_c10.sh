#!/bin/bash
# tools/mutant_test.sh with one more argument: keys to exclude in addition to those of known_findings.json
# (the defects found by C10 on the current tree are not registered there yet, and every sub-property of C10
# stops on one of them before a mutant has a chance to show).   usage: mutant_test_c10.sh <patch> <sub> <cases> <seed> <extra-excludes>
set -e
PATCH=$(readlink -f "$1"); H=c10_history; SUB=$2; CASES=${3:-1000}; SEED=${4:-1}; EXTRA=$5
T=$(mktemp -d /tmp/mut.XXXXXX)
trap 'rm -rf "$T"' EXIT
B=/verif/_build
FLAGS="-include /verif/harness/common/eigen_assert_throw.hpp -std=gnu++20 -O1 -g1 -fno-omit-frame-pointer -fsanitize=fuzzer-no-link,address,undefined -fno-sanitize-recover=undefined -fopenmp -w -DOPENMP -DGSTLEARN_STATIC_DEFINE -DGSTLEARN_VERIF"
INC="-I/repo/include -I/verif/cmake/gen -I/usr/include/eigen3 -I/verif/harness/common -I/repo/3rd-party/csparse -I/repo/3rd-party/gmtsph"
FILES=$(grep '^+++ b/' "$PATCH" | sed 's|^+++ b/||')
for f in $FILES; do mkdir -p "$T/$(dirname $f)"; cp "/repo/$f" "$T/$f"; done
(cd "$T" && patch -p1 -s < "$PATCH")
cp $B/libgstlearn.a "$T/libgstlearn.a"
for f in $FILES; do o="$T/$(basename $f).o"; clang++-14 $FLAGS $INC -c "$T/$f" -o "$o"; ar r "$T/libgstlearn.a" "$o" 2>/dev/null; done
clang++-14 $FLAGS $INC /verif/harness/$H.cpp -o "$T/$H" -fsanitize=address,undefined -fopenmp "$T/libgstlearn.a" $B/libcsparse.a $B/libgmtsph.a -lnlopt -lrapidcheck
set +e
RC_PARAMS="seed=$SEED max_success=$CASES max_size=100" OMP_NUM_THREADS=1 timeout 1500 "$T/$H" --sub "$SUB" --out "$T/out" ${EXTRA:+--exclude "$EXTRA"} > "$T/log" 2>&1
rc=$?
if [ $rc -eq 0 ]; then echo "MUTANT-SURVIVED ($CASES cases, sub $SUB)"; else
  echo "MUTANT-KILLED rc=$rc after $(python3 -c "import json;print(json.load(open('$T/out.stats.json'))['evaluations'])" 2>/dev/null) cases"; grep -a -E "^key |^msg " "$T/out.fail" 2>/dev/null | cut -c1-300; fi
