#!/usr/bin/env python3
# aggregate sweep statistics: agg.py <prefix-glob>   e.g. _build/work/c14sw_*  (reads *.stats.json)
import sys, json, glob, collections
per = collections.defaultdict(lambda: collections.Counter())
for f in sorted(glob.glob(sys.argv[1] + '.stats.json')):
    d = json.load(open(f))
    sub = d['sub']; c = per[sub]
    c['runs'] += 1; c['evaluations'] += d['evaluations']; c['nontrivial'] += d['nontrivial']; c['excluded'] += d['excluded']; c['failing_runs'] += d['failing_runs']
    for k, v in d['classes'].items():
        if k.startswith(('maxz:', 'excluded-known:', 'passed-thanks', 'sim:', 'law:', 'moment-skipped', 'generator:')): c[k] += v
for sub, c in per.items():
    print('==', sub, {k: c[k] for k in ('runs', 'evaluations', 'nontrivial', 'excluded', 'failing_runs')})
    print('   maxz:', {k[5:]: v for k, v in sorted(c.items()) if k.startswith('maxz:')}, ' allowance-needed:', c.get('passed-thanks-to-allowance', 0))
    ex = {k[15:]: v for k, v in sorted(c.items()) if k.startswith('excluded-known:')}
    if ex: print('   excluded:', ex)
    print('   classes:', {k: v for k, v in sorted(c.items()) if k.startswith(('sim:', 'generator:'))})
