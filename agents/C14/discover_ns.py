#!/usr/bin/env python3
"""Development aid: run one sub-property repeatedly, excluding each failure key found, to list
all distinct failure keys behind the first one.  usage: discover.py <binary> <sub> [cases] [seed]"""
import subprocess, sys, os, re
b, sub = sys.argv[1], sys.argv[2]
cases = int(sys.argv[3]) if len(sys.argv) > 3 else 2000
seed = int(sys.argv[4]) if len(sys.argv) > 4 else 1
excl = sys.argv[5].split(",") if len(sys.argv) > 5 else []
pref = "/verif/_build/work/c14disc_%s_%d" % (sub, seed)
for it in range(60):
    env = dict(os.environ, RC_PARAMS="seed=%d max_success=%d max_size=%s noshrink=1" % (seed, cases, os.environ.get("MAXSIZE","100")))
    cmd = ["/verif/_build/bin/" + b, "--sub", sub, "--out", pref]
    if excl: cmd += ["--exclude", ",".join(excl)]
    for e in (".fail",):
        try: os.remove(pref + e)
        except OSError: pass
    r = subprocess.run(cmd, env=env, stdout=subprocess.PIPE, stderr=subprocess.STDOUT, text=True)
    if r.returncode == 0:
        print("PASS with exclusions:", ",".join(excl)); break
    if r.returncode == 1 and os.path.exists(pref + ".fail"):
        t = open(pref + ".fail").read()
        key = re.search(r"^key (.*)$", t, re.M).group(1)
        msg = re.search(r"^msg (.*)$", t, re.M).group(1)
        print("FAIL key=%s | %s | %s" % (key, msg[:110], " ".join(t.split("#trailer")[0].split())[:160]))
        os.rename(pref + ".fail", pref + "." + re.sub(r"[^A-Za-z0-9_.-]", "_", key) + ".case")
        excl.append(key)
    else:
        print("CRASH rc=%d" % r.returncode)
        print("\n".join(l[:200] for l in r.stdout.splitlines() if "ERROR" in l or "runtime error" in l or "SUMMARY" in l)[:1500])
        print(" ".join(open(pref + ".current").read().split())[:600])
        break
