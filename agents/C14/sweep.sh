#!/bin/bash
# usage: sweep.sh <sub> <cases> <seed> [maxsize]   -> one line of result; stats in _build/work/c14sw_<sub>_<seed>.stats.json
cd /verif
SUB=$1; N=$2; SEED=$3; MS=${4:-100}
EXCL=$(grep -v "^#" ${KEYS:-agents/C14/known_keys.txt} | tr '\n' ',' | sed 's/,$//')
OUT=_build/work/c14sw_${SUB}_${SEED}
rm -f $OUT.fail
S=$(date +%s)
RC_PARAMS="seed=$SEED max_success=$N max_size=$MS noshrink=1" OMP_NUM_THREADS=1 ${BIN:-_build/bin/c14_simustat} --sub $SUB --out $OUT --exclude "$EXCL" > $OUT.log 2>&1
rc=$?
E=$(date +%s)
echo "sub=$SUB seed=$SEED cases=$N rc=$rc wall=$((E-S))s $(grep -a -E '^key|^msg' $OUT.fail 2>/dev/null | tr '\n' ' ' | cut -c1-260)"
