#!/bin/bash
# usage: run_mutant.sh <mutant-name> <sub> <cases> [seed]   (known findings of the current tree are excluded)
cd /verif
EX=$(tr '\n' ',' < agents/C14/known_keys.txt | sed 's/,$//')
S=$(date +%s)
R=$(EXTRA_EXCL="$EX" NOSHRINK=1 agents/C14/mutant_test_excl.sh agents/C14/mutants/$1.diff c14_simustat $2 $3 ${4:-1} 2>&1 | grep -a -E "KILLED|SURVIVED|^key|^msg" | tr '\n' ' ' | cut -c1-330)
E=$(date +%s)
echo "$1 sub=$2 cases=$3 seed=${4:-1} wall=$((E-S))s: $R"
