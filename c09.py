"""C09 — loaders fail cleanly: libFuzzer campaigns + exhaustive prefix enumeration (DESIGN.md §5 C09).

Custom check module used by check.py.  Per reader target (FZ_TARGET of harness/fz_loaders.cpp):
  1. replay tier: committed regression inputs corpus/C09/<target>/* and the inputs of known findings;
  2. prefix tier: every byte-prefix (files <= 4 KB; every line-prefix above) of every valid seed file
     (seeds are rebuilt through the library API at each run) — each interruption point of a write;
  3. fuzz tier: coverage-guided mutation from the valid seeds and from an empty corpus, fixed -seed,
     under -rss_limit_mb / -malloc_limit_mb / -timeout.
A crashing input is re-run 3x alone; its signature (oracle message, or sanitizer kind + first frame inside
/repo) is matched against known_findings.json; unknown signatures are violations.
Because libFuzzer stops at the first crash, inputs whose signature is a known finding are counted and the
campaign is restarted (-fork-less loop) with the remaining budget, so the search continues behind them.
"""
import glob, hashlib, json, os, re, shutil, subprocess, sys, time
from concurrent.futures import ThreadPoolExecutor

VERIF = os.path.dirname(os.path.abspath(__file__))
BUILD = os.path.join(VERIF, "_build")
FZ = os.path.join(BUILD, "bin", "fz_loaders")
# development aid (tools/mutant_test.sh with KEEP_BIN): run the tiers against another binary of the target, without building
ALT = os.environ.get("VERIF_C09_BIN")
if ALT:
    FZ = ALT
WORK = os.path.join(BUILD, "work", "c09")
VIOL = os.path.join(BUILD, "violations", "C09")

TARGETS = ["nf:Db", "nf:DbGrid", "nf:DbLine", "nf:DbGraphO", "nf:DbMeshTurbo", "nf:DbMeshStandard", "nf:Model",
           "nf:NeighUnique", "nf:NeighMoving", "nf:NeighBench", "nf:NeighCell", "nf:NeighImage", "nf:Vario",
           "nf:Polygons", "nf:PolyLine2D", "nf:AnamHermite", "nf:AnamEmpirical", "nf:AnamDiscreteDD",
           "nf:AnamDiscreteIR", "nf:MeshEStandard", "nf:MeshETurbo", "nf:MeshSpherical", "nf:Table", "nf:Rule",
           "nf:Faults", "nf:FracEnviron", "csv", "zycor", "ifpen", "bmp", "f2g", "las"]

LIMITS = ["-timeout=10", "-rss_limit_mb=2048", "-malloc_limit_mb=1024", "-max_len=4096", "-print_final_stats=1"]


def log(*a):
    print(*a, flush=True)


def tdir(t):
    return t.replace(":", "_")


def run(cmd, env=None, timeout=None):
    e = dict(os.environ)
    e.update(env or {})
    try:
        r = subprocess.run(cmd, stdout=subprocess.PIPE, stderr=subprocess.STDOUT, env=e, timeout=timeout, errors="replace", text=True)
        return r.returncode, r.stdout
    except subprocess.TimeoutExpired as ex:
        out = ex.stdout or ""
        if isinstance(out, bytes):
            out = out.decode(errors="replace")
        return -999, out


def signature(out):
    """stable signature of a crash from the fuzzer's output"""
    m = re.search(r"C09-ORACLE-VIOLATION target=\S+: (.*)", out)
    exc = re.search(r"C09-EXCEPTION what=(.*)", out)
    if m:
        sig = "oracle:" + m.group(1).strip()
        if exc:
            w = exc.group(1).strip()
            w = re.sub(r"^/repo/", "", w)
            w = re.sub(r"@\d+", "", w)
            sig += " [" + w[:80] + "]"
        return sig
    kind = None
    m = re.search(r"ERROR: AddressSanitizer: ([\w-]+)", out)
    if m:
        kind = "asan:" + m.group(1)
    m2 = re.search(r"runtime error: ([^\n]*)", out)
    if not kind and m2:
        kind = "ubsan:" + re.sub(r"-?\d+(\.\d+)?(e[+-]?\d+)?", "N", re.sub(r"0x[0-9a-f]+", "ADDR", m2.group(1)))[:60]
    if not kind and "ERROR: libFuzzer: out-of-memory" in out:
        kind = "oom"
    if not kind and "ERROR: libFuzzer: timeout" in out:
        kind = "timeout"
    if not kind and "ERROR: libFuzzer: deadly signal" in out:
        kind = "signal"
    if not kind:
        return None
    if kind in ("oom", "timeout"):
        return kind  # the frame of a time/memory limit is wherever the process happened to be
    frame = ""
    for fm in re.finditer(r"#\d+ 0x[0-9a-f]+ in (.+?) /repo/(src|include)/([^\s:]+):(\d+)", out):
        fn = re.sub(r"\(.*", "", fm.group(1)).strip()
        frame = "%s@%s" % (fn, fm.group(3))
        break
    return kind + " " + frame


def replay(target, path, tag):
    rc, out = run([FZ, path] + LIMITS[:3], env={"FZ_TARGET": target}, timeout=120)
    if rc == 0:
        return None, out
    if rc == -999:
        return "timeout(driver)", out
    return signature(out) or ("exit-%d" % rc), out


def confirm(target, path):
    sigs = [replay(target, path, "c")[0] for _ in range(3)]
    if all(s is not None for s in sigs):
        return sigs[0]
    return None


def load_known():
    p = os.path.join(VERIF, "known_findings.json")
    k = json.load(open(p)) if os.path.exists(p) else {"findings": []}
    return [f for f in k.get("findings", []) if f["property"] == "C09"]


def match_known(kf, target, sig):
    for f in kf:
        if f.get("target") not in (None, target, "*"):
            continue
        for k in f["keys"]:
            if (k.endswith("*") and sig.startswith(k[:-1])) or sig == k:
                return f
    return None


def prefixes(data, stride):
    """byte-prefixes (every 'stride'-th length; stride 1 = exhaustive) for files <= 4 KB, plus every line-prefix"""
    cuts = set()
    pos = 0
    for line in data.split(b"\n"):
        cuts.add(pos)
        pos += len(line) + 1
    if len(data) <= 4096:
        cuts.update(range(0, len(data), stride))
    return [data[:i] for i in sorted(c for c in cuts if c < len(data))]



KW_RE = re.compile(rb"^([A-Za-z_][A-Za-z_.-]*?)(\d{0,9})$")
NUM_RE = re.compile(rb"^[+-]?(\d+\.?\d*|\.\d+)([eE][+-]?\d+)?$")


def token_mutations(data, cap=2500):
    """Finite, deterministic single-fault corruptions of a valid text file: every numeric token replaced by boundary
    values, every other token by junk, every line deleted / duplicated / swapped with the next; binary files: each of
    the first 96 bytes set to 00/7F/80/FF.  Deterministically subsampled to 'cap' inputs."""
    out = []
    kw = []   # keyword variants (never subsampled: few, and they reach the branches that interpret names and ranks)
    if b"\0" in data[:200] or (len(data) > 0 and sum(1 for c in data[:200] if c > 126 or (c < 9)) > 8):
        for i in range(min(96, len(data))):
            for v in (0x00, 0x7F, 0x80, 0xFF):
                if data[i] != v:
                    out.append(data[:i] + bytes([v]) + data[i + 1:])
    else:
        lines = data.split(b"\n")
        for li, line in enumerate(lines):
            toks = line.split()
            for ti, tok in enumerate(toks):
                if ti > 40 and ti % 7:
                    continue
                if NUM_RE.match(tok):
                    reps = [b"0", b"-1", b"1", b"2147483647", b"-2147483648", b"1000000", b"NA", b"1e999", b"nan", b"x"]
                    try:
                        v = int(tok)
                        reps += [str(v + 1).encode(), str(v - 1).encode(), str(2 * v + 3).encode()]
                    except ValueError:
                        reps += [b"7"]
                else:
                    reps = [b"NA", b"zz9", b"-1", b"#"]
                    m = KW_RE.match(tok)
                    if m:
                        # a keyword with an optional rank (locators "x1", "z2", "sel"; structure and option names): other ranks,
                        # no rank, a rank where none is expected
                        base, num = m.group(1), m.group(2)
                        alts = [base + b"2", base + b"0", base + b"99", base] if not num else \
                               [base + str(int(num) + 1).encode(), base + b"0", base + b"99", base, base + b"2147483648"]
                        for r in alts:
                            if r != tok:
                                nt = toks[:ti] + [r] + toks[ti + 1:]
                                kw.append(b"\n".join(lines[:li] + [b" ".join(nt)] + lines[li + 1:]))
                for r in reps:
                    if r == tok:
                        continue
                    nt = toks[:ti] + [r] + toks[ti + 1:]
                    out.append(b"\n".join(lines[:li] + [b" ".join(nt)] + lines[li + 1:]))
            out.append(b"\n".join(lines[:li] + lines[li + 1:]))             # delete the line
            out.append(b"\n".join(lines[:li + 1] + [line] + lines[li + 1:])) # duplicate it
            if li + 1 < len(lines):
                out.append(b"\n".join(lines[:li] + [lines[li + 1], line] + lines[li + 2:]))
    if len(out) > cap:
        step = len(out) / float(cap)
        out = [out[int(i * step)] for i in range(cap)]
    return kw[:cap] + out


def fuzz_target(job):
    """runs prefix tier + fuzz tier for one target; returns dict with counts and crash candidates"""
    t, budget, seed = job["target"], job["budget"], job["seed"]
    d = os.path.join(WORK, tdir(t))
    shutil.rmtree(d, ignore_errors=True)
    os.makedirs(os.path.join(d, "corpus"))
    os.makedirs(os.path.join(d, "art"))
    os.makedirs(os.path.join(d, "prefix"))
    seeds = sorted(glob.glob(os.path.join(WORK, "seeds", t, "*")))
    res = dict(target=t, prefix_not_run=0, execs=0, loaded=0, deep=0, roundtrips=0, prefix_inputs=0, candidates=[], seeds=len(seeds), restarts=0)
    stats = os.path.join(d, "stats.jsonl")
    env = {"FZ_TARGET": t, "FZ_STATS": stats}
    # ---- enumeration tier (deterministic, finite): every prefix + every single-token corruption of every seed
    plist = []
    for s_ in seeds:
        data = open(s_, "rb").read()
        shutil.copy(s_, os.path.join(d, "corpus", os.path.basename(s_)))
        for i, p in enumerate(prefixes(data, job["stride"])):
            fn = os.path.join(d, "prefix", "%s.p%05d" % (os.path.basename(s_), i))
            open(fn, "wb").write(p)
            plist.append(fn)
        for i, p in enumerate(token_mutations(data, job["mutcap"])):
            fn = os.path.join(d, "prefix", "%s.m%05d" % (os.path.basename(s_), i))
            open(fn, "wb").write(p)
            plist.append(fn)
    res["prefix_inputs"] = len(plist)
    res["cand_sigs"] = []
    todo = plist
    while todo:
        batch = todo[:3000]
        rc, out = run([FZ] + LIMITS[:3] + batch, env=env, timeout=3600)
        if rc == 0:
            todo = todo[3000:]
            continue
        # the culprit is the last "Running: <file>" line; its report is in this output
        running = re.findall(r"Running: (\S+)", out)
        culprit = running[-1] if running else batch[0]
        sig = signature(out[out.rfind("Running: "):]) or ("exit-%d" % rc)
        res["cand_sigs"].append((culprit, sig))
        res["candidates"].append(culprit)
        if culprit in todo:
            todo = todo[todo.index(culprit) + 1:]
        else:
            todo = todo[1:]
    # ---- fuzz tier (thorough only): coverage-guided campaigns from the valid seeds and from an empty corpus
    for phase, corpus in (("seeded", os.path.join(d, "corpus")), ("empty", os.path.join(d, "corpus_empty"))):
        if budget <= 0:
            break
        os.makedirs(corpus, exist_ok=True)
        t_end = time.time() + budget / 2.0
        k = 0
        while time.time() < t_end - 1:
            remaining = int(t_end - time.time())
            rc, out = run([FZ, corpus, "-max_total_time=%d" % remaining, "-seed=%d" % (seed + k), "-artifact_prefix=" + os.path.join(d, "art") + "/"] + LIMITS,
                          env=env, timeout=remaining + 120)
            k += 1
            arts = [a for a in glob.glob(os.path.join(d, "art", "*")) if a not in res["candidates"] and not os.path.basename(a).startswith("slow-unit")]
            if rc == 0 or not arts:
                break
            for a in arts:
                res["candidates"].append(a)
                res["cand_sigs"].append((a, signature(out) or ("exit-%d" % rc)))
            res["restarts"] += 1
            if res["restarts"] > job["maxcrash"]:
                break
    try:
        for line in open(stats):
            s = json.loads(line)
            for k2 in ("execs", "loaded", "deep", "roundtrips"):
                res[k2] += s[k2]
    except OSError:
        pass
    # a few sample inputs (valid seed + one grown corpus entry)
    res["samples"] = []
    for f in (seeds[:1] + sorted(glob.glob(os.path.join(d, "corpus", "*")))[-1:]):
        try:
            res["samples"].append(dict(target=t, input=open(f, "rb").read()[:300].decode("latin-1")))
        except OSError:
            pass
    return res


def check(pid, tier, seed):
    t0 = time.time()
    sys.path.insert(0, VERIF)
    import check as drv
    if not ALT:
        drv.build(["fz_loaders"])
    shutil.rmtree(WORK, ignore_errors=True)
    os.makedirs(WORK)
    os.makedirs(VIOL, exist_ok=True)
    kf = load_known()
    violations, known_hits, excluded = [], [], 0
    # seeds through the API of the tree under test
    rc, out = run([FZ], env={"FZ_GEN_CORPUS": os.path.join(WORK, "seeds")}, timeout=600)
    if rc != 0:
        log("[C09] seed generation through the API failed:\n" + out[-1500:])
        sig = signature(out) or "seed-generation-failed"
        open(os.path.join(VIOL, "seedgen.txt"), "w").write(out[-4000:])
        violations.append((os.path.join(VIOL, "seedgen.txt"), "gen", sig))
    # committed extra seeds (e.g. produced by the C08 generators, doc/data samples)
    for t in TARGETS:
        for f in glob.glob(os.path.join(VERIF, "corpus", "C09", "seeds", tdir(t), "*")):
            os.makedirs(os.path.join(WORK, "seeds", t), exist_ok=True)
            shutil.copy(f, os.path.join(WORK, "seeds", t, "x_" + os.path.basename(f)))

    seen_sig = {}

    def judge(target, path, origin, sig=None):
        nonlocal excluded
        if sig is None:
            sig, _ = replay(target, path, "j")
        if sig is None:
            return
        if (target, sig) in seen_sig:
            if seen_sig[(target, sig)] == "known":
                excluded += 1
            return
        if match_known(kf, target, sig) is None:
            # only a signature that no known finding covers needs the 3x confirmation
            sig2 = confirm(target, path)
            if sig2 is None:
                return
            sig = sig2
        if sig.startswith("timeout(driver)"):
            return
        f = match_known(kf, target, sig)
        if f is not None:
            excluded += 1
            seen_sig[(target, sig)] = "known"
            if f not in known_hits:
                known_hits.append(f)
            return
        seen_sig[(target, sig)] = "violation"
        dst = os.path.join(VIOL, "%s.%s" % (tdir(target), hashlib.sha1(open(path, "rb").read()).hexdigest()[:12]))
        shutil.copy(path, dst)
        violations.append((dst, target, sig))

    # ---- replay tier
    replayed = 0
    for t in TARGETS:
        for f in sorted(glob.glob(os.path.join(VERIF, "corpus", "C09", tdir(t), "*"))):
            replayed += 1
            sig, _ = replay(t, f, "r")
            if sig is not None:
                judge(t, f, "corpus")
    def kf_replay(f):
        return f, replay(f["target"], os.path.join(VERIF, f["replay"]), "k")[0]
    with ThreadPoolExecutor(max_workers=os.cpu_count() or 8) as ex:
        kres = list(ex.map(kf_replay, kf))
    for f, sig in kres:
        path = os.path.join(VERIF, f["replay"])
        replayed += 1
        if sig is not None and match_known([f], f["target"], sig):
            if f not in known_hits:
                known_hits.append(f)
        elif sig is not None:
            sig = confirm(f["target"], path)
            if sig is not None and not match_known(kf, f["target"], sig):
                violations.append((path, f["target"], sig))
        else:
            log("[C09] note: stored finding %s no longer fails" % f["id"])

    # ---- prefix + fuzz tiers
    budget = 0 if tier == "quick" else 360
    stride = 4 if tier == "quick" else 1
    mutcap = 400 if tier == "quick" else 2500
    maxcrash = 60
    jobs = [dict(target=t, budget=budget, stride=stride, mutcap=mutcap, maxcrash=maxcrash, seed=(seed * 1000 + i) % 2000000000 + 1) for i, t in enumerate(TARGETS)]
    with ThreadPoolExecutor(max_workers=os.cpu_count() or 8) as ex:
        results = list(ex.map(fuzz_target, jobs))
    tot = dict(execs=0, loaded=0, deep=0, roundtrips=0, prefix_inputs=0, prefix_not_run=0)
    per_target = {}
    samples = []
    for r in results:
        for k in tot:
            tot[k] += r[k]
        per_target[r["target"]] = {k: r[k] for k in ("execs", "loaded", "deep", "roundtrips", "prefix_inputs", "prefix_not_run", "seeds", "restarts")}
        per_target[r["target"]]["crash_candidates"] = len(r["candidates"])
        samples += r["samples"][:1]
        for c, sig in r["cand_sigs"]:
            judge(r["target"], c, "fuzz", sig)
    for f in known_hits:
        log("KNOWN-FINDING: property=C09 %s [%s]" % (f["what"], f["id"]))
    wall = time.time() - t0
    ev = dict(property_id="C09", tier=tier, seed=seed, level="fault_enumeration",
              coverage=dict(
                  evaluations=tot["execs"], distinct_nontrivial=tot["deep"], loaded_ok=tot["loaded"],
                  roundtrips_checked=tot["roundtrips"], prefix_inputs=tot["prefix_inputs"],
                  rule=("enumeration tier (both tiers, deterministic and finite; quick: every 4th byte-prefix + all line-prefixes and <=400 corruptions per seed, thorough: all): for every valid seed file built through the API of the tree under "
                        "test, every byte-prefix (files <=4KB; line-prefixes above) = every interruption point of a write, and every single-fault "
                        "corruption (each numeric token -> 0,-1,1,n+1,n-1,2n+3,INT_MAX,INT_MIN,1e6,NA,1e999,nan,junk; each other token -> junk; each line "
                        "deleted / duplicated / swapped; binary headers: each of the first 96 bytes -> 00/7F/80/FF); thorough tier adds coverage-guided "
                        "mutation (libFuzzer) from the valid seeds and from an empty corpus, per reader. non-trivial ('deep') = the reader accepted the "
                        "input and returned an object (>200 bytes of input for neutral files, >=2x2 table for CSV, >1 node for grids), which is then used, "
                        "saved and reloaded; counted by the target itself per execution"),
                  samples=samples[:10], per_target=per_target, excluded_known=excluded, replayed=replayed,
                  known_findings_reported=[f["id"] for f in known_hits], exhaustive=False,
                  enumeration=dict(prefix_stride=stride, token_mutation_cap_per_seed=mutcap)),
              assumptions=["memory limits: rss 2048 MB, single malloc 1024 MB, 10 s per input",
                           "leak detection off; alloc-dealloc-mismatch (csparse glue) off",
                           "inputs up to 4096 bytes in the fuzz tier"],
              wall_s=round(wall, 1), violations=len(violations))
    os.makedirs(os.path.join(VERIF, "evidence"), exist_ok=True)
    json.dump(ev, open(os.path.join(VERIF, "evidence", "C09.json"), "w"), indent=1)
    log("[C09] tier=%s seed=%d execs=%d loaded=%d deep=%d roundtrips=%d prefixes=%d excluded_known=%d wall=%.0fs" %
        (tier, seed, tot["execs"], tot["loaded"], tot["deep"], tot["roundtrips"], tot["prefix_inputs"], excluded, wall))
    done = set()
    for path, target, sig in violations:
        if (target, sig) in done:
            continue
        done.add((target, sig))
        log("  failure target=%s signature=%s" % (target, sig))
        log("VIOLATION property=C09 replay=%s" % path)
    return 1 if violations else 0


def replay_cmd(path):
    """python3 check.py C09 --replay <file>: the target is the part of the file name before the first dot
    (nf_Db.<hash>), or FZ_TARGET from the environment"""
    sys.path.insert(0, VERIF)
    import check as drv
    if not ALT:
        drv.build(["fz_loaders"])
    base = os.path.basename(path).split(".")[0]
    target = os.environ.get("FZ_TARGET") or base.replace("nf_", "nf:")
    sig, out = replay(target, path, "manual")
    log(out[-2500:])
    if sig is None:
        log("replay: pass")
        return 0
    log("replay: %s" % sig)
    log("VIOLATION property=C09 replay=%s" % path)
    return 1
