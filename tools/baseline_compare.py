#!/usr/bin/env python3
"""Compare a ctest log (stdin or file) with the stable_pass list of /root/.vp/BASELINE.json."""
import json, re, sys
log = open(sys.argv[1]).read() if len(sys.argv) > 1 else sys.stdin.read()
passed = set(re.findall(r"Test\s+#\d+:\s+(\S+)\s+\.+\s+Passed", log))
failed = set(re.findall(r"Test\s+#\d+:\s+(\S+)\s+\.+\s*\*\*\*(?:Failed|Exception|Timeout)", log))
stable = [s.split("::")[0] for s in json.load(open("/root/.vp/BASELINE.json"))["stable_pass"]]
missing = [s for s in stable if s not in passed]
print("stable baseline tests: %d, passed now: %d, not passed: %s" % (len(stable), len(stable) - len(missing), missing))
print("failed (any): %s" % sorted(failed))
sys.exit(1 if missing else 0)
