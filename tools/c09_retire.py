#!/usr/bin/env python3
"""c09_retire.py <commit> [<commit-for-target>=<target> ...]: stored C09 findings whose input no longer fails (replayed twice) become
'fixed:' entries; their inputs move to corpus/C09/<target>/ (regression inputs that must pass)."""
import json, os, shutil, sys
sys.path.insert(0, "/verif")
import c09, check as drv
drv.build(["fz_loaders"])
default = sys.argv[1]
per = dict(a.split("=")[::-1] for a in sys.argv[2:])
k = json.load(open("/verif/known_findings.json"))
keep, n = [], 0
for f in k["findings"]:
    if f["property"] != "C09":
        keep.append(f); continue
    path = os.path.join("/verif", f["replay"])
    if any(c09.replay(f["target"], path, "ret%d" % i)[0] is not None for i in range(2)):
        keep.append(f); continue
    d = os.path.join("/verif/corpus/C09", c09.tdir(f["target"]))
    os.makedirs(d, exist_ok=True)
    shutil.move(path, os.path.join(d, os.path.basename(path)))
    k["fixed"].append("fixed: property=C09 %s reader %s: %s (input kept in corpus/C09)" % (per.get(f["target"], default), f["target"], f["keys"][0]))
    n += 1
k["findings"] = keep
json.dump(k, open("/verif/known_findings.json", "w"), indent=1)
print("retired", n, "remaining C09 findings", len([f for f in keep if f["property"] == "C09"]))
