#!/bin/bash
# Compile + link one harness directly against the already built sanitised library
# (safe to run concurrently; check.py itself uses ninja).  usage: tools/build_one.sh c11_matrix
set -e
N=$1
B=/verif/_build
mkdir -p $B/bin
FLAGS="-include /verif/harness/common/eigen_assert_throw.hpp -std=gnu++20 -O1 -g1 -fno-omit-frame-pointer -fsanitize=fuzzer-no-link,address,undefined -fno-sanitize-recover=undefined -fopenmp -w -DOPENMP -DGSTLEARN_STATIC_DEFINE -DGSTLEARN_VERIF"
INC="-I/repo/include -I/verif/cmake/gen -I/usr/include/eigen3 -I/verif/harness/common -I/repo/3rd-party/csparse -I/repo/3rd-party/gmtsph"
if [[ $N == fz_* ]]; then
  clang++-14 $FLAGS $INC /verif/harness/$N.cpp -o $B/bin/$N -fsanitize=fuzzer,address,undefined -fopenmp $B/libgstlearn.a $B/libcsparse.a $B/libgmtsph.a -lnlopt
else
  clang++-14 $FLAGS $INC /verif/harness/$N.cpp -o $B/bin/$N -fsanitize=address,undefined -fopenmp $B/libgstlearn.a $B/libcsparse.a $B/libgmtsph.a -lnlopt -lrapidcheck
fi
