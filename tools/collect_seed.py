#!/usr/bin/env python3
"""collect_seed.py <seed-id> <property> <worktree> "<mechanism>" "<needs>" "<detected by>"  -> /verif/seeded/<seed-id>/"""
import json, os, shutil, sys, re
sid, prop, wt, mech, needs, det = sys.argv[1:7]
d = os.path.join("/verif/seeded", sid)
os.makedirs(d, exist_ok=True)
for f in ("patch.diff", "demo.cpp", "build.sh", "meta.txt"):
    shutil.copy(os.path.join(wt, "demo", f), os.path.join(d, f if f != "meta.txt" else "author_notes.txt"))
log = open("/tmp/seed/%s.verify.log" % os.path.basename(wt)).read() if os.path.exists("/tmp/seed/%s.verify.log" % os.path.basename(wt)) else ""
def grab(h):
    m = re.search(re.escape(h) + r"\n(.*?)(?=\n== |\Z)", log, re.S)
    return m.group(1).strip().splitlines()[-3:] if m else []
meta = dict(seed_id=sid, property=prop, mechanism=mech, needs_to_manifest=needs,
            confirmed_by_main=dict(
                demo_with_change=grab("== demo on patched build"),
                demo_without_change=grab("== revert patch, rebuild, demo on pristine"),
                repository_suite_with_change=grab("== ctest on patched build"),
                how=("scratch worktree of /repo outside /repo and /verif: built with the change, demo/build.sh + demo run (exit 1 = FAIL), "
                     "ctest -j6 --timeout 2400 compared with BASELINE.json stable_pass (tools/baseline_compare.py), change reverted (git apply -R), "
                     "rebuilt, demo run again (exit 0 = PASS); worktree removed afterwards")),
            detection=det)
json.dump(meta, open(os.path.join(d, "meta.json"), "w"), indent=1)
print("collected", d)
