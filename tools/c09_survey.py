#!/usr/bin/env python3
"""development aid: fuzz every reader for N seconds from the API seeds and print the crash signature"""
import sys, os, glob, shutil, re
sys.path.insert(0,'/verif')
import c09
from concurrent.futures import ThreadPoolExecutor
secs = int(sys.argv[1]) if len(sys.argv) > 1 else 15
only = sys.argv[2].split(",") if len(sys.argv) > 2 else c09.TARGETS
def one(t):
    d=os.path.join(c09.BUILD,'work','c09survey',c09.tdir(t))
    shutil.rmtree(d,ignore_errors=True); os.makedirs(d+'/corpus'); os.makedirs(d+'/art')
    for f in glob.glob('/verif/_build/work/c09seed/%s/*'%t): shutil.copy(f,d+'/corpus/')
    rc,out=c09.run([c09.FZ,d+'/corpus','-max_total_time=%d'%secs,'-artifact_prefix='+d+'/art/']+c09.LIMITS,env={'FZ_TARGET':t},timeout=secs+200)
    ex=re.search(r'stat::number_of_executed_units: (\d+)',out)
    return t, rc, c09.signature(out), ex.group(1) if ex else '?'
with ThreadPoolExecutor(16) as ex:
    for t,rc,sig,n in ex.map(one,only): print(t,rc,n,sig)
