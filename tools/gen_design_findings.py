#!/usr/bin/env python3
"""Regenerates the auto-generated part of DESIGN.md (section 10.3: repaired defects and recorded findings) from known_findings.json."""
import json, re, os
V = os.path.dirname(os.path.dirname(os.path.abspath(__file__)))
k = json.load(open(os.path.join(V, "known_findings.json")))
out = ["<!-- BEGIN AUTO FINDINGS (tools/gen_design_findings.py) -->",
       "### 10.3 Genuine defects of /repo: repaired (`fix:` commits) and recorded (known findings)",
       "",
       "Every entry below was produced by a check failing on the tree, triaged against the code (root cause known), and either repaired by one small",
       "unguarded `fix:` commit (the shrunk failing case is now a regression file under `corpus/<id>/` and must pass) or recorded in",
       "`known_findings.json` with the failure key(s) that identify it and a replay file under `findings/<id>/` (the check prints `KNOWN-FINDING:` and",
       "continues behind it; any other key is a violation). The repository's own suite passes with all repairs (113/113 stable tests).",
       "",
       "**Repaired** (%d commits):" % len(k["fixed"]), ""]
byp = {}
for f in k["fixed"]:
    m = re.match(r"fixed: property=(\S+) (\S+) (.*)", f)
    byp.setdefault(m.group(1), []).append((m.group(2), m.group(3)))
for p in sorted(byp):
    out.append("* **%s**" % p)
    for h, w in byp[p]:
        out.append("  * `%s` %s" % (h, w))
out += ["", "**Recorded as known findings** (not repaired: not small, a design decision, or a behaviour change users would see):", ""]
c09 = [f for f in k["findings"] if f["property"] == "C09"]
for f in k["findings"]:
    if f["property"] == "C09":
        continue
    out.append("* **%s** `%s` — %s (keys: %s)" % (f["property"], f["id"], f["what"], ", ".join("`%s`" % x for x in f["keys"])))
out.append("* **C09** %d crash signatures of the file readers (sanitizer kind + first frame inside /repo, or oracle message), one replay input each under `findings/C09/`; by reader: %s" %
           (len(c09), ", ".join("%s %d" % (t, len([f for f in c09 if f["target"] == t])) for t in sorted(set(f["target"] for f in c09)))))
out.append("<!-- END AUTO FINDINGS -->")
p = os.path.join(V, "DESIGN.md")
s = open(p).read()
block = "\n".join(out)
if "<!-- BEGIN AUTO FINDINGS" in s:
    s = re.sub(r"<!-- BEGIN AUTO FINDINGS.*?<!-- END AUTO FINDINGS -->", lambda m: block, s, flags=re.S)
else:
    s = s.rstrip() + "\n\n" + block + "\n"
# ---- seeded changes
import glob
rows = []
for mf in sorted(glob.glob(os.path.join(V, "seeded", "*", "meta.json"))):
    m = json.load(open(mf))
    rows.append("| `%s` | %s | %s | %s | %s |" % (m["seed_id"], m["property"], m["mechanism"].replace("|", "/"), m["needs_to_manifest"].replace("|", "/"), m["detection"].replace("|", "/")))
blk = ["<!-- BEGIN AUTO SEEDED -->", "### 10.5 Seeded changes (independent sub-agents, property text only) and which checks catch them", "",
       "Each change was written by a fresh sub-agent that saw only the property text and its own scratch worktree, compiles, passes the repository's suite",
       "(confirmed by the main session in a scratch worktree: demo fails with / passes without the change, stable tests pass) and is kept under `seeded/<id>/`",
       "(patch.diff, demo.cpp, build.sh, author_notes.txt, meta.json). Detection was measured with `tools/mutant_test.sh` (same binaries and budgets as the quick tier).", "",
       "| seed | property | mechanism | needs | caught by |", "|---|---|---|---|---|"] + rows + ["<!-- END AUTO SEEDED -->"]
blk = "\n".join(blk)
if "<!-- BEGIN AUTO SEEDED" in s:
    s = re.sub(r"<!-- BEGIN AUTO SEEDED.*?<!-- END AUTO SEEDED -->", lambda m: blk, s, flags=re.S)
else:
    s = s.rstrip() + "\n\n" + blk + "\n"
open(p, "w").write(s)
print("DESIGN.md: %d fixed, %d findings" % (len(k["fixed"]), len(k["findings"])))
