#!/bin/bash
# Sensitivity test of a check against a source change, without touching /repo or /verif/_build.
#   tools/mutant_test.sh <patch.diff> <harness> <sub> [cases] [seed]
# The patch (git diff format, paths relative to /repo, .cpp files under src/ only) is applied to a
# scratch copy of the touched files; those files are recompiled with the verification flags, a copy of
# libgstlearn.a gets the new objects, the harness is linked against it and the sub-property is run.
# Prints MUTANT-KILLED (check failed = good) or MUTANT-SURVIVED. Everything is removed afterwards.
set -e
PATCH=$(readlink -f "$1"); H=$2; SUB=$3; CASES=${4:-3000}; SEED=${5:-1}
T=$(mktemp -d /tmp/mut.XXXXXX)
trap 'rm -rf "$T"' EXIT
B=/verif/_build
FLAGS="-include /verif/harness/common/eigen_assert_throw.hpp -std=gnu++20 -O1 -g1 -fno-omit-frame-pointer -fsanitize=fuzzer-no-link,address,undefined -fno-sanitize-recover=undefined -fopenmp -w -DOPENMP -DGSTLEARN_STATIC_DEFINE -DGSTLEARN_VERIF"
INC="-I/repo/include -I/verif/cmake/gen -I/usr/include/eigen3 -I/verif/harness/common -I/repo/3rd-party/csparse -I/repo/3rd-party/gmtsph"
FILES=$(grep '^+++ b/' "$PATCH" | sed 's|^+++ b/||')
for f in $FILES; do
  case "$f" in src/*.cpp) ;; *) echo "mutant_test: only src/**/*.cpp can be patched ($f)"; exit 3;; esac
  mkdir -p "$T/$(dirname $f)"; cp "/repo/$f" "$T/$f"
done
(cd "$T" && patch -p1 -s < "$PATCH")
cp $B/libgstlearn.a "$T/libgstlearn.a"
for f in $FILES; do
  o="$T/$(basename $f).o"
  clang++-14 $FLAGS $INC -c "$T/$f" -o "$o"
  ar r "$T/libgstlearn.a" "$o" 2>/dev/null
done
if [[ $H == fz_* ]]; then L="-fsanitize=fuzzer,address,undefined"; R=""; else L="-fsanitize=address,undefined"; R="-lrapidcheck"; fi
clang++-14 $FLAGS $INC /verif/harness/$H.cpp -o "$T/$H" $L -fopenmp "$T/libgstlearn.a" $B/libcsparse.a $B/libgmtsph.a -lnlopt $R
set +e
if [ -n "$KEEP_BIN" ]; then cp "$T/$H" "$KEEP_BIN"; echo "binary kept: $KEEP_BIN"; exit 0; fi
EXCL=$(python3 - <<PY
import json
k=json.load(open('/verif/known_findings.json'))
print(",".join(sorted(set(x for f in k.get('findings',[]) for x in f['keys'] if f['property'] != 'C09'))))
PY
)
# extra exclusion keys (comma separated) can be given in the environment: EXTRA_EXCL=k1,k2
if [ -n "$EXTRA_EXCL" ]; then EXCL="${EXCL:+$EXCL,}$EXTRA_EXCL"; fi
RC_PARAMS="seed=$SEED max_success=$CASES max_size=${MAXSIZE:-100} $RC_EXTRA" OMP_NUM_THREADS=1 timeout 900 "$T/$H" --sub "$SUB" --out "$T/out" ${EXCL:+--exclude "$EXCL"} > "$T/log" 2>&1
rc=$?
if [ $rc -eq 0 ]; then echo "MUTANT-SURVIVED ($CASES cases, sub $SUB)"; else
  echo "MUTANT-KILLED rc=$rc"; grep -a -E "^key |^msg " "$T/out.fail" 2>/dev/null | cut -c1-300; grep -a -E "SUMMARY|runtime error" "$T/log" | head -3 | cut -c1-300; fi
