#!/bin/bash
# Rebuild the repository in its own (baseline) configuration - guard GSTLEARN_VERIF off - and run
# its test-suite as BASELINE.json does; then compare with the stable_pass list.
if [ ! -f /repo/_build/build.ninja ]; then
  cmake -G Ninja -S /repo -B /repo/_build -DCMAKE_BUILD_TYPE=RelWithDebInfo -DBUILD_TESTING=ON -DCMAKE_CXX_FLAGS=-Wno-error || exit 2
fi
cmake --build /repo/_build || exit 2
LOG=$(mktemp /tmp/baseline.XXXXXX.log)
ctest --test-dir /repo/_build -j8 --timeout 900 "$@" > "$LOG" 2>&1
tail -5 "$LOG"
python3 "$(dirname "$0")/baseline_compare.py" "$LOG"; rc=$?
rm -f "$LOG"
exit $rc
