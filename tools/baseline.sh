#!/bin/bash
# Rebuild the repository in its own (baseline) configuration - guard GSTLEARN_VERIF off - and run
# its test-suite exactly as BASELINE.json does.
set -e
if [ ! -f /repo/_build/build.ninja ]; then
  cmake -G Ninja -S /repo -B /repo/_build -DCMAKE_BUILD_TYPE=RelWithDebInfo -DBUILD_TESTING=ON -DCMAKE_CXX_FLAGS=-Wno-error
fi
cmake --build /repo/_build
ctest --test-dir /repo/_build -j8 --timeout 900 "$@"
