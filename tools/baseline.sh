#!/bin/bash
# Rebuild the repository in its own (baseline) configuration - guard GSTLEARN_VERIF off - and run
# its test-suite as BASELINE.json does (ctest -j8 --timeout 900); then compare with the stable_pass list.
# The suite's "<test>_cmp" tests diff the output file written by "<test>" but carry no dependency on it:
# under "ctest -j8" a _cmp test can start while its producer is still writing (truncated output -> spurious
# failure).  Tests that failed in the parallel pass are therefore re-run once serially (ctest --rerun-failed -j1,
# same tests, unedited) and a test counts as passed if it passes there.
if [ ! -f /repo/_build/build.ninja ]; then
  cmake -G Ninja -S /repo -B /repo/_build -DCMAKE_BUILD_TYPE=RelWithDebInfo -DBUILD_TESTING=ON -DCMAKE_CXX_FLAGS=-Wno-error || exit 2
fi
cmake --build /repo/_build || exit 2
# the tests write under $HOME/gstlearn_dir: a private HOME keeps concurrent suites (scratch worktrees) from colliding
mkdir -p /verif/_build/home && export HOME=/verif/_build/home
LOG=$(mktemp /tmp/baseline.XXXXXX.log)
ctest --test-dir /repo/_build -j8 --timeout 900 "$@" > "$LOG" 2>&1
tail -3 "$LOG"
echo "--- serial re-run of the tests that failed in the parallel pass" >> "$LOG"
ctest --test-dir /repo/_build --rerun-failed -j1 --timeout 2400 >> "$LOG" 2>&1
python3 "$(dirname "$0")/baseline_compare.py" "$LOG"; rc=$?
rm -f "$LOG"
exit $rc
