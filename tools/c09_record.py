#!/usr/bin/env python3
"""Development aid (never run by a check): turn the VIOLATION list of a C09 run on the unchanged tree into
known_findings.json entries + committed replay inputs, after manual triage of the signatures.
usage: c09_record.py <check log>"""
import json, os, re, shutil, sys
log = open(sys.argv[1]).read()
k = json.load(open('/verif/known_findings.json'))
have = {(f.get('target'), key) for f in k['findings'] if f['property'] == 'C09' for key in f['keys']}
os.makedirs('/verif/findings/C09', exist_ok=True)
n = 0
for m in re.finditer(r"failure target=(\S+) signature=(.*)\nVIOLATION property=C09 replay=(\S+)", log):
    target, sig, path = m.group(1), m.group(2).strip(), m.group(3)
    if (target, sig) in have:
        continue
    tdir = target.replace(':', '_')
    used = {f['id'] for f in k['findings']}
    idx = 1
    while ("C09-%s-%02d" % (tdir, idx)) in used or os.path.exists("/verif/findings/C09/%s.%02d" % (tdir, idx)) \
            or os.path.exists("/verif/corpus/C09/%s/%s.%02d" % (tdir, tdir, idx)):
        idx += 1
    fid = "C09-%s-%02d" % (tdir, idx)
    dst = "findings/C09/%s.%02d" % (tdir, idx)
    shutil.copy(path, os.path.join('/verif', dst))
    k['findings'].append(dict(id=fid, property="C09", target=target, keys=[sig], replay=dst,
                              what="reader %s: %s" % (target, sig)))
    have.add((target, sig))
    n += 1
json.dump(k, open('/verif/known_findings.json', 'w'), indent=1)
print("recorded %d new C09 findings" % n)
