#!/usr/bin/env python3
"""Writes MANIFEST.json from props.py + the per-property texts below (keeps it valid at all times)."""
import json, os, sys
sys.path.insert(0, os.path.dirname(os.path.dirname(os.path.abspath(__file__))))
from props import PROPS
from manifest_texts import TEXTS, NOT_APPLICABLE, HOOK_COMMITS

checks = []
for pid in sorted(p for p in PROPS if p in TEXTS):
    t = TEXTS[pid]
    checks.append(dict(
        property_id=pid,
        quick_cmd="python3 check.py %s --tier quick" % pid,
        thorough_cmd="python3 check.py %s --tier thorough" % pid,
        evidence_file="/verif/evidence/%s.json" % pid,
        replay_cmd_template="python3 check.py %s --replay {path}" % pid,
        engine=t.get("engine", "rapidcheck"),
        level_claimed=dict(category=PROPS[pid]["level"], text=t["level_text"], design_ref=t["design_ref"]),
        level_note=t["level_note"],
        technique=t["technique"]))
m = dict(
    version=1,
    setup_cmd="python3 check.py --setup",
    hooks=dict(guard="GSTLEARN_VERIF",
               enable="cmake/CMakeLists.txt compiles /repo/src with -DGSTLEARN_VERIF (sanitised static library in /verif/_build)",
               baseline_off_cmd="bash tools/baseline.sh",
               source_commits=HOOK_COMMITS, add_only=True),
    engines=[dict(name="rapidcheck", path="/verif/harness", serves_properties=sorted(p for p in TEXTS if TEXTS[p].get("engine", "rapidcheck") == "rapidcheck"),
                  kind_free_text="rapidcheck generators + explicit oracles, one executable per property, driven by check.py"),
             dict(name="libFuzzer", path="/verif/harness/fz_*.cpp", serves_properties=sorted(p for p in TEXTS if "libFuzzer" in TEXTS[p].get("engine", "")),
                  kind_free_text="coverage-guided fuzzing of the readers with ASan/UBSan and in-target semantic oracle")],
    checks=checks,
    notes="All checks rebuild /repo's working tree incrementally (ninja) before running. See DESIGN.md.",
    not_applicable=[dict(property_id=k, reason=v) for k, v in sorted(NOT_APPLICABLE.items()) if k not in TEXTS])
json.dump(m, open(os.path.join(os.path.dirname(os.path.dirname(os.path.abspath(__file__))), "MANIFEST.json"), "w"), indent=1)
print("MANIFEST.json: %d checks, %d not_applicable" % (len(checks), len(m["not_applicable"])))
