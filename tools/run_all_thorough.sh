#!/bin/bash
# runs the thorough tier of the given checks (default: all), two at a time; one line per check in $OUT/summary.log (scratch output)
OUT=/verif/_build/allthorough; mkdir -p $OUT; touch $OUT/summary.log
cd /verif
run() { id=$1; s=$(date +%s); python3 check.py $id --tier thorough > $OUT/$id.log 2>&1; rc=$?; e=$(date +%s); echo "$id rc=$rc $((e-s))s viol=$(grep -c '^VIOLATION' $OUT/$id.log) known=$(grep -c '^KNOWN-FINDING' $OUT/$id.log)" >> $OUT/summary.log; }
ids=${@:-$(python3 -c "import json;print(' '.join(c['property_id'] for c in json.load(open('MANIFEST.json'))['checks']))")}
n=0
for id in $ids; do run $id & n=$((n+1)); if [ $((n%2)) -eq 0 ]; then wait; fi; done; wait
sort $OUT/summary.log
