#!/bin/bash
# runs every registered quick check, three at a time; one line per check in $OUT/summary.log (scratch output, not part of any registered command)
OUT=${1:-/verif/_build/allquick}; mkdir -p $OUT; : > $OUT/summary.log
cd /verif
run() { id=$1; s=$(date +%s); python3 check.py $id --tier quick > $OUT/$id.log 2>&1; rc=$?; e=$(date +%s); echo "$id rc=$rc $((e-s))s viol=$(grep -c '^VIOLATION' $OUT/$id.log) known=$(grep -c '^KNOWN-FINDING' $OUT/$id.log)" >> $OUT/summary.log; }
ids=$(python3 -c "import json;print(' '.join(c['property_id'] for c in json.load(open('MANIFEST.json'))['checks']))")
n=0
for id in $ids; do run $id & n=$((n+1)); if [ $((n%3)) -eq 0 ]; then wait; fi; done; wait
sort $OUT/summary.log
