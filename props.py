"""Per-property configuration of the checks (sub-properties, case budgets per tier)."""


def sub(name, binary, q, t, qsize=100, tsize=100, qw=2, tw=4):
    return dict(name=name, binary=binary, quick=dict(cases=q, size=qsize, workers=qw),
                thorough=dict(cases=t, size=tsize, workers=tw))


PROPS = {
    "C11": dict(
        level="exploration",
        rule=("rapidcheck-generated matrices (shapes 1..8, incl. 1xN/Nx1, dyadic values, random sparsity) driven through "
              "generated operation sequences / products / solves and compared element-wise with naive long-double loops; "
              "non-trivial = non-square shape, a transposition, sparse storage, a write through the symmetric alias, a "
              "product with a transposition flag or n>=2 for solves; distinct = hash of (storage, shape, operation codes/flags)"),
        assumptions=["getDiagonal(shift<0): either secondary diagonal at that distance is accepted (side undocumented)",
                     "sparse element writes address stored entries only (documented limitation of the cs back-end)",
                     "addScalar on sparse storage is not asserted on structural zeros",
                     "alloc-dealloc-mismatch reports of ASan are disabled (malloc/delete pairs of the csparse glue)"],
        subs=[
            sub("dense_seq", "c11_matrix", 12000, 600000),
            sub("sparse_seq", "c11_matrix", 8000, 400000),
            sub("matprod", "c11_matrix", 12000, 600000),
            sub("solve", "c11_matrix", 4000, 150000),
            sub("threads", "c11_matrix", 300, 6000, qw=1, tw=2),
            sub("vecops", "c11_matrix", 8000, 300000),
        ]),
}
