"""Per-property configuration of the checks (sub-properties, case budgets per tier)."""


def sub(name, binary, q, t, qsize=100, tsize=100, qw=2, tw=4):
    return dict(name=name, binary=binary, quick=dict(cases=q, size=qsize, workers=qw),
                thorough=dict(cases=t, size=tsize, workers=tw))


PROPS = {
    "C09": dict(custom="c09", level="fault_enumeration"),
    "C11": dict(
        level="exploration",
        rule=("rapidcheck-generated matrices (shapes 1..8, incl. 1xN/Nx1, dyadic values, random sparsity) driven through "
              "generated operation sequences / products / solves and compared element-wise with naive long-double loops; "
              "non-trivial = non-square shape, a transposition, sparse storage, a write through the symmetric alias, a "
              "product with a transposition flag or n>=2 for solves; distinct = hash of (storage, shape, operation codes/flags)"),
        assumptions=["getDiagonal(shift<0): either secondary diagonal at that distance is accepted (side undocumented)",
                     "sparse element writes address stored entries only (documented limitation of the cs back-end)",
                     "addScalar on sparse storage is not asserted on structural zeros",
                     "alloc-dealloc-mismatch reports of ASan are disabled (malloc/delete pairs of the csparse glue)"],
        subs=[
            sub("dense_seq", "c11_matrix", 12000, 600000),
            sub("sparse_seq", "c11_matrix", 8000, 400000),
            sub("matprod", "c11_matrix", 12000, 600000),
            sub("solve", "c11_matrix", 4000, 150000),
            sub("threads", "c11_matrix", 300, 6000, qw=1, tw=2),
            sub("vecops", "c11_matrix", 8000, 300000),
            sub("subsample", "c11_matrix", 8000, 300000),
        ]),
    "C16": dict(
        level="exploration",
        rule=("rapidcheck-generated regular grids (1-3D, nx 1-12, dx 1e-2..1e2, origins up to 1e4, any rotation, built 4 ways); every node "
              "and generated probe points (cell + offset with a 1e-4-cell margin, also outside the grid) are converted through every "
              "rank/indices/coordinates API and compared with the harness's own long-double geometry; derived grids (multiple, divider, "
              "dilate, coarse, refine, sub-grid, extend, shrink) are located against the parent; non-trivial = >=2 dimensions, an angle "
              "that is not a multiple of 90 degrees and unequal meshes (plus unequal factors for derived grids, an inside query point "
              "for point_cell/migrate); distinct = hash of (ndim, nx, quantised dx/x0/angles, kind, flags, factors)"),
        assumptions=["rotation: right-handed, 2-D counter-clockwise, degrees, order Oz, Oy', Ox''",
                     "first index varies fastest",
                     "centered=false: cell of node i is [i,i+1)*dx; centered=true: [i-1/2,i+1/2)*dx",
                     "points closer than 1e-4 cell to a cell face are not generated (the property excludes boundaries)",
                     "migrate(grid->points) assigns the corner cell [i,i+1) (code convention; the comment says 'closest node')",
                     "createFromGridShrink/Extend asserted only where their documentation defines the result"],
        subs=[
            sub("rank_indices", "c16_grid", 4000, 60000),
            sub("idx_coord", "c16_grid", 4000, 60000),
            sub("rank_coord", "c16_grid", 4000, 60000),
            sub("point_cell", "c16_grid", 6000, 90000),
            sub("dbgrid_coord", "c16_grid", 3000, 40000),
            sub("derived", "c16_grid", 8000, 120000),
            sub("migrate_g2p", "c16_grid", 4000, 60000),
        ]),
    "C06": dict(
        level="exploration",
        rule=("rapidcheck-generated point sets (1-3D, n<=80, lattice+jitter with distinct locations, clustered 30%), targets, radius, anisotropy "
              "coefficients and rotation, nmini/nmaxi/nsect/nsmax, selections, NA values, cross-validation and k-fold modes, Date/Code/Bench/Faults "
              "checkers, ball search on/off; NeighMoving::select, krigtest().nbgh and test_neigh() are compared as sets/values with an executable "
              "brute-force definition in the harness (ties and boundaries removed by construction with >=1e-6 relative margins); ball-tree k-NN "
              "(d<=5, n<=500, leaf 1-40, k<=n) vs sorted brute force; non-trivial = a sector quota or nmaxi removes a qualifying sample, or a "
              "checker / the cross-validation exclusion removes a sample inside the search ellipsoid (k<n for k-NN); distinct = hash of "
              "(ndim, n, modes, nsect, nsmax, nmaxi, nmini, ball flag, checkers, quantised coefficients/angles, set sizes)"),
        assumptions=["sector of a sample = floor(nsect*theta/2pi) of the normalised rotated increment target-sample (orientation read from the code; the claim tested is the quota logic)",
                     "cross-validation excludes samples closer than 1e-9 to the target; k-fold excludes samples with the target's code",
                     "ties and samples on the radius / sector limits are removed by construction",
                     "ball search compared only where the nmaxi-nearest restriction provably cannot change the defined set (the property's precondition)",
                     "the default space dimension is set to the data dimension before objects are created"],
        subs=[
            sub("neigh_select", "c06_neigh", 12000, 400000),
            sub("neigh_api", "c06_neigh", 2500, 60000),
            sub("ball_knn", "c06_neigh", 3000, 100000),
        ]),
    "C20": dict(
        level="exploration",
        rule=("rapidcheck-generated simple polygons on an integer lattice (polyomino outlines with collinear vertices, star-shaped lattice polygons, "
              "convex hulls; both orientations, closed/open, any start vertex, 3-400 vertices) scaled/translated by powers of two (exact in binary); "
              "query points forced level with vertices and horizontal edges and never on the boundary (exact integer on-segment test); truth = exact "
              "64-bit integer even-odd rule / cell membership; polygon sets with per-element z-limits (union and nested rules); db_polygon selection "
              "column vs per-sample truth; convex hull vs an exact hull; non-trivial = a query level with a vertex/horizontal edge, >=2 elements for "
              "sets, >=4 active samples with a query level with a hull vertex; distinct = hash of the case text"),
        assumptions=["z equal to a limit is not generated; NA z or 2-D points pass the vertical tests",
                     "open rings are closed by Polygons::inside; vertices are >= 2^-10 apart (the 1e-5 closing tolerance never bites)",
                     "with flag_sel masked samples get 0 and the new column becomes the only selection",
                     "hull dilation is only bracketed (selected below 0.9 r, not selected above r)",
                     "data for hulls contain >=3 non-aligned active samples"],
        subs=[
            sub("pip_single", "c20_polygon", 12000, 640000),
            sub("polygon_sets", "c20_polygon", 8000, 320000),
            sub("db_polygon_selection", "c20_polygon", 5000, 130000),
            sub("convex_hull", "c20_polygon", 8000, 320000),
        ]),
    "C12": dict(
        level="exploration",
        rule=("rapidcheck-generated Dbs (1-3D, n<=150, 1-3 variables, NA pattern, dyadic weights incl. 0/NA, selection) x VarioParam (1-4 directions with "
              "npas, dpas, toldis, codir, tolang, bench, cylinder, breaks) x calculation type (variogram, madogram, rodogram, order-4, covariance, "
              "non-centred covariance, covariogram, TRANS1/2, binormal); every lag's sw/hh/gg is compared with an O(n^2) loop over all pairs written in "
              "the harness (sw exact, hh/gg 1e-10), pair separations kept off class/angular/bench/cylinder limits by construction; metamorphic: sample "
              "permutation, exact translation, variable permutation, direction subset/reorder; grid algorithm vs pairwise oracle and vs general "
              "algorithm (incl. rotated grids); db_vcloud/db_vmap vs the same pair list; non-trivial = >=2 lag slots receive pairs and the case has "
              "several directions/variables, NA, a selection or an angular tolerance < 90 deg; distinct = hash of (ndim, n/8, nvar, calc, flags, "
              "per-direction npas, quantised tolang/toldis/dpas)"),
        assumptions=["lag k = round(d/dpas), accepted iff |d-k.dpas| <= toldis.dpas and k < npas; breaks: (b_k, b_k+1]",
                     "direction accepted iff |cos(angle to codir)| >= cos(tolang); bench on the last coordinate; cylinder on the distance orthogonal to codir",
                     "undefined weight = 1, pair weight = w1.w2; a lag without weight reports sw = 0 (hh/gg not examined)",
                     "covariances stored on 2.npas+1 slots; centring with the weighted means over samples where both variables are defined",
                     "vcloud ordinate = half squared difference; vmap counts ordered pairs",
                     "by-sample variograms and COVARIOGRAM on points: metamorphic relations only (no documented pairwise definition); POISSON/GENERAL1-3 not covered",
                     "db_vmap with FFT on a grid with a single-node axis is not generated (recorded crash finding)"],
        subs=[
            sub("vario_points", "c12_vario", 6000, 200000),
            sub("vario_meta", "c12_vario", 4000, 100000),
            sub("vario_grid", "c12_vario", 5000, 100000),
            sub("bysample_dirs", "c12_vario", 2000, 20000),
            sub("vcloud", "c12_vario", 6000, 100000),
            sub("vmap_points", "c12_vario", 6000, 100000),
            sub("vmap_grid", "c12_vario", 6000, 100000),
        ]),
    "C07": dict(
        level="exploration",
        rule=("model-based (stateful) testing with rapidcheck: histories of <=60 public editing operations (49 kinds: column/sample additions, deletions by "
              "name/uid/index/locator/range, renamings, value assignments, locator assignments incl. list variants, selections, clone/copy/assign, "
              "serialize->deserialize; ~12 % with stale uids, out-of-range indices, unknown names, wrong-size arrays) on a Db or DbGrid; a plain table "
              "model in the harness is compared after EVERY step: counts of columns/samples/uids/active samples, unique names, name<->index<->uid<->(role,rank) "
              "all address bit-identical values, ranks consecutive, no column in two roles, no role on a deleted uid, untouched cells unchanged, invalid "
              "operations without effect; non-trivial = an effective column deletion followed later by an operation addressed by index/uid/role; "
              "distinct = hash of the case text"),
        assumptions=["names are regular-expression patterns for the library: only names matching themselves alone are used",
                     "locatorIndex >= 0 replaces the holder of that rank, < 0 appends after the column has left its previous role; ranks beyond the count only in db_gaps (memory safety only)",
                     "unique locators (sel, w, code...) are kept to <= 1 column by construction",
                     "useSel=true only when the selection column is 0/1(/NA)-valued; NA masks the sample",
                     "name de-duplication is checked as a predicate (unique, requested name + version suffix), not one spelling",
                     "reloaded random columns are compared to 1e-13 relative (15 digits in the file)"],
        subs=[
            sub("db_seq", "c07_db", 3000, 150000),
            sub("grid_seq", "c07_db", 2000, 80000),
            sub("db_gaps", "c07_db", 1500, 50000),
            sub("db_hazard", "c07_db", 1000, 20000),
        ]),
    "C18": dict(
        level="exploration",
        rule=("rapidcheck-generated samples (n 5-2000: lognormal, gamma, bimodal, with ties, NA, weights, selections) and transforms fitted on them: "
              "AnamHermite (orders 2-60, through arrays, a Db or CalcAnamTransform, refits), AnamEmpirical (normal score, Gaussian and lognormal dilution), "
              "PCA / MAF (1-5 correlated variables), VH::normalScore, Rotation (1-3D), Hermite polynomials; oracle = inverse(forward(x)) = x inside the "
              "validity interval the transform reports, within a tolerance derived from the method (bisection stop rules, quantile approximation error, "
              "interpolation tables, conditioning), monotonicity at the method's resolution, factor moments, orthonormality by an 80-point Gauss-Hermite "
              "rule built in the harness; non-trivial = ties or NA present or order >= 20 (anamorphoses, normal score: or weights), nvar >= 3 or NA or a "
              "selection (PCA/MAF), an effective rotation in >= 2-D, order >= 20 or r < 1 or s > 0 (Hermite); distinct = hash of the case text"),
        assumptions=["Hermite convention H1 = -y, Hn = (-1)^n He_n / sqrt(n!) (as coded)",
                     "validity interval of AnamHermite = practical interval intersected with the absolute one, tested one 0.1 grid step inside",
                     "unit variance of factors with the n-1 normalisation the library uses",
                     "normal-score frequency = cumulated weight / (W(n+1)/n); order of ties by position is not asserted",
                     "rotation matrix storage convention (R or Rt) left open; fit quality of an anamorphosis is not part of the claim",
                     "constant data: the fit must refuse (no transform exists)"],
        subs=[
            sub("anamh", "c18_transforms", 3000, 100000),
            sub("anamh_degenerate", "c18_transforms", 300, 3000, qw=1, tw=1),
            sub("aname", "c18_transforms", 3000, 100000),
            sub("pca", "c18_transforms", 3000, 100000),
            sub("nscore", "c18_transforms", 3000, 100000),
            sub("rotation", "c18_transforms", 3000, 50000),
            sub("hermite", "c18_transforms", 3000, 50000),
        ]),
    "C03": dict(
        level="exploration",
        rule=("for every basic structure the library accepts in R^d (d<=3), rapidcheck-generated third parameter in (0,getParMax()], scales / anisotropy / "
              "rotation, PSD sill matrices (nvar<=3, incl. rank-deficient) and sums of up to 3 structures: Model::eval / evalIvarIpas equal the published "
              "closed form evaluated by the harness at the normalised distance measured along the rotated axes (own rotation code); C(h)=C(-h), "
              "|C(h)|<=C(0) for stationary structures, variogram mode = C(0)-C(h), compact structures vanish beyond their range along every rotated axis, "
              "ranges read back = ranges given and are practical (5 %) ranges where claimed; evalCovMatrixSymmetric on lattices (spacing/scale 0.05-3), "
              "clustered and random point sets (n*nvar<=96) is symmetric and PSD (lambda_min >= -1e-9 N lambda_max, eigenvalues computed in the harness), "
              "conditionally on increments filtering monomials of degree <= getMinOrder() for intrinsic structures; non-trivial = >=2 dimensions or "
              "anisotropic or >=2 variables or several structures; distinct = hash of (structure list, ndim, parameter bucket, layout class, spacing bucket)"),
        assumptions=["anisotropy convention of DESIGN section 3 (2-D angle counter-clockwise; 3-D rotations about z, new y, new x)",
                     "intrinsic structures are compared modulo an even polynomial of degree <= 2k in h (null on authorised increments)",
                     "REG1D and PENTA have no identifiable published form: their value oracle is a transcription of the library formula (validity decided by the psd sub)",
                     "range->scale conversions giving scales < 1e-9 or scadef > 1e6 are skipped (rejected by the library); GAMMA param < 0.05 exempt from the 5 % statement",
                     "conditional-PSD tolerance relative to ||K||_2 of the unprojected matrix",
                     "failure keys carry structure and dimension; results outside the literature validity domain get the suffix outside-math-domain (recorded findings), inside it the plain key (violation)"],
        subs=[
            sub("value", "c03_cov", 8000, 300000),
            sub("range", "c03_cov", 6000, 200000),
            sub("relations", "c03_cov", 5000, 150000),
            sub("psd", "c03_cov", 4000, 100000),
        ]),
    "C19": dict(
        level="fault_enumeration",
        rule=("31 calculators (kriging family, krigtest, xvalid, test_neigh, simtub/simbayes/simfft, migrate*, statistics on grid, regression, anamorphosis "
              "transforms, interpolators, image/grid-to-grid tools, PCA) x rapidcheck-generated valid small inputs x prior contents of dbin/dbout (extra columns, "
              "roles, selections, names colliding with the outputs) x failure mode: success, 26 natural invalid-argument modes, and injected faults: the "
              "un-faulted run counts the passages of every hook stage (after _check/_preprocess/_run/_postprocess, each _addVariableDb, each kriging target) "
              "and EVERY (stage,k) is then armed in turn on fresh copies (exhaustive per case). Oracle: full snapshots (class, nech, ncol, names, uid of each "
              "column, role of each column, every cell bit pattern, grid geometry, Model/Neigh serialisation) before/after: identical after a reported "
              "failure; after success dbin identical and dbout = old columns + exactly the documented new variables; after a failure the objects are reused "
              "and must answer as fresh ones. non-trivial = the calculator creates >=1 variable and (success) dbout holds extra/colliding columns, or (natural) "
              "the invalid argument is detected after a variable was created, or (inject) >=1 injected fault fired; distinct = hash of the case text"),
        assumptions=["output names follow NamingConvention (prefix.varname.qualifier.rank); a pre-existing name makes the new variable '<name>.1'",
                     "on success the locator type given to the outputs may be withdrawn from pre-existing columns of dbout (documented cleanSameLocator)",
                     "the size of the UID table is not part of the state; the UID of each live column is",
                     "krigtest documents no output variable: both Dbs identical after any krigtest call",
                     "a fault fired by a hook is a failure the call has to report",
                     "generator restrictions forced by defects outside C19: isotropic coefficients in NeighMoving, no NA/selection in dbin for kribayes/simbayes, simfft in 2-3 D only"],
        subs=[
            sub("success", "c19_atomic", 4000, 60000),
            sub("natural", "c19_atomic", 3000, 40000),
            sub("inject", "c19_atomic", 800, 30000, qw=4, tw=8),
        ]),
    "C08": dict(
        level="exploration",
        rule=("an instance of every class with a neutral-file representation (Db, DbGrid, DbLine, DbGraphO, DbMeshTurbo/Standard, Model, the five "
              "neighbourhoods, Vario, Polygons/PolyElem/PolyLine2D/Faults, the four anamorphoses, the three meshings, Table, Rule/RuleShift/RuleShadow, "
              "FracEnviron) is built through the public API from rapidcheck-generated parameters (values incl. NA, signed zeros, 1e-300..1e29, 15-digit "
              "decimals and full-precision doubles; optional blocks rotation/anisotropy/z-limits/drifts/masks on and off); its text is reloaded into a fresh "
              "object; every stored getter agrees to 1e-14 relative (NA stays NA), generated queries (covariances at lags, select() on a generated Db, "
              "variogram vectors, inside(), transforms, apices, facies) are answered identically, writing the reloaded object gives the same text, and the "
              "same through dumpToNF/createFromNF under four container/prefix settings; Zycor and IfpEn files are read back with the same geometry and values "
              "within the printed precision; non-trivial = the object has >=2 dimensions or components and a non-default optional block; distinct = hash of the case text"),
        assumptions=["getters 1e-14 relative; quantities recomputed from stored ones get the number of roundings involved (see agents/C08/REPORT.txt)",
                     "fields the format has no slot for are not asserted (cross-validation flag of a neighbourhood, Rule proportions, transient switches)",
                     "a query which the ORIGINAL object refuses is skipped, not failed",
                     "Vario variance matrices are generated symmetric (the text is written/read in transposed index order)",
                     "ranges of one Model stay within 3 decades"],
        subs=[
            sub("db", "c08_serialize", 1200, 40000, qw=1, tw=2),
            sub("dbgrid", "c08_serialize", 1200, 40000, qw=1, tw=2),
            sub("dbline", "c08_serialize", 1200, 40000, qw=1, tw=2),
            sub("dbgraph", "c08_serialize", 1200, 40000, qw=1, tw=2),
            sub("mesh", "c08_serialize", 1200, 40000, qw=1, tw=2),
            sub("dbmesh", "c08_serialize", 1200, 40000, qw=1, tw=2),
            sub("model", "c08_serialize", 1200, 40000, qw=1, tw=2),
            sub("neigh", "c08_serialize", 1200, 40000, qw=1, tw=2),
            sub("vario", "c08_serialize", 1200, 40000, qw=1, tw=2),
            sub("polygons", "c08_serialize", 1200, 40000, qw=1, tw=2),
            sub("table", "c08_serialize", 1200, 40000, qw=1, tw=2),
            sub("frac", "c08_serialize", 1200, 40000, qw=1, tw=2),
            sub("anam", "c08_serialize", 1200, 40000, qw=1, tw=2),
            sub("rule", "c08_serialize", 1200, 40000, qw=1, tw=2),
            sub("gridfmt", "c08_serialize", 1200, 40000, qw=1, tw=2),
        ]),
    "C01": dict(
        level="exploration",
        rule=("rapidcheck-generated kriging configurations: 1-3D data sets with distinct locations (n<=40), 1-3 variables, NA patterns (heterotopy), measurement-error "
              "variances, valid nested anisotropic rotated models (known means / order 0-2 drift / 1-2 external drifts / intrinsic structures), unique, bench or moving "
              "neighbourhood (sectors), point or block targets (unrotated and rotated grids), matLC, cross-validation; oracle: the system [Sigma X; Xt 0] is "
              "assembled in the harness from Model::eval (plain bi-point evaluation) and the harness's own drift functions over exactly the neighbourhood samples "
              "and solved in long double with full-pivot LU; estim, stdev^2, varz of kriging() and the residuals of krigtest().wgt/.zam (and lhs/rhs) must be within "
              "max(1e-10, kappa(1e3 eps + 10 eta)) of the natural scale; kappa > 1e10 is inconclusive; non-trivial = a target compared over >=2 neighbours with a "
              "drift, undefined values, several variables, a rotated anisotropy, a moving neighbourhood or a block; distinct = hash of (ndim, nvar, n-bucket, order, "
              "nfex, neighbourhood kind, sectors, target kind, heterotopy, V, selection, rotation, structure list)"),
        assumptions=["system layout read from the code and confirmed by probe: unknowns variable-major over the neighbourhood, undefined pairs removed, drift equations ib = ivar*nbfl + il",
                     "the library solves with an explicit inverse: even residuals are proportional to kappa (bound max(1e-9, eps.kappa)(|A||w|+|b|))",
                     "eta = eps.max|coordinate|/min(range): the library evaluates covariances from pre-projected coordinates, amplified by kappa like round-off",
                     "block sigma00 = mean covariance between the regular and the randomised discretisation as documented in KrigingSystem::_blockDiscretize (same uniforms redrawn)",
                     "singular systems are never reported by the library (NaN output): inconclusive here",
                     "models restricted to mathematically valid structures (no PENTA, BESSELJ small nu in 3-D, COSEXP small parameter in >=2-D: recorded under C03)"],
        subs=[
            sub("sk", "c01_kriging", 2000, 43000, qw=1, tw=2),
            sub("ok", "c01_kriging", 2000, 43000, qw=1, tw=2),
            sub("uk", "c01_kriging", 2000, 43000, qw=1, tw=2),
            sub("extdrift", "c01_kriging", 2000, 43000, qw=1, tw=2),
            sub("cokriging", "c01_kriging", 2000, 43000, qw=1, tw=2),
            sub("moving", "c01_kriging", 2000, 43000, qw=1, tw=2),
            sub("bench", "c01_kriging", 1500, 30000, qw=1, tw=2),
            sub("block", "c01_kriging", 1200, 24000, qw=1, tw=2),
            sub("block_rotated", "c01_kriging", 1200, 24000, qw=1, tw=2),
            sub("verr", "c01_kriging", 2000, 43000, qw=1, tw=2),
            sub("intrinsic", "c01_kriging", 2000, 43000, qw=1, tw=2),
            sub("krigtest_fields", "c01_kriging", 2000, 43000, qw=1, tw=2),
            sub("extdrift_undefined", "c01_kriging", 2000, 43000, qw=1, tw=2),
            sub("xvalid", "c01_kriging", 2000, 43000, qw=1, tw=2),
            sub("matlc", "c01_kriging", 2000, 43000, qw=1, tw=2),
        ]),
    "C02": dict(
        level="exploration",
        rule=("same generator as C01 with targets copied from data locations; metamorphic and exactness laws: estim = datum and stdev = 0 at a datum without measurement "
              "error (nugget included); stdev finite, >= 0 and stdev^2 <= a-priori variance for simple kriging; universality sum_a lambda_a f_l(x_a) = f_l(x0) from "
              "krigtest().wgt and the harness's drift functions; drift shift z' = z + sum c_l f_l => estim' = estim + sum c_l f_l(x0), stdev unchanged; linearity in the data and in the variables (kriging with matLC = the same combination of the plain cokriging estimates); "
              "sample permutation; translation of all coordinates; kappa-scaled tolerances, kappa > 1e10 inconclusive; non-trivial = >=1 target compared over >=2 "
              "neighbours and a coincident datum checked / c != 0 / permutation != identity / t != 0; distinct = hash as in C01 plus the transformation"),
        assumptions=["as C01; exactness only for variables defined at the datum, without positive measurement error, datum inside the neighbourhood, external drifts defined",
                     "no angular sectors when a target coincides with a datum (a coincident sample has no direction)",
                     "block targets: drift shift evaluated at the block centre for order <= 1"],
        subs=[
            sub("exact_at_data", "c02_kriging_laws", 3200, 64000, qw=2, tw=4),
            sub("stdev_bounds", "c02_kriging_laws", 3200, 64000, qw=2, tw=4),
            sub("universality", "c02_kriging_laws", 3200, 64000, qw=2, tw=4),
            sub("drift_shift", "c02_kriging_laws", 2400, 48000, qw=2, tw=4),
            sub("linearity", "c02_kriging_laws", 1600, 32000, qw=2, tw=4),
            sub("matlc_linear", "c02_kriging_laws", 1200, 24000, qw=1, tw=2),
            sub("permutation", "c02_kriging_laws", 2400, 48000, qw=2, tw=4),
            sub("translation", "c02_kriging_laws", 2400, 48000, qw=2, tw=4),
        ]),
    "C10": dict(
        level="exploration",
        rule=("rapidcheck-generated programs: a construction slice (small Db/DbGrid/Model/Neigh/VarioParam) + an observed call with generated arguments "
              "(evalCovMatrix{,Optim,Symmetric,SymmetricOptim}, kriging, xvalid, simtub(seed), Vario::compute, migrate, statistics, Db::createFromBox(seed), "
              "NeighMoving::select) + 1-6 generated noise calls executed before it (const calls on the same objects, calls on other objects, FAILING calls, "
              "global switches set and restored, RNG draws, object churn, a previous run of the same call with other arguments); fork oracle: child A runs "
              "construction + observed call only (fresh process), child B the whole program, results compared (integers exact, reals 1e-9); copies (ctor, "
              "operator=, clone) of 12 classes: mutate one side, destroy one side, other side unchanged and usable (forked child: use-after-free gets a keyed "
              "failure); VectorT/VectorNumT model-based test against one std::vector per handle incl. kept iterators; KrigingCalcul after set*/get* sequences "
              "and Model after addCov/delCov sequences vs freshly built objects; non-trivial = the noise contains a failing call or a call on an object shared "
              "with the observed call (copies: a mutation was applied; vectort: a copy shares storage when an operation is applied); distinct = hash of the case text"),
        assumptions=["outputs of noise calls go to clones of the output Db (adding columns is their documented effect, not history)",
                     "NeighMoving is always given anisotropy coefficients",
                     "an exception crossing a noise call makes the case inconclusive; a child killed by its 120 s alarm is inconclusive",
                     "KrigingCalcul getters are compared only when the inputs their formulas dereference are present",
                     "index lists returned by select() are compared in the order returned"],
        subs=[
            sub("history", "c10_history", 700, 40000, qw=4, tw=8),
            sub("copies", "c10_history", 500, 20000, qw=2, tw=4),
            sub("vectort", "c10_history", 5000, 200000),
            sub("krigcalc", "c10_history", 3000, 100000),
            sub("modelinc", "c10_history", 1500, 40000),
            sub("target_order", "c10_history", 2500, 80000),
        ]),
    "C13": dict(
        level="exploration",
        rule=("rapidcheck-generated small simulations (<=400 targets, nbsimu 1-4, nbtuba 1-200, valid models, seeds in [1,20000158]): every call is made "
              "twice on freshly rebuilt inputs with nothing reset in between -> bit-identical outputs (simtub non-conditional/conditional with unique and moving "
              "neighbourhoods, simbayes, simfft, simulateSPDE, gibbs_sampler, simpgs, SimuSpectral); two seeds / two simulation ranks differ somewhere; "
              "conditional turning bands reproduce each datum at a coinciding target (kappa-scaled tolerance, with and without nugget); "
              "law_gaussian_between_bounds(a,b) in [a,b] for generated a<=b (|a|,|b| up to 30, one-sided/NA, equal bounds); gibbs_sampler outputs inside each "
              "sample's [L,U] for every simulation; simpgs: gaussians inside the thresholds of the observed facies (thresholds recomputed in the harness from "
              "the proportions) and simulated facies at data = observed facies; non-trivial = success and (repro) >=1 target is not a datum, or (tb_cond, pgs) "
              ">=1 datum coincides with a target and was compared in every simulation, or (trunc, gibbs) >=1 interval of finite positive width was drawn from; "
              "distinct = hash of (dimension, sizes, options, structures)"),
        assumptions=["'same inputs' = objects rebuilt from the same description; global state is reset only before the first call",
                     "the seed of simulateSPDE is the one given to law_set_random_seed immediately before the call (no seed argument)",
                     "exactness tolerance 1e4.kappa.eps.scale, kappa > 1e10 inconclusive; Gibbs bounds with slack 1e-9(1+|b|)",
                     "a non-zero return code is a documented refusal, only required to be reproducible",
                     "seed/rank sensitivity is not asserted for the moving-neighbourhood Gibbs sampler (recorded finding: indefinite truncated covariance)",
                     "models restricted to mathematically valid ones; Matern<0.5 / stable<1 not generated for turning bands; simfft on grids with nx>=2 per axis; simbayes with defined data only"],
        subs=[
            sub("tb_repro", "c13_simu", 600, 12000),
            sub("tb_cond", "c13_simu", 1000, 20000),
            sub("fft", "c13_simu", 1000, 30000),
            sub("spde", "c13_simu", 150, 2500),
            sub("spectral", "c13_simu", 2000, 60000),
            sub("trunc", "c13_simu", 5000, 150000),
            sub("gibbs", "c13_simu", 2000, 60000),
            sub("pgs", "c13_simu", 800, 25000),
        ]),
    "C15": dict(
        level="exploration",
        rule=("rapidcheck-generated meshes (MeshETurbo on 1-3D grids incl. rotated and polarised, masked; MeshEStandard from jittered turbo apices through "
              "createFromExternal; nx 3-14 per axis) x Matern-type models (admitted nu, ranges, anisotropy, rotation) x data layouts; oracles: matrix-free "
              "PrecisionOp::evalDirect(x) = getQ().x and every column of Q = Lambda.P(S).Lambda computed in long double; Q symmetric and positive definite "
              "(dense Cholesky, lambda_min, sparse Cholesky solve/log-det); addToDest really adds; projection rows of inside points (membership decided by the "
              "harness, points kept off element edges): <= ndim+1 entries, >= -1e-12, sum 1, sum w_k.apex_k = point, empty rows outside, correct row alignment; "
              "krigingSPDE and the quadratic term with Cholesky vs conjugate gradients within a bound derived from the CG tolerance and a dense reference; every "
              "CG / sparse Cholesky solve satisfies its system (residual <= tolerance.|b|); matrix-free powers vs the library's own Chebyshev polynomial; "
              "non-trivial = rotated, 3-D, unstructured, masked mesh or anisotropic covariance (proj: >=1 point inside such a mesh); distinct = hash of "
              "(dimension, mesh kind, apices, smoothness, range/cell ratio, rotation, storage, data layout)"),
        assumptions=["turbo mesh geometry is checked against the harness's own grid-node computation; connectivity is taken from the library and checked to tile the grid",
                     "CG tolerance eps means |r|^2 <= eps |b|^2 (most lenient reading of the code); SPDE does not forward SPDEParam CG parameters, so 1e-8 is in force in krigingSPDE",
                     "Eigen CG (LinearOpCGSolver): tolerance = relative residual, factor 2 for recursive vs true residual",
                     "the pieces (Q_i, A_i, data variances) of the reference kriging system are read from the SPDE object (themselves checked by the precision / proj subs)",
                     "log-determinants of the iterative mode are not compared; csparse storage with two structures is not generated in the multi-conditional solve (crash finding repaired separately)"],
        subs=[
            sub("precision", "c15_spde", 1200, 40000, qw=4, tw=8),
            sub("addtodest", "c15_spde", 400, 4000, qw=1, tw=2),
            sub("proj", "c15_spde", 3000, 80000),
            sub("kriging", "c15_spde", 1200, 40000, qw=4, tw=8),
            sub("solves", "c15_spde", 1200, 40000, qw=4, tw=8),
            sub("spdeop", "c15_spde", 800, 20000, qw=2, tw=4),
            sub("powers", "c15_spde", 12, 300, qw=2, tw=6),
        ]),
    "C05": dict(
        level="exploration",
        rule=("metamorphic relation 'masked = physically removed': a rapidcheck-generated Db carries masks (selection none / all active / all masked / random, "
              "samples with all values undefined, samples with an undefined coordinate) and the same operation runs on the masked Db and on the physically "
              "reduced Db (built by hand or through Db::createReduce): kriging (unique, moving, ball search, block, undefined coordinates), xvalid, conditional "
              "simtub with the same seed, global estimation, variograms on points and grids, statistics, covariance/drift matrices, migrate, PCA/MAF, "
              "anamorphosis; counts compared exactly, other numbers at 1e-10 (kappa-gated for solves); masked targets keep TEST in new columns and no "
              "pre-existing cell changes; non-trivial = 0 < #masked < n and the masked samples would have mattered (inside the neighbourhood / lag range / "
              "statistics support); distinct = hash of (operation, dimension, sizes, mask classes, options)"),
        assumptions=["a value undefined in one variable only stays on both sides (it cannot be removed from a rectangular table): left to C01's oracle",
                     "selection values are 0/1; kribayes, image/bench/cell neighbourhoods and SPDE are not exercised",
                     "regions that abort the process today (recorded crash findings) are excluded by the generators (re-entered with C05_UNSAFE=1)",
                     "models restricted to mathematically valid structures"],
        subs=[
            sub("krig_unique", "c05_masked", 1500, 40000, qw=1, tw=2),
            sub("krig_moving", "c05_masked", 1500, 40000, qw=1, tw=2),
            sub("krig_ball", "c05_masked", 1500, 40000, qw=1, tw=2),
            sub("krig_block", "c05_masked", 800, 20000, qw=1, tw=2),
            sub("krig_nacoord", "c05_masked", 1000, 25000, qw=1, tw=2),
            sub("xvalid", "c05_masked", 1000, 25000, qw=1, tw=2),
            sub("simtub_cond", "c05_masked", 800, 20000, qw=1, tw=2),
            sub("global_grid", "c05_masked", 800, 20000, qw=1, tw=2),
            sub("vario", "c05_masked", 1500, 40000, qw=1, tw=2),
            sub("stats", "c05_masked", 3000, 80000, qw=1, tw=2),
            sub("covmat", "c05_masked", 2500, 60000, qw=1, tw=2),
            sub("migrate", "c05_masked", 2000, 50000, qw=1, tw=2),
            sub("pca", "c05_masked", 1500, 40000, qw=1, tw=2),
            sub("anam", "c05_masked", 1500, 40000, qw=1, tw=2),
            sub("vario_grid", "c05_masked", 1000, 25000, qw=1, tw=2),
        ]),
    "C04": dict(
        level="exploration",
        rule=("seven differential pairs on rapidcheck-generated inputs (shared kriging case generator: 1-3D, 1-3 variables, 1-4 structures incl. nugget and "
              "intrinsic, rotated anisotropy, NA patterns, selections, measurement error): (1) evalCovMatrixOptim / SymmetricOptim vs evalCovMatrix / Symmetric "
              "(db2 variants, ivar0/jvar0, nbgh subsets, CovCalcMode variants incl. active-structure lists); (2) kriging unique vs moving neighbourhood containing "
              "all samples; (3) xvalid in unique neighbourhood vs explicit leave-one-out re-kriging; (4) migrate with ball tree vs exhaustive search and NeighMoving "
              "ball search on/off where the property's precondition holds (ties removed by construction); (5) block kriging with one discretisation point vs point "
              "kriging (estimate, weights, varz); (6) collocated cokriging vs cokriging with the collocated datum added; (7) KrigingCalcul primal / dual / lambda / "
              "Bayes / collocated (+ lazy-cache getter orders) / xvalid-unique vs kriging, kribayes, xvalid and the dense oracle; tolerances 1e-10 relative for plain "
              "matrices, kappa-scaled for solves (kappa>1e10 inconclusive); non-trivial = the fast path is really taken and the case has a selection, heterotopy, "
              ">=2 structures or rotated anisotropy; distinct = hash of (pair, dimension, sizes, options, structure list)"),
        assumptions=["block kriging with ndiscs=1: stdev is not compared with point kriging (sigma00 of a block is estimated with a second randomised point set by documented design)",
                     "ball search compared only where the candidate restriction is provably harmless (the property's precondition)",
                     "xvalid: nvar = 1 (library restriction); samples with undefined external drift are not compared",
                     "KrigingCalcul is driven on stationary models without measurement error; the Bayes reference is used for constant mean, monovariate cases",
                     "models restricted to mathematically valid structures"],
        subs=[
            sub("covmat_rect", "c04_fastpaths", 5000, 400000, qw=1, tw=2),
            sub("covmat_sym", "c04_fastpaths", 5000, 400000, qw=1, tw=2),
            sub("unique_vs_moving", "c04_fastpaths", 2400, 150000, qw=2, tw=4),
            sub("xvalid_unique", "c04_fastpaths", 1200, 80000, qw=2, tw=4),
            sub("migrate_ball", "c04_fastpaths", 5000, 400000, qw=1, tw=2),
            sub("neigh_ball", "c04_fastpaths", 5000, 400000, qw=1, tw=2),
            sub("block1_vs_point", "c04_fastpaths", 1200, 80000, qw=2, tw=4),
            sub("colcok_vs_added", "c04_fastpaths", 1400, 80000, qw=2, tw=4),
            sub("kcalc_primal", "c04_fastpaths", 3000, 150000, qw=1, tw=2),
            sub("kcalc_dual", "c04_fastpaths", 3000, 150000, qw=1, tw=2),
            sub("kcalc_lambda", "c04_fastpaths", 1500, 40000, qw=1, tw=2),
            sub("kcalc_bayes", "c04_fastpaths", 3000, 150000, qw=1, tw=2),
            sub("kcalc_colcok", "c04_fastpaths", 2000, 80000, qw=1, tw=2),
            sub("kcalc_colcok_cache", "c04_fastpaths", 2000, 80000, qw=1, tw=2),
            sub("kcalc_xvalid", "c04_fastpaths", 3000, 150000, qw=1, tw=2),
        ]),
    "C14": dict(
        level="exploration",
        cap_s=dict(quick=600, thorough=3000),
        rule=("statistical: each case = simulator (turning bands on grid/points, FFT, spectral, SPDE Cholesky/Chebyshev, Cholesky sampling) x rapidcheck-generated "
              "model (1-2 structures valid for the simulator, anisotropy ratio >= 3 with rotation, 1-2 variables with a correlated sill matrix) x seed; R = 1000-4000 "
              "realisations at probe nodes and probe pairs (along each anisotropy axis at ~0.3 and ~0.7 of the range); ensemble mean, variance, cross-variable and "
              "lag (cross-)covariances - each one and their averages over translated copies - must lie within 6 sigma_MC + b of the model values (sigma_MC from the "
              "Gaussian fourth-moment identity; b = 1 % turning bands, 3 % FFT, 0 spectral, 10 % SPDE, 0 Cholesky); random generators: N = 1e5 draws in the support, "
              "first four central moments within ~1e-6-level thresholds, KS distance below the DKW bound, both tails reached; non-trivial = anisotropic or "
              "multivariate or >= 2 structures (every law case is non-trivial); distinct = hash of (simulator, model parameters, support, seed)"),
        assumptions=["ranges are practical ranges; angles/axes as DESIGN section 3 (cross-checked against Model::eval in every case)",
                     "model means are asserted for simtub only; the other simulators are compared with a zero mean",
                     "preconditions of the allowances: FFT field >= 3 ranges, SPDE mesh <= range/8 with border >= 1 range, spectral >= 50 components, turning bands >= 30 bands",
                     "simfft is called with nbsimu = 1; law_gamma(alpha, beta): beta accepted as a scale or as a rate",
                     "false-alarm level: 6 sigma over ~1e2 statistics per case (< 1e-6 per case); validated on 60 clean runs x 10 seeds on the final harness",
                     "this detects gross second-order errors (factors, axes, sills), not subtle distributional defects"],
        subs=[
            sub("tb", "c14_simustat", 6, 120, qsize=20, qw=6, tw=12),
            sub("tb_grid3d", "c14_simustat", 2, 40, qsize=20, qw=2, tw=8),
            sub("fft", "c14_simustat", 3, 48, qsize=20, qw=3, tw=12),
            sub("spectral", "c14_simustat", 6, 200, qsize=20, qw=3, tw=8),
            sub("spde", "c14_simustat", 3, 60, qsize=20, qw=3, tw=12),
            sub("chol", "c14_simustat", 200, 3000, qsize=20, qw=1, tw=2),
            sub("law", "c14_simustat", 200, 4000, qsize=20, qw=2, tw=4),
        ]),
    "C17": dict(
        level="exploration",
        cap_s=dict(quick=300, thorough=3000),
        rule=("rapidcheck-generated experimental variograms (sampled from a known model + multiplicative noise, or computed from simtub data; 1-3 variables, 1-3 "
              "directions in 2-D/3-D, emptied lags, negative cross-values) and variogram maps x structure lists from 17 fit-capable types x consistent generated "
              "Constraints (ConsItems, constant sill) x every Option_VarioFit / Option_AutoFit flag; entry points Model::fit, model_fitting_sills / "
              "ModelOptimSillsVario::fit, Model::fitFromVMap. Validity oracle only when the fit returns success (a refusal is acceptable and counted): every sill "
              "matrix symmetric with lambda_min >= -1e-8 trace (own Jacobi eigenvalues), ranges/scales > 0 and finite, every user constraint satisfied within 1e-6, "
              "documented option flags respected, Model::isValid(), save -> reload -> same getters, kriging a small Db with the fitted model returns 0 with finite "
              "estimates and stdev >= 0; the call ends within 30 s of CPU; non-trivial = nvar >= 2 or >= 1 user constraint or >= 2 directions (fit_vmap: always); "
              "distinct = hash of (dimensions, directions, structure list, constraints, options, seeds)"),
        assumptions=["a non-zero return of fit / fitFromVMap / model_fitting_sills is an acceptable outcome",
                     "a ConsItem on a parameter that the options remove from the inference is not asserted; a lock asked by the caller counts as set",
                     "lock_rot2d asserted only when the first direction is horizontal; lock_no3d and flag_intrinsic have no asserted predicate",
                     "kriging asserted only for well-posed systems; maxiter <= 100",
                     "regions that abort the process today (recorded findings: flag_intrinsic, MATERN in the fitted list, sills-only entry points with empty lags) are not generated (C17_ENABLE re-opens them)"],
        subs=[
            sub("fit_vario", "c17_fit", 160, 8000, qw=8, tw=16),
            sub("fit_sills", "c17_fit", 1200, 40000, qw=2, tw=4),
            sub("fit_vmap", "c17_fit", 18, 3000, qw=6, tw=12),
        ]),
}
