"""Texts of MANIFEST.json per property (level claimed, trusted base, technique)."""
HOOK_COMMITS = ["a73c8bf60"]

# properties without a registered check yet: reason shown in MANIFEST.not_applicable until their check lands
_PENDING = "check under construction in this round (see DESIGN.md section 5); not claimed yet"
NOT_APPLICABLE = {("C%02d" % i): _PENDING for i in range(1, 21)}

TEXTS = {
    "C11": dict(
        engine="rapidcheck",
        technique="property-based testing (rapidcheck): generated operation sequences / products / solves vs naive long-double reference model; differential between storages, sparse back-ends and thread counts",
        design_ref="DESIGN.md §5 C11",
        level_text=("Exploration: tens of thousands (quick) to millions (thorough) of generated matrices, operation sequences, "
                    "products and solves in every storage (rectangular, square, symmetric, sparse cs, sparse Eigen) are compared "
                    "element-wise with an independent naive reference; failures shrink to a replay file. Absence of "
                    "counter-examples in the explored classes, not a proof."),
        level_note=("Trusted: the harness's naive loops and long double arithmetic; rapidcheck. Matrices up to 8x8 (140x140 for the "
                    "thread-count differential), dyadic values so that products are exact; ill-conditioned solves are not generated.")),
    "C16": dict(
        engine="rapidcheck",
        technique="property-based testing (rapidcheck): generated rotated grids, nodes and off-boundary points; inverse round-trips and an independent long-double geometry as oracle; derived grids located against the parent",
        design_ref="DESIGN.md §5 C16",
        level_text=("Exploration: every node of tens of thousands of generated grids (1-3D, any rotation, non-cubic) and generated query points "
                    "go through all rank/indices/coordinates conversions and the point-to-cell assignment, and are compared with geometry "
                    "computed independently in the harness; derived grids are checked node by node against the parent. Counter-example "
                    "search with shrinking, not a proof."),
        level_note=("Trusted: the harness's own rotation/index arithmetic (long double), rapidcheck. nx<=12 per axis, factors<=4, <=3-D; "
                    "points within 1e-4 cell of a face are excluded as the property excludes boundary points.")),
    "C06": dict(
        engine="rapidcheck",
        technique="property-based testing (rapidcheck): generated point sets / neighbourhood parameters vs an executable brute-force definition of the moving neighbourhood; ball-tree k-NN vs sorted brute force",
        design_ref="DESIGN.md §5 C06",
        level_text=("Exploration: tens of thousands (quick) to hundreds of thousands (thorough) of generated configurations; the selected neighbourhood is "
                    "compared as a set with the definition executed by brute force in the harness, k-NN answers with a sorted exhaustive search. "
                    "Counter-example search with shrinking; no claim beyond the explored classes."),
        level_note=("Trusted: the harness's own rotation/anisotropic distance and selection logic (harness/common/geo_common.hpp), rapidcheck. "
                    "n<=80 samples, <=3-D; ties and boundary samples are excluded by construction as the property excludes them.")),
    "C20": dict(
        engine="rapidcheck",
        technique="property-based testing (rapidcheck): lattice polygons and off-boundary query points level with vertices/edges; oracle = exact integer even-odd rule, truth known by construction; convex hull vs exact hull",
        design_ref="DESIGN.md §5 C20",
        level_text=("Exploration: hundreds of thousands (quick) to tens of millions (thorough) of inclusion queries on generated simple polygons whose "
                    "geometry is exact in binary, compared with an exact integer oracle; polygon sets, vertical limits, db_polygon and convex hulls likewise. "
                    "Counter-example search with shrinking."),
        level_note=("Trusted: 64-bit integer cross products of the harness, rapidcheck. All generated coordinates are dyadic; points nearer to the boundary than "
                    "the lattice step are not generated (the property excludes boundary points).")),
    "C12": dict(
        engine="rapidcheck",
        technique="property-based testing (rapidcheck): generated data/lag/direction specifications vs an O(n^2) pairwise reference written in the harness; metamorphic relations (permutation, translation, variable swap); differential grid vs general algorithm",
        design_ref="DESIGN.md §5 C12",
        level_text=("Exploration: tens of thousands (quick) to ~700 000 (thorough) generated variogram calculations compared lag by lag (pair weights exactly, "
                    "mean distance and estimator value to 1e-10) with the pairwise definition evaluated by brute force, plus metamorphic and differential "
                    "relations. Counter-example search with shrinking."),
        level_note=("Trusted: the harness's pair loop and its reading of the documented lag/direction/tolerance rules (listed as assumptions), rapidcheck. "
                    "n<=150 samples; pairs within 1e-6.dpas of a class or angular limit are not generated.")),
    "C07": dict(
        engine="rapidcheck",
        technique="model-based / stateful property testing (rapidcheck): generated histories of Db editing operations, a plain table model as reference, full invariant check after every step, whole history shrinks",
        design_ref="DESIGN.md §5 C07",
        level_text=("Exploration over histories: thousands (quick) to 300 000 (thorough) generated edit sequences of up to 60 operations; after each operation the "
                    "Db is compared cell by cell and designation by designation with an independent table model. Counter-example search with shrinking of the "
                    "whole sequence; no claim beyond the explored histories."),
        level_note=("Trusted: the table model of the harness and its reading of the documented semantics of each editing call (assumptions in the evidence), rapidcheck. "
                    "Tables <= 12 columns x 14 samples, 2-D unrotated grids; names limited to a regex-safe alphabet.")),
    "C09": dict(
        engine="libFuzzer + deterministic fault enumeration",
        technique="fuzzing: exhaustive enumeration of write-interruption points (every prefix) and single-token corruptions of valid files (boundary numbers, junk, keyword/rank variants, line edits), plus coverage-guided libFuzzer campaigns (thorough), ASan/UBSan + in-target semantic oracle (loaded object usable, savable, reloadable)",
        design_ref="DESIGN.md §5 C09, §10.4",
        level_text=("Fault enumeration: for each of 32 readers (26 neutral-file classes, CSV, Zycor, IFPEN, BMP, F2G, LAS) every truncation point and a finite "
                    "set of single-fault corruptions of valid files produced by the tree under test are executed under ASan/UBSan with memory/time limits; "
                    "an accepted input must yield an object that can be used, saved and loaded again. The thorough tier adds coverage-guided mutation. "
                    "__NC09__ genuine defects of the unchanged tree are recorded as known findings by crash signature; a new signature is a violation."),
        level_note=("Trusted: sanitizer reports, libFuzzer. Inputs <= 4 KB; limits rss 2 GB / malloc 1 GB / 10 s per input. A defect whose signature (sanitizer kind + "
                    "first frame inside /repo, or oracle message) equals a recorded one in the same reader is not distinguished from it.")),
    "C18": dict(
        engine="rapidcheck",
        technique="property-based testing (rapidcheck): round-trip oracles (inverse o forward = identity inside the reported validity interval) with method-derived tolerances, monotonicity and orthonormality predicates on generated data and fitted transforms",
        design_ref="DESIGN.md §5 C18",
        level_text=("Exploration: thousands (quick) to ~600 000 (thorough) fitted transforms on generated data; each is composed with its inverse and compared "
                    "with the identity within a tolerance derived from the algorithm's own stopping rules, plus moment/orthonormality predicates computed "
                    "independently in the harness. Counter-example search with shrinking."),
        level_note=("Trusted: the harness's Gaussian cdf/quantile (erfc + Newton), its Gauss-Hermite rule (self-checked), rapidcheck. Monotonicity is examined "
                    "at the 0.1 resolution of the method; ill-conditioned covariance matrices (cond > 1e10) are inconclusive.")),
    "C03": dict(
        engine="rapidcheck",
        technique="property-based testing (rapidcheck): generated structures/parameters/anisotropies/point sets; oracle = published closed forms with the harness's own anisotropic distance, symmetry/bound/compact-support predicates, eigenvalue test of covariance matrices (conditional for intrinsic structures)",
        design_ref="DESIGN.md §5 C03",
        level_text=("Exploration: tens of thousands (quick) to ~750 000 (thorough) generated models and point sets per run; values are compared with independent "
                    "closed forms and every covariance matrix is tested for (conditional) positive semi-definiteness. Structures found invalid on the unchanged "
                    "tree are recorded with their parameter region; everything else must pass. Search with shrinking, not a proof of validity."),
        level_note=("Trusted: the formula table and rotation code of the harness, Eigen's symmetric eigen-solver (in the harness), std::cyl_bessel_*. d<=3, "
                    "matrices up to 96x96; an invalid model whose negative eigenvalue only appears on larger or differently spaced point sets can be missed.")),
    "C19": dict(
        engine="rapidcheck + guarded fault-injection hooks",
        technique="property-based testing with fault injection: generated calculator calls and prior Db contents and histories (variables created and deleted earlier); exhaustive enumeration of injection points (every stage, every k) per case through GSTLEARN_VERIF hooks; oracle = bit-exact before/after snapshots of both Dbs",
        design_ref="DESIGN.md §4, §5 C19",
        level_text=("Fault enumeration: for each generated call every internal stage boundary, every variable creation and every kriging target is made to fail in "
                    "turn (plus 26 kinds of natural invalid arguments), and the complete state of both data bases is compared before/after; successes must add "
                    "exactly the documented variables. Exhaustive over injection points of each explored case, sampling over cases."),
        level_note=("Trusted: the snapshot comparison of the harness; the hooks in /repo (guard GSTLEARN_VERIF, add-only) only return the failure code of their call "
                    "site. Failures that cannot be produced at these points (e.g. mid-way through a single allocation) are not explored.")),
    "C08": dict(
        engine="rapidcheck",
        technique="property-based testing (rapidcheck): round-trip oracle write -> read -> compare getters and generated queries -> write again (string equality), per serialisable class, through streams and through files",
        design_ref="DESIGN.md §5 C08",
        level_text=("Exploration: thousands (quick) to 600 000 (thorough) generated objects over 15 class families are saved, reloaded and compared field by "
                    "field, by behaviour on generated queries and by re-serialisation. Counter-example search with shrinking."),
        level_note=("Trusted: the public getters used for comparison, rapidcheck. Equivalence is asserted over what the format stores plus behaviour derived from it; "
                    "objects are small (<= a few dozen values).")),
    "C01": dict(
        engine="rapidcheck",
        technique="property-based testing (rapidcheck): generated data/model/drift/neighbourhood/target configurations; oracle = independent dense assembly of the kriging system in the harness (long double, full-pivot LU) with condition-number-scaled comparison of estimate, stdev, varz, weights and exported system",
        design_ref="DESIGN.md §5 C01",
        level_text=("Exploration: ~27 000 (quick) to ~600 000 (thorough) generated kriging configurations over 14 families (SK/OK/UK/external drift, cokriging with "
                    "heterotopy, moving neighbourhoods, blocks incl. rotated grids, measurement error, intrinsic models, matLC, cross-validation, krigtest export); "
                    "every output is compared with an independently assembled and solved system. Counter-example search with shrinking."),
        level_note=("Trusted: Model::eval for the bi-point covariance (tied to closed forms by C03), the harness's drift functions and linear algebra (Eigen in long double), "
                    "rapidcheck. n<=40 samples; ill-conditioned systems (kappa>1e10) are inconclusive as the property exempts round-off proportional to conditioning.")),
    "C02": dict(
        engine="rapidcheck",
        technique="property-based testing (rapidcheck): metamorphic relations (drift shift, linearity, permutation, translation) and exactness/unbiasedness predicates on generated kriging configurations",
        design_ref="DESIGN.md §5 C02",
        level_text=("Exploration: ~19 000 (quick) to ~370 000 (thorough) generated configurations, each kriged 1-3 times under a known transformation of the inputs and "
                    "compared with the predicted transformation of the outputs; exactness at data and universality checked as predicates."),
        level_note=("Trusted: the transformation algebra in the harness, rapidcheck; same generator and kappa-gating as C01.")),
    "C10": dict(
        engine="rapidcheck",
        technique="property-based testing over call histories (rapidcheck): generated programs with noise prefixes compared with the same call in a fresh forked process; copy-independence and model-based tests of VectorT; incremental-vs-rebuilt differential for KrigingCalcul and Model",
        design_ref="DESIGN.md §5 C10",
        level_text=("Exploration over histories: ~10 000 (quick) to 400 000 (thorough) generated programs/sequences; the observed call after an arbitrary prefix of "
                    "successful, failing and state-switching calls must return what it returns first in a fresh process; copies must be independent; incrementally "
                    "edited objects must answer as rebuilt ones. Counter-example search with shrinking of the whole history."),
        level_note=("Trusted: fork() isolation, the result serialisation of the harness, rapidcheck. Thread interleavings are not explored (the library starts no threads); "
                    "only the inventoried kinds of noise calls are generated.")),
    "C13": dict(
        engine="rapidcheck",
        technique="property-based testing (rapidcheck): run-twice bit equality, seed/rank sensitivity, exactness at coinciding data, bound-membership and facies-consistency predicates on generated small simulations",
        design_ref="DESIGN.md §5 C13",
        level_text=("Exploration: ~12 000 (quick) to 360 000 (thorough) generated simulations over 8 simulator families; each is run twice (bit equality), with "
                    "other seeds (difference), and its conditioning (data, interval bounds, facies) is checked against an oracle recomputed in the harness."),
        level_note=("Trusted: the harness's threshold computation for lithotype rules, rapidcheck. The fresh-process half of reproducibility is exercised by the "
                    "replay tier and by C10; SPDE conditional simulation is not required to be exact at data.")),
    "C15": dict(
        engine="rapidcheck",
        technique="property-based testing (rapidcheck): differential matrix-free vs assembled precision, SPD and barycentric-coordinate predicates, Cholesky vs conjugate-gradient differential with a derived bound, residual checks of every solve, on generated meshes and Matern models",
        design_ref="DESIGN.md §5 C15",
        level_text=("Exploration: ~8 000 (quick) to 220 000 (thorough) generated mesh/model/data configurations; operators are compared with dense long-double "
                    "references, projections with geometry computed in the harness, iterative results with direct ones within bounds derived from the solver tolerance."),
        level_note=("Trusted: dense linear algebra of the harness (Eigen, long double), S and Lambda as produced by the library (their values are not re-derived), "
                    "rapidcheck. Dense references cap meshes at ~460 apices (projection up to 14^3).")),
    "C05": dict(
        engine="rapidcheck",
        technique="property-based testing (rapidcheck): metamorphic relation 'masked or undefined samples = physically removed samples' over 15 families of operations; target-side predicate on masked targets",
        design_ref="DESIGN.md §5 C05",
        level_text=("Exploration: ~22 000 (quick) to 550 000 (thorough) generated data bases with masks; each operation is run on the masked and on the reduced "
                    "data base and the results are compared (exactly for counts, 1e-10 otherwise, conditioning-gated for solves)."),
        level_note=("Trusted: the construction of the reduced Db in the harness, rapidcheck. Single-variable undefined values are judged by C01; crash regions of "
                    "recorded findings are not generated.")),
    "C04": dict(
        engine="rapidcheck",
        technique="property-based differential testing (rapidcheck): each accelerated path vs its plain counterpart on generated inputs (optimised covariance matrices, unique vs wide moving neighbourhood, xvalid shortcut vs leave-one-out, ball tree vs exhaustive search, 1-point block vs point kriging, collocated vs added datum, KrigingCalcul vs kriging)",
        design_ref="DESIGN.md §5 C04",
        level_text=("Exploration: ~59 000 (quick) to 2.8 million (thorough) generated cases over 15 sub-properties; the two code paths of each pair must agree within "
                    "round-off (conditioning-scaled where a system is solved). Counter-example search with shrinking."),
        level_note=("Trusted: nothing beyond the plain path of each pair (itself tied to independent oracles by C01, C03, C06), the harness's tolerance model and rapidcheck. "
                    "n<=40 data (500 for migrate, 90 for ball search).")),
    "C14": dict(
        engine="rapidcheck",
        technique="property-based statistical testing (rapidcheck-generated simulator/model/seed cases): ensemble moments over 1000-4000 realisations against the model with sampling-error-calibrated thresholds (6 sigma + stated discretisation allowance); moment / KS / support tests of the random generators",
        design_ref="DESIGN.md §5 C14",
        level_text=("Statistical exploration: few but expensive cases (quick ~25 ensembles incl. dedicated 3-D-grid turning bands + 400 law/Cholesky cases; thorough ~430 ensembles + 7000): each ensemble's mean, "
                    "variance and (cross-)covariances at probe nodes/pairs are compared with the model within 6 Monte-Carlo standard errors plus a stated allowance. "
                    "Detects gross law errors (factors, axes, sills, signs), not subtle distributional defects."),
        level_note=("Trusted: the Gaussian fourth-moment formula for sigma_MC, boost::math CDFs, rapidcheck; thresholds derived (not tuned) and validated over seeds on "
                    "the unchanged tree. Runs are deterministic functions of VERIF_SEED.")),
    "C17": dict(
        engine="rapidcheck",
        technique="property-based testing (rapidcheck): generated experimental variograms / maps, structure lists, constraints and options; oracle = validity predicate on the returned model (PSD sills, positive finite ranges, every constraint and option honoured, save/reload, usable for kriging, termination)",
        design_ref="DESIGN.md §5 C17",
        level_text=("Exploration: ~2 500 (quick) to 51 000 (thorough) generated fits over three entry points; whenever a fit reports success the returned model must "
                    "satisfy the validity predicate. Many outputs are admissible, so a predicate (not one expected model) is checked."),
        level_note=("Trusted: the harness's Jacobi eigenvalues and its reading of which parameters each option infers (from the code), rapidcheck. <= 12 lags, <= 3 structures, maxiter <= 100.")),
}


# counts that follow known_findings.json
import json as _json, os as _os
_k = _json.load(open(_os.path.join(_os.path.dirname(_os.path.abspath(__file__)), "known_findings.json")))
_n = len([f for f in _k["findings"] if f["property"] == "C09"])
for _f in ("level_text",):
    TEXTS["C09"][_f] = TEXTS["C09"][_f].replace("__NC09__", str(_n))
