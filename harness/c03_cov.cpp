// C03 — every offered covariance model is a valid (positive semi-definite) model whose values agree
// with the published closed forms, the range being measured along the rotated anisotropy axes.
// Oracle: a table of closed forms written here (long double), the harness's own rotation matrices
// and anisotropic distance, and eigenvalues computed in the harness (Eigen: the implementation under
// test is the covariance, not the eigen-solver).  DESIGN.md §5 C03.
#include "verif.hpp"
#include "Geometry/Rotation.hpp"
#include <sstream>

#include "Model/Model.hpp"
#include "Covariances/CovAniso.hpp"
#include "Covariances/CovFactory.hpp"
#include "Covariances/ACovFunc.hpp"
#include "Covariances/CovContext.hpp"
#include "Covariances/CovCalcMode.hpp"
#include "Space/SpaceRN.hpp"
#include "Space/SpacePoint.hpp"
#include "Space/ASpaceObject.hpp"
#include "Db/Db.hpp"
#include "Matrix/MatrixSquareSymmetric.hpp"
#include "Matrix/MatrixRectangular.hpp"
#include "Enum/ECov.hpp"
#include "Enum/ELoadBy.hpp"
#include "Enum/ESpaceType.hpp"
#include "Basic/Utilities.hpp"
#include "geoslib_define.h"

#include <Eigen/Dense>
#include <array>
#include <memory>
#include <algorithm>

using namespace vf;
typedef long double LD;
static const LD PI_L = 3.14159265358979323846264338327950288L;

// ECov values (include/Enum/ECov.hpp)
enum
{
  T_NUGGET = 0, T_EXPONENTIAL = 1, T_SPHERICAL = 2, T_GAUSSIAN = 3, T_CUBIC = 4, T_SINCARD = 5, T_BESSELJ = 6,
  T_MATERN = 7, T_GAMMA = 8, T_CAUCHY = 9, T_STABLE = 10, T_LINEAR = 11, T_POWER = 12, T_ORDER1_GC = 13,
  T_SPLINE_GC = 14, T_ORDER3_GC = 15, T_ORDER5_GC = 16, T_COSINUS = 17, T_TRIANGLE = 18, T_COSEXP = 19,
  T_REG1D = 20, T_PENTA = 21, T_SPLINE2_GC = 22, T_STORKEY = 23, T_WENDLAND0 = 24, T_WENDLAND1 = 25,
  T_WENDLAND2 = 26
};

// ------------------------------------------------------------------ closed forms --------
// Matern correlation 2^(1-nu)/Gamma(nu) h^nu K_nu(h) from the integral representation
// K_nu(x) = int_0^inf exp(-x cosh t) cosh(nu t) dt, evaluated in log space with the trapezoidal rule
// (independent of std::cyl_bessel_k, which the library uses, and of Gamma overflow for large nu).
static LD maternInt(LD nu, LD h)
{
  if (h <= 0) return 1;
  LD logpref = logl(2.L) + nu * logl(h / 2) - lgammal(nu);
  auto lg = [&](LD t) {
    LD x = nu * t;
    LD logcosh = x + log1pl(expl(-2 * x)) - logl(2.L);
    return logpref - h * coshl(t) + logcosh;
  };
  // location of the maximum of the exponent: h sinh t = nu tanh(nu t) ~ nu
  LD ts = asinhl(nu / h);
  LD sig = powl(h * h + nu * nu, -0.25L);
  LD dt = std::min((LD)0.02L, sig / 10);
  LD m = lg(ts);
  // upper limit: exponent 60 below the maximum
  LD T = ts;
  {
    LD step = std::max(sig, (LD)0.05L);
    while (lg(T) > m - 70 && T < 800) T += step;
  }
  long n = (long)ceill(T / dt);
  if (n > 4000000) n = 4000000;
  dt = T / (LD)n;
  LD s = 0;
  for (long k = 0; k <= n; k++)
  {
    LD w = (k == 0 || k == n) ? 0.5L : 1.L;
    s += w * expl(lg(dt * (LD)k) - m);
  }
  return s * dt * expl(m);
}

// published closed form of the basic structure for the normalised distance h >= 0 and third parameter p
static bool rhoPub(int t, LD h, double p, LD& out)
{
  LD h2 = h * h;
  switch (t)
  {
    case T_NUGGET: out = (h == 0) ? 1 : 0; return true;
    case T_EXPONENTIAL: out = expl(-h); return true;
    case T_SPHERICAL: out = (h < 1) ? 1 - 1.5L * h + 0.5L * h * h2 : 0; return true;
    case T_GAUSSIAN: out = expl(-h2); return true;
    case T_CUBIC: // Chiles & Delfiner: 1 - 7h^2 + 35/4 h^3 - 7/2 h^5 + 3/4 h^7
      out = (h < 1) ? 1 - 7 * h2 + 35.L / 4 * h2 * h - 7.L / 2 * h2 * h2 * h + 3.L / 4 * h2 * h2 * h2 * h : 0;
      return true;
    case T_SINCARD: out = (h == 0) ? 1 : sinl(h) / h; return true;
    case T_BESSELJ: // 2^nu Gamma(nu+1) J_nu(h) / h^nu
      out = (h == 0) ? 1 : expl(lgammal((LD)p + 1) + (LD)p * logl(2 / h)) * std::cyl_bessel_j((LD)p, h);
      return true;
    case T_MATERN: out = maternInt((LD)p, h); return true;
    case T_GAMMA: out = powl(1 + h, -(LD)p); return true;
    case T_CAUCHY: out = powl(1 + h2, -(LD)p); return true;
    case T_STABLE: out = (h == 0) ? 1 : expl(-powl(h, (LD)p)); return true;
    case T_LINEAR:
    case T_ORDER1_GC: out = -h; return true;
    case T_POWER: out = (h == 0) ? 0 : -powl(h, (LD)p); return true;
    case T_SPLINE_GC: out = (h == 0) ? 0 : h2 * logl(h); return true;
    case T_ORDER3_GC: out = h2 * h; return true;
    case T_ORDER5_GC: out = -h2 * h2 * h; return true;
    case T_SPLINE2_GC: out = (h == 0) ? 0 : h2 * h2 * logl(h); return true;
    case T_COSINUS: out = cosl(2 * PI_L * h); return true;
    case T_TRIANGLE: out = (h < 1) ? 1 - h : 0; return true;
    case T_COSEXP: out = expl(-h) * cosl(2 * PI_L * h / (LD)p); return true;
    case T_REG1D:
    case T_PENTA: // no independent source found: transcription of the library formula (see report)
      if (h < 1) out = 1 - 3 * h + 1.5L * h2 + 0.25L * h2 * h;
      else if (h < 2) out = -(2 - h) * (2 - h) * (2 - h) / 4;
      else out = 0;
      return true;
    case T_STORKEY: // Storkey (1999): ((2pi-D)(1+cos(D)/2) + 3/2 sin D)/(3 pi), D = 2 pi h
    {
      LD D = 2 * PI_L * h;
      out = (h < 1) ? ((2 * PI_L - D) * (1 + cosl(D) / 2) + 1.5L * sinl(D)) / (3 * PI_L) : 0;
      return true;
    }
    case T_WENDLAND0: out = (h < 1) ? (1 - h) * (1 - h) : 0; return true;
    case T_WENDLAND1: out = (h < 1) ? powl(1 - h, 4) * (4 * h + 1) : 0; return true;
    case T_WENDLAND2: out = (h < 1) ? powl(1 - h, 6) * (35 * h2 + 18 * h + 3) / 3 : 0; return true;
    default: return false;
  }
}
// degree of the even polynomial in h which the library may add to an intrinsic structure (it is null
// on the authorised increments); -1 for stationary structures
static int polyDeg(int t)
{
  switch (t)
  {
    case T_LINEAR: case T_ORDER1_GC: case T_POWER: return 0;
    case T_SPLINE_GC: case T_ORDER3_GC: return 2;
    case T_ORDER5_GC: case T_SPLINE2_GC: return 4;
    default: return -1;
  }
}
// compactly supported structures (support = range)
static bool isCompact(int t)
{
  return t == T_SPHERICAL || t == T_CUBIC || t == T_TRIANGLE || t == T_STORKEY || t == T_WENDLAND0 ||
         t == T_WENDLAND1 || t == T_WENDLAND2 || t == T_REG1D || t == T_PENTA;
}
// literature validity domain where it is narrower than what could be declared: true = valid model of R^d
static bool inLiteratureDomain(int t, int ndim, double p)
{
  if (t == T_BESSELJ) return p >= ndim / 2. - 1.;                 // nu >= d/2 - 1
  if (t == T_COSEXP)                                              // exp(-h) cos(b h), b = 2 pi / p
  {
    if (ndim == 2) return p >= 2 * M_PI;                          // b <= 1
    if (ndim == 3) return p >= 2 * M_PI * std::sqrt(3.);          // b <= 1/sqrt(3)
  }
  return true;
}

// ------------------------------------------------------------------ library catalogue ---
struct Adm
{
  int ecov = 0;
  std::string key;
  int minOrder = -1;
  bool hasParam = false;
  double parMax = 0; // <=0 or TEST: unbounded
  int hasRange = 1;
  int declMaxNDim = 0; // getMaxNDim() of the complete object (0 or huge: no limit)
};
// structures which the library accepts in R^ndim (Euclidean): asked from the library itself
static const std::vector<Adm>& admitted(int ndim)
{
  static std::vector<Adm> cache[4];
  static bool done[4] = {false, false, false, false};
  if (!done[ndim])
  {
    done[ndim] = true;
    for (int v = 0; v <= 60; v++)
    {
      if (!ECov::existsValue(v)) continue;
      const ECov& e = ECov::fromValue(v);
      // accepted = the user-facing constructor builds the structure in this dimension without an error
      // (CovAniso is what Model::addCovFromParam and the CovAniso::create* functions go through) and it is a
      // Euclidean covariance (sphere-only / spectral-only ones are outside the statement)
      // (cheap pre-filter on the bare function: the CovAniso constructor of a spectral structure such as MARKOV
      // runs a 256^ndim FFT)
      {
        std::unique_ptr<ACovFunc> f0;
        try
        {
          CovContext ctxt0(1, ndim);
          f0.reset(CovFactory::createCovFunc(e, ctxt0));
        }
        catch (const LibExit&) { f0.reset(); }
        catch (const std::exception&) { f0.reset(); }
        if (!f0 || !f0->hasCovOnRn() || !f0->getCompatibleSpaceR()) continue;
      }
      std::unique_ptr<CovAniso> ca;
      try
      {
        CovContext ctxt(1, ndim);
        ca.reset(new CovAniso(e, ctxt));
      }
      catch (const LibExit&) { ca.reset(); }
      catch (const std::exception&) { ca.reset(); }
      if (!ca) continue;
      const ACovFunc* f = ca->getCova();
      if (f == nullptr) continue;
      bool ok = f->hasCovOnRn() && f->getCompatibleSpaceR();
      if (ok)
      {
        Adm a;
        a.ecov = v;
        a.key = std::string(e.getKey());
        a.minOrder = f->getMinOrder();
        a.hasParam = f->hasParam();
        a.parMax = f->getParMax();
        a.hasRange = f->hasRange();
        a.declMaxNDim = (int)std::min<unsigned int>(f->getMaxNDim(), 1000u);
        cache[ndim].push_back(a);
      }
    }
  }
  return cache[ndim];
}
static const Adm* findAdm(int ndim, int ecov)
{
  for (auto& a : admitted(ndim))
    if (a.ecov == ecov) return &a;
  return nullptr;
}

// ------------------------------------------------------------------ cases ---------------
struct StructCase
{
  int type = 1;
  double pu = 1;     // position of the third parameter in its interval (0,1]
  int pmode = 0;     // 0: (0,min(parMax,5)] linear, 1: (0,parMax] linear, 2: log over 4 decades below parMax
  double len0 = 1;   // length along axis 1 (scale or range), in units of L
  std::vector<double> ratio; // length_i / length_1
  std::vector<double> ang;   // degrees
  std::vector<double> A;     // 3x3, sill = A_r A_r' + eps I
  int rank = 1;
  double eps = 0;
  int how = 0;       // construction path
  template<class Ar> void io(Ar& a)
  {
    a("type", type)("pu", pu)("pmode", pmode)("len0", len0)("ratio", ratio)("ang", ang)("A", A)("rank", rank)(
      "eps", eps)("how", how);
  }
};
struct ModelCase
{
  int ndim = 1, nvar = 1;
  double L = 1;
  int flagRange = 0;
  std::vector<StructCase> st;
  template<class Ar> void io(Ar& a) { a("ndim", ndim)("nvar", nvar)("L", L)("flagRange", flagRange)("st", st); }
};

static StructCase genStruct(int ndim, int nvar, int forcedType = -1)
{
  StructCase s;
  const auto& adm = admitted(ndim);
  s.type = (forcedType >= 0) ? forcedType : adm[(size_t)G::i(0, (int)adm.size() - 1)].ecov;
  s.pu = G::u(0, 1);
  if (s.pu <= 0) s.pu = 1;
  s.pmode = G::pick({0, 0, 0, 1, 2, 2});
  s.len0 = G::lu(0.05, 2.);
  bool iso = G::pct(30);
  s.ratio = {1, 1, 1};
  if (!iso)
    for (int i = 1; i < 3; i++) s.ratio[(size_t)i] = G::pct(20) ? G::lu(0.01, 1) : G::lu(0.2, 5);
  s.ang = {0, 0, 0};
  if (!G::pct(20))
    for (int i = 0; i < 3; i++)
      s.ang[(size_t)i] = G::pct(25) ? G::pick({0., 90., 180., 270., 45., -30., 360.}) : G::r(-180, 360, 2);
  s.A.resize(9);
  for (auto& v : s.A) v = G::r(-2, 2, 4);
  if (s.A[0] == 0) s.A[0] = 1;
  s.rank = G::i(1, nvar);
  s.eps = G::pct(50) ? 0. : G::pick({0.1, 1.});
  s.how = G::pick<int>({0, 0, 1, 2, 3, 4, 5}); // 3: ranges then Rotation object, 4: ranges then rotation matrix, 5: as 0 then the whole Model goes through a neutral-file round trip
  return s;
}
static ModelCase genModel(int maxStruct, int flagRange)
{
  ModelCase m;
  m.ndim = G::i(1, 3);
  m.nvar = G::pick({1, 1, 1, 2, 2, 3});
  m.L = G::pick({1., 1., 1., 100., 1e4});
  m.flagRange = flagRange;
  int ns = (maxStruct <= 1) ? 1 : G::pick({1, 1, 1, 2, 2, 3});
  for (int k = 0; k < ns; k++) m.st.push_back(genStruct(m.ndim, m.nvar));
  return m;
}

// ------------------------------------------------------------------ building ------------
struct SInfo
{
  int type = 0;
  std::string key;
  double param = 0;
  bool hasParam = false;
  int minOrder = -1;
  int hasRange = 1;
  bool bigParam = false;
  std::array<double, 3> len{{1, 1, 1}};   // what was given to the library (scales or ranges)
  LD R[3][3];                             // rows: rotated axes u_i (harness's own composition)
  Eigen::MatrixXd sill;
  LD poly[3] = {0, 0, 0};                 // a + b h^2 + c h^4 (intrinsic structures)
  LD polyMag = 0;                         // magnitude of the values the polynomial was measured from
  bool beyondDecl = false;                // accepted by the constructors although ndim > getMaxNDim()
  std::string variant;                    // regime of the evaluation (see setVariant), part of the failure key
  std::array<double, 3> scaleLib{{1, 1, 1}}; // scales as reported by the library (geometry / regime only, never the oracle)
};
struct Built
{
  std::unique_ptr<Model> model;
  std::vector<SInfo> s;
  int ndim = 1, nvar = 1;
  int order = -1; // max getMinOrder
  std::string names;
};

static void ownAxes(int ndim, const std::vector<double>& angDeg, LD R[3][3])
{
  for (int i = 0; i < 3; i++)
    for (int j = 0; j < 3; j++) R[i][j] = (i == j) ? 1 : 0;
  if (ndim == 2)
  {
    LD a = (LD)angDeg[0] * PI_L / 180;
    R[0][0] = cosl(a); R[0][1] = sinl(a);
    R[1][0] = -sinl(a); R[1][1] = cosl(a);
  }
  else if (ndim == 3)
  {
    LD a = (LD)angDeg[0] * PI_L / 180, b = (LD)angDeg[1] * PI_L / 180, g = (LD)angDeg[2] * PI_L / 180;
    LD Rz[3][3] = {{cosl(a), -sinl(a), 0}, {sinl(a), cosl(a), 0}, {0, 0, 1}};
    LD Ry[3][3] = {{cosl(b), 0, sinl(b)}, {0, 1, 0}, {-sinl(b), 0, cosl(b)}};
    LD Rx[3][3] = {{1, 0, 0}, {0, cosl(g), -sinl(g)}, {0, sinl(g), cosl(g)}};
    LD T[3][3], M[3][3];
    for (int i = 0; i < 3; i++)
      for (int j = 0; j < 3; j++)
      {
        T[i][j] = 0;
        for (int k = 0; k < 3; k++) T[i][j] += Rz[i][k] * Ry[k][j];
      }
    for (int i = 0; i < 3; i++)
      for (int j = 0; j < 3; j++)
      {
        M[i][j] = 0;
        for (int k = 0; k < 3; k++) M[i][j] += T[i][k] * Rx[k][j];
      }
    // new axes = columns of M (z, then new y, then new x)
    for (int i = 0; i < 3; i++)
      for (int j = 0; j < 3; j++) R[i][j] = M[j][i];
  }
}

static std::string dimTag(int ndim) { return fmt("%dD", ndim); }
static std::string skey(const char* what, const SInfo& s, int ndim)
{
  std::string k = std::string(what) + ":" + s.key + ":" + dimTag(ndim);
  if (s.beyondDecl) k += ":undeclared-dim";
  if (s.bigParam) k += ":bigparam";
  k += s.variant;
  return k;
}

// returns false (with ctx.fail or a label) when the model could not be built
static bool buildModel(const ModelCase& c, Ctx& ctx, Built& B, int onlyStruct = -1)
{
  int ndim = c.ndim, nvar = c.nvar;
  B.ndim = ndim;
  B.nvar = nvar;
  B.order = -1;
  B.s.clear();
  B.names.clear();
  defineDefaultSpace(ESpaceType::RN, (unsigned)ndim);
  ctx.at("Model");
  B.model.reset(new Model(nvar, ndim));
  for (size_t k = 0; k < c.st.size(); k++)
  {
    if (onlyStruct >= 0 && (int)k != onlyStruct) continue;
    const StructCase& sc = c.st[k];
    const Adm* a = findAdm(ndim, sc.type);
    if (a == nullptr)
    {
      ctx.label("not-admitted");
      return false;
    }
    SInfo s;
    s.type = sc.type;
    s.key = a->key;
    s.minOrder = a->minOrder;
    s.hasParam = a->hasParam;
    s.hasRange = a->hasRange;
    s.beyondDecl = (a->declMaxNDim > 0 && ndim > a->declMaxNDim);
    LD dummy;
    if (!rhoPub(s.type, 0.5L, 1., dummy))
    {
      ctx.fail("no-oracle:" + s.key, "structure accepted by the library but unknown to the harness table");
      return false;
    }
    // third parameter over (0, getParMax]
    if (s.hasParam)
    {
      double P = a->parMax;
      if (P <= 0 || P > 1e29) P = 100.; // unbounded (COSEXP)
      double pu = std::min(1., std::max(sc.pu, 1e-6));
      if (sc.pmode == 0) s.param = std::min(P, 5.) * pu;
      else if (sc.pmode == 1) s.param = P * pu;
      else s.param = P * std::pow(10., -4. * (1. - pu));
      s.bigParam = (a->parMax >= 999. && s.param > 100.);
    }
    else
      s.param = 1.;
    // lengths, rotation
    for (int i = 0; i < 3; i++) s.len[(size_t)i] = sc.len0 * c.L * ((sc.how == 2) ? 1. : sc.ratio[(size_t)i]);
    std::vector<double> ang = sc.ang;
    if (ndim == 2) { ang[1] = 0; ang[2] = 0; }
    if (ndim == 1 || sc.how == 2 || s.hasRange == 0) ang = {0, 0, 0};
    ownAxes(ndim, ang, s.R);
    // sill = A A' (rank columns) + eps I
    s.sill = Eigen::MatrixXd::Zero(nvar, nvar);
    for (int i = 0; i < nvar; i++)
      for (int j = 0; j < nvar; j++)
      {
        double v = 0;
        for (int r = 0; r < std::min(sc.rank, nvar); r++) v += sc.A[(size_t)(i * 3 + r)] * sc.A[(size_t)(j * 3 + r)];
        s.sill(i, j) = v + ((i == j) ? sc.eps : 0.);
      }
    if (s.sill(0, 0) == 0) s.sill(0, 0) = 1.;
    for (int i = 0; i < nvar; i++)
      for (int j = 0; j < i; j++) // keep it PSD after the touch above: A A' has |s_ij| <= sqrt(s_ii s_jj)
        if (s.sill(i, i) == 0 || s.sill(j, j) == 0) s.sill(i, j) = s.sill(j, i) = 0;

    VectorDouble lens, angles, sills;
    for (int i = 0; i < ndim; i++) lens.push_back(s.len[(size_t)i]);
    if (ndim >= 2)
      for (int i = 0; i < ndim; i++) angles.push_back(ang[(size_t)i]);
    for (int i = 0; i < nvar; i++)
      for (int j = 0; j < nvar; j++) sills.push_back(s.sill(i, j));
    ECov type = ECov::fromValue(s.type);
    if (c.flagRange != 0 && s.hasRange != 0)
    {
      // range -> scale conversion of the library: scales below 1e-10 (isotropic) / 1e-20 are refused ("A scale should not be too small",
      // "Ellipsoid radius cannot be null"): a documented rejection, outside the generated domain
      double scadef = CovFactory::getScaleFactor(type, s.param);
      double minlen = s.len[0];
      for (int i = 0; i < ndim; i++) minlen = std::min(minlen, s.len[(size_t)i]);
      if (!std::isfinite(scadef) || !(scadef > 0) || !(minlen / scadef > 1e-9))
      {
        ctx.label("degenerate-range2scale");
        return false;
      }
    }
    int before = B.model->getCovaNumber();
    ctx.at(std::string("addCov:") + s.key);
    if (sc.how == 0 || sc.how == 5)
      B.model->addCovFromParam(type, 0., 0., s.param, lens, sills, angles, c.flagRange != 0);
    else if (sc.how == 3 || sc.how == 4)
    {
      // anisotropy first, rotation supplied afterwards as a Rotation object / a rotation matrix
      B.model->addCovFromParam(type, 0., 0., s.param, lens, sills, VectorDouble(), c.flagRange != 0);
      if (B.model->getCovaNumber() == before + 1 && !angles.empty())
      {
        Rotation rot((unsigned int)ndim);
        rot.setAngles(angles);
        if (sc.how == 3) B.model->getCova(before)->setAnisoRotation(rot);
        else B.model->getCova(before)->setAnisoRotation(rot.getMatrixDirectVec());
      }
    }
    else if (sc.how == 2)
      B.model->addCovFromParam(type, lens[0], 0., s.param, VectorDouble(), sills, VectorDouble(), c.flagRange != 0);
    else
    {
      MatrixSquareSymmetric S(nvar);
      for (int i = 0; i < nvar; i++)
        for (int j = 0; j <= i; j++) S.setValue(i, j, s.sill(i, j));
      CovContext cctxt(B.model->getContext());
      std::unique_ptr<CovAniso> cov(CovAniso::createAnisotropicMulti(cctxt, type, lens, S, s.param, angles, c.flagRange != 0));
      if (cov) B.model->addCov(cov.get());
    }
    if (B.model->getCovaNumber() != before + 1)
    {
      ctx.fail(skey("build", s, ndim), "the structure is listed for this dimension but could not be added to a Model");
      return false;
    }
    if (s.hasRange != 0)
    {
      VectorDouble sl = B.model->getCova(before)->getScales();
      for (int i = 0; i < ndim; i++) s.scaleLib[(size_t)i] = sl[(size_t)i];
    }
    B.order = std::max(B.order, s.minOrder);
    if (!B.names.empty()) B.names += "+";
    B.names += s.key;
    B.s.push_back(s);
  }
  bool viaNF = false;
  for (auto& sc : c.st) viaNF = viaNF || sc.how == 5;
  // (the neutral file stores ranges = scale x scadef(param): for extreme third parameters that factor over/underflows,
  //  which is C08's concern; the path is only taken when every conversion factor is moderate)
  for (auto& si : B.s)
    if (si.hasRange != 0)
    {
      double scadef = CovFactory::getScaleFactor(ECov::fromValue(si.type), si.param);
      if (!std::isfinite(scadef) || scadef < 1e-3 || scadef > 1e3) viaNF = false;
    }
  if (viaNF && !B.s.empty() && onlyStruct < 0)
  {
    // the model actually evaluated is the one read back from its neutral-file text
    ctx.at("model:nf-roundtrip");
    std::stringstream ss;
    if (B.model->serialize(ss, false))
    {
      std::unique_ptr<Model> m2(new Model());
      if (m2->deserialize(ss, false) && m2->getCovaNumber() == B.model->getCovaNumber())
      {
        B.model = std::move(m2);
        ctx.label("built-via-neutral-file");
      }
    }
  }
  return !B.s.empty();
}

// normalised distance of structure s for the increment d, with the harness's own axes; the lengths used
// are those in 'len' (scales for the value check, ranges for the support check)
static LD normDist(const SInfo& s, int ndim, const double* d, const std::array<double, 3>& len)
{
  LD h2 = 0;
  for (int i = 0; i < ndim; i++)
  {
    LD proj = 0;
    for (int j = 0; j < ndim; j++) proj += s.R[i][j] * (LD)d[j];
    LD l = (s.hasRange == 0) ? 1 : (LD)len[(size_t)i];
    h2 += (proj / l) * (proj / l);
  }
  return sqrtl(h2);
}

// Regime of an evaluation, as a key variant, for the structures whose implementation switches behaviour with
// the normalised distance: BESSELJ beyond the table limit (h > 1e4), MATERN beyond the reach of
// std::cyl_bessel_k (h > 1e6), SPLINE_GC below its small-distance guard (0 < h < 1e-4 * field).
// minPosH / maxH: smallest positive and largest normalised distance of the structure in the case.
static void setVariant(SInfo& s, int ndim, LD minPosH, LD maxH)
{
  s.variant.clear();
  if (s.type == T_BESSELJ && maxH > 1e4L) s.variant = ":far";
  if (s.type == T_MATERN && maxH > 1e6L) s.variant = ":far";
  if (s.type == T_SPLINE_GC)
  {
    double field = 0;
    for (int i = 0; i < ndim; i++) field = std::max(field, s.scaleLib[(size_t)i]);
    if (minPosH > 0 && minPosH < 1.0001e-4L * (LD)field) s.variant = ":small-h-guard";
  }
}
static void setVariantsFromPoints(Built& B, int ndim, const std::vector<std::array<double, 3>>& pts)
{
  for (auto& s : B.s)
  {
    s.variant.clear();
    if (s.type != T_BESSELJ && s.type != T_MATERN && s.type != T_SPLINE_GC) continue;
    LD mn = 0, mx = 0;
    for (size_t i = 0; i < pts.size(); i++)
      for (size_t j = i + 1; j < pts.size(); j++)
      {
        double d[3] = {pts[j][0] - pts[i][0], pts[j][1] - pts[i][1], pts[j][2] - pts[i][2]};
        LD h2 = 0;
        for (int a = 0; a < ndim; a++)
        {
          LD proj = 0;
          for (int b = 0; b < ndim; b++) proj += s.R[a][b] * (LD)d[b];
          proj /= (LD)s.scaleLib[(size_t)a];
          h2 += proj * proj;
        }
        LD h = sqrtl(h2);
        mx = std::max(mx, h);
        if (h > 0 && (mn == 0 || h < mn)) mn = h;
      }
    setVariant(s, ndim, mn, mx);
  }
}
// library call which may throw: returns false and the message
template<class F> static bool guarded(F f, std::string& what)
{
  try { f(); return true; }
  catch (const LibExit&) { throw; }
  catch (const rc::detail::CaseResult&) { throw; }
  catch (const std::exception& e) { what = e.what(); return false; }
}

// the even polynomial added by the library to an intrinsic structure, measured on the basic function
static bool measurePoly(const Built& B, size_t k, SInfo& s)
{
  int deg = polyDeg(s.type);
  s.poly[0] = s.poly[1] = s.poly[2] = 0;
  if (deg < 0) return true;
  const ACovFunc* f = B.model->getCova((int)k)->getCova();
  LD r0, r1, r2;
  const LD x1 = 16, x2 = 32; // nodes (powers of two; beyond every small-distance guard of the library)
  rhoPub(s.type, 0, s.param, r0);
  rhoPub(s.type, x1, s.param, r1);
  rhoPub(s.type, x2, s.param, r2);
  LD d0 = (LD)f->evalCov(0.) - r0, d1 = (LD)f->evalCov((double)x1) - r1, d2 = (LD)f->evalCov((double)x2) - r2;
  s.poly[0] = d0;
  s.polyMag = fabsl(d0) + fabsl(r0);
  if (deg >= 2) s.polyMag += fabsl(d1) + fabsl(r1);
  if (deg == 2) s.poly[1] = (d1 - d0) / (x1 * x1);
  if (deg == 4)
  {
    s.polyMag += fabsl(d2) + fabsl(r2);
    LD e1 = d1 - d0, e2 = d2 - d0;
    s.poly[2] = (e2 - 4 * e1) / (12 * x1 * x1 * x1 * x1);
    s.poly[1] = (e1 - s.poly[2] * x1 * x1 * x1 * x1) / (x1 * x1);
  }
  return std::isfinite((double)d0) && std::isfinite((double)d1) && std::isfinite((double)d2);
}

static void commonLabels(const ModelCase& c, const Built& B, Ctx& ctx)
{
  ctx.label(fmt("ndim:%d", c.ndim));
  ctx.label(fmt("nvar:%d", c.nvar));
  ctx.label(fmt("nstruct:%d", (int)B.s.size()));
  for (auto& s : B.s) ctx.label("struct:" + s.key + ":" + dimTag(c.ndim) + (s.beyondDecl ? ":undeclared-dim" : ""));
  bool aniso = false;
  for (size_t k = 0; k < c.st.size(); k++)
    if (c.st[k].how != 2 && c.ndim > 1 && (c.st[k].ratio[1] != 1 || (c.ndim > 2 && c.st[k].ratio[2] != 1))) aniso = true;
  ctx.nontrivial(c.ndim >= 2 || aniso || c.nvar >= 2 || B.s.size() >= 2);
}
static uint64_t modelSig(const ModelCase& c, const Built& B)
{
  Hash h;
  h.add(c.ndim).add(c.nvar);
  for (auto& s : B.s)
  {
    h.add(s.key);
    char b[32];
    snprintf(b, sizeof b, "%.1e", s.param);
    h.add(std::string(b));
  }
  return h.h;
}

// ================================================================== (a) values =========
struct PairSpec
{
  int kind = 2;   // 0: zero increment, 1: along rotated axis 'axis' of structure 'ks', 2: free direction
  int ks = 0, axis = 0;
  double t = 1;   // normalised length (units of the scale of structure ks)
  std::vector<double> dir;    // free direction (3)
  std::vector<double> origin; // in units of L (3)
  int ivar = 0, jvar = 0;
  template<class Ar> void io(Ar& a)
  {
    a("kind", kind)("ks", ks)("axis", axis)("t", t)("dir", dir)("origin", origin)("ivar", ivar)("jvar", jvar);
  }
};
static PairSpec genPair(double tlo, double thi)
{
  PairSpec p;
  p.kind = G::pick({0, 1, 1, 2, 2, 2});
  p.ks = G::i(0, 2);
  p.axis = G::i(0, 2);
  p.t = G::lu(tlo, thi);
  p.dir = {G::r(-1, 1, 8), G::r(-1, 1, 8), G::r(-1, 1, 8)};
  p.origin = {G::r(-100, 100, 4), G::r(-100, 100, 4), G::r(-100, 100, 4)};
  if (G::pct(15)) for (auto& o : p.origin) o *= 100;
  p.ivar = G::i(0, 2);
  p.jvar = G::i(0, 2);
  return p;
}
// concrete end points of a pair: p2 = p1 + t * (unit vector in the frame of structure ks) * its lengths
static void pairPoints(const PairSpec& p, const ModelCase& c, const Built& B, VectorDouble& x1, VectorDouble& x2)
{
  int ndim = c.ndim;
  const SInfo& s = B.s[(size_t)p.ks % B.s.size()];
  x1 = VectorDouble((size_t)ndim, 0.);
  x2 = VectorDouble((size_t)ndim, 0.);
  LD w[3] = {0, 0, 0}; // coordinates in the rotated, normalised frame
  if (p.kind == 1) w[p.axis % ndim] = 1;
  else if (p.kind == 2)
  {
    LD n = 0;
    for (int i = 0; i < ndim; i++) { w[i] = (LD)p.dir[(size_t)i]; n += w[i] * w[i]; }
    if (n == 0) { w[0] = 1; n = 1; }
    for (int i = 0; i < ndim; i++) w[i] /= sqrtl(n);
  }
  for (int j = 0; j < ndim; j++)
  {
    LD d = 0;
    if (p.kind != 0)
      for (int i = 0; i < ndim; i++) d += (LD)p.t * w[i] * (LD)((s.hasRange == 0) ? c.L : s.len[(size_t)i]) * s.R[i][j];
    x1[(size_t)j] = p.origin[(size_t)j] * c.L;
    x2[(size_t)j] = (double)((LD)x1[(size_t)j] + d);
  }
  // distinct points stay clearly distinct (the nugget effect is a discontinuity at 0)
  if (p.kind != 0)
  {
    double dd = 0;
    for (int j = 0; j < ndim; j++) dd += (x2[(size_t)j] - x1[(size_t)j]) * (x2[(size_t)j] - x1[(size_t)j]);
    if (std::sqrt(dd) < 1e-6 * c.L) x2[0] = x1[0] + 1e-3 * c.L;
  }
}

struct ValueCase
{
  ModelCase m;
  std::vector<PairSpec> pairs;
  template<class Ar> void io(Ar& a) { a("m", m)("pairs", pairs); }
};
static ValueCase genValue()
{
  ValueCase c;
  c.m = genModel(3, 0);
  int np = G::sz(1, 6);
  for (int k = 0; k < np; k++) c.pairs.push_back(genPair(0.01, 30.));
  return c;
}

// oracle value of the model for the increment d
static bool oracleValue(const Built& B, int ndim, const double* d, int iv, int jv, LD& val, LD& scale,
                        std::string* worst = nullptr)
{
  val = 0;
  scale = 0;
  for (auto& s : B.s)
  {
    LD h = normDist(s, ndim, d, s.len);
    LD r;
    if (!rhoPub(s.type, h, s.param, r)) return false;
    LD h2 = h * h;
    LD full = r + s.poly[0] + s.poly[1] * h2 + s.poly[2] * h2 * h2;
    LD mag = std::max({(LD)1, fabsl(r), fabsl(s.poly[0]), fabsl(s.poly[1] * h2), fabsl(s.poly[2] * h2 * h2)});
    // rounding of the measured polynomial, amplified when it is extrapolated beyond its nodes
    LD amp = std::max((LD)1, powl(h / 32, polyDeg(s.type) < 0 ? 0 : polyDeg(s.type)));
    mag += 1e-4L * s.polyMag * amp; // i.e. 1e-13 relative to the node values after the 1e-9 factor
    val += (LD)s.sill(iv, jv) * full;
    scale += fabsl((LD)s.sill(iv, jv)) * mag;
    if (worst) *worst += fmt(" %s(h=%.6Lg,p=%g)=%.12Lg", s.key.c_str(), h, s.param, full);
  }
  return true;
}

static void runValue(const ValueCase& c, Ctx& ctx)
{
  Built B;
  if (!buildModel(c.m, ctx, B)) return;
  commonLabels(c.m, B, ctx);
  ctx.sig = modelSig(c.m, B);
  int ndim = c.m.ndim, nvar = c.m.nvar;
  for (size_t k = 0; k < B.s.size(); k++)
    if (!measurePoly(B, k, B.s[k]))
    {
      ctx.fail(skey("nonfinite", B.s[k], ndim), "basic function is not finite at h = 0, 1 or 2");
      return;
    }
  const ASpace* space = B.model->getContext().getSpace();
  for (auto& p : c.pairs)
  {
    VectorDouble x1, x2;
    pairPoints(p, c.m, B, x1, x2);
    double d[3] = {0, 0, 0};
    for (int j = 0; j < ndim; j++) d[j] = x2[(size_t)j] - x1[(size_t)j];
    int iv = p.ivar % nvar, jv = p.jvar % nvar;
    LD want, scale;
    std::string detail;
    oracleValue(B, ndim, d, iv, jv, want, scale, &detail);
    SpacePoint P1(x1, -1, space), P2(x2, -1, space);
    for (auto& s : B.s)
    {
      LD h = normDist(s, ndim, d, s.len);
      setVariant(s, ndim, h, h);
    }
    // the structure to blame in the key: the only one, or the one which disagrees (or throws) when evaluated alone
    auto blame = [&]() -> const SInfo& {
      if (B.s.size() == 1) return B.s[0];
      for (size_t k = 0; k < B.s.size(); k++)
      {
        LD h = normDist(B.s[k], ndim, d, B.s[k].len), r;
        rhoPub(B.s[k].type, h, B.s[k].param, r);
        LD full = r + B.s[k].poly[0] + B.s[k].poly[1] * h * h + B.s[k].poly[2] * h * h * h * h;
        double one = 0;
        std::string w;
        if (!guarded([&]() { one = B.model->getCova((int)k)->eval(P1, P2, iv, jv, nullptr); }, w)) return B.s[k];
        LD mag = std::max({(LD)1, fabsl(full), fabsl(B.s[k].poly[0])});
        if (!(fabsl((LD)one - (LD)B.s[k].sill(iv, jv) * full) <= 1e-9L * fabsl((LD)B.s[k].sill(iv, jv)) * mag + 1e-300L)) return B.s[k];
      }
      return B.s[0];
    };
    ctx.at("Model::eval");
    double got = 0;
    std::string thrown;
    if (!guarded([&]() { got = B.model->eval(P1, P2, iv, jv, nullptr); }, thrown))
    {
      ctx.fail(skey("exception", blame(), ndim), "Model::eval throws: " + thrown + ";" + detail);
      return;
    }
    if (!std::isfinite(got))
    {
      ctx.fail(skey("nonfinite", blame(), ndim), fmt("Model::eval returns %g; expected %.12Lg;%s", got, want, detail.c_str()));
      return;
    }
    LD tol = 1e-9L * scale + 1e-300L;
    if (!(fabsl((LD)got - want) <= tol))
    {
      ctx.fail(skey("value", blame(), ndim),
               fmt("Model::eval(ivar=%d,jvar=%d) = %.15g, closed form = %.15Lg (diff %.3Lg, tol %.3Lg);%s", iv, jv, got,
                   want, (LD)got - want, tol, detail.c_str()));
      return;
    }
    // same increment through evalIvarIpas (origin of the space + step * direction)
    double nd = 0;
    for (int j = 0; j < ndim; j++) nd += d[j] * d[j];
    nd = std::sqrt(nd);
    if (nd > 0)
    {
      VectorDouble dir((size_t)ndim);
      for (int j = 0; j < ndim; j++) dir[(size_t)j] = d[j] / nd;
      double d2[3] = {0, 0, 0};
      for (int j = 0; j < ndim; j++) d2[j] = nd * dir[(size_t)j] - 0.;
      LD want2, scale2;
      oracleValue(B, ndim, d2, iv, jv, want2, scale2);
      ctx.at("Model::evalIvarIpas");
      double got2 = B.model->evalIvarIpas(nd, dir, iv, jv, nullptr);
      if (!(fabsl((LD)got2 - want2) <= 1e-9L * scale2 + 1e-300L))
      {
        ctx.fail(skey("value-ipas", blame(), ndim),
                 fmt("Model::evalIvarIpas = %.15g, closed form = %.15Lg", got2, want2));
        return;
      }
    }
  }
}
VERIF_SUB(value, ValueCase, genValue, runValue);

// ================================================================== (a') ranges ========
// flagRange=true: the lengths given are ranges along the rotated axes; read back, compact structures
// vanish there, structures which claim a practical range are at 5 % of the sill there.
struct RangeCase
{
  ModelCase m; // one structure, nvar = 1
  int path = 0; // 0: Model::addCovFromParam(ranges), 1: CovAniso::createAnisotropic, 2: CovAniso ctor (isotropic)
  int axis = 0;
  template<class Ar> void io(Ar& a) { a("m", m)("path", path)("axis", axis); }
};
static RangeCase genRange()
{
  RangeCase c;
  c.m = genModel(1, 1);
  c.m.nvar = 1;
  c.m.st[0].rank = 1;
  c.path = G::i(0, 2);
  c.axis = G::i(0, 2);
  return c;
}
static void runRange(const RangeCase& c, Ctx& ctx)
{
  ModelCase mc = c.m;
  mc.nvar = 1;
  mc.flagRange = 1;
  mc.st.resize(1);
  mc.st[0].how = (c.path == 2) ? 2 : 0;
  Built B;
  if (!buildModel(mc, ctx, B)) return; // gives the structure description (and the addCovFromParam path)
  SInfo& s = B.s[0];
  int ndim = mc.ndim;
  commonLabels(mc, B, ctx);
  ctx.label(fmt("path:%d", c.path));
  ctx.sig = modelSig(mc, B);
  if (s.hasRange == 0) { ctx.label("no-range"); return; }
  ECov type = ECov::fromValue(s.type);
  double sill = s.sill(0, 0);
  std::unique_ptr<CovAniso> own;
  const CovAniso* cov = nullptr;
  VectorDouble lens, angles;
  for (int i = 0; i < ndim; i++) lens.push_back(s.len[(size_t)i]);
  if (ndim >= 2) for (int i = 0; i < ndim; i++) angles.push_back((ndim == 2 && i > 0) ? 0. : mc.st[0].ang[(size_t)i]);
  CovContext cctxt(B.model->getContext());
  const char* pname = "addCovFromParam";
  if (c.path == 0) cov = B.model->getCova(0);
  else if (c.path == 1)
  {
    ctx.at("CovAniso::createAnisotropic");
    pname = "createAnisotropic";
    own.reset(CovAniso::createAnisotropic(cctxt, type, lens, sill, s.param, angles, true));
    cov = own.get();
  }
  else
  {
    ctx.at("CovAniso::CovAniso(range)");
    pname = "ctor";
    own.reset(new CovAniso(type, lens[0], s.param, sill, cctxt, true));
    cov = own.get();
  }
  if (cov == nullptr) { ctx.fail(skey("build", s, ndim), "constructor returned null"); return; }
  // 1. the ranges read back are the ranges given
  VectorDouble back = cov->getRanges();
  for (int i = 0; i < ndim; i++)
    if (!close(back[(size_t)i], s.len[(size_t)i], 1e-10, 0))
    {
      ctx.fail(std::string("range-readback:") + pname + ":" + s.key,
               fmt("range %d given %.12g, getRanges() = %.12g (param %g)", i, s.len[(size_t)i], back[(size_t)i], s.param));
      return;
    }
  // 2. value at exactly one range along rotated axis i
  int ax = c.axis % ndim;
  VectorDouble x1((size_t)ndim, 0.), x2((size_t)ndim, 0.);
  for (int j = 0; j < ndim; j++) x2[(size_t)j] = (double)((LD)s.len[(size_t)ax] * s.R[ax][j]);
  const ASpace* space = B.model->getContext().getSpace();
  SpacePoint P1(x1, -1, space), P2(x2, -1, space);
  ctx.at("CovAniso::eval");
  double v = cov->eval(P1, P2, 0, 0, nullptr);
  double v0 = cov->eval0(0, 0, nullptr);
  double ratio = v / v0;
  if (!std::isfinite(v) || !std::isfinite(v0))
  {
    ctx.fail(skey("nonfinite", s, ndim), fmt("C(range) = %g, C(0) = %g (param %g)", v, v0, s.param));
    return;
  }
  if (cov->getScadef() > 1e6) { ctx.label("huge-scadef"); return; }
  if (s.type == T_GAMMA && s.param < 0.05) { ctx.label("gamma-small-param"); return; } // CovGamma::getScadef documents this guard
  bool claims = cov->isAsymptotic(); // getScadef() != 1 : the structure converts ranges into scales
  if (isCompact(s.type))
  {
    if (!(std::fabs(v) <= 1e-9 * std::fabs(v0)))
      ctx.fail(skey("range-compact", s, ndim), fmt("C(range along axis %d)/C(0) = %g, expected 0", ax, ratio));
  }
  else if (claims && s.minOrder < 0)
  {
    double hi = 0.0501, lo = -0.0501;
    if (s.type == T_EXPONENTIAL || s.type == T_GAUSSIAN || s.type == T_GAMMA || s.type == T_CAUCHY || s.type == T_STABLE)
      lo = 0.0495;
    if (s.type == T_MATERN) { hi = 0.15; lo = 0.; } // sqrt(12 nu) is only an approximation of the 5 % distance
    if (!(ratio <= hi && ratio >= lo))
      ctx.fail(skey("range-practical", s, ndim),
               fmt("C(range along axis %d)/C(0) = %.6g (param %g, path %s), expected about 0.05", ax, ratio, s.param, pname));
  }
}
VERIF_SUB(range, RangeCase, genRange, runRange);

// ================================================================== (b) relations ======
struct RelCase
{
  ModelCase m;
  std::vector<PairSpec> pairs;
  template<class Ar> void io(Ar& a) { a("m", m)("pairs", pairs); }
};
static RelCase genRel()
{
  RelCase c;
  c.m = genModel(3, 1);
  int np = G::sz(1, 6);
  for (int k = 0; k < np; k++) c.pairs.push_back(genPair(0.01, 10.));
  return c;
}
static void runRel(const RelCase& c, Ctx& ctx)
{
  Built B;
  if (!buildModel(c.m, ctx, B)) return;
  commonLabels(c.m, B, ctx);
  ctx.sig = modelSig(c.m, B);
  int ndim = c.m.ndim, nvar = c.m.nvar;
  const ASpace* space = B.model->getContext().getSpace();
  CovCalcMode vario(ECalcMember::LHS, true);
  // the ranges as the library reports them (support statement: "vanish beyond their range")
  for (auto& p : c.pairs)
  {
    VectorDouble x1, x2;
    pairPoints(p, c.m, B, x1, x2);
    int iv = p.ivar % nvar, jv = p.jvar % nvar;
    SpacePoint P1(x1, -1, space), P2(x2, -1, space);
    // regime variants, and exceptions thrown by a structure (keyed by the structure)
    {
      double d[3] = {0, 0, 0};
      for (int j = 0; j < ndim; j++) d[j] = x2[(size_t)j] - x1[(size_t)j];
      bool threw = false;
      for (size_t k = 0; k < B.s.size() && !threw; k++)
      {
        LD h = normDist(B.s[k], ndim, d, B.s[k].scaleLib);
        setVariant(B.s[k], ndim, h, h);
        std::string w;
        ctx.at("CovAniso::eval");
        if (!guarded([&]() { B.model->getCova((int)k)->eval(P1, P2, iv, jv, nullptr); }, w))
        {
          ctx.fail(skey("exception", B.s[k], ndim), "CovAniso::eval throws: " + w);
          threw = true;
        }
      }
      if (threw) return;
    }
    ctx.at("Model::eval");
    double c12 = B.model->eval(P1, P2, iv, jv, nullptr);
    double c21 = B.model->eval(P2, P1, iv, jv, nullptr);
    double ct = B.model->eval(P1, P2, jv, iv, nullptr);
    double c0 = B.model->eval0(iv, jv, nullptr);
    double c11 = B.model->eval(P1, P1, iv, jv, nullptr);
    double cii = B.model->eval0(iv, iv, nullptr), cjj = B.model->eval0(jv, jv, nullptr);
    // magnitude of the terms which are summed (for the rounding allowance)
    double mag = 0;
    for (size_t k = 0; k < B.s.size(); k++)
    {
      const CovAniso* ca = B.model->getCova((int)k);
      mag += std::fabs(ca->eval(P1, P2, iv, jv, nullptr)) + std::fabs(ca->eval0(iv, jv, nullptr));
    }
    const SInfo& s0 = B.s[0];
    std::string suffix = (B.s.size() == 1) ? skey("", s0, ndim) : ":sum:" + dimTag(ndim);
    if (!std::isfinite(c12) || !std::isfinite(c0))
    {
      std::string sf = suffix;
      for (size_t k = 0; k < B.s.size(); k++)
        if (!std::isfinite(B.model->getCova((int)k)->eval(P1, P2, iv, jv, nullptr)))
        {
          sf = skey("", B.s[k], ndim);
          break;
        }
      ctx.fail("nonfinite" + sf, fmt("C(h) = %g, C(0) = %g", c12, c0));
      return;
    }
    double tol = 1e-12 * mag + 1e-300;
    if (!(std::fabs(c12 - c21) <= tol)) { ctx.fail("even" + suffix, fmt("C(h) = %.17g but C(-h) = %.17g", c12, c21)); return; }
    if (!(std::fabs(c12 - ct) <= tol)) { ctx.fail("transpose" + suffix, fmt("C_ij(h) = %.17g but C_ji(h) = %.17g", c12, ct)); return; }
    if (!(std::fabs(c0 - c11) <= tol)) { ctx.fail("eval0" + suffix, fmt("eval0 = %.17g but eval(p,p) = %.17g", c0, c11)); return; }
    if (B.order < 0)
    {
      double bound = (iv == jv) ? c0 : std::sqrt(std::max(0., cii) * std::max(0., cjj));
      if (!(std::fabs(c12) <= bound * (1 + 1e-12) + tol))
      {
        ctx.fail("bound" + suffix, fmt("|C_%d%d(h)| = %.17g exceeds %.17g", iv, jv, std::fabs(c12), bound));
        return;
      }
    }
    ctx.at("Model::eval(asVario)");
    double g = B.model->eval(P1, P2, iv, jv, &vario);
    if (!(std::fabs(g - (c0 - c12)) <= 1e-11 * mag + 1e-300))
    {
      ctx.fail("vario" + suffix, fmt("variogram mode gives %.17g, C(0)-C(h) = %.17g", g, c0 - c12));
      return;
    }
  }
  // compact support, structure by structure: beyond the range along each rotated axis and in free directions
  for (size_t k = 0; k < B.s.size(); k++)
  {
    const SInfo& s = B.s[k];
    if (!isCompact(s.type)) continue;
    ctx.label("compact:" + s.key);
    const CovAniso* ca = B.model->getCova((int)k);
    VectorDouble rg = ca->getRanges(); // the ranges the library reports for this structure
    for (auto& p : c.pairs)
    {
      if (p.kind == 0) continue;
      // direction w in the rotated frame, distance t>1 in units of the range
      LD w[3] = {0, 0, 0};
      if (p.kind == 1) w[p.axis % ndim] = 1;
      else
      {
        LD n = 0;
        for (int i = 0; i < ndim; i++) { w[i] = (LD)p.dir[(size_t)i]; n += w[i] * w[i]; }
        if (n == 0) { w[0] = 1; n = 1; }
        for (int i = 0; i < ndim; i++) w[i] /= sqrtl(n);
      }
      double t = 1.0001 + p.t; // just outside ... 10 ranges away
      if (p.ks % 2 == 0) t = 1.0001 + p.t / 100.;
      VectorDouble x1((size_t)ndim), x2((size_t)ndim);
      for (int j = 0; j < ndim; j++)
      {
        LD d = 0;
        for (int i = 0; i < ndim; i++) d += (LD)t * w[i] * (LD)rg[(size_t)i] * s.R[i][j];
        x1[(size_t)j] = p.origin[(size_t)j] * c.m.L / 100.;
        x2[(size_t)j] = (double)((LD)x1[(size_t)j] + d);
      }
      SpacePoint P1(x1, -1, space), P2(x2, -1, space);
      ctx.at("CovAniso::eval");
      int iv = p.ivar % nvar;
      double v = ca->eval(P1, P2, iv, iv, nullptr);
      double v0 = ca->eval0(iv, iv, nullptr);
      if (!(std::fabs(v) <= 1e-12 * std::fabs(v0)))
      {
        ctx.fail(skey("support", s, ndim), fmt("C = %.6g (C(0) = %g) at %.6g ranges from the origin (ranges as reported by getRanges())", v, v0, t));
        return;
      }
    }
  }
}
VERIF_SUB(relations, RelCase, genRel, runRel);

// ================================================================== (c) PSD ============
struct PsdCase
{
  ModelCase m;
  int layout = 0;            // 0: lattice along the rotated axes of structure 0, 1: lattice along the coordinate axes,
                             // 2: clustered, 3: random
  std::vector<int> nn;       // lattice counts
  double f = 1;              // lattice spacing / scale
  double box = 1;            // extension of random/clustered sets, in scales
  int npts = 4;
  int ncl = 2;
  double clr = 0.05;
  std::vector<double> uvw;   // raw uniform numbers
  std::vector<double> origin;
  template<class Ar> void io(Ar& a)
  {
    a("m", m)("layout", layout)("nn", nn)("f", f)("box", box)("npts", npts)("ncl", ncl)("clr", clr)("uvw", uvw)("origin", origin);
  }
};
static PsdCase genPsd()
{
  PsdCase c;
  c.m = genModel(3, G::i(0, 1));
  if (G::pct(70)) c.m.L = 1.;
  c.layout = G::pick({0, 0, 1, 1, 2, 3});
  int ndim = c.m.ndim;
  int cap = (ndim == 1) ? 64 : (ndim == 2 ? 8 : 4);
  c.nn = {1, 1, 1};
  for (int i = 0; i < ndim; i++) c.nn[(size_t)i] = G::sz(ndim == 1 ? 3 : 2, cap);
  c.f = G::lu(0.05, 3.);
  c.box = G::lu(0.2, 20.);
  c.npts = G::sz(3, 64);
  c.ncl = G::i(1, 5);
  c.clr = G::lu(0.001, 0.3);
  c.origin = {G::r(-50, 50, 2), G::r(-50, 50, 2), G::r(-50, 50, 2)};
  if (c.layout >= 2)
  {
    c.uvw.resize((size_t)(c.npts * 3 + c.ncl * 3 + c.npts));
    for (auto& v : c.uvw) v = G::u(0, 1);
  }
  return c;
}

// points of the case, given the reference lengths and axes
static void psdPoints(const PsdCase& c, const std::array<double, 3>& sc, const LD R[3][3], std::vector<std::array<double, 3>>& pts)
{
  int ndim = c.m.ndim;
  pts.clear();
  double smax = 0;
  for (int i = 0; i < ndim; i++) smax = std::max(smax, sc[(size_t)i]);
  std::array<double, 3> o{{0, 0, 0}};
  for (int j = 0; j < ndim; j++) o[(size_t)j] = c.origin[(size_t)j] * smax;
  if (c.layout <= 1)
  {
    for (int a = 0; a < c.nn[0]; a++)
      for (int b = 0; b < (ndim >= 2 ? c.nn[1] : 1); b++)
        for (int d = 0; d < (ndim >= 3 ? c.nn[2] : 1); d++)
        {
          int idx[3] = {a, b, d};
          std::array<double, 3> x = o;
          if (c.layout == 0)
          {
            for (int j = 0; j < ndim; j++)
            {
              LD v = 0;
              for (int i = 0; i < ndim; i++) v += (LD)idx[i] * (LD)c.f * (LD)sc[(size_t)i] * R[i][j];
              x[(size_t)j] = (double)((LD)o[(size_t)j] + v);
            }
          }
          else
            for (int j = 0; j < ndim; j++) x[(size_t)j] = o[(size_t)j] + idx[j] * c.f * smax;
          pts.push_back(x);
        }
  }
  else
  {
    size_t q = 0;
    auto nextu = [&]() { return (q < c.uvw.size()) ? c.uvw[q++] : 0.5; };
    std::vector<std::array<double, 3>> cen;
    for (int k = 0; k < c.ncl; k++)
    {
      std::array<double, 3> x{{0, 0, 0}};
      for (int j = 0; j < 3; j++) x[(size_t)j] = nextu();
      cen.push_back(x);
    }
    for (int k = 0; k < c.npts; k++)
    {
      std::array<double, 3> x = o;
      double u[3] = {nextu(), nextu(), nextu()};
      double pick = nextu();
      for (int j = 0; j < ndim; j++)
      {
        double v;
        if (c.layout == 3) v = u[j];
        else v = cen[(size_t)(pick * c.ncl) % cen.size()][(size_t)j] + c.clr * (u[j] - 0.5);
        x[(size_t)j] = o[(size_t)j] + v * c.box * smax;
      }
      pts.push_back(x);
    }
  }
}

// monomials of total degree <= k at the (centred, scaled) points
static Eigen::MatrixXd monomials(const std::vector<std::array<double, 3>>& pts, int ndim, int k)
{
  int n = (int)pts.size();
  std::array<double, 3> mean{{0, 0, 0}};
  double ext = 0;
  for (auto& p : pts) for (int j = 0; j < ndim; j++) mean[(size_t)j] += p[(size_t)j] / n;
  for (auto& p : pts) for (int j = 0; j < ndim; j++) ext = std::max(ext, std::fabs(p[(size_t)j] - mean[(size_t)j]));
  if (ext == 0) ext = 1;
  std::vector<std::array<int, 3>> exps;
  for (int a = 0; a <= k; a++)
    for (int b = 0; b <= (ndim >= 2 ? k - a : 0); b++)
      for (int d = 0; d <= (ndim >= 3 ? k - a - b : 0); d++) exps.push_back({{a, b, d}});
  Eigen::MatrixXd F(n, (int)exps.size());
  for (int i = 0; i < n; i++)
    for (size_t m = 0; m < exps.size(); m++)
    {
      double v = 1;
      for (int j = 0; j < ndim; j++) v *= std::pow((pts[(size_t)i][(size_t)j] - mean[(size_t)j]) / ext, exps[m][(size_t)j]);
      F(i, (int)m) = v;
    }
  return F;
}

struct PsdResult
{
  bool ok = true, tested = false, finite = true, threw = false;
  double lmin = 0, lmax = 0, normK = 0;
  int n = 0;
  std::string msg;
};
// conditional positive semi-definiteness of the covariance matrix of 'model' at the points of db
static PsdResult psdTest(Model& model, Db* db, const std::vector<std::array<double, 3>>& pts, int ndim, int nvar, int order, Ctx& ctx,
                         bool checkFull)
{
  PsdResult r;
  int n = (int)pts.size();
  ctx.at("Model::evalCovMatrixSymmetric");
  MatrixSquareSymmetric K;
  if (!guarded([&]() { K = model.evalCovMatrixSymmetric(db); }, r.msg))
  {
    r.ok = false;
    r.threw = true;
    r.msg = "evalCovMatrixSymmetric throws: " + r.msg;
    return r;
  }
  int N = n * nvar;
  if (K.getNRows() != N || K.getNCols() != N)
  {
    r.ok = false;
    r.msg = fmt("matrix is %dx%d, expected %dx%d", K.getNRows(), K.getNCols(), N, N);
    return r;
  }
  Eigen::MatrixXd M(N, N);
  for (int i = 0; i < N; i++)
    for (int j = 0; j < N; j++)
    {
      M(i, j) = K.getValue(i, j);
      if (!std::isfinite(M(i, j))) r.finite = false;
    }
  if (!r.finite) { r.ok = false; r.msg = "matrix has non-finite entries"; return r; }
  if (checkFull)
  {
    ctx.at("Model::evalCovMatrix");
    MatrixRectangular Kf = model.evalCovMatrix(db, db);
    double mx = M.cwiseAbs().maxCoeff();
    if (Kf.getNRows() != N || Kf.getNCols() != N) { r.ok = false; r.msg = "evalCovMatrix has another shape"; return r; }
    for (int i = 0; i < N; i++)
      for (int j = 0; j < N; j++)
        if (!(std::fabs(Kf.getValue(i, j) - M(i, j)) <= 1e-12 * mx) || !(std::fabs(Kf.getValue(i, j) - Kf.getValue(j, i)) <= 1e-12 * mx))
        {
          r.ok = false;
          r.msg = fmt("full matrix not symmetric / differs from the symmetric one at (%d,%d): %.17g %.17g %.17g", i, j,
                      Kf.getValue(i, j), Kf.getValue(j, i), M(i, j));
          return r;
        }
  }
  Eigen::MatrixXd Ms = 0.5 * (M + M.transpose());
  Eigen::SelfAdjointEigenSolver<Eigen::MatrixXd> esK(Ms, Eigen::EigenvaluesOnly);
  r.normK = std::max(std::fabs(esK.eigenvalues()(0)), std::fabs(esK.eigenvalues()(N - 1)));
  Eigen::VectorXd ev;
  if (order < 0) ev = esK.eigenvalues();
  else
  {
    Eigen::MatrixXd F = monomials(pts, ndim, order);
    Eigen::JacobiSVD<Eigen::MatrixXd> svd(F, Eigen::ComputeFullU);
    int rank = 0;
    for (int i = 0; i < svd.singularValues().size(); i++)
      if (svd.singularValues()(i) > 1e-10 * svd.singularValues()(0)) rank++;
    int nc = n - rank;
    if (nc < 1) return r; // no authorised increment on this point set
    Eigen::MatrixXd P = svd.matrixU().rightCols(nc);
    Eigen::MatrixXd PB = Eigen::MatrixXd::Zero(N, nc * nvar);
    for (int v = 0; v < nvar; v++) PB.block(v * n, v * nc, n, nc) = P;
    Eigen::MatrixXd Mc = PB.transpose() * Ms * PB;
    Mc = 0.5 * (Mc + Mc.transpose()).eval();
    Eigen::SelfAdjointEigenSolver<Eigen::MatrixXd> esc(Mc, Eigen::EigenvaluesOnly);
    ev = esc.eigenvalues();
  }
  r.tested = true;
  r.n = N;
  r.lmin = ev(0);
  r.lmax = ev(ev.size() - 1);
  double ref = std::max(r.normK, std::fabs(r.lmax));
  if (!(r.lmin >= -1e-9 * N * ref))
  {
    r.ok = false;
    r.msg = fmt("lambda_min = %.6g, lambda_max = %.6g (ratio %.3g), |K| = %.3g, matrix size %d", r.lmin, r.lmax,
                r.lmin / std::max(std::fabs(r.lmax), 1e-300), r.normK, N);
  }
  return r;
}

static void runPsd(const PsdCase& c, Ctx& ctx)
{
  Built B;
  if (!buildModel(c.m, ctx, B)) return;
  commonLabels(c.m, B, ctx);
  int ndim = c.m.ndim, nvar = c.m.nvar;
  static const char* lay[] = {"lattice-rot", "lattice-xyz", "clustered", "random"};
  ctx.label(std::string("layout:") + lay[c.layout]);
  ctx.label(fmt("order:%d", B.order));
  // reference lengths: the scales of structure 0 as the library reports them
  std::array<double, 3> sc{{1, 1, 1}};
  {
    const CovAniso* c0 = B.model->getCova(0);
    if (c0->hasRange() != 0)
    {
      VectorDouble s = c0->getScales();
      for (int i = 0; i < ndim; i++) sc[(size_t)i] = s[(size_t)i];
    }
  }
  std::vector<std::array<double, 3>> pts;
  psdPoints(c, sc, B.s[0].R, pts);
  int n = (int)pts.size();
  // keep the matrices small: n * nvar <= 96
  if (n * nvar > 96) pts.resize((size_t)(96 / nvar)), n = (int)pts.size();
  ctx.label(n <= 8 ? "n:<=8" : (n <= 36 ? "n:9-36" : "n:37-64"));
  VectorDouble tab;
  for (auto& p : pts)
    for (int j = 0; j < ndim; j++) tab.push_back(p[(size_t)j]);
  VectorString names, locs;
  for (int j = 0; j < ndim; j++) { names.push_back(fmt("x%d", j + 1)); locs.push_back(fmt("x%d", j + 1)); }
  ctx.at("Db::createFromSamples");
  std::unique_ptr<Db> db(Db::createFromSamples(n, ELoadBy::SAMPLE, tab, names, locs, false));
  if (!db) { ctx.inconclusive("db-not-built"); return; }
  setVariantsFromPoints(B, ndim, pts);
  PsdResult r = psdTest(*B.model, db.get(), pts, ndim, nvar, B.order, ctx, true);
  {
    Hash h;
    h.add(modelSig(c.m, B)).add(c.layout).addq(c.f).add(n > 16 ? 1 : 0);
    ctx.sig = h.h;
  }
  if (r.ok)
  {
    if (!r.tested) ctx.label("no-authorised-increment");
    return;
  }
  // blame: the structure which fails alone on the same points (first one), else the sum
  std::string suffix = ":sum:" + dimTag(ndim);
  auto kind = [](const PsdResult& q) { return q.threw ? "exception" : (q.finite ? (q.tested ? "nonpsd" : "matrix") : "nonfinite"); };
  std::string what = kind(r);
  if (B.s.size() == 1)
  {
    suffix = skey("", B.s[0], ndim);
    if (!inLiteratureDomain(B.s[0].type, ndim, B.s[0].param)) suffix += ":outside-math-domain";
  }
  else
  {
    for (size_t k = 0; k < c.m.st.size(); k++)
    {
      Built B1;
      Ctx dummy;
      if (!buildModel(c.m, dummy, B1, (int)k)) continue;
      setVariantsFromPoints(B1, ndim, pts);
      PsdResult r1 = psdTest(*B1.model, db.get(), pts, ndim, nvar, B.order, dummy, false);
      if (!r1.ok)
      {
        suffix = skey("", B1.s[0], ndim);
        if (!inLiteratureDomain(B1.s[0].type, ndim, B1.s[0].param)) suffix += ":outside-math-domain";
        what = kind(r1);
        r.msg += " [alone: " + r1.msg + "]";
        break;
      }
    }
    defineDefaultSpace(ESpaceType::RN, (unsigned)ndim);
  }
  std::string pd;
  for (auto& s : B.s) pd += fmt(" %s(param=%g)", s.key.c_str(), s.param);
  ctx.fail(what + suffix, r.msg + fmt("; model%s, order %d, %s, %d points", pd.c_str(), B.order, lay[c.layout], n));
}
VERIF_SUB(psd, PsdCase, genPsd, runPsd);

VERIF_MAIN()
