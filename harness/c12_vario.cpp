// C12 — experimental variograms equal their pairwise definition (DESIGN.md §5 C12).
// Oracle: an O(n^2) loop over all pairs written here (no sorting, no pruning, no BiTargetCheck).
#include "verif.hpp"

#include "Variogram/Vario.hpp"
#include "Variogram/VarioParam.hpp"
#include "Variogram/DirParam.hpp"
#include "Variogram/VMap.hpp"
#include "Variogram/VCloud.hpp"
#include "Db/Db.hpp"
#include "Db/DbGrid.hpp"
#include "Space/ASpaceObject.hpp"
#include "Enum/ECalcVario.hpp"
#include "Enum/ELoadBy.hpp"
#include "Enum/ELoc.hpp"
#include "Enum/ESpaceType.hpp"
#include "Basic/OptDbg.hpp"
#include "Basic/NamingConvention.hpp"

#include <memory>
#include <algorithm>
#include <numeric>

using namespace vf;
typedef long double LD;

static const double NA = 1.234e30;
static inline bool isNA(double v) { return !(v < 1e29) || std::isnan(v); }

// ------------------------------------------------------------------ calculation types ---
enum { VG = 0, MADO, RODO, ORD4, COV, COVNC, TR1, TR2, BINO, COVG, NCALC };
static const char* calcName(int c)
{
  static const char* n[] = {"vg", "mado", "rodo", "order4", "cov", "covnc", "trans1", "trans2", "binormal", "covg"};
  return n[c];
}
static ECalcVario calcOf(int c)
{
  switch (c)
  {
    case VG: return ECalcVario::VARIOGRAM;
    case MADO: return ECalcVario::MADOGRAM;
    case RODO: return ECalcVario::RODOGRAM;
    case ORD4: return ECalcVario::ORDER4;
    case COV: return ECalcVario::COVARIANCE;
    case COVNC: return ECalcVario::COVARIANCE_NC;
    case TR1: return ECalcVario::TRANS1;
    case TR2: return ECalcVario::TRANS2;
    case BINO: return ECalcVario::BINORMAL;
    default: return ECalcVario::COVARIOGRAM;
  }
}
static bool isAsym(int c) { return c == COV || c == COVNC || c == COVG; }
// summand of the symmetric estimators for one pair of samples (1,2) and one pair of variables (i,j)
static LD summand(int calc, double zi1, double zi2, double zj1, double zj2)
{
  LD p = ((LD)zi2 - (LD)zi1) * ((LD)zj2 - (LD)zj1);
  switch (calc)
  {
    case MADO: return sqrtl(fabsl(p)) / 2;
    case RODO: return powl(fabsl(p), 0.25L) / 2;
    case ORD4: return p * p / 2;
    default: return p / 2;
  }
}

// ------------------------------------------------------------------ case data -----------
struct DirC
{
  int npas = 1;
  double dpas = 1, toldis = 0.5, tolang = 90, bench = NA, cylrad = NA;
  std::vector<double> codir;  // direction used by the oracle
  std::vector<double> breaks; // empty = regular lags
  int how = 0;                // 0 constructor with codir, 1 createOmniDirection, 2 constructor with angle2D
  double angle2D = 0;
  template<class A> void io(A& a)
  {
    a("npas", npas)("dpas", dpas)("toldis", toldis)("tolang", tolang)("bench", bench)("cylrad", cylrad);
    a("codir", codir)("breaks", breaks)("how", how)("angle2D", angle2D);
  }
};
struct Data
{
  int ndim = 1, n = 0, nvar = 1;
  double L = 1;          // size of the box (scale of the coordinates)
  std::vector<double> x; // n*ndim, sample major
  std::vector<double> z; // n*nvar, sample major, NA = 1.234e30
  int hasW = 0;
  std::vector<double> w; // dyadic weights, NA allowed (the library reads an undefined weight as 1)
  int hasSel = 0;
  std::vector<int> sel;
  template<class A> void io(A& a)
  {
    a("ndim", ndim)("n", n)("nvar", nvar)("L", L)("x", x)("z", z)("hasW", hasW)("w", w)("hasSel", hasSel)("sel", sel);
  }
  double X(int i, int d) const { return x[(size_t)i * (size_t)ndim + (size_t)d]; }
  double Z(int i, int v) const { return z[(size_t)i * (size_t)nvar + (size_t)v]; }
  bool active(int i) const { return !hasSel || sel[(size_t)i] != 0; }
  double W(int i) const
  {
    if (!hasW) return 1.;
    double v = w[(size_t)i];
    return isNA(v) ? 1. : v;
  }
  bool anyNA() const
  {
    for (auto v : z) if (isNA(v)) return true;
    return false;
  }
};

// ------------------------------------------------------------------ pair geometry -------
// Same formulas as the documentation of DirParam: distance -> lag (multiple of dpas up to toldis*dpas,
// or interval of 'breaks'), angle to codir <= tolang, bench on the last coordinate, cylinder radius on
// the distance orthogonal to the direction. 'margin' flags a pair closer to a limit than the property
// allows (those cases are outside the claim).
struct Geom
{
  bool ok = false;     // pair accepted by direction / bench / cylinder
  int lag = -1;        // -1: no lag
  int orient = 1;      // +1: b is ahead of a along codir
  double d = 0;
  bool margin = false; // too close to a limit
  int why = 0;         // which limit: 1 angle, 2 orthogonal pair (orientation), 4 cylinder, 8 bench, 16 lag
};
static Geom pairGeom(const Data& D, const DirC& dc, int a, int b, bool asym, double mf = 1.)
{
  Geom g;
  int nd = D.ndim;
  double dproj = 0, dn1 = 0, dn2 = 0, dlast = 0;
  for (int k = 0; k < nd; k++)
  {
    double del = D.X(b, k) - D.X(a, k);
    dproj += del * dc.codir[(size_t)k];
    dn1 += del * del;
    dn2 += dc.codir[(size_t)k] * dc.codir[(size_t)k];
    if (k == nd - 1) dlast = std::fabs(del);
  }
  g.d = std::sqrt(dn1);
  if (!(g.d > 0)) { g.margin = true; return g; } // duplicates are outside the property
  double ps = dproj / std::sqrt(dn1 * dn2);
  double psmin = (dc.tolang >= 90.) ? 0. : std::fabs(std::cos(dc.tolang * M_PI / 180.));
  g.ok = true;
  if (psmin > 0)
  {
    if (std::fabs(std::fabs(ps) - psmin) < mf * 1e-10) g.why |= 1;
    if (std::fabs(ps) < psmin) g.ok = false;
  }
  else if (asym && std::fabs(ps) < mf * 1e-9) g.why |= 2; // orientation of an orthogonal pair is a tie
  g.orient = (ps < 0) ? -1 : 1;
  if (!isNA(dc.cylrad) && dc.cylrad > 0)
  {
    double dortho = std::sqrt(std::max(0., dn1 * (1. - ps * ps)));
    if (std::fabs(dortho - dc.cylrad) < mf * 1e-7 * (g.d + dc.cylrad)) g.why |= 4;
    if (dortho > dc.cylrad) g.ok = false;
  }
  if (!isNA(dc.bench) && dc.bench > 0)
  {
    if (std::fabs(dlast - dc.bench) < mf * 1e-9 * (dlast + dc.bench)) g.why |= 8;
    if (dlast > dc.bench) g.ok = false;
  }
  // lag
  if (dc.breaks.empty())
  {
    double q = g.d / dc.dpas;
    double k = std::floor(q + 0.5);
    double f = std::fabs(q - k);
    if (k <= dc.npas && std::fabs(f - dc.toldis) < mf * 1e-6) g.why |= 16;
    if (k <= dc.npas && std::fabs(f - 0.5) < mf * 1e-6 && dc.toldis >= 0.5 - mf * 1e-6) g.why |= 16;
    if (f <= dc.toldis && k < dc.npas) g.lag = (int)k;
  }
  else
  {
    double sc = dc.breaks.back() / (double)dc.npas;
    for (int k = 0; k <= dc.npas; k++)
      if (std::fabs(g.d - dc.breaks[(size_t)k]) < mf * 1e-6 * sc) g.why |= 16;
    for (int k = 0; k < dc.npas; k++)
      if (g.d > dc.breaks[(size_t)k] && g.d <= dc.breaks[(size_t)k + 1]) { g.lag = k; break; }
  }
  if (g.why) g.margin = true;
  return g;
}

// ------------------------------------------------------------------ oracle --------------
struct DirRes
{
  int npas = 0, nlt = 0; // slots per pair of variables (npas, or 2*npas+1 for covariances)
  std::vector<double> sw, hh, gg, tol; // library convention (see hetero below)
  std::vector<double> swN;             // covariances: weights under the plain definition
  int populated = 0;
};
struct Oracle
{
  std::vector<DirRes> dirs;  // covariances: library convention for heterotopic data (see cov:hetero-pairs)
  std::vector<DirRes> dirsN; // covariances: plain definition (identical to dirs for every other calculation)
  bool margin = false;
  bool heteroDiffers = false; // covariances: plain definition and library convention differ
};
static inline int vrank(int iv, int jv) { return iv >= jv ? iv * (iv + 1) / 2 + jv : jv * (jv + 1) / 2 + iv; }

// Pair list for direction 'dc': calls f(a,b,lag,orient,d) with a->b oriented along +codir
template<class F> static void forPairs(const Data& D, const DirC& dc, bool asym, bool& margin, F f)
{
  for (int a = 0; a < D.n; a++)
  {
    if (!D.active(a)) continue;
    for (int b = a + 1; b < D.n; b++)
    {
      if (!D.active(b)) continue;
      Geom g = pairGeom(D, dc, a, b, asym);
      if (g.margin) margin = true;
      if (!g.ok || g.lag < 0) continue;
      if (g.orient > 0) f(a, b, g.lag, g.d);
      else f(b, a, g.lag, g.d);
    }
  }
}

// accumulators of one direction
struct Acc
{
  int nvp, nlt;
  std::vector<LD> sw, hh, gg, ga, swN;
  Acc(int nvar, int nlt_) : nvp(nvar * (nvar + 1) / 2), nlt(nlt_), sw((size_t)(nvp * nlt_), 0), hh(sw), gg(sw), ga(sw), swN(sw) {}
  void add(int r, int s, LD ww, LD d, LD v)
  {
    size_t k = (size_t)(r * nlt + s);
    sw[k] += ww; hh[k] += ww * d; gg[k] += ww * v; ga[k] += ww * fabsl(v);
  }
};

// statistics of the samples where both variables are defined (centring and C(0) of covariances)
struct Joint { LD sumw = 0, sumw2 = 0, m1 = 0, m2 = 0, s2zz = 0, s1zz = 0, s2abs = 0, s1abs = 0; };
static Joint jointStats(const Data& D, int iv, int jv, const std::vector<double>* wOverride = nullptr)
{
  Joint J;
  for (int i = 0; i < D.n; i++)
  {
    if (!D.active(i)) continue;
    double zi = D.Z(i, iv), zj = D.Z(i, jv);
    if (isNA(zi) || isNA(zj)) continue;
    LD w = wOverride ? (*wOverride)[(size_t)i] : D.W(i);
    J.sumw += w; J.sumw2 += w * w; J.m1 += w * zi; J.m2 += w * zj;
    J.s2zz += w * w * (LD)zi * zj; J.s1zz += w * (LD)zi * zj;
    J.s2abs += w * w * fabsl((LD)zi * zj); J.s1abs += w * fabsl((LD)zi * zj);
  }
  if (J.sumw > 0) { J.m1 /= J.sumw; J.m2 /= J.sumw; }
  return J;
}

// scaling, centring, C(0), transformations: from accumulators to reported values
static DirRes finish(const Data& D, int calc, int npas, const Acc& A, const std::vector<double>* wOverride = nullptr)
{
  bool asym = isAsym(calc);
  DirRes R;
  R.npas = npas; R.nlt = A.nlt;
  size_t N = A.sw.size();
  R.sw.assign(N, 0); R.hh.assign(N, NA); R.gg.assign(N, NA); R.tol.assign(N, 0); R.swN.assign(N, 0);
  for (int iv = 0; iv < D.nvar; iv++)
    for (int jv = 0; jv <= iv; jv++)
    {
      int r = vrank(iv, jv);
      Joint J;
      if (asym) J = jointStats(D, iv, jv, wOverride);
      for (int s = 0; s < A.nlt; s++)
      {
        size_t k = (size_t)(r * A.nlt + s);
        R.sw[k] = (double)A.sw[k];
        R.swN[k] = asym ? (double)A.swN[k] : (double)A.sw[k];
        if (!(A.sw[k] > 0)) continue;
        LD h = A.hh[k] / A.sw[k];
        if (asym && s < npas) h = -fabsl(h);
        LD g = A.gg[k], ga = A.ga[k];
        if (calc != COVG) { g /= A.sw[k]; ga /= A.sw[k]; }
        if (calc == COV) { g -= J.m1 * J.m2; ga += fabsl(J.m1 * J.m2); }
        R.hh[k] = (double)h; R.gg[k] = (double)g; R.tol[k] = 1e-10 * (double)std::max(fabsl(g), ga);
        if (s >= 1) R.populated++;
      }
      if (asym)
      { // C(0): all samples where both variables are known
        size_t k = (size_t)(r * A.nlt + npas);
        R.sw[k] = (double)J.sumw; R.swN[k] = R.sw[k];
        R.hh[k] = 0;
        if (J.sumw > 0)
        {
          LD g, ga;
          if (calc == COVG) { g = J.s1zz; ga = J.s1abs; }
          else if (J.sumw2 > 0) { g = J.s2zz / J.sumw2; ga = J.s2abs / J.sumw2; if (calc == COV) { g -= J.m1 * J.m2; ga += fabsl(J.m1 * J.m2); } }
          else { g = NA; ga = 0; R.sw[k] = -1; } // all weights zero: 0/0, not compared
          R.gg[k] = (double)g; R.tol[k] = 1e-10 * (double)std::max(fabsl(g), ga);
        }
      }
    }
  // ratios of the reported cross and simple variograms
  if (calc == TR1 || calc == TR2 || calc == BINO)
  {
    DirRes S = R;
    for (int iv = 0; iv < D.nvar; iv++)
      for (int jv = 0; jv < iv; jv++)
        for (int s = 0; s < A.nlt; s++)
        {
          size_t k = (size_t)(vrank(iv, jv) * A.nlt + s), ki = (size_t)(vrank(iv, iv) * A.nlt + s), kj = (size_t)(vrank(jv, jv) * A.nlt + s);
          if (!(S.sw[k] > 0)) continue;
          double gi = S.gg[ki], gj = S.gg[kj], gx = S.gg[k];
          double den = calc == TR1 ? gj : calc == TR2 ? gi : std::sqrt(gi * gj);
          if (!(den > 1e-9 * (std::fabs(gi) + std::fabs(gj)))) { R.sw[k] = -1; continue; } // degenerate ratio: not compared
          R.gg[k] = calc == BINO ? gx / den : -gx / den;
          R.tol[k] = 1e-9 * (std::fabs(R.gg[k]) + S.tol[k] * 1e10 / den);
        }
  }
  return R;
}

// the O(n^2) definition on isolated points (traditional algorithm, not "by sample")
static Oracle oraclePoints(const Data& D, const std::vector<DirC>& dirs, int calc)
{
  Oracle O;
  bool asym = isAsym(calc);
  for (const DirC& dc : dirs)
  {
    int nlt = asym ? 2 * dc.npas + 1 : dc.npas;
    Acc A(D.nvar, nlt), AN(D.nvar, nlt);
    forPairs(D, dc, asym, O.margin, [&](int f, int t, int lag, double d) {
      LD ww = (LD)D.W(f) * (LD)D.W(t);
      for (int iv = 0; iv < D.nvar; iv++)
        for (int jv = 0; jv <= iv; jv++)
        {
          int r = vrank(iv, jv);
          double zif = D.Z(f, iv), zit = D.Z(t, iv), zjf = D.Z(f, jv), zjt = D.Z(t, jv);
          if (!asym)
          {
            if (isNA(zif) || isNA(zit) || isNA(zjf) || isNA(zjt)) continue;
            A.add(r, lag, ww, d, summand(calc, zif, zit, zjf, zjt));
          }
          else
          {
            // C_ij(+h) = mean of z_i(x) z_j(x+h), i the variable of larger rank; C_ij(-h) the mirror
            int sp = dc.npas + 1 + lag, sm = dc.npas - 1 - lag;
            bool both_i = !isNA(zif) && !isNA(zit);
            if (!isNA(zif) && !isNA(zjt)) { A.swN[(size_t)(r * nlt + sp)] += ww; AN.add(r, sp, ww, d, (LD)zif * zjt); }
            if (!isNA(zit) && !isNA(zjf)) { A.swN[(size_t)(r * nlt + sm)] += ww; AN.add(r, sm, ww, d, (LD)zit * zjf); }
            // library convention: variable i must be known at both ends (see report, cov:hetero-pairs)
            if (!both_i) continue;
            if (!isNA(zjt)) A.add(r, sp, ww, d, (LD)zif * zjt);
            if (!isNA(zjf)) A.add(r, sm, ww, d, (LD)zit * zjf);
          }
        }
    });
    O.dirs.push_back(finish(D, calc, dc.npas, A));
    if (asym) { AN.swN = AN.sw; O.dirsN.push_back(finish(D, calc, dc.npas, AN)); }
    else O.dirsN.push_back(O.dirs.back());
    const DirRes& R = O.dirs.back();
    for (size_t k = 0; k < R.sw.size(); k++)
      if (R.swN[k] != R.sw[k] && R.sw[k] >= 0) O.heteroDiffers = true;
  }
  return O;
}

// ------------------------------------------------------------------ library objects -----
static std::unique_ptr<Db> makeDb(const Data& D)
{
  int ncol = D.ndim + D.nvar + (D.hasW ? 1 : 0) + (D.hasSel ? 1 : 0);
  VectorDouble tab((size_t)ncol * (size_t)D.n);
  VectorString names, xn, zn;
  int c = 0;
  auto col = [&](int cc, int i) -> double& { return tab[(size_t)cc * (size_t)D.n + (size_t)i]; };
  for (int k = 0; k < D.ndim; k++, c++)
  {
    names.push_back("x" + std::to_string(k + 1)); xn.push_back(names.back());
    for (int i = 0; i < D.n; i++) col(c, i) = D.X(i, k);
  }
  for (int v = 0; v < D.nvar; v++, c++)
  {
    names.push_back("v" + std::to_string(v + 1)); zn.push_back(names.back());
    for (int i = 0; i < D.n; i++) col(c, i) = D.Z(i, v);
  }
  if (D.hasW) { names.push_back("wgt"); for (int i = 0; i < D.n; i++) col(c, i) = D.w[(size_t)i]; c++; }
  if (D.hasSel) { names.push_back("mask"); for (int i = 0; i < D.n; i++) col(c, i) = D.sel[(size_t)i] ? 1. : 0.; c++; }
  std::unique_ptr<Db> db(Db::createFromSamples(D.n, ELoadBy::COLUMN, tab, names));
  db->setLocators(xn, ELoc::X);
  db->setLocators(zn, ELoc::Z);
  if (D.hasW) db->setLocator("wgt", ELoc::W);
  if (D.hasSel) db->setLocator("mask", ELoc::SEL);
  return db;
}
static DirParam makeDir(const DirC& dc)
{
  VectorDouble br(dc.breaks.begin(), dc.breaks.end());
  if (dc.how == 1)
  {
    std::unique_ptr<DirParam> p(DirParam::createOmniDirection(dc.npas, dc.dpas, dc.toldis, 0, 0, dc.bench, dc.cylrad, 0., br));
    return *p;
  }
  if (dc.how == 2)
    return DirParam(dc.npas, dc.dpas, dc.toldis, dc.tolang, 0, 0, dc.bench, dc.cylrad, 0., br, VectorDouble(), dc.angle2D);
  return DirParam(dc.npas, dc.dpas, dc.toldis, dc.tolang, 0, 0, dc.bench, dc.cylrad, 0., br,
                  VectorDouble(dc.codir.begin(), dc.codir.end()));
}
static VarioParam makeVP(const std::vector<DirC>& dirs)
{
  VarioParam vp;
  for (auto& dc : dirs) vp.addDir(makeDir(dc));
  return vp;
}
static std::unique_ptr<Vario> runVario(const std::vector<DirC>& dirs, Db* db, int calc, bool bySample, int api);
static void resetGlobals(int ndim)
{
  defineDefaultSpace(ESpaceType::RN, (unsigned)ndim);
  OptDbg::reset();
  // Vario.cpp keeps the rank of the current direction in a file static (IDIRLOC) that the "by sample"
  // algorithm never sets (finding bysample:dirs): a one-direction traditional computation puts it back to 0
  Data d;
  d.ndim = ndim; d.n = 2; d.nvar = 1;
  d.x.assign((size_t)(2 * ndim), 0.); d.x[(size_t)ndim] = 0.25; // one pair in lag 0
  d.z = {0., 1.};
  DirC dc;
  dc.codir.assign((size_t)ndim, 0.); dc.codir[0] = 1.;
  std::unique_ptr<Db> db = makeDb(d);
  runVario({dc}, db.get(), VG, false, 0);
}
static std::unique_ptr<Vario> runVario(const std::vector<DirC>& dirs, Db* db, int calc, bool bySample, int api)
{
  VarioParam vp = makeVP(dirs);
  if (api == 0) return std::unique_ptr<Vario>(Vario::computeFromDb(vp, db, calcOf(calc), bySample));
  std::unique_ptr<Vario> v(Vario::create(vp));
  if (v->compute(db, calcOf(calc), bySample) != 0) return nullptr;
  return v;
}

// compare one direction of a Vario with the oracle
static bool cmpDir(Ctx& ctx, const Vario& v, int idir, const DirRes& R, int nvar, const std::string& key, const std::string& what)
{
  for (int iv = 0; iv < nvar; iv++)
    for (int jv = 0; jv <= iv; jv++)
    {
      VectorDouble sw = v.getSwVec(idir, iv, jv, false), hh = v.getHhVec(idir, iv, jv, false), gg = v.getGgVec(idir, iv, jv, false, false, false);
      if ((int)sw.size() != R.nlt || (int)hh.size() != R.nlt || (int)gg.size() != R.nlt)
      {
        ctx.fail(key + ":size", what + fmt(" dir %d vars (%d,%d): %d values, expected %d", idir, iv, jv, (int)sw.size(), R.nlt));
        return false;
      }
      for (int s = 0; s < R.nlt; s++)
      {
        size_t k = (size_t)(vrank(iv, jv) * R.nlt + s);
        if (R.sw[k] < 0) continue; // not defined (0/0 or degenerate ratio)
        if (sw[s] != R.sw[k])
        {
          ctx.fail(key + ":sw", what + fmt(" dir %d vars (%d,%d) slot %d/%d: sw=%.17g, pairwise definition %.17g", idir, iv, jv, s, R.nlt, sw[s], R.sw[k]));
          return false;
        }
        if (!(R.sw[k] > 0)) continue;
        if (!close(hh[s], R.hh[k], 1e-10, 0))
        {
          ctx.fail(key + ":hh", what + fmt(" dir %d vars (%d,%d) slot %d/%d: hh=%.17g, pairwise definition %.17g", idir, iv, jv, s, R.nlt, hh[s], R.hh[k]));
          return false;
        }
        if (!(std::fabs(gg[s] - R.gg[k]) <= R.tol[k]))
        {
          ctx.fail(key + ":gg", what + fmt(" dir %d vars (%d,%d) slot %d/%d: gg=%.17g, pairwise definition %.17g (tol %.3g)", idir, iv, jv, s, R.nlt, gg[s], R.gg[k], R.tol[k]));
          return false;
        }
      }
    }
  return true;
}

// Compare all directions with the pairwise definition.  For covariances of heterotopic data the plain definition
// is tried first; when only the library's present convention matches, the recorded finding cov:hetero-pairs is
// reported; anything else is reported under the ordinary key.
static bool cmpAll(Ctx& ctx, const Vario& v, const Oracle& O, int nvar, const std::string& key, const std::string& what)
{
  int ndir = (int)O.dirs.size();
  if (O.heteroDiffers)
  {
    Ctx tmp;
    bool okN = true;
    for (int d = 0; d < ndir && okN; d++) okN = cmpDir(tmp, v, d, O.dirsN[(size_t)d], nvar, key, what);
    if (okN) { ctx.label("cov:hetero-plain-definition-holds"); return true; }
    for (int d = 0; d < ndir; d++)
      if (!cmpDir(ctx, v, d, O.dirs[(size_t)d], nvar, key, what)) return false;
    ctx.label("cov:hetero-differs");
    ctx.fail("cov:hetero-pairs", what + ": cross-covariance of heterotopic data: " + tmp.fails[0].msg +
                                 " (the pairs (x,x+h) with z_i(x), z_j(x+h) defined but z_i(x+h) undefined are dropped)");
    return false;
  }
  for (int d = 0; d < ndir; d++)
    if (!cmpDir(ctx, v, d, O.dirsN[(size_t)d], nvar, key, what)) return false;
  return true;
}

// ------------------------------------------------------------------ generators ----------
// Points (DESIGN §3): box of size L, virtual lattice with >= 4n cells, distinct cells, jitter inside the
// central 60 % of the cell.  All coordinates are multiples of L/2^20 (so that differences of coordinates and
// the translations of the metamorphic checks are exact in floating point).
static const int RES = 1 << 20;
struct Lattice { int m = 1; double cellw = 1; };
static Lattice genPoints(Data& D, int n, int ndim)
{
  D.n = n; D.ndim = ndim;
  D.L = G::pick<double>({1., 128., 16384.});
  double u = D.L / (double)RES;
  int K = (int)std::min(160000., std::floor(1e4 * 16. / D.L));
  Lattice lat;
  int m = 2;
  auto cells = [&](int mm) { double c = 1; for (int k = 0; k < ndim; k++) c *= mm; return c; };
  while (cells(m) < 4. * n) m *= 2;
  lat.m = m;
  int wv = RES / m; // cell width in units
  lat.cellw = wv * u;
  int ncell = (int)cells(m);
  int jitter = G::pick<int>({0, 1, 1, 1, 2});
  bool cluster = G::pct(30);
  std::vector<double> org((size_t)ndim);
  for (auto& o : org) o = (D.L / 16.) * G::i(-K, K);
  std::vector<char> taken((size_t)ncell, 0);
  D.x.assign((size_t)n * (size_t)ndim, 0.);
  for (int i = 0; i < n; i++)
  {
    int idx = (cluster && G::pct(70)) ? G::i(0, std::max(0, ncell / 4 - 1)) : G::i(0, ncell - 1);
    while (taken[(size_t)idx]) idx = (idx + 1) % ncell;
    taken[(size_t)idx] = 1;
    int rem = idx;
    for (int k = 0; k < ndim; k++)
    {
      int ck = rem % m; rem /= m;
      int off = wv / 2;
      if (jitter == 1) off = wv / 5 + G::i(0, (wv * 3) / 5);
      if (jitter == 2) off = wv / 4 + (wv / 8) * G::i(0, 4);
      D.x[(size_t)i * (size_t)ndim + (size_t)k] = org[(size_t)k] + ((double)ck * wv + off) * u;
    }
  }
  return lat;
}
static void genValues(Data& D, int nvar, bool allowW, bool allowSel, bool allowNAw = true)
{
  D.nvar = nvar;
  int style = G::i(0, 3);
  int pna = G::pick<int>({0, 0, 20, 50});
  D.z.assign((size_t)D.n * (size_t)nvar, 0.);
  for (auto& v : D.z)
  {
    if (pna && G::pct(pna)) { v = NA; continue; }
    switch (style)
    {
      case 0: v = G::i(-5, 5); break;
      case 1: v = G::r(-8, 8, 4); break;
      case 2: v = G::u(-100., 100.); break;
      default: v = 1000. + G::u(-1., 1.); break;
    }
  }
  D.hasW = allowW && G::pct(35);
  D.w.clear();
  if (D.hasW)
  {
    bool nas = allowNAw && G::pct(30);
    for (int i = 0; i < D.n; i++)
      D.w.push_back((nas && G::pct(10)) ? NA : G::pct(15) ? 0. : (double)G::i(1, 12) / 4.);
  }
  D.hasSel = allowSel && G::pct(30);
  D.sel.clear();
  if (D.hasSel)
    for (int i = 0; i < D.n; i++) D.sel.push_back(G::pct(70) ? 1 : 0);
}

static void normalize(std::vector<double>& v)
{
  double s = 0;
  for (auto x : v) s += x * x;
  s = std::sqrt(s);
  for (auto& x : v) x /= s;
}
// move the parameters of a direction away from the limits met by some pair (deterministic function of the case)
static void repairDir(const Data& D, DirC& dc, bool asym)
{
  for (int it = 1; it <= 80; it++)
  {
    int why = 0;
    for (int a = 0; a < D.n; a++)
      for (int b = a + 1; b < D.n; b++) why |= pairGeom(D, dc, a, b, asym, 3.).why;
    if (!why) return;
    if (why & 1) dc.tolang -= 7.1e-5 * it;
    if (why & 2)
    { // generic direction instead of one orthogonal to some pair
      static const double g[3] = {0.0137, 0.00847, 0.00523};
      for (int k = 0; k < D.ndim; k++) dc.codir[(size_t)k] += g[k] * it;
      normalize(dc.codir);
      dc.how = 0;
      dc.tolang = 90;
    }
    if (why & 4) dc.cylrad *= 1. + 3.3e-6 * it;
    if (why & 8) dc.bench *= 1. + 3.7e-6 * it;
    if (why & 16)
    {
      if (dc.breaks.empty())
      {
        dc.toldis -= 7.3e-6 * it;
        if (dc.toldis <= 0) dc.toldis = 0.3173;
      }
      else
        for (size_t k = 1; k < dc.breaks.size(); k++) dc.breaks[k] *= 1. + 4.1e-6 * it;
    }
  }
}
static DirC genDir(const Data& D, const Lattice& lat, bool asym)
{
  DirC dc;
  int nd = D.ndim;
  dc.npas = G::i(1, 12);
  dc.dpas = G::pct(40) ? lat.cellw * G::pick<double>({1., 2., 0.5, 1.5, 3., 4.}) : D.L * G::lu(0.02, 0.5);
  dc.toldis = G::pick<double>({0.5, 0.5, 0.25, 0.1, -1.});
  if (dc.toldis < 0) dc.toldis = G::u(0.02, 0.5);
  dc.codir.assign((size_t)nd, 0.);
  dc.codir[0] = 1.;
  dc.tolang = G::pick<double>({90., 45., 22.5, 10., -1.});
  if (dc.tolang < 0) dc.tolang = G::u(2., 89.5);
  int hw = G::i(0, 9);
  if (hw < 2) { dc.how = 1; dc.tolang = 90.; }
  else if (hw < 4 && nd >= 2)
  {
    dc.how = 2;
    dc.angle2D = G::pick<double>({0., 45., 90., 135., -999.});
    if (dc.angle2D == -999.) dc.angle2D = G::u(-180., 180.);
    dc.codir[0] = std::cos(dc.angle2D * M_PI / 180.);
    dc.codir[1] = std::sin(dc.angle2D * M_PI / 180.);
  }
  else
  {
    dc.how = 0;
    int kind = G::i(0, 9);
    if (nd == 1) dc.codir[0] = G::b() ? 1. : -1.;
    else if (kind < 4) { dc.codir[0] = 0; dc.codir[(size_t)G::i(0, nd - 1)] = 1.; }
    else if (kind < 6) { for (auto& c : dc.codir) c = G::i(-2, 2); if (dc.codir[0] == 0 && dc.codir[1] == 0) dc.codir[0] = 1; }
    else
    {
      for (auto& c : dc.codir) c = G::u(-1., 1.);
      if (std::fabs(dc.codir[0]) + std::fabs(dc.codir[1]) < 0.05) dc.codir[0] = 1;
      normalize(dc.codir);
    }
  }
  if (G::pct(20)) dc.bench = D.L * G::lu(0.05, 1.);
  if (nd >= 2 && G::pct(20)) dc.cylrad = D.L * G::lu(0.02, 0.5);
  if (G::pct(15))
  {
    double b = G::b() ? 0. : dc.dpas * 0.3;
    dc.breaks.push_back(b);
    for (int k = 0; k < dc.npas; k++) { b += dc.dpas * G::lu(0.3, 2.); dc.breaks.push_back(b); }
  }
  repairDir(D, dc, asym);
  return dc;
}
static uint64_t sigOf(const Data& D, const std::vector<DirC>& dirs, int calc, int extra)
{
  Hash h;
  h.add(D.ndim).add(D.n / 8).add(D.nvar).add(calc).add((int)dirs.size()).add(D.hasW).add(D.hasSel).add(D.anyNA() ? 1 : 0).add(extra);
  for (auto& d : dirs)
    h.add(d.npas).add(d.how).add(d.breaks.empty() ? 0 : 1).add(isNA(d.bench) ? 0 : 1).add(isNA(d.cylrad) ? 0 : 1).addq(d.tolang).addq(d.toldis).addq(d.dpas / D.L);
  return h.h;
}
static void labelData(Ctx& ctx, const Data& D, const std::vector<DirC>& dirs, int calc)
{
  ctx.label(std::string("calc:") + calcName(calc));
  ctx.label(fmt("ndim:%d", D.ndim));
  ctx.label(fmt("nvar:%d", D.nvar));
  ctx.label(fmt("ndir:%d", (int)dirs.size()));
  if (D.anyNA()) ctx.label("data:NA");
  if (D.hasW) ctx.label("data:weights");
  if (D.hasSel) ctx.label("data:selection");
  for (auto& d : dirs)
  {
    if (!d.breaks.empty()) ctx.label("dir:breaks");
    if (!isNA(d.bench)) ctx.label("dir:bench");
    if (!isNA(d.cylrad)) ctx.label("dir:cylinder");
    if (d.tolang < 90) ctx.label("dir:tolang<90");
  }
}
static bool ntRule(const Data& D, const std::vector<DirC>& dirs, int populated)
{
  bool ang = false;
  for (auto& d : dirs) if (d.tolang < 90) ang = true;
  return populated >= 2 && (dirs.size() >= 2 || D.nvar >= 2 || D.anyNA() || D.hasSel || ang);
}
static int countPopulated(const Oracle& O)
{
  int p = 0;
  for (auto& R : O.dirs)
    for (int s = 0; s < R.nlt; s++) if (R.sw[(size_t)s] > 0) p++;
  return p;
}

// =================================================================== vario_points =======
// Vario::computeFromDb / compute on isolated points against the pairwise definition
struct PtCase
{
  Data D;
  std::vector<DirC> dirs;
  int calc = 0, api = 0;
  template<class A> void io(A& a) { a("D", D)("dirs", dirs)("calc", calc)("api", api); }
};
static PtCase genPt()
{
  PtCase c;
  c.calc = G::pick<int>({VG, VG, VG, MADO, RODO, ORD4, COV, COV, COVNC, TR1, TR2, BINO});
  c.api = G::i(0, 1);
  int ndim = G::i(1, 3);
  int n = G::sz(2, 150);
  Lattice lat = genPoints(c.D, n, ndim);
  int nvar = G::pick<int>({1, 1, 2, 2, 3});
  if ((c.calc == TR1 || c.calc == TR2 || c.calc == BINO) && nvar == 1) nvar = 2;
  genValues(c.D, nvar, true, true);
  int ndir = G::pick<int>({1, 1, 2, 3, 4});
  for (int k = 0; k < ndir; k++) c.dirs.push_back(genDir(c.D, lat, isAsym(c.calc)));
  return c;
}
static void runPt(const PtCase& c, Ctx& ctx)
{
  const Data& D = c.D;
  resetGlobals(D.ndim);
  labelData(ctx, D, c.dirs, c.calc);
  Oracle O = oraclePoints(D, c.dirs, c.calc);
  if (O.margin) { ctx.inconclusive("pair-on-a-limit"); return; }
  std::unique_ptr<Db> db = makeDb(D);
  ctx.at(std::string("vario:") + calcName(c.calc));
  std::unique_ptr<Vario> v = runVario(c.dirs, db.get(), c.calc, false, c.api);
  if (!v) { ctx.fail(std::string("vario:") + calcName(c.calc) + ":error", "computation of the experimental variogram reports an error"); return; }
  std::string key = std::string("vario:") + calcName(c.calc);
  if (!cmpAll(ctx, *v, O, D.nvar, key, "points")) return;
  ctx.nontrivial(ntRule(D, c.dirs, countPopulated(O)));
  ctx.sig = sigOf(D, c.dirs, c.calc, c.api);
}
VERIF_SUB(vario_points, PtCase, genPt, runPt);

// =================================================================== vario_meta =========
// metamorphic relations (library against itself): order of the samples, translation, order of the
// variables, and independence of a direction from the other directions of the VarioParam
struct Ext // values reported by a Vario
{
  int nvar = 0;
  std::vector<int> nlt;
  std::vector<std::vector<double>> sw, hh, gg; // [dir][vrank*nlt+slot]
};
static Ext extract(const Vario& v, int ndir, int nvar)
{
  Ext E;
  E.nvar = nvar;
  for (int d = 0; d < ndir; d++)
  {
    std::vector<double> sw, hh, gg;
    int nlt = 0;
    for (int iv = 0; iv < nvar; iv++)
      for (int jv = 0; jv <= iv; jv++)
      {
        VectorDouble a = v.getSwVec(d, iv, jv, false), b = v.getHhVec(d, iv, jv, false), c = v.getGgVec(d, iv, jv, false, false, false);
        nlt = (int)a.size();
        sw.insert(sw.end(), a.begin(), a.end()); hh.insert(hh.end(), b.begin(), b.end()); gg.insert(gg.end(), c.begin(), c.end());
      }
    E.nlt.push_back(nlt); E.sw.push_back(sw); E.hh.push_back(hh); E.gg.push_back(gg);
  }
  return E;
}
struct MetaCase
{
  Data D;
  std::vector<DirC> dirs;
  int calc = 0, bySample = 0, kind = 0;
  std::vector<int> perm, vperm, dsel;
  std::vector<int> shift; // translation in multiples of L/1024
  template<class A> void io(A& a)
  {
    a("D", D)("dirs", dirs)("calc", calc)("bySample", bySample)("kind", kind)("perm", perm)("vperm", vperm)("dsel", dsel)("shift", shift);
  }
};
enum { M_PERM = 0, M_TRANS, M_VARPERM, M_DIRSUB };
static const char* metaName(int k)
{
  static const char* n[] = {"perm", "translation", "varperm", "dirsub"};
  return n[k];
}
static MetaCase genMeta()
{
  MetaCase c;
  c.calc = G::pick<int>({VG, VG, MADO, RODO, ORD4, COV, COV, COVNC, TR1, TR2, BINO, COVG});
  c.bySample = (c.calc == COVG) ? 1 : (G::pct(20) ? 1 : 0);
  int ndim = G::i(1, 3);
  int n = G::sz(2, 100);
  Lattice lat = genPoints(c.D, n, ndim);
  int nvar = G::pick<int>({1, 2, 2, 3});
  c.kind = G::i(0, 3);
  if ((c.calc == TR1 || c.calc == TR2 || c.calc == BINO || c.kind == M_VARPERM) && nvar == 1) nvar = 2;
  genValues(c.D, nvar, true, true);
  int ndir = G::pick<int>({1, 2, 3});
  if (c.kind == M_DIRSUB && ndir == 1) ndir = 2;
  // "by sample" (always used for the covariogram of points) with several directions writes outside its arrays
  // (finding bysample:dirs, exercised without the crash by sub bysample_dirs): one direction here
  if (c.bySample) { ndir = 1; if (c.kind == M_DIRSUB) c.kind = G::i(0, 1); }
  for (int k = 0; k < ndir; k++) c.dirs.push_back(genDir(c.D, lat, isAsym(c.calc)));
  if (c.kind == M_PERM) c.perm = G::perm(n);
  if (c.kind == M_TRANS) for (int k = 0; k < ndim; k++) c.shift.push_back(G::i(-4096, 4096));
  if (c.kind == M_VARPERM)
  {
    c.vperm = G::perm(nvar);
    bool id = true;
    for (int k = 0; k < nvar; k++) if (c.vperm[(size_t)k] != k) id = false;
    if (id) std::swap(c.vperm[0], c.vperm[1]);
  }
  if (c.kind == M_DIRSUB)
  {
    int m = G::i(1, ndir);
    std::vector<int> p = G::perm(ndir);
    c.dsel.assign(p.begin(), p.begin() + m);
    if (m == ndir) { bool id = true; for (int k = 0; k < m; k++) if (p[(size_t)k] != k) id = false; if (id) c.dsel.erase(c.dsel.begin()); }
  }
  return c;
}
static void runMeta(const MetaCase& c, Ctx& ctx, const std::string& keyPrefix)
{
  const Data& D = c.D;
  resetGlobals(D.ndim);
  labelData(ctx, D, c.dirs, c.calc);
  ctx.label(std::string("meta:") + metaName(c.kind));
  if (c.bySample) ctx.label("bysample");
  bool asym = isAsym(c.calc);
  {
    bool margin = false;
    int cnt = 0;
    for (auto& dc : c.dirs) forPairs(D, dc, asym, margin, [&](int, int, int, double) { cnt++; });
    if (margin) { ctx.inconclusive("pair-on-a-limit"); return; }
    ctx.nontrivial(cnt >= 2);
  }
  std::string key = keyPrefix.empty() ? std::string("meta:") + metaName(c.kind) + ":" + calcName(c.calc) + (c.bySample ? ":bysample" : "") : keyPrefix;
  // "by sample": each pair is credited to the sample that comes first in the order sorted along x, and the
  // running sums are not restarted per sample: samples sharing their first coordinate make the result depend on
  // the order of the samples (finding bysample:order)
  bool finding = !keyPrefix.empty();
  if (c.bySample && c.kind == M_PERM && keyPrefix.empty())
  {
    std::vector<double> x0;
    for (int i = 0; i < D.n; i++) x0.push_back(D.X(i, 0));
    std::sort(x0.begin(), x0.end());
    if (std::adjacent_find(x0.begin(), x0.end()) != x0.end()) { key = "bysample:order"; finding = true; ctx.label("bysample:x-ties"); }
  }
  if (asym && c.kind == M_VARPERM && keyPrefix.empty())
  { // heterotopic data: the cross-covariance depends on the order of the variables (finding cov:hetero-pairs)
    bool hetero = false;
    for (int i = 0; i < D.n; i++)
    {
      int nd = 0;
      for (int v = 0; v < D.nvar; v++) if (!isNA(D.Z(i, v))) nd++;
      if (nd > 0 && nd < D.nvar) hetero = true;
    }
    if (hetero) { key = "cov:hetero-pairs"; finding = true; ctx.label("cov:hetero-varperm"); }
  }
  // transformed problem
  Data T = D;
  std::vector<DirC> tdirs = c.dirs;
  int ocalc = c.calc; // calculation on the original data that the transformed result is compared with (per pair of variables)
  if (c.kind == M_PERM)
  {
    for (int i = 0; i < D.n; i++)
    {
      int o = c.perm[(size_t)i];
      for (int k = 0; k < D.ndim; k++) T.x[(size_t)i * D.ndim + k] = D.X(o, k);
      for (int v = 0; v < D.nvar; v++) T.z[(size_t)i * D.nvar + v] = D.Z(o, v);
      if (D.hasW) T.w[(size_t)i] = D.w[(size_t)o];
      if (D.hasSel) T.sel[(size_t)i] = D.sel[(size_t)o];
    }
  }
  else if (c.kind == M_TRANS)
  {
    for (int i = 0; i < D.n; i++)
      for (int k = 0; k < D.ndim; k++) T.x[(size_t)i * D.ndim + k] = D.X(i, k) + c.shift[(size_t)k] * (D.L / 1024.);
  }
  else if (c.kind == M_VARPERM)
  {
    for (int i = 0; i < D.n; i++)
      for (int v = 0; v < D.nvar; v++) T.z[(size_t)i * D.nvar + v] = D.Z(i, c.vperm[(size_t)v]);
  }
  else
  {
    tdirs.clear();
    for (int k : c.dsel) tdirs.push_back(c.dirs[(size_t)k]);
  }
  std::unique_ptr<Db> db0 = makeDb(D), db1 = makeDb(T);
  ctx.at(key);
  std::unique_ptr<Vario> v0 = runVario(c.dirs, db0.get(), c.calc, c.bySample, 0);
  std::unique_ptr<Vario> v0b;
  if (c.kind == M_VARPERM && (c.calc == TR1 || c.calc == TR2)) v0b = runVario(c.dirs, db0.get(), c.calc == TR1 ? TR2 : TR1, c.bySample, 0);
  std::unique_ptr<Vario> v1 = runVario(tdirs, db1.get(), c.calc, c.bySample, 1);
  if (!v0 || !v1) { ctx.fail(key + ":error", "computation reports an error"); return; }
  Ext E0 = extract(*v0, (int)c.dirs.size(), D.nvar), E1 = extract(*v1, (int)tdirs.size(), D.nvar), E0b;
  if (v0b) E0b = extract(*v0b, (int)c.dirs.size(), D.nvar);
  // scales for the absolute floor of the comparison
  double zlo = 1e300, zhi = -1e300, zmax = 0;
  for (auto z : D.z) if (!isNA(z)) { zlo = std::min(zlo, z); zhi = std::max(zhi, z); zmax = std::max(zmax, std::fabs(z)); }
  double zr = zhi > zlo ? zhi - zlo : 0.;
  double S = 1;
  switch (c.calc)
  {
    case VG: S = zr * zr; break;
    case MADO: S = zr; break;
    case RODO: S = std::sqrt(zr); break;
    case ORD4: S = zr * zr * zr * zr; break;
    case COVG: S = zmax * zmax * 3. * D.n; break;
    case COV: case COVNC: S = zmax * zmax; break;
    default: S = 1e3; break;
  }
  double rel = (c.calc == TR1 || c.calc == TR2 || c.calc == BINO) ? 1e-8 : 1e-10, absf = 1e-11 * S;
  for (int d1 = 0; d1 < (int)tdirs.size(); d1++)
  {
    int d0 = c.kind == M_DIRSUB ? c.dsel[(size_t)d1] : d1;
    int nlt = E1.nlt[(size_t)d1];
    if (nlt != E0.nlt[(size_t)d0]) { ctx.fail(key + ":size", "number of lags differs"); return; }
    for (int iv = 0; iv < D.nvar; iv++)
      for (int jv = 0; jv <= iv; jv++)
      {
        int oi = iv, oj = jv;
        bool rev = false;
        const Ext* src = &E0;
        if (c.kind == M_VARPERM)
        {
          oi = c.vperm[(size_t)iv]; oj = c.vperm[(size_t)jv];
          if (oi < oj) { rev = asym; if (c.calc == TR1 || c.calc == TR2) src = &E0b; }
        }
        for (int s = 0; s < nlt; s++)
        {
          size_t k1 = (size_t)(vrank(iv, jv) * nlt + s), k0 = (size_t)(vrank(oi, oj) * nlt + (rev ? nlt - 1 - s : s));
          double sw1 = E1.sw[(size_t)d1][k1], sw0 = src->sw[(size_t)d0][k0];
          std::string where = fmt("dir %d (orig %d) vars (%d,%d) slot %d/%d", d1, d0, iv, jv, s, nlt);
          if (sw1 != sw0) { ctx.fail(finding ? key : key + ":sw", where + fmt(": sw %.17g after, %.17g before", sw1, sw0)); return; }
          if (!(sw1 > 0)) continue;
          double h1 = E1.hh[(size_t)d1][k1], h0 = src->hh[(size_t)d0][k0];
          if (rev) h0 = -h0;
          if (!close(h1, h0, 1e-10, 1e-12 * D.L)) { ctx.fail(finding ? key : key + ":hh", where + fmt(": hh %.17g after, %.17g before", h1, h0)); return; }
          double g1 = E1.gg[(size_t)d1][k1], g0 = src->gg[(size_t)d0][k0];
          if (isNA(g1) && isNA(g0)) continue;
          if (!close(g1, g0, rel, absf)) { ctx.fail(finding ? key : key + ":gg", where + fmt(": gg %.17g after, %.17g before", g1, g0)); return; }
        }
      }
  }
  ctx.sig = sigOf(D, c.dirs, c.calc, c.kind * 2 + c.bySample);
}
static void runMeta0(const MetaCase& c, Ctx& ctx) { runMeta(c, ctx, ""); }
VERIF_SUB(vario_meta, MetaCase, genMeta, runMeta0);

// =================================================================== bysample_dirs ======
// "by sample" algorithm (flag_sample, and always for the covariogram of points) with several directions:
// the result of a direction must not depend on the other directions.  All directions share npas so that the
// misdirected writes of the current code stay inside the arrays.
static MetaCase genBySampleDirs()
{
  MetaCase c;
  c.calc = G::pick<int>({VG, COVG, COV, MADO});
  c.bySample = 1;
  c.kind = M_DIRSUB;
  int ndim = G::i(1, 3);
  Lattice lat = genPoints(c.D, G::sz(2, 60), ndim);
  genValues(c.D, G::i(1, 2), true, true);
  int ndir = G::i(2, 3);
  for (int k = 0; k < ndir; k++)
  {
    DirC dc = genDir(c.D, lat, isAsym(c.calc));
    if (k > 0 && dc.npas != c.dirs[0].npas)
    {
      dc.npas = c.dirs[0].npas;
      if (!dc.breaks.empty())
      {
        dc.breaks.resize(1);
        for (int q = 0; q < dc.npas; q++) dc.breaks.push_back(dc.breaks.back() + dc.dpas * (1. + 0.37 * q));
      }
      repairDir(c.D, dc, isAsym(c.calc));
    }
    c.dirs.push_back(dc);
  }
  c.dsel = {G::i(0, ndir - 1)};
  return c;
}
static void runBySampleDirs(const MetaCase& c, Ctx& ctx)
{
  for (auto& d : c.dirs) if (d.npas != c.dirs[0].npas) { ctx.inconclusive("npas-differ"); return; }
  runMeta(c, ctx, "bysample:dirs");
}
VERIF_SUB(bysample_dirs, MetaCase, genBySampleDirs, runBySampleDirs);

// =================================================================== vario_grid =========
// DbGrid: grid algorithm (DirParam defined by grid increments) against the pairwise definition on the grid
// nodes, and against the general algorithm with the matching direction / lag and tiny tolerances
struct GridCase
{
  int ndim = 1, nvar = 1, calc = 0, npas = 2, multi = 0;
  std::vector<int> nx;
  std::vector<double> dx, x0, angles;
  Data V;                // values, weights, selection (coordinates unused)
  std::vector<int> ginc; // ndir*ndim grid increments (multi=0)
  template<class A> void io(A& a)
  {
    a("ndim", ndim)("nvar", nvar)("calc", calc)("npas", npas)("multi", multi)("nx", nx)("dx", dx)("x0", x0)("angles", angles)("V", V)("ginc", ginc);
  }
};
static GridCase genGrid()
{
  GridCase c;
  c.calc = G::pick<int>({VG, VG, MADO, RODO, ORD4, COV, COV, COVNC, COVG, COVG, TR1, TR2, BINO});
  c.ndim = G::i(1, 3);
  int cap = c.ndim == 1 ? 60 : c.ndim == 2 ? 15 : 6;
  int n = 1, mx = 0;
  for (int k = 0; k < c.ndim; k++)
  {
    c.nx.push_back(G::sz(2, cap));
    n *= c.nx.back(); mx = std::max(mx, c.nx.back());
    c.dx.push_back((double)G::i(1, 16) / 4.);
    c.x0.push_back(G::r(-1000, 1000, 8));
  }
  if (c.ndim >= 2 && G::pct(40))
  {
    c.angles.assign((size_t)c.ndim, 0.);
    c.angles[0] = G::pick<double>({30., 90., -1.});
    if (c.angles[0] < 0) c.angles[0] = G::u(0., 180.);
  }
  c.V.n = n; c.V.ndim = c.ndim;
  int nvar = G::pick<int>({1, 1, 2, 3});
  if ((c.calc == TR1 || c.calc == TR2 || c.calc == BINO) && nvar == 1) nvar = 2;
  c.nvar = nvar;
  genValues(c.V, nvar, true, true);
  if (c.calc == COVG && !c.V.hasW)
  { // the covariogram of a grid without weight variable reads the rank of a locator that does not exist
    // (crash, finding covg-grid-noweight): a weight variable is always present here (its values are not used)
    c.V.hasW = 1;
    c.V.w.assign((size_t)n, 1.);
  }
  c.npas = G::i(1, std::min(9, mx + 1));
  c.multi = G::pct(40);
  if (!c.multi)
  {
    int ndir = G::i(1, 3);
    for (int d = 0; d < ndir; d++)
    {
      std::vector<int> g((size_t)c.ndim);
      bool zero = true;
      for (auto& v : g) { v = G::pick<int>({0, 0, 1, 1, -1, 2, -2}); if (v) zero = false; }
      if (zero) g[(size_t)G::i(0, c.ndim - 1)] = 1;
      c.ginc.insert(c.ginc.end(), g.begin(), g.end());
    }
  }
  return c;
}
static void runGrid(const GridCase& c, Ctx& ctx)
{
  resetGlobals(c.ndim);
  int nd = c.ndim, n = c.V.n, nvar = c.nvar;
  bool asym = isAsym(c.calc);
  // library grid
  int ncol = nvar + (c.V.hasW ? 1 : 0) + (c.V.hasSel ? 1 : 0);
  VectorDouble tab((size_t)ncol * (size_t)n);
  VectorString names, zn;
  int cc = 0;
  for (int v = 0; v < nvar; v++, cc++)
  {
    names.push_back("v" + std::to_string(v + 1)); zn.push_back(names.back());
    for (int i = 0; i < n; i++) tab[(size_t)cc * n + i] = c.V.Z(i, v);
  }
  if (c.V.hasW) { names.push_back("wgt"); for (int i = 0; i < n; i++) tab[(size_t)cc * n + i] = c.V.w[(size_t)i]; cc++; }
  if (c.V.hasSel) { names.push_back("mask"); for (int i = 0; i < n; i++) tab[(size_t)cc * n + i] = c.V.sel[(size_t)i] ? 1. : 0.; cc++; }
  ctx.at("grid:create");
  std::unique_ptr<DbGrid> g(DbGrid::create(VectorInt(c.nx.begin(), c.nx.end()), VectorDouble(c.dx.begin(), c.dx.end()),
                                           VectorDouble(c.x0.begin(), c.x0.end()), VectorDouble(c.angles.begin(), c.angles.end()),
                                           ELoadBy::COLUMN, tab, names));
  g->setLocators(zn, ELoc::Z);
  if (c.V.hasW) g->setLocator("wgt", ELoc::W);
  if (c.V.hasSel) g->setLocator("mask", ELoc::SEL);
  // directions
  std::vector<std::vector<int>> incs;
  if (c.multi)
    for (int k = 0; k < nd; k++) { std::vector<int> e((size_t)nd, 0); e[(size_t)k] = 1; incs.push_back(e); }
  else
    for (size_t d = 0; d * nd < c.ginc.size(); d++) incs.emplace_back(c.ginc.begin() + d * nd, c.ginc.begin() + (d + 1) * nd);
  int ndir = (int)incs.size();
  // coordinates of the nodes (as the library stores them), used by the general algorithm and its margins
  Data D = c.V;
  D.L = 1;
  D.x.assign((size_t)n * nd, 0.);
  for (int i = 0; i < n; i++)
    for (int k = 0; k < nd; k++) D.x[(size_t)i * nd + k] = g->getCoordinate(i, k);
  std::vector<DirC> dirs; // description of the same directions for the general algorithm
  auto rankOf = [&](const std::vector<int>& ix) { int r = 0, m = 1; for (int k = 0; k < nd; k++) { if (ix[(size_t)k] < 0 || ix[(size_t)k] >= c.nx[(size_t)k]) return -1; r += m * ix[(size_t)k]; m *= c.nx[(size_t)k]; } return r; };
  double maille = 1;
  for (auto v : c.dx) maille *= v;
  std::vector<double> wcell((size_t)n, maille);
  Oracle O;
  for (int d = 0; d < ndir; d++)
  {
    DirC dc;
    dc.npas = c.npas;
    double s2 = 0;
    for (int k = 0; k < nd; k++) s2 += (incs[d][(size_t)k] * c.dx[(size_t)k]) * (incs[d][(size_t)k] * c.dx[(size_t)k]);
    dc.dpas = std::sqrt(s2);
    dc.toldis = 0.002; dc.tolang = 0.05;
    // direction of the increment in the user's system: difference of the coordinates of two nodes
    {
      // grid rotation: node(i) = x0 + R * (i*dx): linear, so any two nodes separated by the increment give it;
      // take it from the linear map evaluated through the unit steps (n may be too small to contain the increment)
      dc.codir.assign((size_t)nd, 0.);
      for (int k = 0; k < nd; k++)
      {
        if (!incs[d][(size_t)k]) continue;
        // unit step along grid axis k: nodes 0 and e_k always exist (nx >= 2)
        std::vector<int> e((size_t)nd, 0); e[(size_t)k] = 1;
        int r1 = rankOf(e);
        for (int q = 0; q < nd; q++) dc.codir[(size_t)q] += incs[d][(size_t)k] * (D.X(r1, q) - D.X(0, q));
      }
      normalize(dc.codir);
    }
    dirs.push_back(dc);
    int nlt = asym ? 2 * c.npas + 1 : c.npas;
    Acc A(nvar, nlt), AN(nvar, nlt);
    std::vector<int> ix((size_t)nd), jx((size_t)nd);
    for (int i = 0; i < n; i++)
    {
      if (!D.active(i)) continue;
      int rem = i;
      for (int k = 0; k < nd; k++) { ix[(size_t)k] = rem % c.nx[(size_t)k]; rem /= c.nx[(size_t)k]; }
      for (int ip = 1; ip < c.npas; ip++)
      {
        for (int k = 0; k < nd; k++) jx[(size_t)k] = ix[(size_t)k] + ip * incs[d][(size_t)k];
        int j = rankOf(jx);
        if (j < 0 || !D.active(j)) continue;
        LD ww = c.calc == COVG ? (LD)maille : (LD)D.W(i) * (LD)D.W(j);
        LD dist = (LD)ip * dc.dpas;
        for (int iv = 0; iv < nvar; iv++)
          for (int jv = 0; jv <= iv; jv++)
          {
            int r = vrank(iv, jv);
            double zif = D.Z(i, iv), zit = D.Z(j, iv), zjf = D.Z(i, jv), zjt = D.Z(j, jv);
            if (!asym)
            {
              if (isNA(zif) || isNA(zit) || isNA(zjf) || isNA(zjt)) continue;
              A.add(r, ip, ww, dist, summand(c.calc, zif, zit, zjf, zjt));
            }
            else
            {
              int sp = c.npas + 1 + ip, sm = c.npas - 1 - ip;
              if (!isNA(zif) && !isNA(zjt)) { A.swN[(size_t)(r * nlt + sp)] += ww; AN.add(r, sp, ww, dist, (LD)zif * zjt); }
              if (!isNA(zit) && !isNA(zjf)) { A.swN[(size_t)(r * nlt + sm)] += ww; AN.add(r, sm, ww, dist, (LD)zit * zjf); }
              if (isNA(zif) || isNA(zit)) continue; // library convention, see cov:hetero-pairs
              if (!isNA(zjt)) A.add(r, sp, ww, dist, (LD)zif * zjt);
              if (!isNA(zjf)) A.add(r, sm, ww, dist, (LD)zit * zjf);
            }
          }
      }
    }
    O.dirs.push_back(finish(D, c.calc, c.npas, A, c.calc == COVG ? &wcell : nullptr));
    if (asym) { AN.swN = AN.sw; O.dirsN.push_back(finish(D, c.calc, c.npas, AN, c.calc == COVG ? &wcell : nullptr)); }
    else O.dirsN.push_back(O.dirs.back());
    const DirRes& R = O.dirs.back();
    for (size_t k = 0; k < R.sw.size(); k++) if (R.sw[k] >= 0 && R.swN[k] != R.sw[k]) O.heteroDiffers = true;
  }
  labelData(ctx, D, dirs, c.calc);
  ctx.label(c.multi ? "grid:createMultipleFromGrid" : "grid:grincr");
  if (!c.angles.empty()) ctx.label("grid:rotated");
  // grid algorithm
  std::string key = std::string("grid:") + calcName(c.calc);
  ctx.at(key);
  std::unique_ptr<VarioParam> vp;
  if (c.multi) vp.reset(VarioParam::createMultipleFromGrid(g.get(), c.npas));
  else
  {
    vp.reset(new VarioParam());
    for (auto& inc : incs)
    {
      std::unique_ptr<DirParam> dp(DirParam::createFromGrid(g.get(), c.npas, VectorInt(inc.begin(), inc.end())));
      vp->addDir(*dp);
    }
  }
  int ncolBefore = g->getColumnNumber();
  std::unique_ptr<Vario> vg(Vario::computeFromDb(*vp, g.get(), calcOf(c.calc)));
  if (!vg) { ctx.fail(key + ":error", "grid algorithm reports an error"); return; }
  if (!cmpAll(ctx, *vg, O, nvar, key, "grid algorithm")) return;
  if (g->getColumnNumber() != ncolBefore) { ctx.fail(key + ":columns", fmt("the grid has %d columns after the calculation, %d before", g->getColumnNumber(), ncolBefore)); return; }
  // general algorithm on the same nodes
  if (c.calc != COVG)
  {
    bool margin = false;
    for (auto& dc : dirs) forPairs(D, dc, asym, margin, [&](int, int, int, double) {});
    // the comparison only makes sense when the cone/lag tolerances select exactly the pairs of nodes separated by
    // multiples of the increment (other nodes can fall inside the tolerances on very anisotropic meshes)
    bool same = true;
    if (!margin)
    {
      Oracle P = oraclePoints(D, dirs, c.calc);
      for (int d = 0; d < ndir && same; d++)
        for (size_t k = 0; k < P.dirs[(size_t)d].sw.size(); k++)
          if (P.dirs[(size_t)d].sw[k] != O.dirs[(size_t)d].sw[k]) { same = false; break; }
    }
    if (margin) ctx.label("grid:general-skipped-margin");
    else if (!same) ctx.label("grid:general-skipped-not-equivalent");
    else
    {
      std::string key2 = std::string("grid-general:") + calcName(c.calc);
      ctx.at(key2);
      std::unique_ptr<Vario> vgen = runVario(dirs, g.get(), c.calc, false, 1);
      if (!vgen) { ctx.fail(key2 + ":error", "general algorithm on the grid reports an error"); return; }
      if (!cmpAll(ctx, *vgen, O, nvar, key2, "general algorithm on grid nodes")) return;
    }
  }
  ctx.nontrivial(countPopulated(O) >= 2 && (ndir >= 2 || nvar >= 2 || D.anyNA() || D.hasSel || !c.angles.empty()));
  ctx.sig = Hash().add(sigOf(D, dirs, c.calc, c.multi)).add(c.ndim).add(n).h;
}
VERIF_SUB(vario_grid, GridCase, genGrid, runGrid);

// =================================================================== vcloud =============
// db_vcloud: per direction, number of pairs (accepted by the direction / bench / cylinder rules, both values
// defined) whose (distance, half squared difference) falls in each cell of the cloud grid
struct CloudCase
{
  Data D;
  std::vector<DirC> dirs;
  double lagmax = 1, varmax = 1;
  int lagnb = 2, varnb = 2;
  template<class A> void io(A& a) { a("D", D)("dirs", dirs)("lagmax", lagmax)("varmax", varmax)("lagnb", lagnb)("varnb", varnb); }
};
static inline bool nearCellEdge(double q) { double f = q + 0.5 - std::floor(q + 0.5); return f < 1e-6 || f > 1 - 1e-6; }
static bool cloudMargin(const CloudCase& c, double mf)
{
  const Data& D = c.D;
  double dx0 = c.lagmax / c.lagnb, dx1 = c.varmax / c.varnb;
  for (int a = 0; a < D.n; a++)
    for (int b = a + 1; b < D.n; b++)
    {
      double d2 = 0;
      for (int k = 0; k < D.ndim; k++) d2 += (D.X(b, k) - D.X(a, k)) * (D.X(b, k) - D.X(a, k));
      double q = std::sqrt(d2) / dx0, f = q + 0.5 - std::floor(q + 0.5);
      if (f < mf * 1e-6 || f > 1 - mf * 1e-6) return true;
      if (isNA(D.Z(a, 0)) || isNA(D.Z(b, 0))) continue;
      double v = (D.Z(b, 0) - D.Z(a, 0)) * (D.Z(b, 0) - D.Z(a, 0)) / 2.;
      q = v / dx1; f = q + 0.5 - std::floor(q + 0.5);
      if (f < mf * 1e-6 || f > 1 - mf * 1e-6) return true;
    }
  return false;
}
static CloudCase genCloud()
{
  CloudCase c;
  int ndim = G::i(1, 3);
  Lattice lat = genPoints(c.D, G::sz(2, 80), ndim);
  genValues(c.D, 1, false, true);
  int ndir = G::i(1, 3);
  for (int k = 0; k < ndir; k++) c.dirs.push_back(genDir(c.D, lat, false));
  c.lagnb = G::i(1, 12); c.varnb = G::i(1, 12);
  c.lagmax = c.D.L * G::lu(0.1, 2.);
  double zlo = 1e300, zhi = -1e300;
  for (auto z : c.D.z) if (!isNA(z)) { zlo = std::min(zlo, z); zhi = std::max(zhi, z); }
  double zr = zhi > zlo ? zhi - zlo : 1.;
  c.varmax = zr * zr * G::lu(0.05, 1.);
  for (int it = 1; it <= 60 && cloudMargin(c, 3.); it++) { c.lagmax *= 1. + 7.3e-6 * it; c.varmax *= 1. + 5.9e-6 * it; }
  return c;
}
static void runCloud(const CloudCase& c, Ctx& ctx)
{
  const Data& D = c.D;
  resetGlobals(D.ndim);
  labelData(ctx, D, c.dirs, VG);
  int ndir = (int)c.dirs.size();
  if (cloudMargin(c, 1.)) { ctx.inconclusive("pair-on-a-cell-edge"); return; }
  double dx0 = c.lagmax / c.lagnb, dx1 = c.varmax / c.varnb;
  std::vector<std::vector<double>> cnt((size_t)ndir, std::vector<double>((size_t)(c.lagnb * c.varnb), 0.));
  long inside = 0;
  for (int d = 0; d < ndir; d++)
    for (int a = 0; a < D.n; a++)
    {
      if (!D.active(a)) continue;
      for (int b = a + 1; b < D.n; b++)
      {
        if (!D.active(b)) continue;
        Geom g = pairGeom(D, c.dirs[(size_t)d], a, b, false);
        if (g.why & ~16) { ctx.inconclusive("pair-on-a-limit"); return; }
        if (!g.ok) continue;
        if (isNA(D.Z(a, 0)) || isNA(D.Z(b, 0))) continue;
        double v = (D.Z(b, 0) - D.Z(a, 0)) * (D.Z(b, 0) - D.Z(a, 0)) / 2.;
        int ix = (int)std::floor(g.d / dx0 + 0.5), iy = (int)std::floor(v / dx1 + 0.5);
        if (ix < 0 || ix >= c.lagnb || iy < 0 || iy >= c.varnb) continue;
        cnt[(size_t)d][(size_t)(ix + c.lagnb * iy)] += 1.;
        inside++;
      }
    }
  std::unique_ptr<Db> db = makeDb(D);
  VarioParam vp = makeVP(c.dirs);
  ctx.at("vcloud");
  std::unique_ptr<DbGrid> g(db_vcloud(db.get(), &vp, c.lagmax, c.varmax, c.lagnb, c.varnb));
  if (!g) { ctx.fail("vcloud:error", "db_vcloud returns no grid"); return; }
  if (g->getSampleNumber() != c.lagnb * c.varnb) { ctx.fail("vcloud:size", fmt("cloud grid has %d cells, expected %d", g->getSampleNumber(), c.lagnb * c.varnb)); return; }
  int ncol = g->getColumnNumber();
  for (int d = 0; d < ndir; d++)
  {
    VectorDouble col = g->getColumnByColIdx(ncol - ndir + d);
    for (int k = 0; k < c.lagnb * c.varnb; k++)
    {
      double e = cnt[(size_t)d][(size_t)k], got = col[(size_t)k];
      bool okv = e == 0 ? (isNA(got) || got == 0) : got == e;
      if (!okv) { ctx.fail("vcloud:count", fmt("dir %d cell (%d,%d): %.17g pairs reported, %.17g pairs by definition", d, k % c.lagnb, k / c.lagnb, got, e)); return; }
    }
  }
  ctx.nontrivial(inside >= 2 && (ndir >= 2 || D.anyNA() || D.hasSel || c.dirs[0].tolang < 90));
  ctx.sig = Hash().add(sigOf(D, c.dirs, VG, 77)).add(c.lagnb).add(c.varnb).h;
}
VERIF_SUB(vcloud, CloudCase, genCloud, runCloud);

// =================================================================== vmap ===============
// db_vmap: for each cell of the map centred on the origin, weight and mean of the estimator's summand over the
// ordered pairs of samples whose separation vector falls in the cell
struct VmapCase
{
  Data D; // points: coordinates used; grid: values only
  int grid = 0, calc = 0, fft = 0;
  std::vector<int> nx;      // grid only
  std::vector<double> gdx;  // grid only
  std::vector<int> nxx;
  std::vector<double> dxx;  // points only
  template<class A> void io(A& a) { a("D", D)("grid", grid)("calc", calc)("fft", fft)("nx", nx)("gdx", gdx)("nxx", nxx)("dxx", dxx); }
};
static bool vmapMargin(const VmapCase& c, double mf)
{
  const Data& D = c.D;
  for (int a = 0; a < D.n; a++)
    for (int b = a + 1; b < D.n; b++)
      for (int k = 0; k < D.ndim; k++)
      {
        double q = (D.X(b, k) - D.X(a, k)) / c.dxx[(size_t)k], f = q + 0.5 - std::floor(q + 0.5);
        if (std::fabs(q) > c.nxx[(size_t)k] + 1.5) continue;
        if (f < mf * 1e-6 || f > 1 - mf * 1e-6) return true;
      }
  return false;
}
static VmapCase genVmapPts()
{
  VmapCase c;
  c.calc = G::pick<int>({VG, VG, MADO, RODO, ORD4});
  int ndim = G::i(2, 3);
  genPoints(c.D, G::sz(2, 80), ndim);
  genValues(c.D, G::pick<int>({1, 1, 2}), true, true);
  for (int k = 0; k < ndim; k++) { c.nxx.push_back(G::i(1, 5)); c.dxx.push_back(c.D.L * G::lu(0.02, 0.3)); }
  for (int it = 1; it <= 60 && vmapMargin(c, 3.); it++)
    for (auto& v : c.dxx) v *= 1. + 7.3e-6 * it;
  return c;
}
static VmapCase genVmapGrid()
{
  VmapCase c;
  c.grid = 1;
  int ndim = G::i(2, 3);
  c.fft = G::pct(30);
  c.calc = c.fft ? VG : G::pick<int>({VG, VG, MADO, RODO, ORD4});
  int n = 1;
  for (int k = 0; k < ndim; k++)
  {
    // FFT variant: an axis with a single node overflows VMap::_extract (crash, finding vmap-fft-flat-axis)
    c.nx.push_back(G::sz(c.fft ? 2 : 1, ndim == 2 ? 10 : 5));
    n *= c.nx.back();
    c.gdx.push_back((double)G::i(1, 16) / 4.);
    c.nxx.push_back(G::i(1, 5));
  }
  c.D.n = n; c.D.ndim = ndim;
  genValues(c.D, G::pick<int>({1, 1, 2}), !c.fft, !c.fft);
  return c;
}
static void runVmap(const VmapCase& c, Ctx& ctx)
{
  const Data& D = c.D;
  int nd = D.ndim, nvar = D.nvar, nvp = nvar * (nvar + 1) / 2;
  resetGlobals(nd);
  ctx.label(std::string("calc:") + calcName(c.calc));
  ctx.label(c.grid ? (c.fft ? "vmap:grid-fft" : "vmap:grid") : "vmap:points");
  ctx.label(fmt("ndim:%d", nd)); ctx.label(fmt("nvar:%d", nvar));
  if (D.anyNA()) ctx.label("data:NA");
  if (D.hasW) ctx.label("data:weights");
  if (D.hasSel) ctx.label("data:selection");
  if (!c.grid && vmapMargin(c, 1.)) { ctx.inconclusive("pair-on-a-cell-edge"); return; }
  int ncell = 1;
  std::vector<int> nmap;
  for (int k = 0; k < nd; k++) { nmap.push_back(2 * c.nxx[(size_t)k] + 1); ncell *= nmap.back(); }
  std::vector<LD> nb((size_t)(nvp * ncell), 0), vs(nb), va(nb);
  std::vector<int> ia((size_t)nd), ib((size_t)nd);
  long offc = 0;
  for (int a = 0; a < D.n; a++)
  {
    if (!D.active(a)) continue;
    if (c.grid) { int rem = a; for (int k = 0; k < nd; k++) { ia[(size_t)k] = rem % c.nx[(size_t)k]; rem /= c.nx[(size_t)k]; } }
    for (int b = 0; b < D.n; b++)
    {
      if (!D.active(b)) continue;
      int cell = 0, m = 1;
      bool out = false;
      if (c.grid) { int rem = b; for (int k = 0; k < nd; k++) { ib[(size_t)k] = rem % c.nx[(size_t)k]; rem /= c.nx[(size_t)k]; } }
      for (int k = 0; k < nd && !out; k++)
      {
        int q = c.grid ? ib[(size_t)k] - ia[(size_t)k] : (int)std::floor((D.X(b, k) - D.X(a, k)) / c.dxx[(size_t)k] + 0.5);
        if (q < -c.nxx[(size_t)k] || q > c.nxx[(size_t)k]) out = true;
        cell += m * (q + c.nxx[(size_t)k]); m *= nmap[(size_t)k];
      }
      if (out) continue;
      LD ww = (LD)D.W(a) * (LD)D.W(b);
      for (int iv = 0; iv < nvar; iv++)
        for (int jv = 0; jv <= iv; jv++)
        {
          double zia = D.Z(a, iv), zib = D.Z(b, iv), zja = D.Z(a, jv), zjb = D.Z(b, jv);
          if (isNA(zia) || isNA(zib) || isNA(zja) || isNA(zjb)) continue;
          size_t k = (size_t)(vrank(iv, jv) * ncell + cell);
          LD v = summand(c.calc, zia, zib, zja, zjb);
          nb[k] += ww; vs[k] += ww * v; va[k] += ww * fabsl(v);
          if (a != b) offc++;
        }
    }
  }
  // library
  std::unique_ptr<Db> db;
  if (!c.grid) db = makeDb(D);
  else
  {
    int ncol = nvar + (D.hasW ? 1 : 0) + (D.hasSel ? 1 : 0), n = D.n, cc = 0;
    VectorDouble tab((size_t)ncol * (size_t)n);
    VectorString names, zn;
    for (int v = 0; v < nvar; v++, cc++) { names.push_back("v" + std::to_string(v + 1)); zn.push_back(names.back()); for (int i = 0; i < n; i++) tab[(size_t)cc * n + i] = D.Z(i, v); }
    if (D.hasW) { names.push_back("wgt"); for (int i = 0; i < n; i++) tab[(size_t)cc * n + i] = D.w[(size_t)i]; cc++; }
    if (D.hasSel) { names.push_back("mask"); for (int i = 0; i < n; i++) tab[(size_t)cc * n + i] = D.sel[(size_t)i] ? 1. : 0.; cc++; }
    DbGrid* gg = DbGrid::create(VectorInt(c.nx.begin(), c.nx.end()), VectorDouble(c.gdx.begin(), c.gdx.end()), VectorDouble(), VectorDouble(), ELoadBy::COLUMN, tab, names);
    gg->setLocators(zn, ELoc::Z);
    if (D.hasW) gg->setLocator("wgt", ELoc::W);
    if (D.hasSel) gg->setLocator("mask", ELoc::SEL);
    db.reset(gg);
  }
  std::string key = std::string(c.grid ? (c.fft ? "vmap-fft:" : "vmap-grid:") : "vmap-points:") + calcName(c.calc);
  ctx.at(key);
  std::unique_ptr<DbGrid> map(db_vmap(db.get(), calcOf(c.calc), VectorInt(c.nxx.begin(), c.nxx.end()),
                                      c.grid ? VectorDouble() : VectorDouble(c.dxx.begin(), c.dxx.end()), 0, c.fft != 0));
  if (!map) { ctx.fail(key + ":error", "db_vmap returns no grid"); return; }
  if (map->getSampleNumber() != ncell) { ctx.fail(key + ":size", fmt("map has %d cells, expected %d", map->getSampleNumber(), ncell)); return; }
  int ncolm = map->getColumnNumber();
  double relv = c.fft ? 1e-7 : 1e-10;
  // the FFT variant obtains the variogram from sums of products z*z: its absolute error scales with max|z|^2
  double zmax = 0;
  for (auto z : D.z) if (!isNA(z)) zmax = std::max(zmax, std::fabs(z));
  double fftAbs = 1e-9 + 1e-11 * zmax * zmax * std::log2((double)D.n + 2.);
  for (int r = 0; r < nvp; r++)
  {
    VectorDouble var = map->getColumnByColIdx(ncolm - 2 * nvp + r), cnt = map->getColumnByColIdx(ncolm - nvp + r);
    for (int k = 0; k < ncell; k++)
    {
      size_t q = (size_t)(r * ncell + k);
      double e = (double)nb[q];
      bool okn = c.fft ? std::fabs(cnt[(size_t)k] - e) <= 1e-6 * (1 + e) : cnt[(size_t)k] == e;
      if (!okn) { ctx.fail(key + ":nb", fmt("variables #%d cell %d/%d: weight %.17g, pairwise definition %.17g", r, k, ncell, cnt[(size_t)k], e)); return; }
      if (!(e > 0)) continue;
      double ev = (double)(vs[q] / nb[q]), tol = relv * (double)std::max(fabsl(vs[q] / nb[q]), va[q] / nb[q]) + (c.fft ? fftAbs : 0.);
      if (!(std::fabs(var[(size_t)k] - ev) <= tol)) { ctx.fail(key + ":var", fmt("variables #%d cell %d/%d: value %.17g, pairwise definition %.17g", r, k, ncell, var[(size_t)k], ev)); return; }
    }
  }
  ctx.nontrivial(offc >= 4);
  Hash h;
  h.add(c.grid).add(c.fft).add(c.calc).add(nd).add(nvar).add(D.n / 4).add(D.hasW).add(D.hasSel).add(D.anyNA() ? 1 : 0);
  for (auto v : c.nxx) h.add(v);
  ctx.sig = h.h;
}
VERIF_SUB(vmap_points, VmapCase, genVmapPts, runVmap);
VERIF_SUB(vmap_grid, VmapCase, genVmapGrid, runVmap);

VERIF_MAIN()
