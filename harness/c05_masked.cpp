// C05 — masked or undefined samples never influence a result.  DESIGN.md §5 C05.
//
// Metamorphic relation "masked == physically removed": every sub-property builds a Db with a selection
// (none / all active / all masked / random), samples with an undefined coordinate and samples whose values are
// all undefined, runs one family of operations on it, builds the *reduced* Db holding only the remaining rows
// (manual reconstruction from the case, or Db::createReduce with explicit ranks) and runs the same operation
// there.  Oracle: the results on the masked Db restricted to the active rows are those on the reduced Db
// (counts / indices exactly, other numbers to 1e-10 relative, results of linear solves gated by the condition
// number of the system computed by the harness's own dense oracle).  Target side: masked targets keep TEST in
// the columns created by the operation and no pre-existing cell changes.
//
// A value undefined in one variable only (heterotopy) stays in both Dbs: the rule that drops the equation is
// C01's oracle; here both sides hold the same heterotopic rows, so the relation remains sound.
#include "verif.hpp"
#include "geo_common.hpp"
#include "krig_common.hpp"

#include "Db/Db.hpp"
#include "Db/DbGrid.hpp"
#include "Basic/VectorHelper.hpp"

using namespace vf;
using namespace vfkrig;

// ------------------------------------------------------------------ small helpers -------
static bool na(double v) { return vfkrig::isNA(v); }
static void dbgMsg(const char* s) { std::string t(s); while (!t.empty() && t.back() == '\n') t.pop_back(); diag("LIB: " + t); }
static void debugHook()
{
  if (getenv("C05_DEBUG")) { redefine_message(dbgMsg); redefine_error(dbgMsg); }
}

// plain differential comparison (DESIGN §3): relative 1e-10, absolute floor 1e-12 * scale
static bool same(double a, double b, double scale, double rel = 1e-10)
{
  if (na(a) || na(b)) return na(a) && na(b);
  return std::fabs(a - b) <= rel * std::max(std::fabs(a), std::fabs(b)) + 1e-12 * scale;
}

// snapshot of all cells of a Db (by column index), to prove that nothing pre-existing changed
struct Snap
{
  std::vector<std::string> names;
  std::vector<std::vector<double>> cols;
};
static Snap snapOf(const Db* db)
{
  Snap s;
  for (int ic = 0; ic < db->getColumnNumber(); ic++)
  {
    s.names.push_back(db->getNameByColIdx(ic));
    VectorDouble v = db->getColumnByColIdx(ic, false, false);
    s.cols.push_back(std::vector<double>(v.begin(), v.end()));
  }
  return s;
}
// every column of the snapshot still exists under its name and holds the same bits
static bool snapUnchanged(const Snap& s, const Db* db, std::string& what)
{
  for (size_t k = 0; k < s.names.size(); k++)
  {
    int ic = db->getColIdx(s.names[k]);
    if (ic < 0) { what = "column '" + s.names[k] + "' disappeared"; return false; }
    VectorDouble v = db->getColumnByColIdx(ic, false, false);
    if (v.size() != s.cols[k].size()) { what = "column '" + s.names[k] + "' changed its length"; return false; }
    for (size_t i = 0; i < s.cols[k].size(); i++)
      if (memcmp(&v[i], &s.cols[k][i], sizeof(double)) != 0)
      {
        what = fmt("cell (%d,'%s') changed from %.17g to %.17g", (int)i, s.names[k].c_str(), s.cols[k][i], v[i]);
        return false;
      }
  }
  return true;
}
static bool inSnap(const Snap& s, const std::string& name)
{
  return std::find(s.names.begin(), s.names.end(), name) != s.names.end();
}

// selection pattern: mode 0 none, 1 all active (column present), 2 all masked, 3 random
static std::vector<int> genSel(int n, int& mode)
{
  mode = G::pick<int>({0, 1, 2, 3, 3, 3, 3, 3, 3, 3, 3, 3, 3, 3, 3, 3});
  std::vector<int> s;
  if (mode == 0 || n == 0) return s;
  s.assign((size_t)n, mode == 2 ? 0 : 1);
  if (mode == 3)
  {
    int p = G::pick<int>({10, 30, 60});
    for (int i = 0; i < n; i++)
      if (G::pct(p)) s[(size_t)i] = 0;
  }
  return s;
}

// =================================================================== kriging-like ========
// Case = a kriging problem of krig_common.hpp + masking on the data and on the targets.
struct KM
{
  KCase k;
  std::vector<int> naCoord;   // empty, or n entries: 0 = defined, d+1 = coordinate d of that datum is undefined
  std::vector<int> tsel;      // empty, or one flag per target (0 = masked target)
  std::vector<double> pre;    // empty, or a pre-existing column of the target Db
  int ball = 0, leaf = 10;    // moving neighbourhood: ball-tree search
  int viaReduce = 0;          // reduced data Db built by Db::createReduce(ranks) instead of manual reconstruction
  int seed = 1, nbsimu = 1, nbtuba = 10; // simulations
  int op = 0;                 // free parameter of the sub-property
  template<class A> void io(A& a)
  {
    a("k", k)("naCoord", naCoord)("tsel", tsel)("pre", pre)("ball", ball)("leaf", leaf)("viaReduce", viaReduce)("seed", seed)(
      "nbsimu", nbsimu)("nbtuba", nbtuba)("op", op);
  }
  int n() const { return k.n(); }
  bool coordNA(int i) const { return !naCoord.empty() && naCoord[(size_t)i] != 0; }
  bool removed(int i) const { return !k.active(i) || coordNA(i) || !k.anyDef(i); }
  bool tactive(int t) const { return tsel.empty() || tsel[(size_t)t] != 0; }
  int nRemoved() const
  {
    int r = 0;
    for (int i = 0; i < n(); i++) r += removed(i) ? 1 : 0;
    return r;
  }
};

struct KMOpt
{
  GenOpt g;
  int naCoordPct = 25;   // cases with undefined coordinates
  int allNaPct = 25;     // cases with wholly undefined samples
  int tselPct = 50;      // cases with a selection on the targets
  int ballPct = 0;
};

static KM genKM(const KMOpt& o)
{
  KM c;
  GenOpt g = o.g;
  g.selPct = 0;
  c.k = genCase(g);
  int n = c.k.n(), nt = c.k.ntarg();
  int mode = 0;
  c.k.sel = genSel(n, mode);
  if (G::pct(o.allNaPct))
    for (int i = 0; i < n; i++)
      if (G::pct(20))
        for (int v = 0; v < c.k.nvar; v++) c.k.z[(size_t)(i * c.k.nvar + v)] = NA;
  if (G::pct(o.naCoordPct))
  {
    c.naCoord.assign((size_t)n, 0);
    for (int i = 0; i < n; i++)
      if (G::pct(20)) c.naCoord[(size_t)i] = 1 + G::i(0, c.k.ndim - 1);
  }
  if (G::pct(o.tselPct))
  {
    int tm = 0;
    c.tsel = genSel(nt, tm);
  }
  if (G::pct(50))
  {
    c.pre.resize((size_t)nt);
    for (auto& v : c.pre) v = G::pct(15) ? NA : G::r(-9, 9, 4);
  }
  if (c.k.moving && G::pct(o.ballPct))
  {
    c.ball = 1;
    c.leaf = G::pick<int>({1, 2, 5, 10, 30});
  }
  c.viaReduce = G::pct(30) ? 1 : 0;
  c.seed = G::seed();
  c.nbsimu = G::pick<int>({1, 1, 2});
  c.nbtuba = G::pick<int>({1, 5, 20});
  return c;
}

// the masked problem as a KCase (undefined coordinates written into the data)
static KCase maskedCase(const KM& c)
{
  KCase m = c.k;
  for (int i = 0; i < c.n(); i++)
    if (c.coordNA(i)) m.data.c[(size_t)(i * m.ndim + (c.naCoord[(size_t)i] - 1))] = NA;
  return m;
}
// the reduced problem: removed data rows and masked targets are physically absent
static KCase reducedCase(const KM& c, std::vector<int>& keptData, std::vector<int>& keptTarg)
{
  const KCase& k = c.k;
  KCase r = k;
  int n = k.n(), nv = k.nvar, nt = k.ntarg();
  keptData.clear();
  keptTarg.clear();
  r.data.c.clear();
  r.z.clear();
  r.sel.clear();
  r.verr.clear();
  r.fdat.clear();
  for (int i = 0; i < n; i++)
  {
    if (c.removed(i)) continue;
    keptData.push_back(i);
    r.data.push(k.data.p(i));
    for (int v = 0; v < nv; v++) r.z.push_back(k.z[(size_t)(i * nv + v)]);
    if (!k.verr.empty())
      for (int v = 0; v < nv; v++) r.verr.push_back(k.verr[(size_t)(i * nv + v)]);
    for (int f = 0; f < k.nfex; f++) r.fdat.push_back(k.fdat[(size_t)(i * k.nfex + f)]);
  }
  for (int t = 0; t < nt; t++)
    if (c.tactive(t)) keptTarg.push_back(t);
  if (!k.block)
  {
    r.targ.c.clear();
    r.ftar.clear();
    for (int t : keptTarg)
    {
      r.targ.push(k.targ.p(t));
      for (int f = 0; f < k.nfex; f++) r.ftar.push_back(k.ftar[(size_t)(t * k.nfex + f)]);
    }
  }
  return r;
}

// worlds of the two sides.  Masked side: selection / pre-existing column on the targets.  Reduced side:
// data Db rebuilt from the kept rows (or Db::createReduce with explicit ranks); the target Db holds the
// active targets only when the targets are points (a grid cannot lose cells: it keeps its selection).
static bool buildBoth(const KM& c, World& w1, World& w2, KCase& m, KCase& r, std::vector<int>& keptData, std::vector<int>& keptTarg,
                      Ctx& ctx)
{
  m = maskedCase(c);
  r = reducedCase(c, keptData, keptTarg);
  if (!buildWorld(m, w1, ctx)) return false;
  int nt = c.k.ntarg();
  if (!c.tsel.empty())
  {
    VectorDouble s((size_t)nt);
    for (int t = 0; t < nt; t++) s[t] = (double)c.tsel[(size_t)t];
    w1.dbout->addColumns(s, "tsel", ELoc::SEL, 0);
  }
  if (!c.pre.empty())
  {
    VectorDouble s(c.pre.begin(), c.pre.end());
    w1.dbout->addColumns(s, "pre", ELoc::UNKNOWN, 0);
  }
  if (keptData.empty() || keptTarg.empty()) return true; // no reduced side (nothing to compare with)
  if (!buildWorld(r, w2, ctx)) return false;
  if (c.k.block && !c.tsel.empty())
  {
    VectorDouble s((size_t)nt);
    for (int t = 0; t < nt; t++) s[t] = (double)c.tsel[(size_t)t];
    w2.dbout->addColumns(s, "tsel", ELoc::SEL, 0);
  }
  if (c.viaReduce)
  {
    ctx.at("Db::createReduce");
    VectorInt ranks(keptData.begin(), keptData.end());
    std::unique_ptr<Db> red(Db::createReduce(w1.dbin.get(), VectorString(), ranks));
    if (!red || red->getSampleNumber() != (int)keptData.size())
    {
      ctx.fail("createReduce:size", fmt("Db::createReduce(ranks) returns %d rows for %d ranks", red ? red->getSampleNumber() : -1, (int)keptData.size()));
      return false;
    }
    // must hold the same cells as the manual reconstruction (all locators of w2.dbin)
    for (int ic = 0; ic < w2.dbin->getColumnNumber(); ic++)
    {
      std::string nm = w2.dbin->getNameByColIdx(ic);
      VectorDouble a = w2.dbin->getColumnByColIdx(ic, false, false), b = red->getColumn(nm, false, false);
      bool ok = a.size() == b.size();
      for (size_t i = 0; ok && i < a.size(); i++) ok = memcmp(&a[i], &b[i], sizeof(double)) == 0;
      if (!ok)
      {
        ctx.fail("createReduce:cells", "Db::createReduce(ranks) does not copy column '" + nm + "' of the requested rows");
        return false;
      }
    }
    w2.dbin = std::move(red);
  }
  return true;
}

static void setBall(const KM& c, World& w)
{
  if (!c.ball) return;
  NeighMoving* nm = dynamic_cast<NeighMoving*>(w.neigh.get());
  if (nm) nm->setBallSearch(true, c.leaf);
}

// does the removed datum i matter for target x0 of the (reduced) problem r?  (non-trivial rule)
static bool wouldMatter(const KCase& k, const KCase& r, const double* x0, const double* xi)
{
  if (!k.moving) return true;
  for (int d = 0; d < k.ndim; d++)
    if (na(xi[d])) return false;
  vfgeo::Aniso A = vfgeo::Aniso::make(k.ndim, k.ncoef, k.ncoef.empty() ? std::vector<double>() : k.nang);
  double h = A.dist(x0, xi);
  if (k.hasRadius && h > k.radius) return false;
  NbRef nr = refNeigh(r, x0);
  if ((int)nr.nb.size() < k.nmaxi) return true;
  double hmax = 0;
  for (int j : nr.nb) hmax = std::max(hmax, A.dist(x0, r.data.p(j)));
  return h < hmax;
}

// kappa-gated verdict on a pair of library results that went through a kriging solve.
//   returns 0 = equal within tolerance, 1 = differs, 2 = inconclusive (ill-conditioned / ambiguous)
struct Gate
{
  const KCase& r;
  World& w2;
  std::unique_ptr<Model> om;
  std::unique_ptr<Oracle> orc;
  double eta = 0;
  std::map<int, Sys> cache;
  Gate(const KCase& rr, World& w) : r(rr), w2(w) {}
  Sys* sys(int k2)
  {
    if (!orc)
    {
      Ctx dummy;
      om = buildModel(r, dummy);
      if (!om) return nullptr;
      om->setField(Oracle::fieldOf(r, w2.dbout.get()));
      orc.reset(new Oracle(r, om.get()));
      eta = etaIn(r);
    }
    auto it = cache.find(k2);
    if (it != cache.end()) return &it->second;
    TargetGeom g = orc->geom(k2, w2, true);
    NbRef nr = refNeigh(r, g.x0.data());
    Sys S;
    if (!nr.ambiguous && !nr.empty()) orc->solve(k2, g, nr.nb, S);
    cache[k2] = S;
    return &cache[k2];
  }
  // kind 0: estimate, 1: variance-like quantity (a and b are variances)
  int judge(int k2, int tv, int kind, double a, double b)
  {
    Sys* S = sys(k2);
    if (!S || !S->solved || !(S->kappa <= kKappaMax)) return 2;
    double ek = epsK(S->kappa, eta);
    LD tol = (kind == 0) ? (LD)ek * S->scaleE[(size_t)tv] + floorE(*S, eta) : (LD)ek * S->scaleV[(size_t)tv] + floorV(*S, eta, tv);
    return (fabsl((LD)a - (LD)b) <= 4 * tol) ? 0 : 1;
  }
};

static std::string maskKind(const KM& c)
{
  bool s = false, x = false, z = false;
  for (int i = 0; i < c.n(); i++)
  {
    if (!c.k.active(i)) s = true;
    else if (c.coordNA(i)) x = true;
    else if (!c.k.anyDef(i)) z = true;
  }
  // the most specific cause first: an undefined coordinate is the rarest filter in the code
  return x ? "nacoord" : (z ? "allna" : (s ? "sel" : "nomask"));
}

static void labelKM(const KM& c, Ctx& ctx)
{
  labelCase(c.k, ctx);
  ctx.label("mask:" + maskKind(c));
  if (c.k.sel.empty()) ctx.label("sel:none");
  else
  {
    int na_ = 0;
    for (int v : c.k.sel) na_ += v ? 1 : 0;
    ctx.label(na_ == 0 ? "sel:all-masked" : (na_ == c.n() ? "sel:all-active" : "sel:partial"));
  }
  if (!c.tsel.empty())
  {
    int na_ = 0;
    for (int v : c.tsel) na_ += v ? 1 : 0;
    ctx.label(na_ == 0 ? "tsel:all-masked" : (na_ == (int)c.tsel.size() ? "tsel:all-active" : "tsel:partial"));
  }
  if (c.ball) ctx.label("ball");
  if (c.viaReduce) ctx.label("reduced:createReduce");
}

static uint64_t sigKM(const KM& c)
{
  Hash h;
  h.add(signature(c.k)).add(maskKind(c)).add(c.tsel.empty() ? 0 : 1).add(c.ball).add(c.nRemoved() * 8 / std::max(1, c.n()));
  return h.h;
}

// target side of a Db-to-Db calculation: pre-existing cells untouched, new columns TEST at masked targets
static bool targetSide(const KM& c, const Snap& before, const Db* dbout, const std::string& V, Ctx& ctx)
{
  std::string what;
  if (!snapUnchanged(before, dbout, what))
  {
    ctx.fail(V + ":target-cells", "pre-existing cells of the target Db changed: " + what);
    return false;
  }
  for (int ic = 0; ic < dbout->getColumnNumber(); ic++)
  {
    std::string nm = dbout->getNameByColIdx(ic);
    if (inSnap(before, nm)) continue;
    for (int t = 0; t < dbout->getSampleNumber(); t++)
      if (!c.tactive(t) && !na(dbout->getValueByColIdx(t, ic)))
      {
        ctx.fail(V + ":masked-target-written", fmt("masked target %d holds %.12g in the new column '%s' (must keep TEST)", t, dbout->getValueByColIdx(t, ic), nm.c_str()));
        return false;
      }
  }
  return true;
}

// ---------------------------------------------------------------------------- kriging
static void runKrig(const KM& c, Ctx& ctx)
{
  labelKM(c, ctx);
  ctx.sig = sigKM(c);
  World w1, w2;
  KCase m, r;
  std::vector<int> kd, kt;
  if (!buildBoth(c, w1, w2, m, r, kd, kt, ctx)) return;
  const KCase& k = c.k;
  int nv = k.nvar, nt = k.ntarg();
  bool useBall = c.ball && k.moving && k.nmaxi <= (int)kd.size();
  KM cb = c;
  cb.ball = useBall ? 1 : 0;
  // failure keys: <operation class>:<kind of masking>:<what differs>
  std::string V = std::string("krig-") + ((k.block && !k.stationary()) ? "blockintr" : (k.moving ? (useBall ? "ball" : "moving") : (k.block ? "block" : "unique"))) + ":" + maskKind(c);
  debugHook();

  Snap inBefore = snapOf(w1.dbin.get()), outBefore = snapOf(w1.dbout.get());
  setBall(cb, w1);
  bool wantVarz = k.flagVarz != 0;
  KOut o1 = runKriging(m, w1, ctx, wantVarz);
  std::string what;
  if (!snapUnchanged(inBefore, w1.dbin.get(), what)) { ctx.fail(V + ":data-cells", "cells of the data Db changed: " + what); return; }
  if (!targetSide(c, outBefore, w1.dbout.get(), V, ctx)) return;

  if (kd.empty() || kt.empty())
  {
    // nothing remains: every result must be undefined (or the call is refused)
    ctx.label(kd.empty() ? "reduced:no-data" : "reduced:no-target");
    if (o1.err == 0 && o1.cols)
      for (int t = 0; t < nt; t++)
        for (int v = 0; v < nv; v++)
          if (!na(o1.estim[(size_t)(t * nv + v)]))
          {
            ctx.fail(V + ":estimate-from-nothing", fmt("target %d var %d: estimate %.12g although no usable datum / active target remains", t, v, o1.estim[(size_t)(t * nv + v)]));
            return;
          }
    return;
  }
  setBall(cb, w2);
  KOut o2 = runKriging(r, w2, ctx, wantVarz);
  if ((o1.err != 0) != (o2.err != 0))
  {
    ctx.fail(V + ":error-status", fmt("kriging() returns %d with the masked Db and %d with the reduced Db", o1.err, o2.err));
    return;
  }
  if (o1.err != 0) { ctx.label("both-refused"); return; }
  if (!o1.cols || !o2.cols) { ctx.fail(V + ":kriging-columns", "result columns missing"); return; }

  if (getenv("C05_DEBUG"))
    for (int t = 1; t < nt; t++)
    {
      Krigtest_Res a = runKrigtest(m, w1, ctx, t);
      std::string sa = fmt("masked target %d nbgh:", t);
      for (int i : a.nbgh) sa += " " + std::to_string(i);
      sa += " wgt:";
      for (int i = 0; i < a.wgt.getNRows(); i++) sa += fmt(" %.6g", a.wgt.getValue(i, 0));
      diag(sa);
    }
  Gate gate(r, w2);
  int nCmp = 0, nInc = 0;
  bool matter = false;
  for (size_t q = 0; q < kt.size(); q++)
  {
    int t = kt[q];
    int t2 = k.block ? t : (int)q; // grids keep all their cells
    double scale = 0;
    for (double v : r.z)
      if (!na(v)) scale = std::max(scale, std::fabs(v));
    for (int v = 0; v < nv; v++)
    {
      double e1 = o1.estim[(size_t)(t * nv + v)], e2 = o2.estim[(size_t)(t2 * nv + v)];
      double s1 = o1.stdev[(size_t)(t * nv + v)], s2 = o2.stdev[(size_t)(t2 * nv + v)];
      if (na(e1) != na(e2) || na(s1) != na(s2))
      {
        ctx.fail(V + ":defined-status", fmt("target %d var %d: masked Db gives estim %.12g stdev %.12g, reduced Db gives %.12g / %.12g", t, v, e1, s1, e2, s2));
        return;
      }
      if (na(e1)) continue;
      nCmp++;
      int verdict = 0;
      if (!same(e1, e2, scale)) verdict = std::max(verdict, gate.judge(k.block ? t : (int)q, v, 0, e1, e2));
      if (verdict == 1)
      {
        ctx.fail(V + ":estim", fmt("target %d var %d: estimate %.15g with the masked Db, %.15g after removing the %d masked/undefined samples", t, v, e1, e2, c.nRemoved()));
        return;
      }
      int vs = 0;
      if (!na(s1) && !same(s1 * s1, s2 * s2, std::max(s1 * s1, s2 * s2), 1e-9)) vs = gate.judge(k.block ? t : (int)q, v, 1, s1 * s1, s2 * s2);
      if (vs == 1)
      {
        ctx.fail(V + ":stdev", fmt("target %d var %d: stdev %.15g with the masked Db, %.15g with the reduced Db", t, v, s1, s2));
        return;
      }
      if (wantVarz)
      {
        double z1 = o1.varz[(size_t)(t * nv + v)], z2 = o2.varz[(size_t)(t2 * nv + v)];
        if (na(z1) != na(z2)) { ctx.fail(V + ":defined-status", fmt("target %d var %d: varz %.12g vs %.12g", t, v, z1, z2)); return; }
        if (!na(z1) && !same(z1, z2, std::max(std::fabs(z1), std::fabs(z2)), 1e-9) && gate.judge(k.block ? t : (int)q, v, 1, z1, z2) == 1)
        {
          ctx.fail(V + ":varz", fmt("target %d var %d: varz %.15g with the masked Db, %.15g with the reduced Db", t, v, z1, z2));
          return;
        }
      }
      if (verdict == 2 || vs == 2) nInc++;
    }
    // non-trivial: a removed datum would have been used for this target
    if (!matter)
    {
      std::vector<double> x0((size_t)k.ndim);
      for (int d = 0; d < k.ndim; d++) x0[(size_t)d] = w1.dbout->getCoordinate(t, d);
      for (int i = 0; i < c.n() && !matter; i++)
        if (c.removed(i)) matter = wouldMatter(k, r, x0.data(), m.data.p(i));
    }
  }
  if (nInc > 0 && nInc == nCmp) ctx.inconclusive("ill-conditioned");
  if (nInc > 0) ctx.label("some-ill-conditioned");
  ctx.nontrivial(nCmp > 0 && c.nRemoved() > 0 && matter);
}

static KM genKrigUnique()
{
  KMOpt o;
  o.g.movingPct = 0;
  return genKM(o);
}
static KM genKrigMoving()
{
  KMOpt o;
  o.g.movingPct = 100;
  return genKM(o);
}
static KM genKrigBall()
{
  KMOpt o;
  o.g.movingPct = 100;
  o.g.sectorPct = 20;
  o.ballPct = 100;
  return genKM(o);
}
static KM genKrigBlock()
{
  KMOpt o;
  o.g.blockMode = 1;
  o.g.nMax = 30;
  return genKM(o);
}
VERIF_SUB(krig_unique, KM, genKrigUnique, runKrig);
VERIF_SUB(krig_moving, KM, genKrigMoving, runKrig);
VERIF_SUB(krig_ball, KM, genKrigBall, runKrig);
VERIF_SUB(krig_block, KM, genKrigBlock, runKrig);

VERIF_MAIN()
