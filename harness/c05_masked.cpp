// C05 — masked or undefined samples never influence a result.  DESIGN.md §5 C05.
//
// Metamorphic relation "masked == physically removed": every sub-property builds a Db with a selection
// (none / all active / all masked / random), samples with an undefined coordinate and samples whose values are
// all undefined, runs one family of operations on it, builds the *reduced* Db holding only the remaining rows
// (manual reconstruction from the case, or Db::createReduce with explicit ranks) and runs the same operation
// there.  Oracle: the results on the masked Db restricted to the active rows are those on the reduced Db
// (counts / indices exactly, other numbers to 1e-10 relative, results of linear solves gated by the condition
// number of the system computed by the harness's own dense oracle).  Target side: masked targets keep TEST in
// the columns created by the operation and no pre-existing cell changes.
//
// A value undefined in one variable only (heterotopy) stays in both Dbs: the rule that drops the equation is
// C01's oracle; here both sides hold the same heterotopic rows, so the relation remains sound.
#include "verif.hpp"
#include "geo_common.hpp"
#include "krig_common.hpp"

#include "Db/Db.hpp"
#include "Db/DbGrid.hpp"
#include "Basic/VectorHelper.hpp"
#include "Estimation/CalcGlobal.hpp"
#include "Variogram/Vario.hpp"
#include "Variogram/VarioParam.hpp"
#include "Variogram/DirParam.hpp"
#include "Enum/ECalcVario.hpp"
#include "Enum/EStatOption.hpp"
#include "Stats/Classical.hpp"
#include "Stats/PCA.hpp"
#include "Calculators/CalcMigrate.hpp"
#include "Anamorphosis/AnamHermite.hpp"
#include "Anamorphosis/AnamEmpirical.hpp"
#include "Matrix/Table.hpp"
#include "Matrix/MatrixSparse.hpp"
#include "Matrix/MatrixRectangular.hpp"
#include "Matrix/MatrixSquareSymmetric.hpp"
#include "Simulation/CalcSimuTurningBands.hpp"

using namespace vf;
using namespace vfkrig;

// ------------------------------------------------------------------ small helpers -------
static bool na(double v) { return v > 1e29; } // TEST; a NaN is not "undefined", it is a wrong number
static void dbgMsg(const char* s) { std::string t(s); while (!t.empty() && t.back() == '\n') t.pop_back(); diag("LIB: " + t); }
static void debugHook()
{
  if (getenv("C05_DEBUG")) { redefine_message(dbgMsg); redefine_error(dbgMsg); }
}

// plain differential comparison (DESIGN §3): relative 1e-10, absolute floor 1e-12 * scale
static bool same(double a, double b, double scale, double rel = 1e-10)
{
  if (a == b) return true; // also equal infinities
  if (std::isnan(a) || std::isnan(b)) return std::isnan(a) && std::isnan(b); // the same degenerate ratio on both sides
  if (na(a) || na(b)) return na(a) && na(b);
  return std::fabs(a - b) <= rel * std::max(std::fabs(a), std::fabs(b)) + 1e-12 * scale;
}

// snapshot of all cells of a Db (by column index), to prove that nothing pre-existing changed
struct Snap
{
  std::vector<std::string> names;
  std::vector<std::vector<double>> cols;
};
static Snap snapOf(const Db* db)
{
  Snap s;
  for (int ic = 0; ic < db->getColumnNumber(); ic++)
  {
    s.names.push_back(db->getNameByColIdx(ic));
    VectorDouble v = db->getColumnByColIdx(ic, false, false);
    s.cols.push_back(std::vector<double>(v.begin(), v.end()));
  }
  return s;
}
// every column of the snapshot still exists under its name and holds the same bits
static bool snapUnchanged(const Snap& s, const Db* db, std::string& what)
{
  for (size_t k = 0; k < s.names.size(); k++)
  {
    int ic = db->getColIdx(s.names[k]);
    if (ic < 0) { what = "column '" + s.names[k] + "' disappeared"; return false; }
    VectorDouble v = db->getColumnByColIdx(ic, false, false);
    if (v.size() != s.cols[k].size()) { what = "column '" + s.names[k] + "' changed its length"; return false; }
    for (size_t i = 0; i < s.cols[k].size(); i++)
      if (memcmp(&v[i], &s.cols[k][i], sizeof(double)) != 0)
      {
        what = fmt("cell (%d,'%s') changed from %.17g to %.17g", (int)i, s.names[k].c_str(), s.cols[k][i], v[i]);
        return false;
      }
  }
  return true;
}
static bool inSnap(const Snap& s, const std::string& name)
{
  return std::find(s.names.begin(), s.names.end(), name) != s.names.end();
}

// selection pattern: mode 0 none, 1 all active (column present), 2 all masked, 3 random
static std::vector<int> genSel(int n, int& mode)
{
  mode = G::pick<int>({0, 1, 2, 3, 3, 3, 3, 3, 3, 3, 3, 3, 3, 3, 3, 3});
  std::vector<int> s;
  if (mode == 0 || n == 0) return s;
  s.assign((size_t)n, mode == 2 ? 0 : 1);
  if (mode == 3)
  {
    int p = G::pick<int>({10, 30, 60});
    for (int i = 0; i < n; i++)
      if (G::pct(p)) s[(size_t)i] = 0;
  }
  return s;
}

// =================================================================== kriging-like ========
// Case = a kriging problem of krig_common.hpp + masking on the data and on the targets.
struct KM
{
  KCase k;
  std::vector<int> naCoord;   // empty, or n entries: 0 = defined, d+1 = coordinate d of that datum is undefined
  std::vector<int> tsel;      // empty, or one flag per target (0 = masked target)
  std::vector<double> pre;    // empty, or a pre-existing column of the target Db
  int ball = 0, leaf = 10;    // moving neighbourhood: ball-tree search
  int viaReduce = 0;          // reduced data Db built by Db::createReduce(ranks) instead of manual reconstruction
  int seed = 1, nbsimu = 1, nbtuba = 10; // simulations
  int op = 0;                 // free parameter of the sub-property
  template<class A> void io(A& a)
  {
    a("k", k)("naCoord", naCoord)("tsel", tsel)("pre", pre)("ball", ball)("leaf", leaf)("viaReduce", viaReduce)("seed", seed)(
      "nbsimu", nbsimu)("nbtuba", nbtuba)("op", op);
  }
  int n() const { return k.n(); }
  bool coordNA(int i) const { return !naCoord.empty() && naCoord[(size_t)i] != 0; }
  bool removed(int i) const { return !k.active(i) || coordNA(i) || !k.anyDef(i); }
  bool tactive(int t) const { return tsel.empty() || tsel[(size_t)t] != 0; }
  int nRemoved() const
  {
    int r = 0;
    for (int i = 0; i < n(); i++) r += removed(i) ? 1 : 0;
    return r;
  }
};

struct KMOpt
{
  GenOpt g;
  int naCoordPct = 0;    // cases with undefined coordinates (dedicated sub-properties: several operations crash)
  int allNaPct = 25;     // cases with wholly undefined samples
  int tselPct = 50;      // cases with a selection on the targets
  int ballPct = 0;
};

static KM genKM(const KMOpt& o)
{
  KM c;
  GenOpt g = o.g;
  g.selPct = 0;
  g.naFdataPct = 0; // undefined external drifts are C01's subject
  g.naFtargPct = 0;
  c.k = genCase(g);
  int n = c.k.n(), nt = c.k.ntarg();
  int mode = 0;
  c.k.sel = genSel(n, mode);
  if (G::pct(o.allNaPct))
    for (int i = 0; i < n; i++)
      if (G::pct(20))
        for (int v = 0; v < c.k.nvar; v++) c.k.z[(size_t)(i * c.k.nvar + v)] = NA;
  if (G::pct(o.naCoordPct))
  {
    c.naCoord.assign((size_t)n, 0);
    for (int i = 0; i < n; i++)
      if (G::pct(20)) c.naCoord[(size_t)i] = 1 + G::i(0, c.k.ndim - 1);
  }
  if (G::pct(o.tselPct))
  {
    int tm = 0;
    c.tsel = genSel(nt, tm);
  }
  if (G::pct(50))
  {
    c.pre.resize((size_t)nt);
    for (auto& v : c.pre) v = G::pct(15) ? NA : G::r(-9, 9, 4);
  }
  if (c.k.moving && G::pct(o.ballPct))
  {
    c.ball = 1;
    c.leaf = G::pick<int>({1, 2, 5, 10, 30});
  }
  c.viaReduce = G::pct(30) ? 1 : 0;
  c.seed = G::seed();
  c.nbsimu = G::pick<int>({1, 1, 2});
  c.nbtuba = G::pick<int>({1, 5, 20});
  return c;
}

// the generators of some sub-properties keep a usable datum at least: with none, several operations abort
// (sanitizer) and that would end the search; those inputs are kept as replay-only cases
static void ensureUsable(KM& c)
{
  if (c.n() == 0 || c.nRemoved() < c.n()) return;
  if (!c.k.sel.empty()) c.k.sel[0] = 1;
  if (!c.naCoord.empty()) c.naCoord[0] = 0;
  for (int v = 0; v < c.k.nvar; v++)
    if (!c.k.zdef(0, v)) c.k.z[(size_t)v] = -3.25;
}
static bool unsafeRegions() { static int u = getenv("C05_UNSAFE") ? 1 : 0; return u != 0; }

// the masked problem as a KCase (undefined coordinates written into the data)
static KCase maskedCase(const KM& c)
{
  KCase m = c.k;
  for (int i = 0; i < c.n(); i++)
    if (c.coordNA(i)) m.data.c[(size_t)(i * m.ndim + (c.naCoord[(size_t)i] - 1))] = NA;
  return m;
}
// the reduced problem: removed data rows and masked targets are physically absent
static KCase reducedCase(const KM& c, std::vector<int>& keptData, std::vector<int>& keptTarg)
{
  const KCase& k = c.k;
  KCase r = k;
  int n = k.n(), nv = k.nvar, nt = k.ntarg();
  keptData.clear();
  keptTarg.clear();
  r.data.c.clear();
  r.z.clear();
  r.sel.clear();
  r.verr.clear();
  r.fdat.clear();
  for (int i = 0; i < n; i++)
  {
    if (c.removed(i)) continue;
    keptData.push_back(i);
    r.data.push(k.data.p(i));
    for (int v = 0; v < nv; v++) r.z.push_back(k.z[(size_t)(i * nv + v)]);
    if (!k.verr.empty())
      for (int v = 0; v < nv; v++) r.verr.push_back(k.verr[(size_t)(i * nv + v)]);
    for (int f = 0; f < k.nfex; f++) r.fdat.push_back(k.fdat[(size_t)(i * k.nfex + f)]);
  }
  for (int t = 0; t < nt; t++)
    if (c.tactive(t)) keptTarg.push_back(t);
  if (!k.block)
  {
    r.targ.c.clear();
    r.ftar.clear();
    for (int t : keptTarg)
    {
      r.targ.push(k.targ.p(t));
      for (int f = 0; f < k.nfex; f++) r.ftar.push_back(k.ftar[(size_t)(t * k.nfex + f)]);
    }
  }
  return r;
}

// worlds of the two sides.  Masked side: selection / pre-existing column on the targets.  Reduced side:
// data Db rebuilt from the kept rows (or Db::createReduce with explicit ranks); the target Db holds the
// active targets only when the targets are points (a grid cannot lose cells: it keeps its selection).
static bool buildBoth(const KM& c, World& w1, World& w2, KCase& m, KCase& r, std::vector<int>& keptData, std::vector<int>& keptTarg,
                      Ctx& ctx)
{
  m = maskedCase(c);
  r = reducedCase(c, keptData, keptTarg);
  if (!buildWorld(m, w1, ctx)) return false;
  int nt = c.k.ntarg();
  if (!c.tsel.empty())
  {
    VectorDouble s((size_t)nt);
    for (int t = 0; t < nt; t++) s[t] = (double)c.tsel[(size_t)t];
    w1.dbout->addColumns(s, "tsel", ELoc::SEL, 0);
  }
  if (!c.pre.empty())
  {
    VectorDouble s(c.pre.begin(), c.pre.end());
    w1.dbout->addColumns(s, "pre", ELoc::UNKNOWN, 0);
  }
  if (keptData.empty() || keptTarg.empty()) return true; // no reduced side (nothing to compare with)
  if (!buildWorld(r, w2, ctx)) return false;
  if (c.k.block && !c.tsel.empty())
  {
    VectorDouble s((size_t)nt);
    for (int t = 0; t < nt; t++) s[t] = (double)c.tsel[(size_t)t];
    w2.dbout->addColumns(s, "tsel", ELoc::SEL, 0);
  }
  if (c.viaReduce)
  {
    ctx.at("Db::createReduce");
    VectorInt ranks(keptData.begin(), keptData.end());
    std::unique_ptr<Db> red(Db::createReduce(w1.dbin.get(), VectorString(), ranks));
    if (!red || red->getSampleNumber() != (int)keptData.size())
    {
      ctx.fail("createReduce:size", fmt("Db::createReduce(ranks) returns %d rows for %d ranks", red ? red->getSampleNumber() : -1, (int)keptData.size()));
      return false;
    }
    // must hold the same cells as the manual reconstruction (all locators of w2.dbin)
    for (int ic = 0; ic < w2.dbin->getColumnNumber(); ic++)
    {
      std::string nm = w2.dbin->getNameByColIdx(ic);
      VectorDouble a = w2.dbin->getColumnByColIdx(ic, false, false), b = red->getColumn(nm, false, false);
      bool ok = a.size() == b.size();
      for (size_t i = 0; ok && i < a.size(); i++) ok = memcmp(&a[i], &b[i], sizeof(double)) == 0;
      if (!ok)
      {
        ctx.fail("createReduce:cells", "Db::createReduce(ranks) does not copy column '" + nm + "' of the requested rows");
        return false;
      }
    }
    w2.dbin = std::move(red);
  }
  return true;
}

static void setBall(const KM& c, World& w)
{
  if (!c.ball) return;
  NeighMoving* nm = dynamic_cast<NeighMoving*>(w.neigh.get());
  if (nm) nm->setBallSearch(true, c.leaf);
}

// does the removed datum i matter for target x0 of the (reduced) problem r?  (non-trivial rule)
static bool wouldMatter(const KCase& k, const KCase& r, const double* x0, const double* xi)
{
  if (!k.moving) return true;
  for (int d = 0; d < k.ndim; d++)
    if (na(xi[d])) return false;
  vfgeo::Aniso A = vfgeo::Aniso::make(k.ndim, k.ncoef, k.ncoef.empty() ? std::vector<double>() : k.nang);
  double h = A.dist(x0, xi);
  if (k.hasRadius && h > k.radius) return false;
  NbRef nr = refNeigh(r, x0);
  if ((int)nr.nb.size() < k.nmaxi) return true;
  double hmax = 0;
  for (int j : nr.nb) hmax = std::max(hmax, A.dist(x0, r.data.p(j)));
  return h < hmax;
}

// kappa-gated verdict on a pair of library results that went through a kriging solve.
//   returns 0 = equal within tolerance, 1 = differs, 2 = inconclusive (ill-conditioned / ambiguous)
struct Gate
{
  const KCase& r;
  World& w2;
  std::unique_ptr<Model> om;
  std::unique_ptr<Oracle> orc;
  double eta = 0;
  double fieldMin = 0; // field extension used on the masked side (intrinsic structures: the round-off level follows it)
  std::map<int, Sys> cache;
  Gate(const KCase& rr, World& w) : r(rr), w2(w) {}
  // diagonal of the bounding box of all rows (masked or not, defined coordinates only) and of the targets: what
  // KrigingSystem gives to its model today
  void useFieldOf(const KCase& m, const Db* dbout)
  {
    double diag = 0;
    for (int d = 0; d < m.ndim; d++)
    {
      double lo = 1e300, hi = -1e300;
      for (int i = 0; i < m.n(); i++)
        if (!na(m.data.at(i, d))) { lo = std::min(lo, m.data.at(i, d)); hi = std::max(hi, m.data.at(i, d)); }
      for (int k = 0; k < dbout->getSampleNumber(); k++)
      {
        double v = dbout->getCoordinate(k, d);
        if (na(v)) continue;
        lo = std::min(lo, v);
        hi = std::max(hi, v);
      }
      if (hi > lo) diag += (hi - lo) * (hi - lo);
    }
    fieldMin = std::sqrt(diag);
  }
  Sys* sys(int k2)
  {
    if (!orc)
    {
      Ctx dummy;
      om = buildModel(r, dummy);
      if (!om) return nullptr;
      om->setField(std::max(fieldMin, Oracle::fieldOf(r, w2.dbout.get())));
      orc.reset(new Oracle(r, om.get()));
      eta = etaIn(r);
    }
    auto it = cache.find(k2);
    if (it != cache.end()) return &it->second;
    TargetGeom g = orc->geom(k2, w2, true);
    NbRef nr = refNeigh(r, g.x0.data());
    Sys S;
    if (!nr.ambiguous && !nr.empty()) orc->solve(k2, g, nr.nb, S);
    cache[k2] = S;
    return &cache[k2];
  }
  // kind 0: estimate, 1: variance-like quantity (a and b are variances)
  // returns 0 equal within the kappa-scaled tolerance, 1 different, 2 inconclusive (singular / ill-conditioned /
  // ambiguous neighbourhood), 3 one side undefined or NaN although the system is regular
  int judge(int k2, int tv, int kind, double a, double b)
  {
    Sys* S = sys(k2);
    if (!S || !S->solved || !(S->kappa <= kKappaMax)) return 2;
    if (na(a) != na(b) || std::isnan(a) || std::isnan(b)) return 3;
    if (na(a)) return 0;
    double ek = epsK(S->kappa, eta);
    LD tol = (kind == 0) ? (LD)ek * S->scaleE[(size_t)tv] + floorE(*S, eta) : (LD)ek * S->scaleV[(size_t)tv] + floorV(*S, eta, tv);
    return (fabsl((LD)a - (LD)b) <= 4 * tol) ? 0 : 1;
  }
};

static std::string maskKind(const KM& c)
{
  bool s = false, x = false, z = false;
  for (int i = 0; i < c.n(); i++)
  {
    if (!c.k.active(i)) s = true;
    else if (c.coordNA(i)) x = true;
    else if (!c.k.anyDef(i)) z = true;
  }
  // the most specific cause first: an undefined coordinate is the rarest filter in the code
  return x ? "nacoord" : (z ? "allna" : (s ? "sel" : "nomask"));
}

static void labelKM(const KM& c, Ctx& ctx)
{
  labelCase(c.k, ctx);
  ctx.label("mask:" + maskKind(c));
  if (c.k.sel.empty()) ctx.label("sel:none");
  else
  {
    int na_ = 0;
    for (int v : c.k.sel) na_ += v ? 1 : 0;
    ctx.label(na_ == 0 ? "sel:all-masked" : (na_ == c.n() ? "sel:all-active" : "sel:partial"));
  }
  if (!c.tsel.empty())
  {
    int na_ = 0;
    for (int v : c.tsel) na_ += v ? 1 : 0;
    ctx.label(na_ == 0 ? "tsel:all-masked" : (na_ == (int)c.tsel.size() ? "tsel:all-active" : "tsel:partial"));
  }
  if (c.ball) ctx.label("ball");
  if (c.viaReduce) ctx.label("reduced:createReduce");
}

static uint64_t sigKM(const KM& c)
{
  Hash h;
  h.add(signature(c.k)).add(maskKind(c)).add(c.tsel.empty() ? 0 : 1).add(c.ball).add(c.nRemoved() * 8 / std::max(1, c.n()));
  return h.h;
}

// target side of a Db-to-Db calculation: pre-existing cells untouched, new columns TEST at masked targets
static bool targetSide(const KM& c, const Snap& before, const Db* dbout, const std::string& P, const std::string& V, Ctx& ctx)
{
  auto key = [&](const char* w) { return P.empty() ? V + ":" + w : P + ":" + w + ":" + V; };
  std::string what;
  if (!snapUnchanged(before, dbout, what))
  {
    ctx.fail(key("target-cells"), "pre-existing cells of the target Db changed: " + what);
    return false;
  }
  for (int ic = 0; ic < dbout->getColumnNumber(); ic++)
  {
    std::string nm = dbout->getNameByColIdx(ic);
    if (inSnap(before, nm)) continue;
    for (int t = 0; t < dbout->getSampleNumber(); t++)
      if (!c.tactive(t) && !na(dbout->getValueByColIdx(t, ic)))
      {
        ctx.fail(key("masked-target-written"), fmt("masked target %d holds %.12g in the new column '%s' (must keep TEST)", t, dbout->getValueByColIdx(t, ic), nm.c_str()));
        return false;
      }
  }
  return true;
}

// ---------------------------------------------------------------------------- kriging
static void runKrig(const KM& c, Ctx& ctx)
{
  labelKM(c, ctx);
  ctx.sig = sigKM(c);
  World w1, w2;
  KCase m, r;
  std::vector<int> kd, kt;
  if (!buildBoth(c, w1, w2, m, r, kd, kt, ctx)) return;
  const KCase& k = c.k;
  int nv = k.nvar, nt = k.ntarg();
  bool useBall = c.ball && k.moving && k.nmaxi <= (int)kd.size();
  KM cb = c;
  cb.ball = useBall ? 1 : 0;
  // failure keys: <operation class>:<kind of masking>:<what differs>
  std::string V = std::string("krig-") + ((k.block && !k.stationary()) ? "blockintr" : (k.moving ? (useBall ? "ball" : "moving") : (k.block ? "block" : "unique"))) + ":" + maskKind(c);
  debugHook();

  Snap inBefore = snapOf(w1.dbin.get()), outBefore = snapOf(w1.dbout.get());
  setBall(cb, w1);
  bool wantVarz = k.flagVarz != 0;
  KOut o1 = runKriging(m, w1, ctx, wantVarz);
  std::string what;
  if (!snapUnchanged(inBefore, w1.dbin.get(), what)) { ctx.fail(V + ":data-cells", "cells of the data Db changed: " + what); return; }
  if (!targetSide(c, outBefore, w1.dbout.get(), "", V, ctx)) return;

  if (kd.empty() || kt.empty())
  {
    // nothing remains: every result must be undefined (or the call is refused)
    ctx.label(kd.empty() ? "reduced:no-data" : "reduced:no-target");
    if (o1.err == 0 && o1.cols && k.order >= 0)
      for (int t = 0; t < nt; t++)
        for (int v = 0; v < nv; v++)
          if (!na(o1.estim[(size_t)(t * nv + v)]))
          {
            ctx.fail(V + ":estimate-from-nothing", fmt("target %d var %d: estimate %.12g although no usable datum / active target remains", t, v, o1.estim[(size_t)(t * nv + v)]));
            return;
          }
    return;
  }
  setBall(cb, w2);
  KOut o2 = runKriging(r, w2, ctx, wantVarz);
  if ((o1.err != 0) != (o2.err != 0))
  {
    ctx.fail(V + ":error-status", fmt("kriging() returns %d with the masked Db and %d with the reduced Db", o1.err, o2.err));
    return;
  }
  if (o1.err != 0) { ctx.label("both-refused"); return; }
  if (!o1.cols || !o2.cols) { ctx.fail(V + ":kriging-columns", "result columns missing"); return; }

  if (getenv("C05_DEBUG"))
    for (int t = 1; t < nt; t++)
    {
      Krigtest_Res a = runKrigtest(m, w1, ctx, t);
      std::string sa = fmt("masked target %d nbgh:", t);
      for (int i : a.nbgh) sa += " " + std::to_string(i);
      sa += " wgt:";
      for (int i = 0; i < a.wgt.getNRows(); i++) sa += fmt(" %.6g", a.wgt.getValue(i, 0));
      diag(sa);
    }
  Gate gate(r, w2);
  gate.useFieldOf(m, w1.dbout.get());
  int nCmp = 0, nInc = 0;
  bool matter = false;
  for (size_t q = 0; q < kt.size(); q++)
  {
    int t = kt[q];
    int t2 = k.block ? t : (int)q; // grids keep all their cells
    double scale = 0;
    for (double v : r.z)
      if (!na(v)) scale = std::max(scale, std::fabs(v));
    for (int v = 0; v < nv; v++)
    {
      double e1 = o1.estim[(size_t)(t * nv + v)], e2 = o2.estim[(size_t)(t2 * nv + v)];
      double s1 = o1.stdev[(size_t)(t * nv + v)], s2 = o2.stdev[(size_t)(t2 * nv + v)];
      int kq = k.block ? t : (int)q;
      if (na(e1) && na(e2) && na(s1) && na(s2)) continue;
      nCmp++;
      int verdict = same(e1, e2, scale) ? 0 : gate.judge(kq, v, 0, e1, e2);
      if (verdict == 1 || verdict == 3)
      {
        ctx.fail(V + (verdict == 3 ? ":defined-status" : ":estim"), fmt("target %d var %d: estimate %.15g with the masked Db, %.15g after removing the %d masked/undefined samples", t, v, e1, e2, c.nRemoved()));
        return;
      }
      double q1 = na(s1) ? s1 : s1 * s1, q2 = na(s2) ? s2 : s2 * s2;
      int vs = same(q1, q2, std::max(q1, q2), 1e-9) ? 0 : gate.judge(kq, v, 1, q1, q2);
      if (vs == 1 || vs == 3)
      {
        ctx.fail(V + (vs == 3 ? ":defined-status" : ":stdev"), fmt("target %d var %d: stdev %.15g with the masked Db, %.15g with the reduced Db", t, v, s1, s2));
        return;
      }
      if (wantVarz)
      {
        double z1 = o1.varz[(size_t)(t * nv + v)], z2 = o2.varz[(size_t)(t2 * nv + v)];
        int vz = same(z1, z2, std::max(std::fabs(z1), std::fabs(z2)), 1e-9) ? 0 : gate.judge(kq, v, 1, z1, z2);
        if (vz == 1 || vz == 3)
        {
          ctx.fail(V + (vz == 3 ? ":defined-status" : ":varz"), fmt("target %d var %d: varz %.15g with the masked Db, %.15g with the reduced Db", t, v, z1, z2));
          return;
        }
        if (vz == 2) vs = 2;
      }
      if (verdict == 2 || vs == 2) nInc++;
    }
    // non-trivial: a removed datum would have been used for this target
    if (!matter)
    {
      std::vector<double> x0((size_t)k.ndim);
      for (int d = 0; d < k.ndim; d++) x0[(size_t)d] = w1.dbout->getCoordinate(t, d);
      for (int i = 0; i < c.n() && !matter; i++)
        if (c.removed(i)) matter = wouldMatter(k, r, x0.data(), m.data.p(i));
    }
  }
  if (nInc > 0 && nInc == nCmp) ctx.inconclusive("ill-conditioned");
  if (nInc > 0) ctx.label("some-ill-conditioned");
  ctx.nontrivial(nCmp > 0 && c.nRemoved() > 0 && matter);
}

static KM genKrigUnique()
{
  KMOpt o;
  o.g.movingPct = 0;
  return genKM(o);
}
static KM genKrigMoving()
{
  KMOpt o;
  o.g.movingPct = 100;
  return genKM(o);
}
static KM genKrigBall()
{
  KMOpt o;
  o.g.movingPct = 100;
  o.g.sectorPct = 20;
  o.ballPct = 100;
  return genKM(o);
}
static KM genKrigBlock()
{
  KMOpt o;
  o.g.blockMode = 1;
  o.g.nMax = 30;
  return genKM(o);
}
VERIF_SUB(krig_unique, KM, genKrigUnique, runKrig);
VERIF_SUB(krig_moving, KM, genKrigMoving, runKrig);
VERIF_SUB(krig_ball, KM, genKrigBall, runKrig);
VERIF_SUB(krig_block, KM, genKrigBlock, runKrig);
// undefined coordinates in the data: unique neighbourhood, or moving neighbourhood without angular sectors (with
// sectors the sector index of such a sample is out of range: heap overflow in NeighMoving::_movingSelect, kept
// as a replay-only case)
static KM genKrigNaCoord()
{
  KMOpt o;
  o.g.movingPct = 40;
  o.g.sectorPct = unsafeRegions() ? 60 : 0;
  o.naCoordPct = 100;
  o.allNaPct = 10;
  return genKM(o);
}
VERIF_SUB(krig_nacoord, KM, genKrigNaCoord, runKrig);

// ---------------------------------------------------------------------------- new columns
typedef std::vector<std::pair<std::string, std::vector<double>>> Cols;
static Cols newCols(const Snap& before, const Db* db)
{
  Cols c;
  for (int ic = 0; ic < db->getColumnNumber(); ic++)
  {
    std::string nm = db->getNameByColIdx(ic);
    if (inSnap(before, nm)) continue;
    VectorDouble v = db->getColumnByColIdx(ic, false, false);
    c.push_back({nm, std::vector<double>(v.begin(), v.end())});
  }
  return c;
}
static double zScale(const KCase& r)
{
  double s = 0;
  for (double v : r.z)
    if (!na(v)) s = std::max(s, std::fabs(v));
  return s;
}
static double sillScale(const KCase& r)
{
  double s = 0;
  for (int v = 0; v < r.nvar; v++)
  {
    double t = 0;
    for (auto& st : r.st) t += st.sill[(size_t)(v * r.nvar + v)];
    s = std::max(s, t);
  }
  return std::sqrt(s);
}

// ---------------------------------------------------------------------------- cross-validation
// data = targets.  Reduced side: the kept rows.  Rows of the masked Db which are masked keep TEST.
static void runXvalid(const KM& c0, Ctx& ctx)
{
  KM c = c0;
  c.tsel.clear();
  c.pre.clear();
  c.k.block = 0;
  c.k.targ = c.k.data; // only for the sizes used by the world builder
  c.k.ftar = c.k.fdat;
  c.ball = 0;
  labelKM(c, ctx);
  ctx.sig = sigKM(c);
  debugHook();
  const KCase& k = c.k;
  KCase m = maskedCase(c);
  std::vector<int> kd, ktDummy;
  KCase r = reducedCase(c, kd, ktDummy);
  r.targ = r.data;
  r.ftar = r.fdat;
  World w1, w2;
  if (!buildWorld(m, w1, ctx)) return;
  int nv = k.nvar;
  std::string V = std::string("xvalid-") + (k.moving ? "moving" : "unique") + (c.op & 1 ? "-kfold" : "") + ":" + maskKind(c);
  // k-fold: codes
  bool kfold = (c.op & 1) != 0;
  auto addCode = [&](Db* db, const std::vector<int>& rows) {
    VectorDouble code((size_t)rows.size());
    for (size_t i = 0; i < rows.size(); i++) code[i] = (double)((rows[i] * 7 + c.seed) % 3);
    db->addColumns(code, "code", ELoc::C, 0);
  };
  std::vector<int> all((size_t)c.n());
  for (int i = 0; i < c.n(); i++) all[(size_t)i] = i;
  if (kfold) addCode(w1.dbin.get(), all);
  Snap before1 = snapOf(w1.dbin.get());
  ctx.at("xvalid:" + V);
  int e1 = xvalid(w1.dbin.get(), w1.model.get(), w1.neigh.get(), kfold, 1, 1, 0);
  std::string what;
  if (!snapUnchanged(before1, w1.dbin.get(), what)) { ctx.fail(V + ":data-cells", "pre-existing cells changed: " + what); return; }
  Cols c1 = newCols(before1, w1.dbin.get());
  for (auto& col : c1)
    for (int i = 0; i < c.n(); i++)
      if (!k.active(i) && !na(col.second[(size_t)i]))
      {
        ctx.fail(V + ":masked-target-written", fmt("masked sample %d holds %.12g in the new column '%s'", i, col.second[(size_t)i], col.first.c_str()));
        return;
      }
  if (kd.empty()) { ctx.label("reduced:no-data"); return; }
  if (!buildWorld(r, w2, ctx)) return;
  if (kfold) addCode(w2.dbin.get(), kd);
  Snap before2 = snapOf(w2.dbin.get());
  int e2 = xvalid(w2.dbin.get(), w2.model.get(), w2.neigh.get(), kfold, 1, 1, 0);
  if ((e1 != 0) != (e2 != 0)) { ctx.fail(V + ":error-status", fmt("xvalid() returns %d with the masked Db and %d with the reduced Db", e1, e2)); return; }
  if (e1 != 0) { ctx.label("both-refused"); return; }
  Cols c2 = newCols(before2, w2.dbin.get());
  if (c1.size() != c2.size()) { ctx.fail(V + ":columns", fmt("%d new columns with the masked Db, %d with the reduced Db", (int)c1.size(), (int)c2.size())); return; }
  double zs = zScale(r);
  int nCmp = 0, nInc = 0;
  for (size_t q = 0; q < kd.size(); q++)
  {
    int i = kd[q];
    for (size_t j = 0; j < c1.size(); j++)
    {
      if (c1[j].first != c2[j].first) { ctx.fail(V + ":columns", "new columns differ: " + c1[j].first + " / " + c2[j].first); return; }
      double a = c1[j].second[(size_t)i], b = c2[j].second[q];
      if (na(a) && na(b)) continue;
      nCmp++;
      bool isStd = c1[j].first.find("stderr") != std::string::npos;
      if (same(a, b, isStd ? 1. : zs, 1e-9)) continue;
      // kappa gate: the system of this sample (the sample itself leaves the data; k-fold is not modelled)
      if (kfold) { nInc++; continue; }
      KCase rq = r;
      for (int v = 0; v < nv; v++) rq.z[q * (size_t)nv + (size_t)v] = NA;
      rq.targ = Points();
      rq.targ.ndim = r.ndim;
      rq.targ.push(r.data.p((int)q));
      rq.ftar.clear();
      for (int f = 0; f < r.nfex; f++) rq.ftar.push_back(r.fdat[q * (size_t)r.nfex + (size_t)f]);
      World wq;
      Ctx dummy;
      if (!buildWorld(rq, wq, dummy)) { nInc++; continue; }
      Gate gate(rq, wq);
      gate.useFieldOf(m, w1.dbin.get());
      Sys* S = gate.sys(0);
      if (!S || !S->solved || !(S->kappa <= kKappaMax)) { nInc++; continue; }
      if (na(a) != na(b) || std::isnan(a) || std::isnan(b))
      {
        ctx.fail(V + ":defined-status", fmt("sample %d, %s: %.12g with the masked Db, %.12g with the reduced Db (regular system, kappa %.3g)", i, c1[j].first.c_str(), a, b, S->kappa));
        return;
      }
      // esterr = Z* - Z ; stderr = (Z* - Z) / S : both inherit the relative accuracy of the solve
      double ek = epsK(S->kappa, gate.eta);
      int tv = 0;
      for (int v = 0; v < nv; v++)
        if (c1[j].first.find("z" + std::to_string(v + 1)) != std::string::npos) tv = v;
      double tol = 8 * ((double)((LD)ek * S->scaleE[(size_t)tv] + floorE(*S, gate.eta)));
      double sd = std::sqrt(std::max(1e-300, (double)S->var[(size_t)tv]));
      if (isStd) tol = tol / sd + 8 * ek * std::fabs(a) * (double)(S->scaleV[(size_t)tv] / std::max((LD)1e-300, S->var[(size_t)tv]));
      if (std::fabs(a - b) > tol)
      {
        ctx.fail(V + (isStd ? ":stderr" : ":esterr"), fmt("sample %d, %s: %.15g with the masked Db, %.15g after removing the %d masked/undefined samples (kappa %.3g)", i, c1[j].first.c_str(), a, b, c.nRemoved(), S->kappa));
        return;
      }
    }
  }
  if (nInc > 0 && nInc == nCmp) ctx.inconclusive("ill-conditioned");
  if (nInc > 0) ctx.label("some-ill-conditioned");
  ctx.nontrivial(nCmp > 0 && c.nRemoved() > 0 && c.nRemoved() < c.n());
}
static KM genXvalid()
{
  KMOpt o;
  bool moving = G::b();
  o.g.movingPct = moving ? 100 : 0;
  if (!moving) o.g.nvarMax = 1; // documented: cross-validation in unique neighbourhood is monovariate, without k-fold
  o.g.nMax = 30;
  o.tselPct = 0;
  KM c = genKM(o);
  c.op = (moving && G::pct(20)) ? 1 : 0;
  return c;
}
VERIF_SUB(xvalid, KM, genXvalid, runXvalid);

// ---------------------------------------------------------------------------- conditional simulation
static void runSimtub(const KM& c, Ctx& ctx)
{
  labelKM(c, ctx);
  ctx.sig = sigKM(c);
  debugHook();
  World w1, w2;
  KCase m, r;
  std::vector<int> kd, kt;
  if (!buildBoth(c, w1, w2, m, r, kd, kt, ctx)) return;
  const KCase& k = c.k;
  bool nug = false;
  for (auto& s : k.st) nug = nug || s.type == T_NUGGET;
  std::string V = maskKind(c) + ":" + (k.moving ? "moving" : "unique") + (nug ? "-nugget" : "");
  // no usable datum at all (empty selection ...): the conditional simulation allocates 4 GB and aborts
  // (replay-only finding simtub-no-active-data.case); not generated (genSimtub) as it would end the search
  if (kd.empty()) ctx.label("simtub-no-active-data");
  Snap in1 = snapOf(w1.dbin.get()), out1 = snapOf(w1.dbout.get());
  ctx.at("simtub:" + V);
  int e1 = simtub(w1.dbin.get(), w1.dbout.get(), w1.model.get(), w1.neigh.get(), c.nbsimu, c.seed, c.nbtuba);
  std::string what;
  if (!snapUnchanged(in1, w1.dbin.get(), what)) { ctx.fail("simtub:data-cells:" + V, "cells of the data Db changed: " + what); return; }
  if (kt.empty() || kd.empty()) { ctx.label("reduced:none"); targetSide(c, out1, w1.dbout.get(), "simtub", V, ctx); return; }
  Snap out2 = snapOf(w2.dbout.get());
  resetGlobals(k.ndim);
  int e2 = simtub(w2.dbin.get(), w2.dbout.get(), w2.model.get(), w2.neigh.get(), c.nbsimu, c.seed, c.nbtuba);
  if ((e1 != 0) != (e2 != 0)) { ctx.fail("simtub:error-status:" + V, fmt("simtub() returns %d with the masked Db and %d with the reduced Db", e1, e2)); return; }
  if (e1 != 0) { ctx.label("both-refused"); return; }
  Cols c1 = newCols(out1, w1.dbout.get()), c2 = newCols(out2, w2.dbout.get());
  if (c1.size() != c2.size() || (int)c1.size() != c.nbsimu * k.nvar)
  {
    ctx.fail("simtub:columns:" + V, fmt("%d new columns with the masked Db, %d with the reduced Db, %d expected", (int)c1.size(), (int)c2.size(), c.nbsimu * k.nvar));
    return;
  }
  Gate gate(r, w2);
  gate.useFieldOf(m, w1.dbout.get());
  double sc = zScale(r) + 6 * sillScale(r);
  int nCmp = 0, nInc = 0;
  bool matter = false;
  for (size_t q = 0; q < kt.size(); q++)
  {
    int t = kt[q];
    for (size_t j = 0; j < c1.size(); j++)
    {
      double a = c1[j].second[(size_t)t], b = c2[j].second[q];
      if (na(a) && na(b)) continue;
      nCmp++;
      if (same(a, b, sc, 1e-9)) continue;
      Sys* S = gate.sys((int)q);
      if (!S || !S->solved || !(S->kappa <= kKappaMax)) { nInc++; continue; }
      if (na(a) != na(b) || std::isnan(a) || std::isnan(b)) { ctx.fail("simtub:defined-status:" + V, fmt("target %d, %s: %.12g with the masked Db, %.12g with the reduced Db", t, c1[j].first.c_str(), a, b)); return; }
      double l1 = 0;
      int tv = (int)(j % (size_t)k.nvar);
      for (int a_ = 0; a_ < S->N; a_++) l1 += (double)fabsl(S->sol(a_, tv));
      double tol = 8 * epsK(S->kappa, gate.eta) * (1 + l1) * sc;
      if (std::fabs(a - b) > tol)
      {
        ctx.fail("simtub:value:" + V, fmt("target %d, %s: %.15g with the masked Db, %.15g after removing the %d masked/undefined samples (same seed; kappa %.3g)", t, c1[j].first.c_str(), a, b, c.nRemoved(), S->kappa));
        return;
      }
    }
    if (!matter)
      for (int i = 0; i < c.n() && !matter; i++)
        if (c.removed(i)) matter = wouldMatter(k, r, r.targ.p((int)q), m.data.p(i));
  }
  if (!targetSide(c, out1, w1.dbout.get(), "simtub", V, ctx)) return;
  if (nInc > 0 && nInc == nCmp) ctx.inconclusive("ill-conditioned");
  ctx.nontrivial(nCmp > 0 && c.nRemoved() > 0 && matter);
}
static KM genSimtub()
{
  KMOpt o;
  o.g.intrinsicPct = 0;
  o.g.nMax = 24;
  o.g.movingPct = 30;
  o.g.verrPct = 0;
  o.g.onDataPct = 10;
  // an undefined coordinate in an active datum gives (int) ceil(1e30 / eps) in the band generator (UB, line 536)
  o.naCoordPct = unsafeRegions() ? 25 : 0;
  KM c = genKM(o);
  // structures the turning bands can simulate
  for (auto& s : c.k.st)
    if (s.type != T_NUGGET && s.type != T_EXPONENTIAL && s.type != T_SPHERICAL && s.type != T_GAUSSIAN && s.type != T_CUBIC)
      s.type = T_EXPONENTIAL; // (stable / Matern structures with a small parameter make the band generator allocate GBs: C13's matter)
  c.k.flagVarz = 0;
  if (!unsafeRegions()) ensureUsable(c);
  return c;
}
VERIF_SUB(simtub_cond, KM, genSimtub, runSimtub);

// ---------------------------------------------------------------------------- global estimation
static void runGlobal(const KM& c0, Ctx& ctx)
{
  KM c = c0;
  c.pre.clear();
  labelKM(c, ctx);
  ctx.sig = sigKM(c);
  debugHook();
  World w1, w2;
  KCase m, r;
  std::vector<int> kd, kt;
  if (!buildBoth(c, w1, w2, m, r, kd, kt, ctx)) return;
  const KCase& k = c.k;
  bool arith = (c.op & 1) != 0;
  std::string V = std::string(arith ? "global-arith" : "global-krig") + ":" + maskKind(c);
  int iv = (c.op >> 1) % k.nvar;
  Snap in1 = snapOf(w1.dbin.get()), out1 = snapOf(w1.dbout.get());
  auto call = [&](World& w, Global_Result& g) {
    law_set_random_seed(132421);
    ctx.at(V);
    CalcGlobal cg(iv, false);
    cg.setDbin(w.dbin.get());
    cg.setDbout(w.dbout.get());
    cg.setModel(w.model.get());
    if (arith) cg.setFlagArithmetic(true);
    else cg.setFlagKriging(true);
    bool ok = cg.run();
    if (ok) g = cg.getGRes();
    return ok;
  };
  Global_Result g1, g2;
  bool ok1 = call(w1, g1);
  std::string what;
  if (!snapUnchanged(in1, w1.dbin.get(), what)) { ctx.fail(V + ":data-cells", "cells of the data Db changed: " + what); return; }
  if (!snapUnchanged(out1, w1.dbout.get(), what)) { ctx.fail(V + ":target-cells", "cells of the target Db changed: " + what); return; }
  if (kd.empty() || kt.empty()) { ctx.label("reduced:none"); return; }
  bool ok2 = call(w2, g2);
  if (ok1 != ok2) { ctx.fail(V + ":error-status", fmt("run() returns %d with the masked Db and %d with the reduced Db", (int)ok1, (int)ok2)); return; }
  if (!ok1) { ctx.label("both-refused"); return; }
  // the reduced Db holds only the usable rows: its counts are the number of usable data / active cells
  {
    // np is documented as the number of active data: samples kept by the selection (defined or not)
    int nact = 0;
    for (int i = 0; i < c.n(); i++) nact += k.active(i) ? 1 : 0;
    if (g1.np != nact) { ctx.fail(V + ":np", fmt("number of active data reported %d, the selection keeps %d", g1.np, nact)); return; }
  }
  if (g1.ng != g2.ng) { ctx.fail(V + ":ng", fmt("number of discretisation nodes %d / %d", g1.ng, g2.ng)); return; }
  if (g1.weights.size() != g2.weights.size()) { ctx.fail(V + ":nweights", fmt("%d weights with the masked Db, %d with the reduced Db", (int)g1.weights.size(), (int)g2.weights.size())); return; }
  double zs = zScale(r), ss = sillScale(r);
  // kappa of the (unique neighbourhood) system
  Gate gate(r, w2);
  gate.useFieldOf(m, w1.dbout.get());
  double tolRel = 1e-9;
  if (!arith)
  {
    Sys* S = gate.sys(0);
    if (!S || !S->solved || !(S->kappa <= kKappaMax)) { ctx.inconclusive("ill-conditioned"); return; }
    tolRel = std::max(1e-9, 8 * epsK(S->kappa, gate.eta) * (double)(S->N));
  }
  struct Item { const char* nm; double a, b, scale; };
  std::vector<Item> items = {{"surface", g1.surface, g2.surface, std::fabs(g2.surface)}, {"zest", g1.zest, g2.zest, zs},
                             {"sse", g1.sse * g1.sse, g2.sse * g2.sse, ss * ss}, {"cvv", g1.cvv, g2.cvv, ss * ss}};
  for (auto& it : items)
  {
    if (na(it.a) != na(it.b) || (!na(it.a) && std::fabs(it.a - it.b) > tolRel * std::max(it.scale, std::max(std::fabs(it.a), std::fabs(it.b)))))
    {
      ctx.fail(V + ":" + it.nm, fmt("%s%s: %.15g with the masked Db, %.15g after removing the %d masked/undefined samples", it.nm, strcmp(it.nm, "sse") ? "" : "^2", it.a, it.b, c.nRemoved()));
      return;
    }
  }
  for (size_t i = 0; i < g1.weights.size(); i++)
    if (std::fabs(g1.weights[i] - g2.weights[i]) > tolRel * std::max(1., std::fabs(g2.weights[i])))
    {
      ctx.fail(V + ":weights", fmt("weight %d: %.15g with the masked Db, %.15g with the reduced Db", (int)i, g1.weights[i], g2.weights[i]));
      return;
    }
  ctx.nontrivial(c.nRemoved() > 0 && c.nRemoved() < c.n());
}
static KM genGlobal()
{
  KMOpt o;
  o.g.movingPct = 0;
  o.g.blockMode = 1;
  o.g.nMax = 24;
  o.g.verrPct = 0;
  o.g.family = G::pick<int>({0, 1, 1, 1});
  o.g.intrinsicPct = 0;
  KM c = genKM(o);
  c.op = G::i(0, 7);
  // global_kriging with several variables overflows the heap whatever the selection (matrix_product_safe called
  // with nvar columns on single-column arrays, CalcGlobal.cpp:160): replay-only case global-kriging-nvar2.case
  if (c.k.nvar > 1 && !unsafeRegions()) c.op |= 1;
  // all data masked: global_kriging dereferences a null right-hand side (KrigingSystem::getRHSC, line 3014):
  // replay-only case global-kriging-no-active-data.case
  if (!(c.op & 1) && !unsafeRegions()) ensureUsable(c);
  return c;
}
VERIF_SUB(global_grid, KM, genGlobal, runGlobal);

// =================================================================== plain Db operations ==
// A point Db with its masking patterns.
struct DbC
{
  int ndim = 2, nvar = 1;
  double L = 1.;
  Points pts;                 // n pairwise distinct locations
  std::vector<double> z;      // n*nvar, NA allowed
  std::vector<int> sel;       // empty (no selection column) or n flags
  std::vector<int> naCoord;   // empty, or n entries (d+1: coordinate d undefined)
  std::vector<double> w;      // empty, or n positive weights (locator W)
  template<class A> void io(A& a) { a("ndim", ndim)("nvar", nvar)("L", L)("pts", pts)("z", z)("sel", sel)("naCoord", naCoord)("w", w); }
  int n() const { return pts.n(); }
  bool active(int i) const { return sel.empty() || sel[(size_t)i] != 0; }
  bool coordNA(int i) const { return !naCoord.empty() && naCoord[(size_t)i] != 0; }
  double zv(int i, int v) const { return z[(size_t)(i * nvar + v)]; }
  bool allNA(int i) const
  {
    for (int v = 0; v < nvar; v++)
      if (!na(zv(i, v))) return false;
    return true;
  }
  bool anyNA(int i) const
  {
    for (int v = 0; v < nvar; v++)
      if (na(zv(i, v))) return true;
    return false;
  }
};
struct DbOpt
{
  int nMax = 40, nvarMax = 3;
  int naCoordPct = 25, naValPct = 50, weightPct = 0;
  int ndimMin = 1;
  bool integerZ = false;
  bool naFirstCoordOnly = false;
};
static DbC genDbC(const DbOpt& o, int nExtraSets = 0, std::vector<Points>* extra = nullptr, const std::vector<int>& extraSizes = {})
{
  DbC c;
  c.ndim = std::max(o.ndimMin, G::pick<int>({1, 2, 2, 2, 3}));
  c.nvar = std::min(o.nvarMax, G::pick<int>({1, 1, 2, 2, 3}));
  int n = G::sz(1, o.nMax);
  if (G::pct(85)) n = std::max(n, std::min(o.nMax, 4));
  c.L = G::pick<double>({1., 100., 1e4});
  std::vector<int> sizes = {n};
  for (int k = 0; k < nExtraSets; k++) sizes.push_back(extraSizes[(size_t)k]);
  std::vector<Points> sets = vfgeo::genPointSets(c.ndim, sizes, G::pct(30), true, c.L);
  c.pts = sets[0];
  if (extra)
    for (int k = 0; k < nExtraSets; k++) extra->push_back(sets[(size_t)(k + 1)]);
  double zoff = G::pick<double>({0., 0., 10., -100.});
  c.z.resize((size_t)(n * c.nvar));
  for (auto& v : c.z) v = o.integerZ ? (double)G::i(1, 4) : zoff + G::r(-40, 40, 8);
  if (G::pct(o.naValPct))
  {
    int p = G::pick<int>({10, 30});
    bool whole = G::b();
    for (int i = 0; i < n; i++)
    {
      if (whole && G::pct(p))
        for (int v = 0; v < c.nvar; v++) c.z[(size_t)(i * c.nvar + v)] = NA;
      else if (!whole)
        for (int v = 0; v < c.nvar; v++)
          if (G::pct(p)) c.z[(size_t)(i * c.nvar + v)] = NA;
    }
  }
  int mode = 0;
  c.sel = genSel(n, mode);
  if (G::pct(o.naCoordPct))
  {
    c.naCoord.assign((size_t)n, 0);
    for (int i = 0; i < n; i++)
      if (G::pct(20)) c.naCoord[(size_t)i] = o.naFirstCoordOnly ? 1 : 1 + G::i(0, c.ndim - 1);
  }
  if (G::pct(o.weightPct))
  {
    c.w.resize((size_t)n);
    for (auto& v : c.w) v = G::r(1, 8, 4);
  }
  return c;
}
static std::unique_ptr<Db> buildDb(const DbC& c, const std::vector<int>* keep = nullptr)
{
  std::vector<int> rows;
  if (keep) rows = *keep;
  else
    for (int i = 0; i < c.n(); i++) rows.push_back(i);
  int m = (int)rows.size();
  std::unique_ptr<Db> db(Db::create());
  for (int d = 0; d < c.ndim; d++)
  {
    VectorDouble x((size_t)m);
    for (int q = 0; q < m; q++) x[q] = (c.coordNA(rows[(size_t)q]) && c.naCoord[(size_t)rows[(size_t)q]] - 1 == d) ? NA : c.pts.at(rows[(size_t)q], d);
    db->addColumns(x, "x" + std::to_string(d + 1), ELoc::X, d);
  }
  for (int v = 0; v < c.nvar; v++)
  {
    VectorDouble x((size_t)m);
    for (int q = 0; q < m; q++) x[q] = c.zv(rows[(size_t)q], v);
    db->addColumns(x, "z" + std::to_string(v + 1), ELoc::Z, v);
  }
  if (!c.w.empty())
  {
    VectorDouble x((size_t)m);
    for (int q = 0; q < m; q++) x[q] = c.w[(size_t)rows[(size_t)q]];
    db->addColumns(x, "w", ELoc::W, 0);
  }
  if (!c.sel.empty() && !keep)
  {
    VectorDouble x((size_t)m);
    for (int q = 0; q < m; q++) x[q] = (double)c.sel[(size_t)rows[(size_t)q]];
    db->addColumns(x, "sel", ELoc::SEL, 0);
  }
  return db;
}
// rows which remain: active; coordinates defined (when the operation reads them); values: policy
//   vpol 0: values do not remove a row; 1: rows with all values undefined leave; 2: rows with any undefined value leave
static std::vector<int> keptRows(const DbC& c, bool useCoords, int vpol)
{
  std::vector<int> k;
  for (int i = 0; i < c.n(); i++)
  {
    if (!c.active(i)) continue;
    if (useCoords && c.coordNA(i)) continue;
    if (vpol == 1 && c.allNA(i)) continue;
    if (vpol == 2 && c.anyNA(i)) continue;
    k.push_back(i);
  }
  return k;
}
static std::string dbMaskKind(const DbC& c, bool useCoords, int vpol)
{
  bool s = false, x = false, z = false;
  for (int i = 0; i < c.n(); i++)
  {
    if (!c.active(i)) s = true;
    else if (useCoords && c.coordNA(i)) x = true;
    else if ((vpol == 1 && c.allNA(i)) || (vpol == 2 && c.anyNA(i))) z = true;
  }
  return x ? "nacoord" : (z ? "naval" : (s ? "sel" : "nomask"));
}
static void labelDb(const DbC& c, bool useCoords, int vpol, Ctx& ctx)
{
  ctx.label("mask:" + dbMaskKind(c, useCoords, vpol));
  ctx.label("ndim:" + std::to_string(c.ndim));
  ctx.label("nvar:" + std::to_string(c.nvar));
  if (c.sel.empty()) ctx.label("sel:none");
  else
  {
    int a = 0;
    for (int v : c.sel) a += v ? 1 : 0;
    ctx.label(a == 0 ? "sel:all-masked" : (a == c.n() ? "sel:all-active" : "sel:partial"));
  }
  if (!c.w.empty()) ctx.label("weights");
}
static uint64_t sigDb(const DbC& c, bool useCoords, int vpol, int extra)
{
  int kept = (int)keptRows(c, useCoords, vpol).size();
  Hash h;
  h.add(c.ndim).add(c.nvar).add(c.n() < 4 ? c.n() : (c.n() < 12 ? 4 : 5)).add(dbMaskKind(c, useCoords, vpol)).add(kept * 8 / std::max(1, c.n())).add(c.w.empty() ? 0 : 1).add(extra);
  return h.h;
}
static double dbScale(const DbC& c)
{
  double s = 0;
  for (double v : c.z)
    if (!na(v)) s = std::max(s, std::fabs(v));
  return s;
}

// ---------------------------------------------------------------------------- experimental variograms
struct VarioC
{
  DbC d;
  int calc = 0;       // index in the list below
  int ndir = 1, nlag = 5, bySample = 0;
  double dlag = 0.1, toldis = 0.5, angref = 0.;
  template<class A> void io(A& a) { a("d", d)("calc", calc)("ndir", ndir)("nlag", nlag)("bySample", bySample)("dlag", dlag)("toldis", toldis)("angref", angref); }
};
static const char* kCalcNames[] = {"VARIOGRAM", "COVARIANCE", "COVARIANCE_NC", "MADOGRAM", "RODOGRAM", "POISSON", "GENERAL1", "ORDER4", "COVARIOGRAM"};
static const ECalcVario& calcOf(int k)
{
  switch (k)
  {
    case 0: return ECalcVario::VARIOGRAM;
    case 1: return ECalcVario::COVARIANCE;
    case 2: return ECalcVario::COVARIANCE_NC;
    case 3: return ECalcVario::MADOGRAM;
    case 4: return ECalcVario::RODOGRAM;
    case 5: return ECalcVario::POISSON;
    case 6: return ECalcVario::GENERAL1;
    case 7: return ECalcVario::ORDER4;
    default: return ECalcVario::COVARIOGRAM;
  }
}
static VarioC genVario()
{
  VarioC c;
  DbOpt o;
  o.nMax = 30;
  o.nvarMax = 2;
  o.weightPct = 25;
  // an undefined coordinate other than the first one reaches DirParam::getLagRank with a distance of 1e30:
  // (int) floor(1e30) is undefined behaviour (UBSan abort; replay-only case vario-nacoord-lagrank.case).
  // With the first coordinate undefined the sample sorts last and the 1-D distance test stops the pair loop.
  o.naFirstCoordOnly = !unsafeRegions();
  c.d = genDbC(o);
  c.calc = G::pick<int>({0, 0, 0, 1, 1, 2, 3, 4, 5, 7, 8});
  if (c.calc == 6) c.calc = 0;
  c.ndir = (c.d.ndim == 2 && G::pct(40)) ? G::pick<int>({2, 4}) : 1;
  c.nlag = G::i(2, 8);
  c.dlag = c.d.L * G::pick<double>({0.05, 0.1, 0.2, 0.4});
  c.toldis = G::pick<double>({0.5, 0.5, 0.25});
  c.angref = G::pick<double>({0., 30., 45.});
  c.bySample = G::pct(15) ? 1 : 0;
  if (c.calc == 5 || c.calc == 6) c.d.w.clear();
  if (c.calc == 5) c.bySample = 0; // keeps the two known defects (stored mean, by-sample accumulation) under separate keys
  return c;
}
static std::unique_ptr<Vario> computeVario(const VarioC& c, Db* db, Ctx& ctx)
{
  std::unique_ptr<VarioParam> vp;
  if (c.ndir > 1) vp.reset(VarioParam::createMultiple(c.ndir, c.nlag, c.dlag, c.toldis, c.angref));
  else vp.reset(VarioParam::createOmniDirection(c.nlag, c.dlag, c.toldis));
  ctx.at(std::string("Vario::compute:") + kCalcNames[c.calc]);
  std::unique_ptr<Vario> v(Vario::create(*vp));
  if (v->compute(db, calcOf(c.calc), c.bySample != 0) != 0) return nullptr;
  return v;
}
static void runVario(const VarioC& c, Ctx& ctx)
{
  resetGlobals(c.d.ndim);
  debugHook();
  const DbC& d = c.d;
  labelDb(d, true, 1, ctx);
  ctx.label(std::string("calc:") + kCalcNames[c.calc]);
  if (c.bySample) ctx.label("by-sample");
  ctx.sig = sigDb(d, true, 1, c.calc * 4 + c.ndir);
  std::string MK = dbMaskKind(d, true, 1), CN = std::string(kCalcNames[c.calc]) + (c.bySample ? " by sample" : "");
  // the by-sample algorithm (forced for the covariogram) accumulates per first sample without resetting its
  // work arrays (C12's finding bysample:order): its failures carry their own key prefix
  // the Poisson variogram is the only one that uses the stored mean (wrong today: Vario::_getStatistics)
  std::string V = (c.calc == 5) ? "vario-poisson" : ((c.bySample || c.calc == 8) ? "vario-bysample" : "vario");
  std::vector<int> keep = keptRows(d, true, 1);
  std::unique_ptr<Db> db1 = buildDb(d);
  Snap before = snapOf(db1.get());
  std::unique_ptr<Vario> v1 = computeVario(c, db1.get(), ctx);
  std::string what;
  if (!snapUnchanged(before, db1.get(), what)) { ctx.fail(V + ":data-cells", "cells of the Db changed: " + what); return; }
  if (keep.empty()) { ctx.label("reduced:no-data"); return; }
  std::unique_ptr<Db> db2 = buildDb(d, &keep);
  std::unique_ptr<Vario> v2 = computeVario(c, db2.get(), ctx);
  if ((v1 == nullptr) != (v2 == nullptr)) { ctx.fail(V + ":" + MK + ":error-status", CN + fmt(" compute() %s with the masked Db and %s with the reduced Db", v1 ? "succeeds" : "fails", v2 ? "succeeds" : "fails")); return; }
  if (!v1) { ctx.label("both-refused"); return; }
  double zs = dbScale(d), z2 = std::max(1e-300, zs * zs);
  if (c.calc == 7) z2 = z2 * z2;
  if (c.calc == 3) z2 = zs;
  if (c.calc == 4) z2 = std::sqrt(zs);
  long npairs = 0;
  int nv = d.nvar;
  for (int idir = 0; idir < v1->getDirectionNumber(); idir++)
    for (int iv = 0; iv < nv; iv++)
      for (int jv = 0; jv <= iv; jv++)
      {
        VectorDouble sw1 = v1->getSwVec(idir, iv, jv, false), sw2 = v2->getSwVec(idir, iv, jv, false);
        VectorDouble gg1 = v1->getGgVec(idir, iv, jv, false, false, false), gg2 = v2->getGgVec(idir, iv, jv, false, false, false);
        VectorDouble hh1 = v1->getHhVec(idir, iv, jv, false), hh2 = v2->getHhVec(idir, iv, jv, false);
        if (sw1.size() != sw2.size() || gg1.size() != gg2.size() || hh1.size() != hh2.size()) { ctx.fail(V + ":sizes", "numbers of lags differ"); return; }
        for (size_t l = 0; l < sw1.size(); l++)
        {
          double swScale = d.w.empty() ? 0. : std::max(std::fabs(sw1[l]), std::fabs(sw2[l]));
          bool swOk = d.w.empty() ? (sw1[l] == sw2[l]) : same(sw1[l], sw2[l], swScale);
          if (!swOk) { ctx.fail(V + ":" + MK + ":sw", CN + fmt(" dir %d var (%d,%d) lag %d: %.15g pairs (weights) with the masked Db, %.15g after removing the %d masked/undefined samples", idir, iv, jv, (int)l, sw1[l], sw2[l], d.n() - (int)keep.size())); return; }
          if (!na(sw1[l])) npairs += (long)sw1[l];
          if (!same(hh1[l], hh2[l], c.dlag * c.nlag)) { ctx.fail(V + ":" + MK + ":hh", CN + fmt(" dir %d var (%d,%d) lag %d: mean distance %.15g with the masked Db, %.15g with the reduced Db", idir, iv, jv, (int)l, hh1[l], hh2[l])); return; }
          if (!same(gg1[l], gg2[l], z2)) { ctx.fail(V + ":" + MK + ":gg", CN + fmt(" dir %d var (%d,%d) lag %d: value %.15g with the masked Db, %.15g with the reduced Db", idir, iv, jv, (int)l, gg1[l], gg2[l])); return; }
        }
      }
  // "a value undefined in one variable only = removing just that variable at that sample": the simple variogram of variable iv
  // computed among several variables equals the one computed on a Db that carries variable iv alone (calculations whose
  // (iv,iv) term only reads variable iv; the general algorithm)
  bool perVar = nv >= 2 && !c.bySample && (c.calc == 0 || c.calc == 2 || c.calc == 3 || c.calc == 4 || c.calc == 7);
  bool hetero = false;
  if (perVar)
  {
    for (int i = 0; i < d.n(); i++) hetero = hetero || (d.anyNA(i) && !d.allNA(i));
    for (int iv = 0; iv < nv; iv++)
    {
      DbC dm = d;
      dm.nvar = 1;
      dm.z.clear();
      for (int i = 0; i < d.n(); i++) dm.z.push_back(d.zv(i, iv));
      std::unique_ptr<Db> db3 = buildDb(dm);
      std::unique_ptr<Vario> v3 = computeVario(c, db3.get(), ctx);
      if (!v3) { ctx.label("alone:refused"); continue; }
      for (int idir = 0; idir < v1->getDirectionNumber(); idir++)
      {
        VectorDouble sw1 = v1->getSwVec(idir, iv, iv, false), sw3 = v3->getSwVec(idir, 0, 0, false);
        VectorDouble gg1 = v1->getGgVec(idir, iv, iv, false, false, false), gg3 = v3->getGgVec(idir, 0, 0, false, false, false);
        VectorDouble hh1 = v1->getHhVec(idir, iv, iv, false), hh3 = v3->getHhVec(idir, 0, 0, false);
        if (sw1.size() != sw3.size()) { ctx.fail(V + ":alone:sizes", "numbers of lags differ"); return; }
        for (size_t l = 0; l < sw1.size(); l++)
        {
          double swScale = std::max(std::fabs(sw1[l]), std::fabs(sw3[l]));
          bool ok = (d.w.empty() ? (sw1[l] == sw3[l]) : same(sw1[l], sw3[l], swScale)) && same(hh1[l], hh3[l], c.dlag * c.nlag) && same(gg1[l], gg3[l], z2);
          if (!ok)
          {
            ctx.fail(V + ":alone:" + (hetero ? "heterotopic" : "isotopic"),
                     CN + fmt(" dir %d lag %d variable %d: sw/hh/gg = %.15g / %.15g / %.15g among %d variables, %.15g / %.15g / %.15g when the Db carries this variable alone",
                              idir, (int)l, iv, sw1[l], hh1[l], gg1[l], nv, sw3[l], hh3[l], gg3[l]));
            return;
          }
        }
      }
    }
    if (hetero) ctx.label("alone:heterotopic-compared");
  }
  // global statistics stored in the variogram
  for (int iv = 0; iv < nv; iv++)
  {
    if (!same(v1->getMean(iv), v2->getMean(iv), zs)) { ctx.fail("vario-mean:" + MK, CN + fmt(" mean of variable %d: %.15g with the masked Db, %.15g with the reduced Db", iv, v1->getMean(iv), v2->getMean(iv))); return; }
    for (int jv = 0; jv <= iv; jv++)
      if (!same(v1->getVar(iv, jv), v2->getVar(iv, jv), zs * zs)) { ctx.fail(V + ":" + MK + ":var", CN + fmt(" variance (%d,%d): %.15g with the masked Db, %.15g with the reduced Db", iv, jv, v1->getVar(iv, jv), v2->getVar(iv, jv))); return; }
  }
  // non-trivial: a removed sample lies within the range of lags of a kept one
  bool matter = false;
  double hmax = c.dlag * (c.nlag + c.toldis);
  for (int i = 0; i < d.n() && !matter; i++)
  {
    if (std::find(keep.begin(), keep.end(), i) != keep.end() || d.coordNA(i)) continue;
    for (int j : keep)
      if (vfgeo::euclid(d.ndim, d.pts.p(i), d.pts.p(j)) < hmax) { matter = true; break; }
  }
  ctx.nontrivial(npairs > 0 && (((int)keep.size() < d.n() && matter) || (perVar && hetero)));
}
VERIF_SUB(vario, VarioC, genVario, runVario);

// ---------------------------------------------------------------------------- statistics
struct StatC
{
  DbC d;
  int flagIso = 1;
  double proba = 0.5, vmin = NA, vmax = NA;
  int multiOper = 0;
  template<class A> void io(A& a) { a("d", d)("flagIso", flagIso)("proba", proba)("vmin", vmin)("vmax", vmax)("multiOper", multiOper); }
};
static StatC genStat()
{
  StatC c;
  DbOpt o;
  o.naCoordPct = 0;
  c.d = genDbC(o);
  c.flagIso = G::b() ? 1 : 0;
  c.proba = G::pick<double>({0.1, 0.25, 0.5, 0.9});
  // no cut-offs vmin / vmax: dbStatisticsMono always computes a median from the values inside the cut-offs with
  // the rank of the whole set and reads beyond the array (not a masking matter; ASan abort)
  if (unsafeRegions() && G::pct(40)) { c.vmin = G::r(-20, 0, 2); c.vmax = c.vmin + G::r(1, 30, 2); }
  c.multiOper = G::i(0, 5);
  return c;
}
static bool sameTable(const Table& a, const Table& b, double scale, std::string& what)
{
  if (a.getNRows() != b.getNRows() || a.getNCols() != b.getNCols())
  {
    what = fmt("table %dx%d with the masked Db, %dx%d with the reduced Db", a.getNRows(), a.getNCols(), b.getNRows(), b.getNCols());
    return false;
  }
  for (int i = 0; i < a.getNRows(); i++)
    for (int j = 0; j < a.getNCols(); j++)
      if (!same(a.getValue(i, j), b.getValue(i, j), scale))
      {
        what = fmt("row %d (%s) column %d (%s): %.15g with the masked Db, %.15g with the reduced Db", i, a.getRowName(i).c_str(), j, a.getColumnName(j).c_str(), a.getValue(i, j), b.getValue(i, j));
        return false;
      }
  return true;
}
static void runStats(const StatC& c, Ctx& ctx)
{
  resetGlobals(c.d.ndim);
  debugHook();
  const DbC& d = c.d;
  // a sample leaves the reduced Db when it is masked, or when all the variables under study are undefined there
  labelDb(d, false, 1, ctx);
  ctx.sig = sigDb(d, false, 1, c.flagIso * 8 + c.multiOper);
  std::string M = dbMaskKind(d, false, 1);
  std::vector<int> keep = keptRows(d, false, 1);
  std::unique_ptr<Db> db1 = buildDb(d);
  Snap before = snapOf(db1.get());
  if (keep.empty()) ctx.label("reduced:no-data");
  std::unique_ptr<Db> db2 = keep.empty() ? nullptr : buildDb(d, &keep);
  VectorString names;
  for (int v = 0; v < d.nvar; v++) names.push_back("z" + std::to_string(v + 1));
  double zs = dbScale(d), z2 = zs * zs;
  std::string what;
  bool cut = !na(c.vmin);

  // --- monovariate table
  {
    std::vector<EStatOption> opers = {EStatOption::NUM, EStatOption::MEAN, EStatOption::VAR, EStatOption::STDV, EStatOption::MINI, EStatOption::MAXI, EStatOption::SUM, EStatOption::QUANT};
    if (cut) { opers.push_back(EStatOption::T); opers.push_back(EStatOption::Q); opers.push_back(EStatOption::M); opers.push_back(EStatOption::B); opers.push_back(EStatOption::PROP); }
    else opers.push_back(EStatOption::MEDIAN); // the median with cut-offs reads beyond its work array (not a masking matter)
    ctx.at("dbStatisticsMono");
    Table t1 = dbStatisticsMono(db1.get(), names, opers, c.flagIso != 0, c.proba, c.vmin, c.vmax);
    if (db2)
    {
      Table t2 = dbStatisticsMono(db2.get(), names, opers, c.flagIso != 0, c.proba, c.vmin, c.vmax);
      if (!sameTable(t1, t2, std::max(z2, zs), what)) { ctx.fail("stats-mono:" + M, what); return; }
    }
    else
      for (int i = 0; i < t1.getNRows(); i++)
        if (t1.getValue(i, 0) != 0.) { ctx.fail("stats-mono:" + M + ":count-from-nothing", fmt("NUM = %g although no sample is active", t1.getValue(i, 0))); return; }
  }
  // --- correlation table and multivariate table
  if (db2)
  {
    ctx.at("dbStatisticsCorrel");
    Table t1 = dbStatisticsCorrel(db1.get(), names, c.flagIso != 0), t2 = dbStatisticsCorrel(db2.get(), names, c.flagIso != 0);
    if (!sameTable(t1, t2, 1., what)) { ctx.fail("stats-correl:" + M, what); return; }
    static const char* mo[] = {"MEAN", "VAR", "NUM", "COV", "CORR", "STDV"};
    ctx.at(std::string("dbStatisticsMulti:") + mo[c.multiOper]);
    Table m1 = dbStatisticsMulti(db1.get(), names, EStatOption::fromKey(mo[c.multiOper]), c.flagIso != 0);
    Table m2 = dbStatisticsMulti(db2.get(), names, EStatOption::fromKey(mo[c.multiOper]), c.flagIso != 0);
    if (!sameTable(m1, m2, std::max(z2, zs), what)) { ctx.fail(std::string("stats-multi:") + M, std::string(mo[c.multiOper]) + ": " + what); return; }
  }
  // --- helpers of the Db (useSel = true)
  if (db2)
  {
    ctx.at("Db::getMean...");
    for (int v = 0; v < d.nvar; v++)
    {
      const std::string& nm = names[v];
      struct It { const char* w; double a, b, sc; };
      std::vector<It> its = {{"getMean", db1->getMean(nm, true), db2->getMean(nm, true), zs},
                             {"getVariance", db1->getVariance(nm, true), db2->getVariance(nm, true), z2},
                             {"getStdv", db1->getStdv(nm, true), db2->getStdv(nm, true), zs},
                             {"getMinimum", db1->getMinimum(nm, true), db2->getMinimum(nm, true), zs},
                             {"getMaximum", db1->getMaximum(nm, true), db2->getMaximum(nm, true), zs},
                             {"getActiveAndDefinedNumber(name)", (double)db1->getActiveAndDefinedNumber(nm), (double)db2->getActiveAndDefinedNumber(nm), 0.},
                             {"getActiveAndDefinedNumber(item)", (double)db1->getActiveAndDefinedNumber(v), (double)db2->getActiveAndDefinedNumber(v), 0.},
                             {"getNumberActiveAndDefined", (double)db1->getNumberActiveAndDefined(v), (double)db2->getNumberActiveAndDefined(v), 0.}};
      if (v > 0) its.push_back({"getCorrelation", db1->getCorrelation(names[0], nm, true), db2->getCorrelation(names[0], nm, true), 1.});
      for (auto& it : its)
        if (!same(it.a, it.b, it.sc, it.sc == z2 ? 1e-9 : 1e-10))
        {
          ctx.fail(std::string("db-helper:") + it.w + ":" + M, fmt("%s(%s): %.15g with the masked Db, %.15g with the reduced Db", it.w, nm.c_str(), it.a, it.b));
          return;
        }
    }
    // geometry of the active samples (the reduced Db for these keeps the samples without value)
    std::vector<int> keepSel = keptRows(d, false, 0);
    std::unique_ptr<Db> db3 = buildDb(d, &keepSel);
    int nact = db1->getSampleNumber(true);
    if (nact != (int)keepSel.size()) { ctx.fail("db-helper:getSampleNumber:" + M, fmt("getSampleNumber(true) = %d, %d samples are active", nact, (int)keepSel.size())); return; }
    VectorInt ra = db1->getRanksActive();
    if (std::vector<int>(ra.begin(), ra.end()) != keepSel) { ctx.fail("db-helper:getRanksActive:" + M, "getRanksActive() is not the list of active rows"); return; }
    for (int dd = 0; dd < d.ndim; dd++)
    {
      VectorDouble e1 = db1->getExtrema(dd, true), e3 = db3->getExtrema(dd, true);
      if (e1.size() != 2 || e3.size() != 2 || !same(e1[0], e3[0], d.L) || !same(e1[1], e3[1], d.L)) { ctx.fail("db-helper:getExtrema:" + M, fmt("getExtrema(%d, useSel) differs from the extrema of the active samples", dd)); return; }
      if (!same(db1->getCenter(dd, true), db3->getCenter(dd, true), d.L + 1e4)) { ctx.fail("db-helper:getCenter:" + M, "getCenter(useSel) differs"); return; }
      if (!same(db1->getExtension(dd, true), db3->getExtension(dd, true), d.L)) { ctx.fail("db-helper:getExtension:" + M, "getExtension(useSel) differs"); return; }
    }
    if (!same(db1->getExtensionDiagonal(true), db3->getExtensionDiagonal(true), d.L)) { ctx.fail("db-helper:getExtensionDiagonal:" + M, "getExtensionDiagonal(useSel) differs"); return; }
  }
  if (!snapUnchanged(before, db1.get(), what)) { ctx.fail("stats:data-cells:" + M, "cells of the Db changed: " + what); return; }
  ctx.nontrivial(!keep.empty() && (int)keep.size() < d.n());
}
VERIF_SUB(stats, StatC, genStat, runStats);

// ---------------------------------------------------------------------------- covariance / drift matrices
struct CovMC
{
  DbC d;
  DbC d2;                  // second Db (rectangular matrices)
  std::vector<StructC> st;
  int order = 0;
  int ivar = -1, jvar = -1;
  int api = 0;             // 0 evalCovMatrix(db1,db2) 1 Optim 2 Symmetric(db1) 3 SymmetricOptim 4 Sparse
  template<class A> void io(A& a) { a("d", d)("d2", d2)("st", st)("order", order)("ivar", ivar)("jvar", jvar)("api", api); }
};
static CovMC genCovM()
{
  CovMC c;
  DbOpt o;
  o.nMax = 25;
  o.naCoordPct = 20;
  c.d = genDbC(o);
  DbOpt o2 = o;
  c.d2 = genDbC(o2);
  // same space and number of variables; locations of the second Db are its own (no need to be distinct from the first)
  if (c.d2.ndim != c.d.ndim || c.d2.nvar != c.d.nvar)
  {
    c.d2 = c.d;
    int m = 0;
    c.d2.sel = genSel(c.d2.n(), m);
    for (auto& v : c.d2.pts.c) v += c.d.L * 0.013;
  }
  c.d2.L = c.d.L;
  std::vector<int> types = {T_EXPONENTIAL, T_SPHERICAL, T_CUBIC, T_GAUSSIAN, T_EXPONENTIAL, T_SPHERICAL};
  int nst = G::pick<int>({1, 1, 2});
  for (int k = 0; k < nst; k++) c.st.push_back(genStruct(c.d.ndim, c.d.nvar, c.d.L, G::pickv(types), k == 0));
  if (G::pct(30)) c.st.push_back(genStruct(c.d.ndim, c.d.nvar, c.d.L, T_NUGGET, false));
  c.order = G::pick<int>({0, 1, 1, 2});
  c.ivar = G::pct(50) ? -1 : G::i(0, c.d.nvar - 1);
  c.jvar = G::pct(50) ? -1 : G::i(0, c.d.nvar - 1);
  c.api = G::i(0, 4);
  return c;
}
static bool sameMatrix(const AMatrix& a, const AMatrix& b, double scale, std::string& what)
{
  if (a.getNRows() != b.getNRows() || a.getNCols() != b.getNCols())
  {
    what = fmt("matrix %dx%d with the masked Db, %dx%d with the reduced Db", a.getNRows(), a.getNCols(), b.getNRows(), b.getNCols());
    return false;
  }
  for (int i = 0; i < a.getNRows(); i++)
    for (int j = 0; j < a.getNCols(); j++)
      if (!same(a.getValue(i, j), b.getValue(i, j), scale))
      {
        what = fmt("entry (%d,%d): %.15g with the masked Db, %.15g with the reduced Db", i, j, a.getValue(i, j), b.getValue(i, j));
        return false;
      }
  return true;
}
static void runCovM(const CovMC& c, Ctx& ctx)
{
  resetGlobals(c.d.ndim);
  debugHook();
  const DbC &d = c.d, &e = c.d2;
  // rows of a matrix = (variable, active sample where the variable is defined): a sample without any defined
  // variable has no row, a partially defined one keeps the rows of its defined variables on both sides
  labelDb(d, true, 1, ctx);
  static const char* apis[] = {"evalCovMatrix", "evalCovMatrixOptim", "evalCovMatrixSymmetric", "evalCovMatrixSymmetricOptim", "evalCovMatrixSparse"};
  ctx.label(std::string("api:") + apis[c.api]);
  bool two = (c.api == 0 || c.api == 1 || c.api == 4);
  std::string M1 = dbMaskKind(d, true, 1), M2 = dbMaskKind(e, true, 1);
  std::string M = (M1 == "nacoord" || (two && M2 == "nacoord")) ? "nacoord" : ((M1 == "nomask" && two) ? M2 : M1);
  ctx.sig = sigDb(d, true, 1, c.api * 16 + c.order * 4 + (c.ivar + 1));
  std::vector<int> k1 = keptRows(d, true, 1), k2 = keptRows(e, true, 1);
  std::unique_ptr<Db> a1 = buildDb(d), b1 = buildDb(e);
  Snap sa = snapOf(a1.get()), sb = snapOf(b1.get());
  KCase kc;
  kc.ndim = d.ndim;
  kc.nvar = d.nvar;
  kc.st = c.st;
  kc.order = c.order;
  kc.nfex = 0;
  std::unique_ptr<Model> model = buildModel(kc, ctx);
  if (!model) return;
  double cs = 0;
  for (auto& s : c.st)
    for (double v : s.sill) cs = std::max(cs, std::fabs(v));
  cs *= (double)c.st.size();
  std::string what;
  bool haveRed = !k1.empty() && (!two || !k2.empty());
  std::unique_ptr<Db> a2 = k1.empty() ? nullptr : buildDb(d, &k1), b2 = k2.empty() ? nullptr : buildDb(e, &k2);
  int iv = c.ivar, jv = two ? c.jvar : c.ivar;

  auto evalCov = [&](Db* A, Db* B, std::unique_ptr<AMatrix>& out) {
    ctx.at(apis[c.api]);
    switch (c.api)
    {
      case 0: out.reset(new MatrixRectangular(model->evalCovMatrix(A, B, iv, jv))); break;
      case 1: out.reset(new MatrixRectangular(model->evalCovMatrixOptim(A, B, iv, jv))); break;
      case 2: out.reset(new MatrixSquareSymmetric(model->evalCovMatrixSymmetric(A, iv))); break;
      case 3: out.reset(new MatrixSquareSymmetric(model->evalCovMatrixSymmetricOptim(A, iv))); break;
      default:
      {
        MatrixSparse* sp = model->evalCovMatrixSparse(A, B, iv, jv, VectorInt(), VectorInt(), nullptr, 0.);
        if (sp) { out.reset(new MatrixRectangular(sp->getNRows(), sp->getNCols())); for (int i = 0; i < sp->getNRows(); i++) for (int j = 0; j < sp->getNCols(); j++) out->setValue(i, j, sp->getValue(i, j)); delete sp; }
        else out.reset(new MatrixRectangular());
      }
    }
  };
  std::unique_ptr<AMatrix> m1, m2;
  evalCov(a1.get(), b1.get(), m1);
  if (haveRed)
  {
    evalCov(a2.get(), b2.get(), m2);
    if (!sameMatrix(*m1, *m2, cs, what)) { ctx.fail(std::string("covmat:") + M + ":" + apis[c.api], what); return; }
  }
  else
  {
    ctx.label("reduced:no-data");
  }
  // drift matrix of the first Db
  if (!k1.empty())
  {
    ctx.at("evalDriftMatrix");
    MatrixRectangular d1 = model->evalDriftMatrix(a1.get(), iv), d2 = model->evalDriftMatrix(a2.get(), iv);
    double xs = 1;
    for (double v : d.pts.c) xs = std::max(xs, std::fabs(v));
    if (!sameMatrix(d1, d2, std::pow(xs, c.order), what)) { ctx.fail(std::string("driftmat:") + M1, what); return; }
  }
  if (!snapUnchanged(sa, a1.get(), what) || !snapUnchanged(sb, b1.get(), what)) { ctx.fail("covmat:data-cells", "cells of a Db changed: " + what); return; }
  ctx.nontrivial(haveRed && ((int)k1.size() < d.n() || (two && (int)k2.size() < e.n())));
}
VERIF_SUB(covmat, CovMC, genCovM, runCovM);

// ---------------------------------------------------------------------------- migrate
// mode 0 point->point, 1 point->point (ball tree), 2 point->grid, 3 point->grid (fill), 4 point->grid (fill, ball),
//      5 grid->point, 6 grid->point (interpolation).
// Modes 0-4: the source points carry the masks, reduced side = rows removed.  Modes 5-6: the source is a grid
// (cells cannot be removed): reduced side = same grid without selection, the masked cells holding TEST instead.
struct MigC
{
  DbC d;                    // the point Db (source in modes 0-4, target in modes 5-6)
  int mode = 0;
  Points targ;              // point targets (modes 0-1)
  std::vector<int> tsel;    // selection of the targets (points or grid cells), may be empty
  std::vector<double> pre;  // pre-existing column of the target
  std::vector<int> gnx;     // grid (modes 2-6)
  std::vector<double> gdx, gx0;
  std::vector<double> gval; // values on the grid (modes 5-6), NA allowed
  std::vector<int> gsel;    // selection of the source grid (modes 5-6)
  std::vector<double> dmax; // empty or ndim
  int distType = 1;
  template<class A> void io(A& a)
  {
    a("d", d)("mode", mode)("targ", targ)("tsel", tsel)("pre", pre)("gnx", gnx)("gdx", gdx)("gx0", gx0)("gval", gval)("gsel", gsel)("dmax", dmax)("distType", distType);
  }
  int ngrid() const
  {
    int p = 1;
    for (int v : gnx) p *= v;
    return p;
  }
};
static const char* kMigNames[] = {"p2p", "p2p-ball", "p2g", "p2g-fill", "p2g-fill-ball", "g2p", "g2p-inter"};
static MigC genMig()
{
  MigC c;
  c.mode = G::pick<int>({0, 0, 1, 2, 2, 3, 3, 4, 5, 6});
  DbOpt o;
  o.nMax = 30;
  o.nvarMax = 1;
  o.naCoordPct = (c.mode == 0 || c.mode == 2) ? 20 : 0; // the other source-side algorithms are only safe with defined coordinates
  o.naValPct = 30;
  int nt = G::sz(1, 12);
  std::vector<Points> extra;
  c.d = genDbC(o, 1, &extra, {nt});
  if (c.mode >= 5) c.d.naCoord.clear();
  // point -> grid with filling and no usable source sample (active, value defined): expandPointToGrid indexes an
  // empty rank array (null dereference; replay-only case migrate-fill-no-active-source.case)
  if (c.mode == 3 && !unsafeRegions())
  {
    bool any = false;
    for (int i = 0; i < c.d.n(); i++) any = any || (c.d.active(i) && !na(c.d.zv(i, 0)));
    if (!any)
    {
      if (!c.d.sel.empty()) c.d.sel[0] = 1;
      c.d.z[0] = -3.25;
    }
  }
  int ndim = c.d.ndim;
  if (c.mode <= 1)
  {
    c.targ = extra[0];
    int m = 0;
    if (G::pct(50)) c.tsel = genSel(nt, m);
  }
  else
  {
    // a grid over the box of the points ([origin, origin + L] per axis is unknown here: use the points' own box)
    int left = 24;
    for (int dd = 0; dd < ndim; dd++)
    {
      double lo = 1e300, hi = -1e300;
      for (int i = 0; i < c.d.n(); i++) { lo = std::min(lo, c.d.pts.at(i, dd)); hi = std::max(hi, c.d.pts.at(i, dd)); }
      int nx = G::i(1, std::min(5, left));
      left = std::max(1, left / nx);
      double ext = std::max(hi - lo, 0.05 * c.d.L);
      c.gnx.push_back(nx);
      c.gdx.push_back(ext / nx * G::pick<double>({1.05, 0.7, 1.3}));
      c.gx0.push_back(lo + c.gdx.back() * G::pick<double>({0.37, 0.5, -0.21}));
    }
    int ng = c.ngrid(), m = 0;
    if (c.mode <= 4) { if (G::pct(50)) c.tsel = genSel(ng, m); }
    else
    {
      c.gval.resize((size_t)ng);
      for (auto& v : c.gval) v = G::pct(10) ? NA : G::r(-40, 40, 8);
      c.gsel = genSel(ng, m);
      c.tsel = c.d.sel; // the target is the point Db itself
    }
  }
  if (c.mode <= 4 && G::pct(50))
  {
    c.pre.resize((size_t)(c.mode <= 1 ? nt : c.ngrid()));
    for (auto& v : c.pre) v = G::pct(15) ? NA : G::r(-9, 9, 4);
  }
  if (G::pct(40))
    for (int dd = 0; dd < ndim; dd++) c.dmax.push_back(c.d.L * G::pick<double>({0.1, 0.3, 0.6}));
  c.distType = G::pick<int>({1, 2});
  return c;
}
static std::unique_ptr<DbGrid> buildGrid(const MigC& c)
{
  VectorInt nx(c.gnx.begin(), c.gnx.end());
  VectorDouble dx(c.gdx.begin(), c.gdx.end()), x0(c.gx0.begin(), c.gx0.end());
  return std::unique_ptr<DbGrid>(DbGrid::create(nx, dx, x0));
}
static void runMig(const MigC& c, Ctx& ctx)
{
  const DbC& d = c.d;
  resetGlobals(d.ndim);
  debugHook();
  bool gridSource = c.mode >= 5;
  labelDb(d, true, 0, ctx);
  ctx.label(std::string("mode:") + kMigNames[c.mode]);
  if (!c.dmax.empty()) ctx.label("dmax");
  ctx.sig = sigDb(d, true, 0, c.mode * 4 + (c.dmax.empty() ? 0 : 1) + (c.tsel.empty() ? 0 : 2));
  std::string what;
  VectorDouble dmax(c.dmax.begin(), c.dmax.end());
  bool fill = (c.mode == 3 || c.mode == 4), inter = (c.mode == 6), ball = (c.mode == 1 || c.mode == 4);
  auto addTargetExtras = [&](Db* t, const std::vector<int>* rows) {
    int nt = t->getSampleNumber();
    if (!c.pre.empty())
    {
      VectorDouble v((size_t)nt);
      for (int q = 0; q < nt; q++) v[q] = c.pre[(size_t)(rows ? (*rows)[(size_t)q] : q)];
      t->addColumns(v, "pre", ELoc::UNKNOWN, 0);
    }
    if (!c.tsel.empty() && !rows)
    {
      VectorDouble v(c.tsel.begin(), c.tsel.end());
      t->addColumns(v, "tsel", ELoc::SEL, 0);
    }
  };

  if (!gridSource)
  {
    std::string M = dbMaskKind(d, true, 0);
    std::string V = std::string("migrate-") + kMigNames[c.mode] + ":" + M;
    std::vector<int> keep = keptRows(d, true, 0);
    std::unique_ptr<Db> in1 = buildDb(d), in2 = keep.empty() ? nullptr : buildDb(d, &keep);
    std::unique_ptr<Db> out1, out2;
    std::vector<int> kt;
    bool gridTarget = c.mode >= 2;
    int nt = gridTarget ? c.ngrid() : c.targ.n();
    for (int t = 0; t < nt; t++)
      if (c.tsel.empty() || c.tsel[(size_t)t]) kt.push_back(t);
    auto mkTarget = [&](bool reduced) -> std::unique_ptr<Db> {
      if (gridTarget)
      {
        std::unique_ptr<DbGrid> g = buildGrid(c);
        addTargetExtras(g.get(), nullptr); // a grid keeps its selection on both sides
        return g;
      }
      std::unique_ptr<Db> t(Db::create());
      const std::vector<int>* rows = reduced ? &kt : nullptr;
      int m = reduced ? (int)kt.size() : nt;
      for (int dd = 0; dd < d.ndim; dd++)
      {
        VectorDouble x((size_t)m);
        for (int q = 0; q < m; q++) x[q] = c.targ.at(reduced ? kt[(size_t)q] : q, dd);
        t->addColumns(x, "x" + std::to_string(dd + 1), ELoc::X, dd);
      }
      addTargetExtras(t.get(), rows);
      return t;
    };
    out1 = mkTarget(false);
    Snap sIn = snapOf(in1.get()), sOut = snapOf(out1.get());
    ctx.at(V);
    int e1 = migrate(in1.get(), out1.get(), "z1", c.distType, dmax, fill, inter, ball);
    if (!snapUnchanged(sIn, in1.get(), what)) { ctx.fail(V + ":data-cells", "cells of the source Db changed: " + what); return; }
    if (!snapUnchanged(sOut, out1.get(), what)) { ctx.fail(V + ":target-cells", "pre-existing cells of the target Db changed: " + what); return; }
    Cols c1 = newCols(sOut, out1.get());
    if (e1 == 0)
      for (auto& col : c1)
        for (int t = 0; t < nt; t++)
          if (!c.tsel.empty() && !c.tsel[(size_t)t] && !na(col.second[(size_t)t]))
          {
            ctx.fail(V + ":masked-target-written", fmt("masked target %d holds %.12g in the new column '%s'", t, col.second[(size_t)t], col.first.c_str()));
            return;
          }
    if (keep.empty() || kt.empty())
    {
      ctx.label("reduced:none");
      if (e1 == 0 && keep.empty())
        for (auto& col : c1)
          for (int t = 0; t < nt; t++)
            if (!na(col.second[(size_t)t])) { ctx.fail(V + ":value-from-nothing", fmt("target %d receives %.12g although no source sample is usable", t, col.second[(size_t)t])); return; }
      return;
    }
    out2 = mkTarget(true);
    Snap sOut2 = snapOf(out2.get());
    int e2 = migrate(in2.get(), out2.get(), "z1", c.distType, dmax, fill, inter, ball);
    if ((e1 != 0) != (e2 != 0)) { ctx.fail(V + ":error-status", fmt("migrate() returns %d with the masked Db and %d with the reduced Db", e1, e2)); return; }
    if (e1 != 0) { ctx.label("both-refused"); return; }
    Cols c2 = newCols(sOut2, out2.get());
    if (c1.size() != 1 || c2.size() != 1) { ctx.fail(V + ":columns", fmt("%d / %d new columns", (int)c1.size(), (int)c2.size())); return; }
    int nDef = 0;
    for (size_t q = 0; q < kt.size(); q++)
    {
      int t = kt[q];
      double a = c1[0].second[(size_t)t], b = c2[0].second[gridTarget ? (size_t)t : q];
      if (!na(a)) nDef++;
      if (!(a == b || (na(a) && na(b))))
      {
        ctx.fail(V + ":value", fmt("target %d: %.12g with the masked Db, %.12g after removing the %d masked/undefined source samples", t, a, b, d.n() - (int)keep.size()));
        return;
      }
    }
    ctx.nontrivial(nDef > 0 && (int)keep.size() < d.n());
    return;
  }

  // ---- grid source
  {
    bool anyMasked = false;
    for (int v : c.gsel) anyMasked = anyMasked || v == 0;
    std::string V = std::string("migrate-") + kMigNames[c.mode] + ":" + (anyMasked ? "sel" : "nomask");
    int ng = c.ngrid();
    auto mkSource = [&](bool reduced) {
      std::unique_ptr<DbGrid> g = buildGrid(c);
      VectorDouble v((size_t)ng);
      for (int q = 0; q < ng; q++) v[q] = (reduced && !c.gsel.empty() && !c.gsel[(size_t)q]) ? NA : c.gval[(size_t)q];
      g->addColumns(v, "z1", ELoc::Z, 0);
      if (!reduced && !c.gsel.empty())
      {
        VectorDouble sv(c.gsel.begin(), c.gsel.end());
        g->addColumns(sv, "gsel", ELoc::SEL, 0);
      }
      return g;
    };
    std::unique_ptr<DbGrid> g1 = mkSource(false), g2 = mkSource(true);
    std::unique_ptr<Db> t1 = buildDb(d), t2 = buildDb(d); // same targets (with their selection) on both sides
    Snap sG = snapOf(g1.get()), sT = snapOf(t1.get()), sT2 = snapOf(t2.get());
    ctx.at(V);
    int e1 = migrate(g1.get(), t1.get(), "z1", c.distType, dmax, fill, inter, ball);
    int e2 = migrate(g2.get(), t2.get(), "z1", c.distType, dmax, fill, inter, ball);
    if (!snapUnchanged(sG, g1.get(), what)) { ctx.fail(V + ":data-cells", "cells of the source grid changed: " + what); return; }
    if (!snapUnchanged(sT, t1.get(), what)) { ctx.fail(V + ":target-cells", "pre-existing cells of the target Db changed: " + what); return; }
    if ((e1 != 0) != (e2 != 0)) { ctx.fail(V + ":error-status", fmt("migrate() returns %d with the masked grid and %d with the grid holding TEST instead", e1, e2)); return; }
    if (e1 != 0) { ctx.label("both-refused"); return; }
    Cols c1 = newCols(sT, t1.get()), c2 = newCols(sT2, t2.get());
    if (c1.size() != 1 || c2.size() != 1) { ctx.fail(V + ":columns", fmt("%d / %d new columns", (int)c1.size(), (int)c2.size())); return; }
    int nDef = 0;
    for (int t = 0; t < d.n(); t++)
    {
      double a = c1[0].second[(size_t)t], b = c2[0].second[(size_t)t];
      if (!d.active(t))
      {
        if (!na(a)) { ctx.fail(V + ":masked-target-written", fmt("masked target %d holds %.12g in the new column", t, a)); return; }
        continue;
      }
      if (!na(a)) nDef++;
      if (!(a == b || (na(a) && na(b)) || same(a, b, 40.)))
      {
        ctx.fail(V + ":value", fmt("target %d: %.12g from the grid with masked cells, %.12g when these cells hold TEST instead", t, a, b));
        return;
      }
    }
    ctx.nontrivial(nDef > 0 && anyMasked);
  }
}
VERIF_SUB(migrate, MigC, genMig, runMig);

// ---------------------------------------------------------------------------- PCA / MAF
struct PcaC
{
  DbC d;
  int maf = 0;
  double hmin = 0., hmax = 1.;
  template<class A> void io(A& a) { a("d", d)("maf", maf)("hmin", hmin)("hmax", hmax); }
};
static PcaC genPca()
{
  PcaC c;
  DbOpt o;
  o.nMax = 30;
  c.d = genDbC(o);
  if (c.d.nvar < 2)
  {
    // PCA needs two variables at least
    int n = c.d.n();
    std::vector<double> z((size_t)(2 * n));
    for (int i = 0; i < n; i++) { z[(size_t)(2 * i)] = c.d.z[(size_t)i]; z[(size_t)(2 * i + 1)] = G::pct(10) ? NA : G::r(-40, 40, 8); }
    c.d.z = z;
    c.d.nvar = 2;
  }
  c.maf = G::pct(40) ? 1 : 0;
  c.hmin = 0.;
  c.hmax = c.d.L * G::pick<double>({0.2, 0.5, 2.});
  c.d.naCoord.clear(); // the normalisation statistics of PCA / MAF do not read the coordinates
  return c;
}
static void runPca(const PcaC& c, Ctx& ctx)
{
  const DbC& d = c.d;
  resetGlobals(d.ndim);
  debugHook();
  // PCA works on the isotopic active samples: a sample with any undefined variable leaves the reduced Db;
  // the MAF also reads the coordinates
  bool useCoords = false;
  labelDb(d, useCoords, 2, ctx);
  ctx.label(c.maf ? "maf" : "pca");
  ctx.sig = sigDb(d, useCoords, 2, c.maf);
  std::string V = std::string(c.maf ? "maf:" : "pca:") + dbMaskKind(d, useCoords, 2);
  std::vector<int> keep = keptRows(d, useCoords, 2);
  std::unique_ptr<Db> db1 = buildDb(d);
  Snap before = snapOf(db1.get());
  PCA p1, p2;
  ctx.at(V);
  auto fit = [&](PCA& p, Db* db) { return c.maf ? p.maf_compute_interval(db, c.hmin, c.hmax) : p.pca_compute(db); };
  int e1 = fit(p1, db1.get());
  std::string what;
  if (!snapUnchanged(before, db1.get(), what)) { ctx.fail(V + ":data-cells", "cells of the Db changed: " + what); return; }
  if (keep.empty()) { ctx.label("reduced:no-data"); return; }
  std::unique_ptr<Db> db2 = buildDb(d, &keep);
  int e2 = fit(p2, db2.get());
  if ((e1 != 0) != (e2 != 0)) { ctx.fail(V + ":error-status", fmt("returns %d with the masked Db and %d with the reduced Db", e1, e2)); return; }
  if (e1 != 0) { ctx.label("both-refused"); return; }
  double zs = dbScale(d);
  int nv = d.nvar;
  for (int v = 0; v < nv; v++)
  {
    if (!same(p1.getMeans()[v], p2.getMeans()[v], zs)) { ctx.fail(V + ":mean", fmt("mean %d: %.15g with the masked Db, %.15g with the reduced Db", v, p1.getMeans()[v], p2.getMeans()[v])); return; }
    if (!same(p1.getSigmas()[v], p2.getSigmas()[v], zs, 1e-9)) { ctx.fail(V + ":sigma", fmt("sigma %d: %.15g with the masked Db, %.15g with the reduced Db", v, p1.getSigmas()[v], p2.getSigmas()[v])); return; }
  }
  // eigenvalues of a symmetric matrix are perfectly conditioned: absolute error ~ eps * ||C||.  The inputs are
  // the same sums in the same order, so the matrices are expected to be equal to the last bit.
  double lmax = 0;
  for (int v = 0; v < nv; v++) lmax = std::max(lmax, std::fabs(p2.getEigVals()[v]));
  for (int v = 0; v < nv; v++)
    if (!same(p1.getEigVals()[v], p2.getEigVals()[v], lmax, 1e-9) && std::fabs(p1.getEigVals()[v] - p2.getEigVals()[v]) > 1e-9 * lmax)
    {
      ctx.fail(V + ":eigenvalue", fmt("eigenvalue %d: %.15g with the masked Db, %.15g with the reduced Db", v, p1.getEigVals()[v], p2.getEigVals()[v]));
      return;
    }
  for (int i = 0; i < nv; i++)
    for (int j = 0; j < nv; j++)
      if (!same(p1.getC0().getValue(i, j), p2.getC0().getValue(i, j), 1., 1e-9))
      {
        ctx.fail(V + ":c0", fmt("C0(%d,%d): %.15g with the masked Db, %.15g with the reduced Db", i, j, p1.getC0().getValue(i, j), p2.getC0().getValue(i, j)));
        return;
      }
  ctx.nontrivial((int)keep.size() < d.n() && (int)keep.size() >= 2);
}
VERIF_SUB(pca, PcaC, genPca, runPca);

// ---------------------------------------------------------------------------- anamorphosis
struct AnamC
{
  DbC d;
  int kind = 0;  // 0 Hermite, 1 empirical
  int nbpoly = 10, ndisc = 20;
  int byName = 0;
  template<class A> void io(A& a) { a("d", d)("kind", kind)("nbpoly", nbpoly)("ndisc", ndisc)("byName", byName); }
};
static AnamC genAnam()
{
  AnamC c;
  DbOpt o;
  o.nMax = 40;
  o.nvarMax = 1;
  o.naCoordPct = 0;
  o.weightPct = 30;
  c.d = genDbC(o);
  // three usable values at least: with fewer the fit itself misbehaves, selection or not (index -1 in
  // AnamHermite::_data_sort with one value, "Interval is not valid" thrown by AnamEmpirical with none): C18's matter
  if (!unsafeRegions())
  {
    while (c.d.n() < 3)
    {
      double x[3] = {c.d.L * (2. + c.d.n()), c.d.L * 2., c.d.L * 2.};
      c.d.pts.push(x);
      c.d.z.push_back(1.5 * c.d.n());
      if (!c.d.sel.empty()) c.d.sel.push_back(1);
      if (!c.d.w.empty()) c.d.w.push_back(1.);
    }
    for (int i = 0; i < 3; i++)
    {
      if (!c.d.sel.empty()) c.d.sel[(size_t)i] = 1;
      if (na(c.d.z[(size_t)i])) c.d.z[(size_t)i] = -7.5;
    }
  }
  // pairwise distinct values whatever the shrinking does (a constant variable is another matter: C18)
  for (int i = 0; i < c.d.n(); i++)
    if (!na(c.d.z[(size_t)i])) c.d.z[(size_t)i] += 0.03125 * i;
  c.kind = G::pct(70) ? 0 : 1;
  c.nbpoly = G::i(3, 20);
  c.ndisc = G::i(5, 40);
  c.byName = G::b() ? 1 : 0;
  return c;
}
static void runAnam(const AnamC& c, Ctx& ctx)
{
  const DbC& d = c.d;
  resetGlobals(d.ndim);
  debugHook();
  labelDb(d, false, 1, ctx);
  ctx.label(c.kind ? "anam:empirical" : "anam:hermite");
  ctx.sig = sigDb(d, false, 1, c.kind * 2 + c.byName);
  std::string V = std::string(c.kind ? "anam-empirical:" : "anam-hermite:") + dbMaskKind(d, false, 1);
  std::vector<int> keep = keptRows(d, false, 1);
  std::unique_ptr<Db> db1 = buildDb(d);
  Snap before = snapOf(db1.get());
  auto mk = [&]() -> std::unique_ptr<AAnam> {
    if (c.kind == 0) return std::unique_ptr<AAnam>(new AnamHermite(c.nbpoly));
    return std::unique_ptr<AAnam>(new AnamEmpirical(c.ndisc));
  };
  std::unique_ptr<AAnam> a1 = mk(), a2 = mk();
  ctx.at(V);
  auto fit = [&](AAnam* a, Db* db) { return c.byName ? a->fit(db, "z1") : a->fitFromLocator(db, ELoc::Z); };
  int e1 = fit(a1.get(), db1.get());
  std::string what;
  if (!snapUnchanged(before, db1.get(), what)) { ctx.fail(V + ":data-cells", "cells of the Db changed: " + what); return; }
  if (keep.empty()) { ctx.label("reduced:no-data"); return; }
  std::unique_ptr<Db> db2 = buildDb(d, &keep);
  int e2 = fit(a2.get(), db2.get());
  if ((e1 != 0) != (e2 != 0)) { ctx.fail(V + ":error-status", fmt("fit returns %d with the masked Db and %d with the reduced Db", e1, e2)); return; }
  if (e1 != 0) { ctx.label("both-refused"); return; }
  double zs = dbScale(d);
  if (c.kind == 0)
  {
    VectorDouble p1 = dynamic_cast<AnamHermite*>(a1.get())->getPsiHns(), p2 = dynamic_cast<AnamHermite*>(a2.get())->getPsiHns();
    if (p1.size() != p2.size()) { ctx.fail(V + ":coefficients", "numbers of Hermite coefficients differ"); return; }
    for (size_t i = 0; i < p1.size(); i++)
      if (!same(p1[i], p2[i], zs, 1e-9)) { ctx.fail(V + ":coefficients", fmt("psi[%d] = %.15g with the masked Db, %.15g with the reduced Db", (int)i, p1[i], p2[i])); return; }
  }
  else
  {
    AnamEmpirical *q1 = dynamic_cast<AnamEmpirical*>(a1.get()), *q2 = dynamic_cast<AnamEmpirical*>(a2.get());
    VectorDouble z1 = q1->getZDisc(), z2 = q2->getZDisc(), y1 = q1->getYDisc(), y2 = q2->getYDisc();
    if (z1.size() != z2.size() || y1.size() != y2.size()) { ctx.fail(V + ":coefficients", "numbers of discretisation points differ"); return; }
    for (size_t i = 0; i < z1.size(); i++)
      if (!same(z1[i], z2[i], zs, 1e-9) || !same(y1[i], y2[i], 1., 1e-9)) { ctx.fail(V + ":coefficients", fmt("point %d: (y,z) = (%.12g,%.12g) with the masked Db, (%.12g,%.12g) with the reduced Db", (int)i, y1[i], z1[i], y2[i], z2[i])); return; }
  }
  // transform: new column, TEST at the masked samples, same values at the kept ones
  Snap b1 = snapOf(db1.get()), b2 = snapOf(db2.get());
  int t1 = a1->rawToGaussian(db1.get(), "z1"), t2 = a2->rawToGaussian(db2.get(), "z1");
  if ((t1 != 0) != (t2 != 0)) { ctx.fail(V + ":transform-status", fmt("rawToGaussian returns %d / %d", t1, t2)); return; }
  if (t1 == 0)
  {
    if (!snapUnchanged(b1, db1.get(), what)) { ctx.fail(V + ":data-cells", "cells of the Db changed: " + what); return; }
    Cols c1 = newCols(b1, db1.get()), c2 = newCols(b2, db2.get());
    if (c1.size() != 1 || c2.size() != 1) { ctx.fail(V + ":columns", fmt("%d / %d new columns", (int)c1.size(), (int)c2.size())); return; }
    for (int i = 0; i < d.n(); i++)
      if (!d.active(i) && !na(c1[0].second[(size_t)i])) { ctx.fail("anam:masked-target-written", fmt("masked sample %d holds %.12g in the new column '%s'", i, c1[0].second[(size_t)i], c1[0].first.c_str())); return; }
    for (size_t q = 0; q < keep.size(); q++)
      if (!same(c1[0].second[(size_t)keep[q]], c2[0].second[q], 1., 1e-8)) { ctx.fail(V + ":transform", fmt("sample %d: %.12g with the masked Db, %.12g with the reduced Db", keep[q], c1[0].second[(size_t)keep[q]], c2[0].second[q])); return; }
  }
  ctx.nontrivial((int)keep.size() < d.n() && keep.size() >= 3);
}
VERIF_SUB(anam, AnamC, genAnam, runAnam);

// ---------------------------------------------------------------------------- variograms on a grid
// Cells of a grid cannot be removed: reduced side = the same grid without selection where the masked cells hold
// TEST for every variable (a masked cell and an undefined cell must contribute the same: nothing).
struct VGridC
{
  int ndim = 2, nvar = 1, calc = 0, npas = 3;
  std::vector<int> nx;
  std::vector<double> dx, x0;
  std::vector<double> z;   // ncell*nvar
  std::vector<int> sel;    // ncell flags (may be empty)
  template<class A> void io(A& a) { a("ndim", ndim)("nvar", nvar)("calc", calc)("npas", npas)("nx", nx)("dx", dx)("x0", x0)("z", z)("sel", sel); }
  int ncell() const
  {
    int p = 1;
    for (int v : nx) p *= v;
    return p;
  }
};
static VGridC genVGrid()
{
  VGridC c;
  c.ndim = G::pick<int>({1, 2, 2, 3});
  c.nvar = G::pick<int>({1, 1, 2});
  int left = 36;
  for (int d = 0; d < c.ndim; d++)
  {
    int n = G::i(d == 0 ? 2 : 1, std::min(8, left));
    left = std::max(1, left / n);
    c.nx.push_back(n);
    c.dx.push_back(G::pick<double>({1., 0.5, 25.}));
    c.x0.push_back(G::pick<double>({0., 100., -3.5}));
  }
  int nc = c.ncell();
  c.z.resize((size_t)(nc * c.nvar));
  for (auto& v : c.z) v = G::pct(10) ? NA : G::r(-40, 40, 8);
  int m = 0;
  c.sel = genSel(nc, m);
  c.calc = G::pick<int>({0, 0, 1, 2, 3, 4, 7});
  c.npas = G::i(1, 4);
  return c;
}
static void runVGrid(const VGridC& c, Ctx& ctx)
{
  resetGlobals(c.ndim);
  debugHook();
  int nc = c.ncell(), nv = c.nvar;
  bool anyMasked = false;
  for (int v : c.sel) anyMasked = anyMasked || v == 0;
  ctx.label(std::string("calc:") + kCalcNames[c.calc]);
  ctx.label("ndim:" + std::to_string(c.ndim));
  ctx.label(c.sel.empty() ? "sel:none" : (anyMasked ? "sel:masking" : "sel:all-active"));
  ctx.sig = Hash().add(c.ndim).add(c.nvar).add(c.calc).add(c.npas).add(nc < 6 ? nc : (nc < 20 ? 6 : 7)).add(anyMasked ? 1 : 0).h;
  std::string V = std::string("vario-grid:") + (anyMasked ? "sel" : "nomask");
  auto mk = [&](bool reduced) {
    VectorInt nx(c.nx.begin(), c.nx.end());
    VectorDouble dx(c.dx.begin(), c.dx.end()), x0(c.x0.begin(), c.x0.end());
    std::unique_ptr<DbGrid> g(DbGrid::create(nx, dx, x0));
    for (int v = 0; v < nv; v++)
    {
      VectorDouble col((size_t)nc);
      for (int i = 0; i < nc; i++) col[i] = (reduced && !c.sel.empty() && !c.sel[(size_t)i]) ? NA : c.z[(size_t)(i * nv + v)];
      g->addColumns(col, "z" + std::to_string(v + 1), ELoc::Z, v);
    }
    if (!reduced && !c.sel.empty())
    {
      VectorDouble sv(c.sel.begin(), c.sel.end());
      g->addColumns(sv, "sel", ELoc::SEL, 0);
    }
    return g;
  };
  std::unique_ptr<DbGrid> g1 = mk(false), g2 = mk(true);
  Snap before = snapOf(g1.get());
  auto comp = [&](DbGrid* g) {
    std::unique_ptr<VarioParam> vp(VarioParam::createMultipleFromGrid(g, c.npas));
    ctx.at(std::string("Vario(grid):") + kCalcNames[c.calc]);
    return std::unique_ptr<Vario>(Vario::computeFromDb(*vp, g, calcOf(c.calc)));
  };
  std::unique_ptr<Vario> v1 = comp(g1.get()), v2 = comp(g2.get());
  std::string what;
  if (!snapUnchanged(before, g1.get(), what)) { ctx.fail(V + ":data-cells", "cells of the grid changed: " + what); return; }
  if ((v1 == nullptr) != (v2 == nullptr)) { ctx.fail(V + ":error-status", fmt("%s with the masked grid, %s with TEST in the masked cells", v1 ? "succeeds" : "fails", v2 ? "succeeds" : "fails")); return; }
  if (!v1) { ctx.label("both-refused"); return; }
  double zs = 0;
  for (double v : c.z)
    if (!na(v)) zs = std::max(zs, std::fabs(v));
  double z2 = std::max(1e-300, zs * zs);
  if (c.calc == 7) z2 *= z2;
  if (c.calc == 3) z2 = zs;
  if (c.calc == 4) z2 = std::sqrt(zs);
  long npairs = 0;
  std::string CN = kCalcNames[c.calc];
  for (int idir = 0; idir < v1->getDirectionNumber(); idir++)
    for (int iv = 0; iv < nv; iv++)
      for (int jv = 0; jv <= iv; jv++)
      {
        VectorDouble sw1 = v1->getSwVec(idir, iv, jv, false), sw2 = v2->getSwVec(idir, iv, jv, false);
        VectorDouble gg1 = v1->getGgVec(idir, iv, jv, false, false, false), gg2 = v2->getGgVec(idir, iv, jv, false, false, false);
        VectorDouble hh1 = v1->getHhVec(idir, iv, jv, false), hh2 = v2->getHhVec(idir, iv, jv, false);
        if (sw1.size() != sw2.size()) { ctx.fail(V + ":sizes", "numbers of lags differ"); return; }
        for (size_t l = 0; l < sw1.size(); l++)
        {
          if (!(sw1[l] == sw2[l])) { ctx.fail(V + ":sw", CN + fmt(" dir %d var (%d,%d) lag %d: %.15g pairs with the masked grid, %.15g when the masked cells hold TEST", idir, iv, jv, (int)l, sw1[l], sw2[l])); return; }
          if (!na(sw1[l])) npairs += (long)sw1[l];
          if (!same(hh1[l], hh2[l], 100.)) { ctx.fail(V + ":hh", CN + fmt(" dir %d var (%d,%d) lag %d: distance %.15g / %.15g", idir, iv, jv, (int)l, hh1[l], hh2[l])); return; }
          if (!same(gg1[l], gg2[l], z2)) { ctx.fail(V + ":gg", CN + fmt(" dir %d var (%d,%d) lag %d: value %.15g with the masked grid, %.15g when the masked cells hold TEST", idir, iv, jv, (int)l, gg1[l], gg2[l])); return; }
        }
      }
  for (int iv = 0; iv < nv; iv++)
    for (int jv = 0; jv <= iv; jv++)
      if (!same(v1->getVar(iv, jv), v2->getVar(iv, jv), zs * zs)) { ctx.fail(V + ":var", CN + fmt(" variance (%d,%d): %.15g / %.15g", iv, jv, v1->getVar(iv, jv), v2->getVar(iv, jv))); return; }
  for (int iv = 0; iv < nv; iv++)
    if (!same(v1->getMean(iv), v2->getMean(iv), zs)) { ctx.fail(std::string("vario-mean:grid-") + (anyMasked ? "sel" : "nomask"), CN + fmt(" mean of variable %d: %.15g / %.15g", iv, v1->getMean(iv), v2->getMean(iv))); return; }
  ctx.nontrivial(anyMasked && npairs > 0);
}
VERIF_SUB(vario_grid, VGridC, genVGrid, runVGrid);

VERIF_MAIN()
