// C06 — the moving neighbourhood is exactly the set its parameters define; ball-tree k-NN is exact.
// Oracle: vfgeo::refMovingNeigh (executable definition, harness/common/geo_common.hpp), the
// admissibility of a sample (active, defined, cross-validation, pair checkers) decided here with
// independent code, and sorted brute force for the k nearest neighbours.   DESIGN.md §5 C06.
#include "verif.hpp"
#include "geo_common.hpp"

#include "Db/Db.hpp"
#include "Neigh/NeighMoving.hpp"
#include "Space/ASpaceObject.hpp"
#include "Tree/Ball.hpp"
#include "Tree/KNN.hpp"
#include "Geometry/BiTargetCheckBench.hpp"
#include "Geometry/BiTargetCheckCode.hpp"
#include "Geometry/BiTargetCheckDate.hpp"
#include "Geometry/BiTargetCheckFaults.hpp"
#include "Faults/Faults.hpp"
#include "Basic/PolyLine2D.hpp"
#include "Basic/OptDbg.hpp"
#include "Basic/Law.hpp"
#include "Model/Model.hpp"
#include "Estimation/CalcKriging.hpp"
#include "Enum/ECov.hpp"
#include "Enum/EKrigOpt.hpp"
#include "geoslib_define.h"

#include <memory>
#include <algorithm>

using namespace vf;
using vfgeo::Points;

static const double NA = TEST;

// =========================================================================================
//  Case of the neighbourhood sub-properties
// =========================================================================================
struct FaultLine
{
  std::vector<double> x, y;
  template<class A> void io(A& a) { a("x", x)("y", y); }
};

struct NeighCase
{
  int ndim = 2;
  double L = 1.;                 // box size (scale of the absolute margins)
  Points data;                   // samples of dbin
  Points targ;                   // targets of a separate dbout (xvmode 0 and 3)
  int xvmode = 0;                // 0 none; 1 leave-one-out (dbout = dbin); 2 k-fold (dbout = dbin);
                                 // 3 cross-validation flag with a separate dbout (some targets on samples)
                                 // 4 k-fold with a separate dbout carrying its own codes
  std::vector<int> tix;          // xvmode 1/2: raw target ranks (resolved modulo n)
  std::vector<int> order;        // raw sequence of evaluated targets (resolved modulo #targets)
  int nvar = 1;
  std::vector<double> z;         // n*nvar values, NA = TEST
  int hasSel = 0;
  std::vector<int> sel;
  int hasCode = 0;
  std::vector<int> code, tcode;  // codes of samples / of separate targets
  int hasDate = 0;
  std::vector<int> date, tdate;
  // neighbourhood
  int hasRadius = 0;
  double radius = 0.;
  std::vector<double> coeffs, angles;
  int nmini = 1, nmaxi = 10, nsect = 1, nsmax = 0; // nsmax 0 => undefined (ITEST)
  // additional checkers
  int bench = 0;
  double benchWidth = 0.;
  int codeOpt = 0;               // 0 none, 1 close codes, 2 different codes
  double codeTol = 0.5;
  int dateChk = 0;
  double dmin = 0., dmax = 0.;
  std::vector<FaultLine> faults;
  int ball = 0, leaf = 10;
  int iech0 = 1;                 // raw target of krigtest (api sub)
  template<class A> void io(A& a)
  {
    a("ndim", ndim)("L", L)("data", data)("targ", targ)("xvmode", xvmode)("tix", tix)("order", order);
    a("nvar", nvar)("z", z)("hasSel", hasSel)("sel", sel)("hasCode", hasCode)("code", code)("tcode", tcode);
    a("hasDate", hasDate)("date", date)("tdate", tdate);
    a("hasRadius", hasRadius)("radius", radius)("coeffs", coeffs)("angles", angles);
    a("nmini", nmini)("nmaxi", nmaxi)("nsect", nsect)("nsmax", nsmax);
    a("bench", bench)("benchWidth", benchWidth)("codeOpt", codeOpt)("codeTol", codeTol);
    a("dateChk", dateChk)("dmin", dmin)("dmax", dmax)("faults", faults)("ball", ball)("leaf", leaf)("iech0", iech0);
  }
  int n() const { return data.n(); }
  bool sameDb() const { return xvmode == 1 || xvmode == 2; }
  int ntarg() const { return sameDb() ? (int)tix.size() : targ.n(); }
  // rank (in dbout) of the k-th target
  int targetRank(int k) const { return sameDb() ? ((tix[(size_t)k] % n()) + n()) % n() : k; }
  const double* targetXY(int k) const { return sameDb() ? data.p(targetRank(k)) : targ.p(k); }
  int targetCode(int k) const { return sameDb() ? code[(size_t)targetRank(k)] : tcode[(size_t)k]; }
  int targetDate(int k) const { return sameDb() ? date[(size_t)targetRank(k)] : tdate[(size_t)k]; }
};

static vfgeo::NeighParams paramsOf(const NeighCase& c)
{
  vfgeo::NeighParams P;
  P.ndim = c.ndim;
  P.hasRadius = c.hasRadius != 0;
  P.radius = c.radius;
  // the library ignores angles when no coefficient is given: the harness never passes angles alone
  P.metric = vfgeo::Aniso::make(c.ndim, c.coeffs, c.coeffs.empty() ? std::vector<double>() : c.angles);
  P.nmini = c.nmini;
  P.nmaxi = c.nmaxi;
  P.nsect = c.nsect;
  P.nsmax = c.nsmax;
  return P;
}

static bool isActive(const NeighCase& c, int i) { return !c.hasSel || c.sel[(size_t)i] != 0; }
static bool isDefined(const NeighCase& c, int i)
{
  if (c.nvar <= 0) return true;
  for (int v = 0; v < c.nvar; v++)
    if (c.z[(size_t)(i * c.nvar + v)] != NA) return true;
  return false;
}

// Admissibility of every sample for the k-th target (everything except the distance criterion).
//   base[i] : active and defined;   adm[i] : base and not excluded by cross-validation / checkers.
//   amb     : samples for which a checker decision is within the margin (to be removed by the generator)
static void admissibility(const NeighCase& c, int k, std::vector<int>& base, std::vector<int>& adm,
                          std::vector<int>& amb)
{
  int n = c.n();
  base.assign((size_t)n, 0);
  adm.assign((size_t)n, 0);
  const double* t = c.targetXY(k);
  double tolAbs = 1e-6 * c.L;
  for (int i = 0; i < n; i++)
  {
    if (!isActive(c, i) || !isDefined(c, i)) continue;
    base[(size_t)i] = 1;
    bool ok = true;
    // cross-validation
    if (c.xvmode == 1 || c.xvmode == 3)
    {
      double d = vfgeo::euclid(c.ndim, t, c.data.p(i));
      if (d < 1e-9) ok = false;
      else if (d < 1e-7) amb.push_back(i);
    }
    else if (c.xvmode == 2 || c.xvmode == 4)
    {
      if (c.code[(size_t)i] == c.targetCode(k)) ok = false;
    }
    // bench: |difference along the last axis| <= width
    if (c.bench)
    {
      double dz = std::fabs(t[c.ndim - 1] - c.data.at(i, c.ndim - 1));
      if (std::fabs(dz - c.benchWidth) <= tolAbs) amb.push_back(i);
      if (dz > c.benchWidth) ok = false;
    }
    // codes
    if (c.codeOpt == 1 && std::fabs((double)c.targetCode(k) - (double)c.code[(size_t)i]) > c.codeTol) ok = false;
    if (c.codeOpt == 2 && c.targetCode(k) == c.code[(size_t)i]) ok = false;
    // dates: deltamin <= date(sample) - date(target) < deltamax  (limits are half-integers)
    if (c.dateChk)
    {
      double delta = (double)c.date[(size_t)i] - (double)c.targetDate(k);
      if (delta < c.dmin || delta >= c.dmax) ok = false;
    }
    // faults: the segment target-sample must not cross any fault segment (2-D)
    if (!c.faults.empty() && c.ndim == 2)
    {
      for (auto& f : c.faults)
        for (size_t s = 1; s < f.x.size(); s++)
        {
          int cr = vfgeo::segmentsCross(t[0], t[1], c.data.at(i, 0), c.data.at(i, 1), f.x[s - 1], f.y[s - 1], f.x[s],
                                        f.y[s], tolAbs);
          if (cr == 0) amb.push_back(i);
          if (cr > 0) ok = false;
        }
    }
    adm[(size_t)i] = ok ? 1 : 0;
  }
}

// remove the samples flagged in `drop` from every per-sample array
static void dropSamples(NeighCase& c, const std::vector<int>& drop)
{
  int n = c.n();
  std::vector<double> z;
  std::vector<int> sel, code, date;
  for (int i = 0; i < n; i++)
  {
    if (drop[(size_t)i]) continue;
    for (int v = 0; v < c.nvar; v++) z.push_back(c.z[(size_t)(i * c.nvar + v)]);
    sel.push_back(c.sel[(size_t)i]);
    code.push_back(c.code[(size_t)i]);
    date.push_back(c.date[(size_t)i]);
  }
  c.data = c.data.without(drop);
  c.z = z;
  c.sel = sel;
  c.code = code;
  c.date = date;
}

// Construction with a margin: samples that make any decision ambiguous for any possible target are
// removed.  Removing a sample never creates a new ambiguity, so one pass is enough (a second one checks).
static void sanitize(NeighCase& c)
{
  NeighCase orig = c;
  for (int round = 0; round < 3; round++)
  {
    int n = c.n();
    std::vector<int> drop((size_t)n, 0);
    int ndrop = 0;
    // every sample is a potential target when dbout = dbin
    NeighCase probe = c;
    if (c.sameDb())
    {
      probe.tix.clear();
      for (int i = 0; i < n; i++) probe.tix.push_back(i);
    }
    vfgeo::NeighParams P = paramsOf(c);
    for (int k = 0; k < probe.ntarg(); k++)
    {
      if (c.sameDb() && drop[(size_t)k]) continue;
      std::vector<int> base, adm, amb;
      admissibility(probe, k, base, adm, amb);
      for (int i : amb)
        if (!drop[(size_t)i]) { drop[(size_t)i] = 1; ndrop++; }
      for (int i = 0; i < n; i++)
        if (drop[(size_t)i]) adm[(size_t)i] = base[(size_t)i] = 0;
      // both with and without the exclusions (the second serves the non-triviality rule only, but an
      // ambiguity there would not hurt either; keep the domain simple)
      vfgeo::NeighRef R = vfgeo::refMovingNeigh(P, probe.targetXY(k), c.data, adm);
      for (int i : R.ambiguous)
        if (!drop[(size_t)i]) { drop[(size_t)i] = 1; ndrop++; }
    }
    if (ndrop == 0) return;
    if (ndrop >= n)
    {
      // nothing would be left: fall back on a configuration without boundaries (ties only, and the
      // closest sample of a tie is never removed)
      c = orig;
      c.hasRadius = 0;
      c.nsect = 1;
      c.bench = 0;
      c.faults.clear();
      orig = c;
      continue;
    }
    dropSamples(c, drop);
  }
}

static NeighCase genNeighCase(bool api)
{
  NeighCase c;
  c.ndim = G::pick<int>({1, 2, 2, 2, 3, 3});
  int n0 = G::sz(1, 80);
  {
    // api sub: KrigingSystem resets the cross-validation flags of the neighbourhood it is given
    // (ANeigh::reset in its constructor), so krigtest()/test_neigh() only observe the plain search
    int r = api ? 0 : G::i(0, 99);
    c.xvmode = (r < 50) ? 0 : (r < 68) ? 1 : (r < 80) ? 2 : (r < 92) ? 3 : 4;
  }
  c.ball = (!api && G::pct(30)) ? 1 : 0;
  // the ball search is compared only where its candidate restriction cannot change the defined set:
  // bias those cases towards configurations where that holds
  if (c.ball && G::pct(50)) c.xvmode = 0;
  int nt0 = c.sameDb() ? 0 : G::sz(1, 6);
  vfgeo::Lattice lat;
  std::vector<Points> sets = vfgeo::genPointSets(c.ndim, {n0, nt0}, G::pct(30), true, -1., &lat);
  c.data = sets[0];
  c.targ = sets[1];
  c.L = lat.L;
  if (c.xvmode == 3)
    for (int k = 0; k < nt0; k++)
      if (G::b())
      {
        int j = G::i(0, n0 - 1);
        for (int d = 0; d < c.ndim; d++) c.targ.c[(size_t)(k * c.ndim + d)] = c.data.at(j, d);
      }
  c.leaf = G::i(1, 40);

  // metric
  // without coefficients the library's distance checker is 2-D whatever the space: in 1-D / 3-D that
  // combination is outside the claim (small class, run for memory safety only)
  // Known finding (agents/C06/nocoeff-1d-overflow.case): in 1-D the 2-D checker reads coordinate #1 of
  // 1-D points (heap overflow); the crash would end the search, so 1-D always gets coefficients.
  bool wantCoeffs = (c.ndim == 2) ? !G::pct(c.ball ? 60 : 35) : (c.ndim == 1 ? true : !G::pct(4));
  if (wantCoeffs)
  {
    bool iso = G::pct(c.ball ? 60 : 20);
    for (int d = 0; d < c.ndim; d++) c.coeffs.push_back(iso ? 1. : G::lu(0.25, 4.));
    if (c.ndim >= 2 && G::pct(60))
    {
      int na = (c.ndim == 2) ? 1 : 3;
      for (int k = 0; k < na; k++)
        c.angles.push_back(G::pct(30) ? G::pick<double>({0., 30., 45., 90., 180., 270., -60.}) : G::u(-180., 360.));
    }
  }
  c.hasRadius = G::pct(75) ? 1 : 0;
  c.radius = lat.L * G::lu(0.05, 1.5);
  c.nsect = (G::pct(c.ball ? 75 : 35)) ? 1 : G::i(2, 9);
  c.nsmax = (c.nsect > 1) ? (G::pct(30) ? 0 : G::i(1, 4)) : G::pick<int>({0, 0, 2});
  c.nmaxi = G::b() ? G::i(1, 6) : G::i(1, n0 + 3);
  if (c.ball && c.nmaxi > n0) c.nmaxi = G::i(1, n0);
  {
    int r = G::i(0, 99);
    c.nmini = (r < 50) ? 1 : (r < 60) ? 0 : (r < 90) ? G::i(2, 5) : std::max(1, n0 / 2);
  }
  // contents of the data base
  c.nvar = api ? 1 : G::pick<int>({0, 1, 1, 2});
  int pna = c.ball ? G::pick<int>({0, 0, 0, 20}) : G::pick<int>({0, 0, 20, 50});
  for (int i = 0; i < n0 * c.nvar; i++) c.z.push_back(G::pct(pna) ? NA : G::r(-100, 100, 4));
  c.hasSel = G::pct(c.ball ? 15 : 35) ? 1 : 0;
  int psel = G::pick<int>({20, 50});
  for (int i = 0; i < n0; i++) c.sel.push_back((c.hasSel && G::pct(psel)) ? 0 : 1);
  // checkers
  int pchk = c.ball ? 6 : 15;
  c.bench = G::pct(pchk) ? 1 : 0;
  c.benchWidth = lat.L * G::u(0.05, 0.6);
  c.codeOpt = G::pct(pchk) ? G::i(1, 2) : 0;
  c.codeTol = G::pick<double>({0.5, 1.5});
  c.dateChk = (!api && G::pct(10)) ? 1 : 0;
  c.dmin = -(double)G::i(0, 6) - 0.5;
  c.dmax = (double)G::i(0, 6) + 0.5;
  c.hasCode = (c.xvmode == 2 || c.xvmode == 4 || c.codeOpt) ? 1 : 0;
  c.hasDate = c.dateChk;
  for (int i = 0; i < n0; i++) c.code.push_back(G::i(0, 3));
  for (int i = 0; i < nt0; i++) c.tcode.push_back(G::i(0, 3));
  for (int i = 0; i < n0; i++) c.date.push_back(G::i(0, 12));
  for (int i = 0; i < nt0; i++) c.tdate.push_back(G::i(0, 12));
  if (c.ndim == 2 && !api && G::pct(pchk))
  {
    int nf = G::i(1, 3);
    for (int f = 0; f < nf; f++)
    {
      FaultLine fl;
      int nv = G::i(2, 4);
      for (int v = 0; v < nv; v++)
      {
        fl.x.push_back(lat.origin[0] + lat.L * G::u(-0.1, 1.1));
        // sometimes an exactly horizontal segment (separate branch of the library)
        if (v > 0 && G::pct(15)) fl.y.push_back(fl.y.back());
        else fl.y.push_back(lat.origin[1] + lat.L * G::u(-0.1, 1.1));
      }
      c.faults.push_back(fl);
    }
  }
  sanitize(c);
  // targets and their order
  if (c.sameDb())
  {
    int ntx = G::sz(1, 6);
    for (int k = 0; k < ntx; k++) c.tix.push_back(G::i(0, 1000));
  }
  int nt = c.ntarg();
  for (int k = 0; k < nt; k++) c.order.push_back(k);
  int extra = G::i(0, 3);
  for (int k = 0; k < extra; k++) c.order.push_back(G::i(0, 1000));
  c.iech0 = G::i(1, 1000);
  return c;
}
static NeighCase genSelect() { return genNeighCase(false); }
static NeighCase genApi() { return genNeighCase(true); }

// ------------------------------------------------------------------ library objects ----
struct World
{
  std::unique_ptr<Db> dbin, dbsep;
  Db* dbout = nullptr;
  std::unique_ptr<Faults> faults;
  std::unique_ptr<NeighMoving> neigh;
};

static VectorDouble colOf(const Points& p, int d)
{
  VectorDouble v((size_t)p.n());
  for (int i = 0; i < p.n(); i++) v[i] = p.at(i, d);
  return v;
}
static VectorDouble toVD(const std::vector<int>& a)
{
  VectorDouble v(a.size());
  for (size_t i = 0; i < a.size(); i++) v[(int)i] = (double)a[i];
  return v;
}

static bool buildWorld(const NeighCase& c, World& w, Ctx& ctx)
{
  defineDefaultSpace(ESpaceType::RN, c.ndim);
  OptDbg::reset();
  law_set_random_seed(13242);
  int n = c.n();
  w.dbin.reset(Db::create());
  for (int d = 0; d < c.ndim; d++) w.dbin->addColumns(colOf(c.data, d), "x" + std::to_string(d + 1), ELoc::X, d);
  for (int v = 0; v < c.nvar; v++)
  {
    VectorDouble zz((size_t)n);
    for (int i = 0; i < n; i++) zz[i] = c.z[(size_t)(i * c.nvar + v)];
    w.dbin->addColumns(zz, "z" + std::to_string(v + 1), ELoc::Z, v);
  }
  if (c.hasCode) w.dbin->addColumns(toVD(c.code), "code", ELoc::C, 0);
  if (c.hasDate) w.dbin->addColumns(toVD(c.date), "date", ELoc::DATE, 0);
  if (c.hasSel) w.dbin->addColumns(toVD(c.sel), "sel", ELoc::SEL, 0);
  if (c.sameDb())
    w.dbout = w.dbin.get();
  else
  {
    w.dbsep.reset(Db::create());
    for (int d = 0; d < c.ndim; d++) w.dbsep->addColumns(colOf(c.targ, d), "x" + std::to_string(d + 1), ELoc::X, d);
    if (c.hasCode) w.dbsep->addColumns(toVD(c.tcode), "code", ELoc::C, 0);
    if (c.hasDate) w.dbsep->addColumns(toVD(c.tdate), "date", ELoc::DATE, 0);
    w.dbout = w.dbsep.get();
  }
  if (w.dbin->getSampleNumber() != n || w.dbin->getNDim() != c.ndim)
  {
    ctx.fail("harness:db", fmt("Db has %d samples in %d-D, expected %d in %d-D", w.dbin->getSampleNumber(),
                               w.dbin->getNDim(), n, c.ndim));
    return false;
  }
  VectorDouble coeffs(c.coeffs.size()), angles;
  for (size_t i = 0; i < c.coeffs.size(); i++) coeffs[(int)i] = c.coeffs[i];
  if (!c.coeffs.empty())
    for (double a : c.angles) angles.push_back(a);
  w.neigh.reset(NeighMoving::create(c.xvmode != 0, c.nmaxi, c.hasRadius ? c.radius : TEST, c.nmini, c.nsect,
                                    c.nsmax > 0 ? c.nsmax : ITEST, coeffs, angles));
  w.neigh->setFlagKFold(c.xvmode == 2 || c.xvmode == 4);
  // checkers are owned (deleted) by the neighbourhood
  if (c.dateChk) w.neigh->addBiTargetCheck(BiTargetCheckDate::create(c.dmin, c.dmax));
  if (c.codeOpt) w.neigh->addBiTargetCheck(BiTargetCheckCode::create(c.codeOpt, c.codeTol));
  if (c.bench) w.neigh->addBiTargetCheck(BiTargetCheckBench::create(c.ndim - 1, c.benchWidth));
  if (!c.faults.empty())
  {
    w.faults.reset(new Faults());
    for (auto& f : c.faults)
    {
      VectorDouble x(f.x.size()), y(f.y.size());
      for (size_t i = 0; i < f.x.size(); i++) { x[(int)i] = f.x[i]; y[(int)i] = f.y[i]; }
      w.faults->addFault(PolyLine2D(x, y));
    }
    w.neigh->addBiTargetCheck(BiTargetCheckFaults::create(w.faults.get()));
  }
  if (c.ball) w.neigh->setBallSearch(true, c.leaf);
  return true;
}

// variant part of the failure keys: checkers (date first: prefix exclusion), search kind, cross-validation
static std::string variantOf(const NeighCase& c)
{
  std::string chk;
  auto add = [&](const char* s) { chk += (chk.empty() ? "" : "+"); chk += s; };
  if (c.dateChk) add("date");
  if (c.codeOpt) add("code");
  if (c.bench) add("bench");
  if (!c.faults.empty()) add("faults");
  if (chk.empty()) chk = "nochk";
  static const char* xv[] = {"noxv", "xvalid", "kfold", "xvsep", "kfoldsep"};
  return chk + ":" + (c.ball ? "ball" : "scan") + ":" + xv[c.xvmode];
}

static std::string setText(const std::vector<int>& v)
{
  std::string s = "{";
  for (size_t i = 0; i < v.size() && i < 40; i++) s += (i ? "," : "") + std::to_string(v[i]);
  if (v.size() > 40) s += ",...";
  return s + "}";
}

struct TargetRef
{
  vfgeo::NeighRef ref;       // the definition
  bool comparable = true;    // false: outside the domain of the claim (ball-search precondition, ambiguity)
  std::string why;
  bool exclusionActs = false; // a checker / cross-validation removed a sample that is inside the radius
  std::vector<int> base, adm;
};

// Reference for the k-th target, including the precondition of the ball search:
//   the library takes its candidates among the nmaxi Euclidean-nearest rows of dbin; the claim
//   "neighbourhood = definition" is made only when that restriction cannot change the defined set.
static TargetRef referenceFor(const NeighCase& c, int k)
{
  TargetRef T;
  std::vector<int> amb;
  admissibility(c, k, T.base, T.adm, amb);
  vfgeo::NeighParams P = paramsOf(c);
  T.ref = vfgeo::refMovingNeigh(P, c.targetXY(k), c.data, T.adm);
  if (!amb.empty() || !T.ref.ambiguous.empty())
  {
    T.comparable = false;
    T.why = "ambiguous";
    return T;
  }
  {
    vfgeo::NeighParams Q = P;
    Q.nmini = 0;
    vfgeo::NeighRef rb = vfgeo::refMovingNeigh(Q, c.targetXY(k), c.data, T.base);
    T.exclusionActs = rb.nQualify > T.ref.nQualify;
  }
  if (c.ball)
  {
    int n = c.n();
    if (c.nmaxi > n || c.nmaxi < 1)
    {
      T.comparable = false;
      T.why = "ball:nmaxi>n";
      return T;
    }
    vfgeo::KnnRef kn = vfgeo::bruteKnn(c.data, c.targetXY(k));
    if (c.nmaxi < n)
    {
      double a = kn.dist[(size_t)(c.nmaxi - 1)], b = kn.dist[(size_t)c.nmaxi];
      if (b - a <= 1e-9 * std::max(b, 1e-300))
      {
        T.comparable = false;
        T.why = "ball:euclid-tie";
        return T;
      }
    }
    std::vector<int> admE((size_t)n, 0);
    for (int q = 0; q < c.nmaxi; q++) admE[(size_t)kn.idx[(size_t)q]] = T.adm[(size_t)kn.idx[(size_t)q]];
    vfgeo::NeighRef rE = vfgeo::refMovingNeigh(P, c.targetXY(k), c.data, admE);
    if (rE.selected != T.ref.selected)
    {
      T.comparable = false;
      T.why = "ball:restriction-changes-set";
    }
  }
  return T;
}

static void resetGlobals(int ndim)
{
  defineDefaultSpace(ESpaceType::RN, ndim);
  OptDbg::reset();
}

// ------------------------------------------------------------------ sub: neigh_select --
static void runSelect(const NeighCase& c, Ctx& ctx)
{
  resetGlobals(c.ndim);
  std::string var = variantOf(c);
  ctx.label("ndim:" + std::to_string(c.ndim));
  ctx.label(std::string("search:") + (c.ball ? "ball" : "scan"));
  ctx.label("xv:" + std::to_string(c.xvmode));
  ctx.label(c.nsect > 1 && c.ndim > 1 ? (c.nsmax > 0 ? "sectors:quota" : "sectors:noquota") : "sectors:none");
  if (c.coeffs.empty()) ctx.label("metric:nocoeff");
  else ctx.label(c.angles.empty() ? "metric:aniso" : "metric:aniso+rot");
  if (c.bench || c.codeOpt || c.dateChk || !c.faults.empty()) ctx.label("checkers:yes");
  if (c.hasSel) ctx.label("selection:yes");
  if (c.n() < 1 || c.ntarg() < 1) { ctx.label("degenerate:empty"); return; }

  World w;
  ctx.at("build:" + var);
  if (!buildWorld(c, w, ctx)) return;
  // Without coefficients the distance checker is hard-wired to 2 dimensions (DESIGN §5 C06):
  // that combination is outside the claim; it is run for memory safety only.
  bool outside = c.coeffs.empty() && c.ndim != 2;
  if (outside) ctx.label("domain:nocoeff-not2d(memory-safety-only)");
  ctx.at("attach:" + var);
  if (w.neigh->attach(w.dbin.get(), w.dbout) != 0)
  {
    ctx.fail("attach:" + var, "NeighMoving::attach refused valid data bases");
    return;
  }
  Hash sig;
  sig.add(c.ndim).add(c.n()).add(c.xvmode).add(c.nsect).add(c.nsmax).add(c.nmaxi).add(c.nmini).add(c.ball).add(var);
  for (double v : c.coeffs) sig.addq(v);
  for (double v : c.angles) sig.addq(v);
  int nt = c.ntarg();
  std::vector<TargetRef> refs;
  for (int k = 0; k < nt; k++) refs.push_back(referenceFor(c, k));
  bool anyCompared = false;
  for (int raw : c.order)
  {
    int k = ((raw % nt) + nt) % nt;
    int rank = c.targetRank(k);
    VectorInt ranks;
    ranks.push_back(-7); // select() must always overwrite
    ctx.at("select:" + var);
    w.neigh->select(rank, ranks);
    if (outside) continue;
    const TargetRef& T = refs[(size_t)k];
    if (!T.comparable)
    {
      ctx.label("skip:" + T.why);
      continue;
    }
    anyCompared = true;
    if (c.ball) ctx.label("ball:compared-target");
    std::vector<int> got(ranks.begin(), ranks.end());
    std::sort(got.begin(), got.end());
    sig.add((int)T.ref.selected.size()).add(T.ref.nQualify);
    if (got != T.ref.selected)
    {
      // classify: an inactive row selected through the ball search is a different defect from a wrong quota
      std::string kind = "select:" + var;
      for (int g : got)
        if (g >= 0 && g < c.n() && !isActive(c, g)) { kind = "select-inactive:" + var; break; }
      ctx.fail(kind, fmt("target %d (rank %d): library %s, definition %s (qualifying %d, nmini %d nmaxi %d nsect %d nsmax %d)", k,
                         rank, setText(got).c_str(), setText(T.ref.selected).c_str(), T.ref.nQualify, c.nmini, c.nmaxi,
                         c.nsect, c.nsmax));
      return;
    }
    if (T.ref.quotaBinds) ctx.label("binds:quota");
    if (T.ref.nmaxiBinds) ctx.label("binds:nmaxi");
    if (T.ref.emptiedByNmini) ctx.label("binds:nmini");
    if (T.exclusionActs) ctx.label("binds:exclusion");
    ctx.nontrivial(T.ref.quotaBinds || T.ref.nmaxiBinds || T.exclusionActs);
  }
  if (!anyCompared && !outside) ctx.label("compared:none");
  ctx.sig = sig.h;
}
VERIF_SUB(neigh_select, NeighCase, genSelect, runSelect);

// ------------------------------------------------------------------ sub: neigh_api -----
// krigtest().nbgh and the five columns of test_neigh() against the same definition.
static void runApi(const NeighCase& c, Ctx& ctx)
{
  resetGlobals(c.ndim);
  std::string var = variantOf(c);
  ctx.label("ndim:" + std::to_string(c.ndim));
  ctx.label("xv:" + std::to_string(c.xvmode));
  if (c.n() < 1 || c.ntarg() < 1 || c.nvar != 1) { ctx.label("degenerate:empty"); return; }
  if (c.coeffs.empty() && c.ndim != 2) { ctx.label("domain:nocoeff-not2d(skipped)"); return; }
  World w;
  ctx.at("build:" + var);
  if (!buildWorld(c, w, ctx)) return;
  std::unique_ptr<Model> model(Model::createFromParam(ECov::SPHERICAL, c.L, 1.));
  model->addCovFromParam(ECov::NUGGET, 0., 0.3);
  int nt = c.ntarg();
  Hash sig;
  sig.add(c.ndim).add(c.n()).add(c.xvmode).add(c.nsect).add(c.nsmax).add(c.nmaxi).add(c.nmini).add(var);

  // --- krigtest: one target (rank >= 1: with iech0 = 0 the function loops over all targets)
  {
    int k = ((c.iech0 % nt) + nt) % nt;
    int rank = c.targetRank(k);
    bool activeTarget = !c.sameDb() || isActive(c, rank);
    TargetRef T = referenceFor(c, k);
    if (rank >= 1 && activeTarget && T.comparable)
    {
      ctx.at("krigtest:" + var);
      Krigtest_Res res = krigtest(w.dbin.get(), w.dbout, model.get(), w.neigh.get(), rank, EKrigOpt::POINT, VectorInt(),
                                  false, false);
      std::vector<int> got(res.nbgh.begin(), res.nbgh.end());
      std::sort(got.begin(), got.end());
      ctx.label("krigtest:compared");
      sig.add((int)T.ref.selected.size());
      if (got != T.ref.selected)
      {
        ctx.fail("krigtest-nbgh:" + var, fmt("target rank %d: nbgh %s, definition %s", rank, setText(got).c_str(),
                                            setText(T.ref.selected).c_str()));
        return;
      }
      ctx.nontrivial(T.ref.quotaBinds || T.ref.nmaxiBinds || T.exclusionActs);
    }
  }
  // --- test_neigh: all (active) targets of dbout
  {
    // fresh neighbourhood object: krigtest leaves its own state behind
    World w2;
    ctx.at("build2:" + var);
    if (!buildWorld(c, w2, ctx)) return;
    int ncol0 = w2.dbout->getColumnNumber();
    ctx.at("test_neigh:" + var);
    int err = test_neigh(w2.dbin.get(), w2.dbout, model.get(), w2.neigh.get());
    if (err != 0)
    {
      ctx.fail("test_neigh-error:" + var, "test_neigh returned an error on valid input");
      return;
    }
    int ncol1 = w2.dbout->getColumnNumber();
    if (ncol1 != ncol0 + 5)
    {
      ctx.fail("test_neigh-columns:" + var, fmt("%d columns added, expected 5", ncol1 - ncol0));
      return;
    }
    // MaxDist / MinDist / NbNESect discrepancies (one recorded root cause: summary() reads the state before truncation) are reported after everything else has been checked
    std::vector<Failure> soft;
    // distinct ranks of the targets under test
    std::set<int> done;
    for (int k = 0; k < nt; k++)
    {
      int rank = c.targetRank(k);
      if (done.count(rank)) continue;
      done.insert(rank);
      if (c.sameDb() && !isActive(c, rank)) continue;
      TargetRef T = referenceFor(c, k);
      if (!T.comparable) { ctx.label("skip:" + T.why); continue; }
      double col[5];
      for (int q = 0; q < 5; q++) col[q] = w2.dbout->getValueByColIdx(rank, ncol0 + q);
      const vfgeo::NeighRef& R = T.ref;
      int nsel = (int)R.selected.size();
      if (nsel == 0)
      {
        // empty neighbourhood: the columns are documented nowhere; accept "undefined" or Number = 0
        if (!(col[0] == TEST || col[0] == 0.))
        {
          ctx.fail("summary-number:" + var, fmt("target rank %d: Number = %g for an empty neighbourhood", rank, col[0]));
          return;
        }
        continue;
      }
      ctx.label("summary:compared");
      // One recorded root cause (NeighMoving::summary reads the candidate list as it was before the
      // sector quota / nmaxi truncation) can only act when sectors exist and a limit binds: there the
      // discrepancy gets the key prefix "summary-trunc-" and is reported last; everywhere else it is a
      // plain failure.
      bool truncated = paramsOf(c).sectors() && (R.quotaBinds || R.nmaxiBinds);
      std::string trunc = truncated ? "summary-trunc-" : "summary-";
      bool hardFail = false;
      auto softOrHard = [&](const Failure& f) {
        if (truncated) soft.push_back(f);
        else { ctx.fail(f.key, f.msg); hardFail = true; }
      };
      double tolh = 1e-6 * std::max(R.hscale, 1e-300);
      if (col[0] != (double)nsel)
      {
        ctx.fail("summary-number:" + var, fmt("target rank %d: Number = %g, definition %d", rank, col[0], nsel));
        return;
      }
      if (!(std::fabs(col[1] - R.hmax) <= tolh))
      {
        softOrHard({trunc + "maxdist:" + var, fmt("target rank %d: MaxDist = %.10g, largest distance of the %d selected samples %.10g "
                                               "(quota binds %d, nmaxi binds %d)", rank, col[1], nsel, R.hmax,
                                               (int)R.quotaBinds, (int)R.nmaxiBinds)});
      }
      if (!(std::fabs(col[2] - R.hmin) <= tolh))
      {
        softOrHard({trunc + "mindist:" + var, fmt("target rank %d: MinDist = %.10g, smallest selected distance %.10g (nmaxi binds %d)",
                                                      rank, col[2], R.hmin, (int)R.nmaxiBinds)});
      }
      if (hardFail) return;
      int nonEmpty = 0, ns = std::max(c.nsect, 1);
      for (int s = 0; s < ns; s++) nonEmpty += R.sectorCount[(size_t)s] > 0;
      if (col[3] != (double)nonEmpty)
      {
        softOrHard({trunc + "nbnesect:" + var, fmt("target rank %d: NbNESect = %g, sectors holding selected samples %d of %d", rank,
                                                       col[3], nonEmpty, ns)});
        if (hardFail) return;
        continue; // NbCESect is derived from the same counters
      }
      // consecutive empty sectors: the longest run, counted linearly or around the circle (left open)
      int lin = 0, run = 0;
      for (int s = 0; s < ns; s++) { run = R.sectorCount[(size_t)s] > 0 ? 0 : run + 1; lin = std::max(lin, run); }
      int circ = lin;
      if (nonEmpty > 0)
      {
        run = 0;
        for (int s = 0; s < 2 * ns; s++) { run = R.sectorCount[(size_t)(s % ns)] > 0 ? 0 : run + 1; circ = std::max(circ, run); }
      }
      if (!(col[4] >= lin && col[4] <= circ))
      {
        ctx.fail("summary-nbcesect:" + var, fmt("target rank %d: NbCESect = %g, longest run of empty sectors %d (linear) / %d (circular)",
                                                rank, col[4], lin, circ));
        return;
      }
      sig.add(nsel).add(nonEmpty);
      ctx.nontrivial(R.quotaBinds || R.nmaxiBinds || T.exclusionActs);
    }
    if (!soft.empty())
    {
      ctx.fail(soft[0].key, soft[0].msg);
      return;
    }
  }
  ctx.sig = sig.h;
}
VERIF_SUB(neigh_api, NeighCase, genApi, runApi);

// =========================================================================================
//  Ball tree: k nearest neighbours
// =========================================================================================
struct KnnCase
{
  int d = 2;
  Points data;
  Points query;
  int leaf = 10;
  int k = 1;
  int ctor = 0; // 0: Ball(VectorVectorDouble)   1: Ball(Db*)
  template<class A> void io(A& a) { a("d", d)("data", data)("query", query)("leaf", leaf)("k", k)("ctor", ctor); }
};

static KnnCase genKnn()
{
  KnnCase c;
  c.d = G::i(1, 5);
  int n = G::pct(70) ? G::sz(1, 120) : G::sz(1, 500);
  int nq = G::i(1, 4);
  vfgeo::Lattice lat;
  std::vector<Points> sets = vfgeo::genPointSets(c.d, {n, nq}, G::pct(30), true, -1., &lat);
  c.data = sets[0];
  c.query = sets[1];
  for (int q = 0; q < nq; q++)
  {
    int r = G::i(0, 9);
    if (r == 0) // a data point itself (distance 0)
    {
      int j = G::i(0, n - 1);
      for (int t = 0; t < c.d; t++) c.query.c[(size_t)(q * c.d + t)] = c.data.at(j, t);
    }
    else if (r == 1) // far outside the box
      for (int t = 0; t < c.d; t++) c.query.c[(size_t)(q * c.d + t)] += 3. * lat.L * (G::b() ? 1 : -1);
  }
  c.leaf = G::pct(50) ? G::i(1, 5) : G::i(1, 40);
  c.k = G::pct(25) ? n : G::i(1, n);
  c.ctor = G::pct(25) ? 1 : 0;
  // known finding (agents/C06/ball-ctor-vvd-free.case): Ball(VectorVectorDouble) frees n_features rows of a
  // table of n_samples rows -> heap overflow when n < d.  The crash would end the search: region avoided.
  if (c.ctor == 0 && n < c.d) c.ctor = 1;
  return c;
}

// one answer of the tree against brute force; keys: knn-size, knn-range, knn-dist (a reported distance is
// not the distance of the reported index), knn-set (not the k closest), knn-order (not increasing)
// The order check is reported last (after every other check of every API has passed), so that the search
// keeps looking behind a recorded ordering defect.
static bool checkKnn(const KnnCase& c, int q, const VectorInt& idx, const VectorDouble& dist, const std::string& api, Ctx& ctx,
                     std::vector<Failure>& deferred)
{
  int n = c.data.n();
  vfgeo::KnnRef ref = vfgeo::bruteKnn(c.data, c.query.p(q));
  double scale = std::max(ref.dist.back(), 1e-300);
  double tol = 1e-12 * scale;
  if ((int)idx.size() != c.k || (int)dist.size() != c.k)
  {
    ctx.fail("knn-size:" + api, fmt("query %d: %d indices and %d distances for k = %d (n = %d)", q, (int)idx.size(),
                                    (int)dist.size(), c.k, n));
    return false;
  }
  std::vector<std::pair<double, int>> got;
  std::set<int> seen;
  for (int j = 0; j < c.k; j++)
  {
    int i = idx[j];
    if (i < 0 || i >= n || seen.count(i))
    {
      ctx.fail("knn-range:" + api, fmt("query %d: index %d at position %d is out of range or repeated", q, i, j));
      return false;
    }
    seen.insert(i);
    double de = vfgeo::euclid(c.d, c.data.p(i), c.query.p(q));
    if (!(std::fabs(de - dist[j]) <= tol + 1e-12 * de))
    {
      ctx.fail("knn-dist:" + api, fmt("query %d position %d: index %d reported at distance %.17g, true %.17g", q, j, i, dist[j], de));
      return false;
    }
    got.push_back({de, i});
  }
  // the k closest: as a multiset of distances, and as indices wherever no tie makes the choice open
  std::vector<std::pair<double, int>> sorted = got;
  std::sort(sorted.begin(), sorted.end());
  for (int j = 0; j < c.k; j++)
  {
    if (!(std::fabs(sorted[(size_t)j].first - ref.dist[(size_t)j]) <= tol))
    {
      ctx.fail("knn-set:" + api, fmt("query %d: %d-th smallest returned distance %.17g, brute force %.17g (k=%d n=%d leaf=%d)", q, j,
                                     sorted[(size_t)j].first, ref.dist[(size_t)j], c.k, n, c.leaf));
      return false;
    }
    bool tiePrev = j > 0 && ref.dist[(size_t)j] - ref.dist[(size_t)(j - 1)] <= 1e-9 * scale;
    bool tieNext = j + 1 < n && ref.dist[(size_t)(j + 1)] - ref.dist[(size_t)j] <= 1e-9 * scale;
    if (!tiePrev && !tieNext && sorted[(size_t)j].second != ref.idx[(size_t)j])
    {
      ctx.fail("knn-set:" + api, fmt("query %d: %d-th closest is sample %d, library has %d", q, j, ref.idx[(size_t)j], sorted[(size_t)j].second));
      return false;
    }
  }
  for (int j = 1; j < c.k; j++)
    if (dist[j] < dist[j - 1])
    {
      deferred.push_back({"knn-order:" + api, fmt("query %d: distances not increasing at position %d: %.17g after %.17g (k=%d n=%d leaf=%d)",
                                                  q, j, dist[j], dist[j - 1], c.k, n, c.leaf)});
      break;
    }
  return true;
}

static void runKnn(const KnnCase& c, Ctx& ctx)
{
  // implicit precondition read from the code: the tree's Euclidean distance goes through SpacePoint,
  // i.e. the default space must have the dimension of the data
  defineDefaultSpace(ESpaceType::RN, c.d);
  int n = c.data.n(), nq = c.query.n();
  ctx.label("d:" + std::to_string(c.d));
  ctx.label(c.k == n ? "k:all" : (c.k == 1 ? "k:1" : "k:some"));
  ctx.label(c.leaf >= n ? "tree:single-leaf" : "tree:deep");
  ctx.label(c.ctor ? "ctor:db" : "ctor:vvd");
  if (n < 1 || nq < 1 || c.k < 1 || c.k > n) { ctx.label("degenerate"); return; }
  std::unique_ptr<Db> db;
  std::unique_ptr<Ball> ball;
  ctx.at("ball-build");
  if (c.ctor == 0)
  {
    VectorVectorDouble data((size_t)c.d);
    for (int t = 0; t < c.d; t++) data[t] = colOf(c.data, t);
    ball.reset(new Ball(data, nullptr, c.leaf));
  }
  else
  {
    db.reset(Db::create());
    for (int t = 0; t < c.d; t++) db->addColumns(colOf(c.data, t), "x" + std::to_string(t + 1), ELoc::X, t);
    ball.reset(new Ball(db.get(), nullptr, c.leaf));
  }
  std::vector<Failure> deferred;
  // (1) queryOneAsVD, (2) queryOneInPlace for every query point
  for (int q = 0; q < nq; q++)
  {
    VectorDouble pt((size_t)c.d);
    for (int t = 0; t < c.d; t++) pt[t] = c.query.at(q, t);
    ctx.at("queryOneAsVD");
    KNN knn = ball->queryOneAsVD(pt, c.k);
    if (!checkKnn(c, q, knn.getIndices(0), knn.getDistances(0), "queryOneAsVD", ctx, deferred)) return;
    ctx.at("queryOneInPlace");
    VectorInt idx;
    VectorDouble dist;
    int err = ball->queryOneInPlace(pt, c.k, idx, dist);
    if (err != 0)
    {
      ctx.fail("knn-error:queryOneInPlace", "error returned for a valid query");
      return;
    }
    if (!checkKnn(c, q, idx, dist, "queryOneInPlace", ctx, deferred)) return;
  }
  // (3) queryAsVVD: all query points at once
  {
    VectorVectorDouble test((size_t)c.d);
    for (int t = 0; t < c.d; t++) test[t] = colOf(c.query, t);
    ctx.at("queryAsVVD");
    KNN knn = ball->queryAsVVD(test, c.k);
    for (int q = 0; q < nq; q++)
      if (!checkKnn(c, q, knn.getIndices(q), knn.getDistances(q), "queryAsVVD", ctx, deferred)) return;
  }
  if (!deferred.empty())
  {
    ctx.fail(deferred[0].key, deferred[0].msg);
    return;
  }
  ctx.nontrivial(c.k < n && n > 1);
  Hash sig;
  sig.add(c.d).add(n).add(c.k).add(c.leaf).add(nq).add(c.ctor);
  ctx.sig = sig.h;
}
VERIF_SUB(ball_knn, KnnCase, genKnn, runKnn);

VERIF_MAIN()
