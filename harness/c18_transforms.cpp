// C18 — data transforms and their inverses compose to the identity (DESIGN.md §5 C18).
// Sub-properties: anamh (Hermite anamorphosis), anamh_degenerate (constant data: fit must not fault),
// aname (empirical anamorphosis), pca (PCA / MAF factors), nscore (VH::normalScore),
// rotation (Rotation), hermite (Hermite polynomials).
// Oracles are written here: own Gaussian cdf/quantile (erfc + Newton, long double), own Gauss-Hermite
// quadrature, own moments / pair sets / rotation matrices.  Tolerances are derived from the methods
// (see /verif/agents/C18/REPORT.txt).
#include "verif.hpp"

#include "Anamorphosis/AnamHermite.hpp"
#include "Anamorphosis/AnamEmpirical.hpp"
#include "Polynomials/Hermite.hpp"
#include "Stats/PCA.hpp"
#include "Db/Db.hpp"
#include "Variogram/VarioParam.hpp"
#include "Variogram/DirParam.hpp"
#include "Geometry/Rotation.hpp"
#include "Matrix/MatrixSquareGeneral.hpp"
#include "Basic/VectorHelper.hpp"
#include "Basic/Law.hpp"
#include "Basic/NamingConvention.hpp"
#include "Space/ASpaceObject.hpp"
#include "Enum/ESpaceType.hpp"
#include "Enum/ELoc.hpp"
#include "geoslib_define.h"

#include <Eigen/Dense>
#include <memory>
#include <algorithm>
#include <numeric>

using namespace vf;
typedef long double LD;
static const double EPS = 2.220446049250313e-16;
static const LD PI_L = 3.14159265358979323846264338327950288L;
static const double NA = 1.234e30; // TEST
static inline bool isNA(double v) { return !(v < 1.e30) || std::isnan(v); }
static void dbg(const std::string& m) { if (getenv("C18_DIAG")) diag("C18DBG " + m); }

// ------------------------------------------------------------------ Gaussian law (oracle) --
static LD pnormL(LD x) { return 0.5L * erfcl(-x / sqrtl(2.L)); }
static LD dnormL(LD x) { return expl(-0.5L * x * x) / sqrtl(2.L * PI_L); }
// quantile: Abramowitz-Stegun 26.2.23 as starting point, Newton on erfc in long double
static LD qnormL(LD p)
{
  if (p <= 0) return -INFINITY;
  if (p >= 1) return INFINITY;
  LD q = (p < 0.5L) ? p : 1 - p;
  LD t = sqrtl(-2 * logl(q));
  LD x = t - (2.515517L + t * (0.802853L + t * 0.010328L)) / (1 + t * (1.432788L + t * (0.189269L + t * 0.001308L)));
  // x approximates the upper quantile of q (x >= 0); refine Q(x) = q
  for (int it = 0; it < 50; it++)
  {
    LD f = 0.5L * erfcl(x / sqrtl(2.L)) - q; // decreasing in x
    LD d = dnormL(x);
    if (d <= 0) break;
    LD dx = f / d;
    x += dx;
    if (fabsl(dx) < 1e-17L * (1 + fabsl(x))) break;
  }
  return (p < 0.5L) ? -x : x;
}
// accuracy of law_invcdf_gaussian at the true quantile x (derived from its algorithm, see report):
// it solves cdf_AS(x) = p by bisection (resolution 1e-7) inside +-1e-3 around the A&S 26.2.23 value
// (|error| < 4.5e-4), cdf_AS = A&S 26.2.17 with |error| < 7.5e-8.
static double tolInvCdf(LD x)
{
  double viaCdf = 2e-7 + 1.5e-7 / (double)dnormL(x);
  return std::min(1.5e-3, viaCdf);
}

// ------------------------------------------------------------------ Hermite reference ------
// gstlearn convention (Hermite.cpp): H0 = 1, H1 = -y, Hn = -(y H(n-1) + sqrt(n-1) H(n-2))/sqrt(n)
// i.e. Hn = (-1)^n He_n / sqrt(n!).  Reference: monic He_n by He(n+1) = y He(n) - n He(n-1)
// (a different recurrence), normalised afterwards, in long double.
static std::vector<LD> hermRef(LD y, int nb)
{
  std::vector<LD> h((size_t)std::max(nb, 1));
  LD hm = 1, hc = y; // He0, He1
  LD lognf = 0;      // log(n!)
  for (int n = 0; n < nb; n++)
  {
    LD he;
    if (n == 0) he = 1;
    else if (n == 1) he = y;
    else
    {
      he = y * hc - (LD)(n - 1) * hm;
      hm = hc;
      hc = he;
    }
    if (n >= 1) lognf += logl((LD)n);
    h[(size_t)n] = ((n & 1) ? -he : he) * expl(-0.5L * lognf);
  }
  return h;
}

// Gauss-Hermite rule for the weight exp(-x^2/2)/sqrt(2 pi): nodes = eigenvalues of the Jacobi matrix
// (off-diagonal sqrt(k)), polished by Newton on the orthonormal polynomial; Christoffel weights.
struct GHRule
{
  std::vector<LD> x, w;
  bool ok = false;
};
static void orthoH(LD x, int n, std::vector<LD>& h) // positive-leading orthonormal h_0..h_n
{
  h.resize((size_t)n + 1);
  h[0] = 1;
  if (n >= 1) h[1] = x;
  for (int k = 2; k <= n; k++) h[(size_t)k] = (x * h[(size_t)k - 1] - sqrtl((LD)(k - 1)) * h[(size_t)k - 2]) / sqrtl((LD)k);
}
static const GHRule& gaussHermite()
{
  static GHRule g;
  if (!g.x.empty()) return g;
  const int N = 80;
  Eigen::MatrixXd J = Eigen::MatrixXd::Zero(N, N);
  for (int k = 0; k + 1 < N; k++) J(k, k + 1) = J(k + 1, k) = std::sqrt((double)(k + 1));
  Eigen::SelfAdjointEigenSolver<Eigen::MatrixXd> es(J, Eigen::EigenvaluesOnly);
  std::vector<LD> h;
  for (int k = 0; k < N; k++)
  {
    LD x = es.eigenvalues()(k);
    for (int it = 0; it < 20; it++)
    {
      orthoH(x, N, h);
      LD d = sqrtl((LD)N) * h[(size_t)N - 1]; // h_N' = sqrt(N) h_(N-1)
      if (d == 0) break;
      LD dx = h[(size_t)N] / d;
      x -= dx;
      if (fabsl(dx) < 1e-18L * (1 + fabsl(x))) break;
    }
    orthoH(x, N - 1, h);
    LD s = 0;
    for (int j = 0; j < N; j++) s += h[(size_t)j] * h[(size_t)j];
    g.x.push_back(x);
    g.w.push_back(1 / s);
  }
  // self-check of the rule (harness error otherwise): moments 0,2,4 and Gram of the reference
  LD m0 = 0, m2 = 0, m4 = 0, g55 = 0, g57 = 0, g6060 = 0;
  for (int k = 0; k < N; k++)
  {
    LD x = g.x[(size_t)k], w = g.w[(size_t)k];
    m0 += w; m2 += w * x * x; m4 += w * x * x * x * x;
    std::vector<LD> r = hermRef(x, 61);
    g55 += w * r[5] * r[5]; g57 += w * r[5] * r[7]; g6060 += w * r[60] * r[60];
  }
  g.ok = fabsl(m0 - 1) < 1e-15L && fabsl(m2 - 1) < 1e-14L && fabsl(m4 - 3) < 1e-13L && fabsl(g55 - 1) < 1e-13L &&
         fabsl(g57) < 1e-13L && fabsl(g6060 - 1) < 1e-12L;
  if (!g.ok) diag(fmt("C18 harness: Gauss-Hermite self-check failed m0=%Lg m2=%Lg m4=%Lg g55=%Lg g57=%Lg g6060=%Lg", m0, m2, m4, g55, g57, g6060));
  return g;
}

// ------------------------------------------------------------------ sample generator -------
static uint64_t splitmix(uint64_t z)
{
  z += 0x9e3779b97f4a7c15ull;
  z = (z ^ (z >> 30)) * 0xbf58476d1ce4e5b9ull;
  z = (z ^ (z >> 27)) * 0x94d049bb133111ebull;
  return z ^ (z >> 31);
}
static double unitFrom(uint64_t h) { return ((double)(h >> 11) + 0.5) / 9007199254740992.0; } // (0,1)

struct Sample
{
  int kind = 0;      // 0 lognormal 1 gamma 2 bimodal 3 discrete(ties) 4 normal 5 rounded lognormal
  double par = 1;    // sigma / shape / separation
  double loc = 0, scl = 1;
  int naMode = 0, wMode = 0; // wMode 0 none 1 positive 2 positive with zero / NA weights
  std::vector<double> z, w;
  template<class A> void io(A& a) { a("kind", kind)("par", par)("loc", loc)("scl", scl)("naMode", naMode)("wMode", wMode)("z", z)("w", w); }
};
// one value of the chosen law from the integer m in [1, 2^20-1] (the only random input)
static double drawValue(int kind, double par, int m)
{
  double u = (double)m / 1048576.0;
  double g = (double)qnormL(u);
  switch (kind)
  {
    case 0: return std::exp(par * g);
    case 1:
    {
      int k = std::max(1, (int)par);
      double s = -std::log(u);
      for (int j = 1; j < k; j++) s -= std::log(unitFrom(splitmix((uint64_t)m * 16 + (uint64_t)j)));
      return s;
    }
    case 2: return g + ((splitmix((uint64_t)m) & 1) ? par : -par);
    case 3: return std::floor(par * std::exp(0.8 * g));
    case 4: return g;
    default: return std::round(100. * std::exp(par * g)) / 100.;
  }
}
// allowW2: weights may contain zeros and NA (AnamHermite skips such samples)
static Sample genSample(int nmin, int nmaxCap, bool allowNAweights, bool positiveOnly)
{
  Sample s;
  s.kind = G::pick({0, 0, 1, 1, 2, 3, 3, 4, 5});
  switch (s.kind)
  {
    case 0: s.par = G::i(2, 15) / 10.; break;
    case 1: s.par = G::pick({1., 2., 3., 5.}); break;
    case 2: s.par = G::i(2, 10) / 2.; break;
    case 3: s.par = G::pick({1., 3., 10.}); break;
    case 4: s.par = 1; break;
    default: s.par = G::i(3, 12) / 10.; break;
  }
  if (positiveOnly && (s.kind == 2 || s.kind == 4 || s.kind == 3)) { s.kind = 5; s.par = G::i(3, 12) / 10.; }
  s.scl = G::pick({1., 1., 1e-3, 1e3, 7.5});
  s.loc = positiveOnly ? G::pick({0., 0., 1., 100.}) : G::pick({0., 0., 0., 10., -50., 1000.});
  int nmax = G::pick({20, 60, 200, 200, 2000});
  nmax = std::min(nmax, nmaxCap);
  int n = G::sz(nmin, nmax);
  s.naMode = G::pick({0, 0, 1});
  s.wMode = G::pick({0, 0, 1, 2});
  if (!allowNAweights && s.wMode == 2) s.wMode = 1;
  s.z.resize((size_t)n);
  for (int i = 0; i < n; i++)
  {
    int m = G::i(1, (1 << 20) - 1);
    double v = s.loc * s.scl + s.scl * drawValue(s.kind, s.par, m);
    if (positiveOnly && !(v > 0)) v = s.scl * 0.01;
    s.z[(size_t)i] = v;
  }
  // at least two distinct defined values: samples 0 and 1 differ, and 0..2 are never NA / unweighted
  if (n >= 2 && s.z[1] == s.z[0]) s.z[1] = s.z[0] + s.scl;
  if (s.naMode == 1)
    for (int i = 3; i < n; i++)
      if (G::pct(20)) s.z[(size_t)i] = NA;
  if (s.wMode > 0)
  {
    s.w.resize((size_t)n);
    for (int i = 0; i < n; i++)
    {
      double w = G::i(1, 40) / 10.;
      if (s.wMode == 2 && i >= 3)
      {
        int c = G::i(0, 9);
        if (c == 0) w = 0;
        else if (c == 1 && allowNAweights) w = NA;
      }
      s.w[(size_t)i] = w;
    }
  }
  return s;
}
struct SampleInfo { int nact = 0, ndistinct = 0, nties = 0, nna = 0; };
static SampleInfo sampleInfo(const std::vector<double>& z, const std::vector<double>& w, const std::vector<int>& sel)
{
  SampleInfo r;
  std::vector<double> a;
  for (size_t i = 0; i < z.size(); i++)
  {
    if (!sel.empty() && !sel[i]) continue;
    if (isNA(z[i])) { r.nna++; continue; }
    if (!w.empty() && (isNA(w[i]) || w[i] <= 0)) continue;
    a.push_back(z[i]);
  }
  std::sort(a.begin(), a.end());
  r.nact = (int)a.size();
  for (size_t i = 0; i < a.size(); i++)
    if (i == 0 || a[i] != a[i - 1]) r.ndistinct++;
  r.nties = r.nact - r.ndistinct;
  return r;
}
static VectorDouble toVD(const std::vector<double>& v)
{
  VectorDouble r((int)v.size());
  for (size_t i = 0; i < v.size(); i++) r[(int)i] = v[i];
  return r;
}
static VectorDouble toVDi(const std::vector<int>& v)
{
  VectorDouble r((int)v.size());
  for (size_t i = 0; i < v.size(); i++) r[(int)i] = (double)v[i];
  return r;
}
static std::string nClass(int n) { return n <= 20 ? "n:<=20" : (n <= 200 ? "n:21-200" : "n:>200"); }

// =================================================================== (a) AnamHermite ========
struct AnamHCase
{
  Sample s;
  int nbpoly = 3;
  int flagBound = 1;
  int viaDb = 0;  // fit and transform through a Db (selection, weight locator, CalcAnamTransform)
  int refit = 0;  // the same object is first fitted on a prefix of the data (state must not leak)
  std::vector<int> sel; // used when viaDb
  std::vector<double> t; // probe positions in (0,1)
  template<class A> void io(A& a) { a("s", s)("nbpoly", nbpoly)("flagBound", flagBound)("viaDb", viaDb)("refit", refit)("sel", sel)("t", t); }
};
static AnamHCase genAnamH()
{
  AnamHCase c;
  c.s = genSample(5, 2000, true, false);
  c.nbpoly = G::pick({0, 0, 1}) == 1 ? G::i(20, 60) : G::i(2, 30);
  c.flagBound = G::pct(75) ? 1 : 0;
  c.viaDb = G::pct(30) ? 1 : 0;
  c.refit = G::pct(8) ? 1 : 0;
  if (c.viaDb && G::b())
  {
    c.sel.resize(c.s.z.size());
    for (size_t i = 0; i < c.sel.size(); i++) c.sel[i] = (i < 3) ? 1 : (G::pct(75) ? 1 : 0);
  }
  int np = G::i(6, 16);
  for (int k = 0; k < np; k++) c.t.push_back(G::u(0., 1.));
  return c;
}

struct AnamFns
{
  const AnamContinuous* a;
  double fwd(double y) const { VectorDouble v(1); v[0] = y; return a->gaussianToRawVector(v)[0]; }
  double inv(double z) const { VectorDouble v(1); v[0] = z; return a->rawToGaussianVector(v)[0]; }
};
// is the forward function non-decreasing on [lo,hi] at a resolution of (hi-lo)/npts ?
static bool fineMonotone(const AnamFns& f, double lo, double hi, double slack, int npts = 240)
{
  double prev = f.fwd(lo);
  for (int k = 1; k <= npts; k++)
  {
    double z = f.fwd(lo + (hi - lo) * k / npts);
    if (z < prev - slack) return false;
    prev = std::max(prev, z);
  }
  return true;
}

static void runAnamH(const AnamHCase& c, Ctx& ctx)
{
  const int n = (int)c.s.z.size();
  SampleInfo si = sampleInfo(c.s.z, c.s.w, c.viaDb ? c.sel : std::vector<int>());
  ctx.label(fmt("kind:%d", c.s.kind));
  ctx.label(nClass(n));
  ctx.label(c.nbpoly >= 20 ? "order:>=20" : "order:<20");
  ctx.label(c.flagBound ? "bound:on" : "bound:off");
  if (c.viaDb) ctx.label("via:db"); else ctx.label("via:array");
  if (si.nties) ctx.label("ties");
  if (si.nna) ctx.label("na");
  if (c.s.wMode) ctx.label("weights");
  if (c.refit) ctx.label("refit");
  if (si.ndistinct < 2) { ctx.inconclusive("fewer-than-2-distinct-values"); return; }
  const std::string pre = c.refit ? "anamH:refit:" : "anamH:";

  AnamHermite anam(c.nbpoly, c.flagBound != 0);
  std::unique_ptr<Db> db;
  if (c.refit)
  {
    // first fit: the data shifted and stretched (another distribution on the same object)
    VectorDouble z0 = toVD(c.s.z);
    for (int i = 0; i < n; i++)
      if (!isNA(z0[i])) z0[i] = 3. * z0[i] + 11. * c.s.scl;
    ctx.at("AnamHermite::fitFromArray(first)");
    (void)anam.fitFromArray(z0, toVD(c.s.w));
  }
  int err;
  if (c.viaDb)
  {
    db.reset(Db::create());
    db->addColumns(toVD(c.s.z), "z", ELoc::Z, 0);
    if (!c.s.w.empty()) db->addColumns(toVD(c.s.w), "w", ELoc::W, 0);
    if (!c.sel.empty()) db->addColumns(toVDi(c.sel), "sel", ELoc::SEL, 0);
    ctx.at("AAnam::fit");
    err = anam.fit(db.get(), "z");
  }
  else
  {
    ctx.at("AnamHermite::fitFromArray");
    err = anam.fitFromArray(toVD(c.s.z), toVD(c.s.w));
  }
  if (err != 0) { ctx.fail(pre + "fit-error", fmt("fit returned %d on %d active samples with %d distinct values", err, si.nact, si.ndistinct)); return; }

  if (c.refit && !c.viaDb)
  {
    // a fit depends on its data only: the same data on a fresh object must give the same transform
    AnamHermite fresh(c.nbpoly, c.flagBound != 0);
    (void)fresh.fitFromArray(toVD(c.s.z), toVD(c.s.w));
    VectorDouble p1 = anam.getPsiHns(), p2 = fresh.getPsiHns();
    double sc = 0;
    for (int k = 0; k < (int)p2.size(); k++) sc = std::max(sc, std::fabs(p2[k]));
    for (int k = 0; k < (int)p2.size() && k < (int)p1.size(); k++)
      if (!(std::fabs(p1[k] - p2[k]) <= 1e-12 * sc))
      {
        ctx.fail(pre + "differs-from-fresh-fit", fmt("Hermite coefficient %d after a second fit = %.17g, the same data on a fresh object give %.17g", k, p1[k], p2[k]));
        return;
      }
  }
  const double pymin = anam.getPymin(), pymax = anam.getPymax(), pzmin = anam.getPzmin(), pzmax = anam.getPzmax();
  const double aymin = anam.getAymin(), aymax = anam.getAymax(), azmin = anam.getAzmin(), azmax = anam.getAzmax();
  const double b[8] = {pymin, pymax, pzmin, pzmax, aymin, aymax, azmin, azmax};
  for (double v : b)
    if (isNA(v) || !std::isfinite(v))
    {
      ctx.fail(pre + "bounds-undefined", fmt("a reported bound is undefined: py[%g,%g] pz[%g,%g] ay[%g,%g] az[%g,%g]", pymin, pymax, pzmin, pzmax, aymin, aymax, azmin, azmax));
      return;
    }
  if (azmin > azmax || aymin > aymax || pzmin > pzmax || pymin > pymax)
  {
    ctx.fail(pre + "interval-inverted", fmt("a reported interval has min > max: py[%g,%g] pz[%g,%g] ay[%g,%g] az[%g,%g] nbpoly=%d", pymin, pymax, pzmin, pzmax, aymin, aymax, azmin, azmax, c.nbpoly));
    return;
  }
  // the interval on which the transform is claimed valid: practical interval, within the absolute one
  // (values outside the absolute interval are clamped by design when flagBound is set)
  const double ylo = std::max(pymin, aymin), yhi = std::min(pymax, aymax);
  const double zlo = std::max(pzmin, azmin), zhi = std::min(pzmax, azmax);
  if (!(yhi - ylo > 0.35) || !(zhi > zlo))
  {
    ctx.label("empty-interval");
    dbg(fmt("empty: py[%g,%g] pz[%g,%g] ay[%g,%g] az[%g,%g] nb=%d fb=%d n=%d", pymin, pymax, pzmin, pzmax, aymin, aymax, azmin, azmax, c.nbpoly, c.flagBound, n));
    ctx.inconclusive("reported-interval-narrower-than-3-grid-steps");
    return;
  }
  if (!(ylo <= 0. && 0. <= yhi) && !c.flagBound)
  {
    // without bounds the inverse searches the raw polynomial from y = 0: outside the practical interval
    // it is not claimed to be monotone, so the branch reached is not determined
    ctx.label("zero-outside-py:bound-off");
    ctx.inconclusive("bound-off-and-zero-outside-practical-interval");
    return;
  }
  if (!(ylo <= 0. && 0. <= yhi)) ctx.label("zero-outside-py");
  AnamFns f{&anam};
  const double zscale = std::max(std::fabs(zlo), std::fabs(zhi));
  const double rnd = 64 * EPS * zscale;
  ctx.at("AnamContinuous::gaussianToRawVector");
  const double dzmax = std::fabs(f.fwd(1.) - f.fwd(-1.)) / 100000.; // the method's own resolution in z
  const double delta = 1.5e-7;                                       // ... and in y (dymax = 1e-7)

  // (1) monotone on the method's grid (multiples of YPAS = 0.1 built as the library does) inside the interval
  {
    std::vector<double> grid;
    double y = 0;
    std::vector<double> neg;
    for (int k = 0; k < 100; k++) { y -= 0.1; neg.push_back(y); }
    for (int k = 99; k >= 0; k--) grid.push_back(neg[(size_t)k]);
    grid.push_back(0.);
    y = 0;
    for (int k = 0; k < 100; k++) { y += 0.1; grid.push_back(y); }
    VectorDouble yy;
    for (double g : grid)
      if (g >= ylo && g <= yhi) yy.push_back(g);
    VectorDouble zz = anam.gaussianToRawVector(yy);
    for (int k = 1; k < (int)yy.size(); k++)
      if (zz[k] < zz[k - 1] - rnd)
      {
        ctx.fail(pre + "not-monotone", fmt("z(%.3f)=%.17g > z(%.3f)=%.17g inside the reported interval y[%g,%g]", yy[k - 1], zz[k - 1], yy[k], zz[k], ylo, yhi));
        return;
      }
  }

  // (2) raw -> gaussian -> raw
  // The method locates the ends of the monotone stretch on a grid of step YPAS = 0.1 only: the turning
  // point may lie anywhere inside the end cells, so the claim is tested one grid step inside.
  int checked = 0, flat = 0;
  const double YPAS = 0.1;
  const double yl = ylo + YPAS, yh = yhi - YPAS;
  const double zl = std::max(zlo, f.fwd(yl)), zh = std::min(zhi, f.fwd(yh));
  const double mz = std::max(1e-6 * (zhi - zlo), 2 * dzmax);
  // excuse for a mismatch: the transform is not monotone at sub-grid resolution between the two points
  auto subgrid = [&](double ya, double yb) {
    if (ya > yb) std::swap(ya, yb);
    if (ya < ylo - 1e-6 || yb > yhi + 1e-6) return false; // left the reported interval: no excuse
    return !fineMonotone(f, std::max(ylo, ya - YPAS), std::min(yhi, yb + YPAS), rnd);
  };
  if (zh - zl > 4 * mz)
  {
    VectorDouble zp;
    for (double t : c.t) zp.push_back(zl + mz + t * (zh - zl - 2 * mz));
    ctx.at("AnamContinuous::rawToGaussianVector");
    VectorDouble yq = anam.rawToGaussianVector(zp);
    ctx.at("AnamContinuous::gaussianToRawVector");
    VectorDouble zq = anam.gaussianToRawVector(yq);
    for (int k = 0; k < (int)zp.size(); k++)
    {
      double slope = std::max(0., f.fwd(yq[k] + delta) - f.fwd(yq[k] - delta));
      double tol = dzmax + slope + rnd;
      checked++;
      if (!(std::fabs(zq[k] - zp[k]) <= tol))
      {
        if (subgrid(yq[k], yq[k])) { dbg(fmt("subgrid z: z=%g y=%g zback=%g tol=%g y[%g,%g] z[%g,%g] ay[%g,%g] az[%g,%g] nb=%d fb=%d", zp[k], yq[k], zq[k], tol, ylo, yhi, zlo, zhi, aymin, aymax, azmin, azmax, c.nbpoly, c.flagBound)); ctx.inconclusive("subgrid-nonmonotone"); return; }
        ctx.fail(pre + "z-roundtrip", fmt("z=%.17g -> y=%.17g -> z=%.17g: |diff|=%g > tol=%g (dzmax=%g) interval z[%g,%g] y[%g,%g] nbpoly=%d", zp[k], yq[k], zq[k], std::fabs(zq[k] - zp[k]), tol, dzmax, zlo, zhi, ylo, yhi, c.nbpoly));
        return;
      }
    }
  }

  // (3) gaussian -> raw -> gaussian
  {
    VectorDouble yp;
    const double my = 1e-6;
    for (double t : c.t) yp.push_back(yl + my + t * (yh - yl - 2 * my));
    VectorDouble zq = anam.gaussianToRawVector(yp);
    ctx.at("AnamContinuous::rawToGaussianVector");
    VectorDouble yq = anam.rawToGaussianVector(zq);
    for (int k = 0; k < (int)yp.size(); k++)
    {
      // smallest eta such that every y'' with |z(y'') - z| <= dzmax lies within eta of y
      double eta = -1;
      for (double e : {1e-6, 1e-5, 1e-4, 1e-3, 1e-2, 1e-1, 0.5})
      {
        if (yp[k] - e < ylo || yp[k] + e > yhi) break; // neighbours outside the reported interval prove nothing
        if (f.fwd(yp[k] + e) - zq[k] > 2 * dzmax + rnd && zq[k] - f.fwd(yp[k] - e) > 2 * dzmax + rnd) { eta = e; break; }
      }
      if (eta < 0) { flat++; continue; }
      checked++;
      if (!(std::fabs(yq[k] - yp[k]) <= eta + 2e-7))
      {
        if (subgrid(yp[k], yq[k])) { dbg(fmt("subgrid y: y=%g z=%g yback=%g eta=%g y[%g,%g] z[%g,%g] ay[%g,%g] az[%g,%g] nb=%d fb=%d", yp[k], zq[k], yq[k], eta, ylo, yhi, zlo, zhi, aymin, aymax, azmin, azmax, c.nbpoly, c.flagBound)); ctx.inconclusive("subgrid-nonmonotone"); return; }
        ctx.fail(pre + "y-roundtrip", fmt("y=%.17g -> z=%.17g -> y=%.17g: |diff|=%g > eta=%g interval y[%g,%g] z[%g,%g] ay[%g,%g] nbpoly=%d", yp[k], zq[k], yq[k], std::fabs(yq[k] - yp[k]), eta, ylo, yhi, zlo, zhi, aymin, aymax, c.nbpoly));
        return;
      }
    }
  }
  if (flat) ctx.label("flat-probe");

  // (4) Db level: rawToGaussian then gaussianToRaw on the samples (CalcAnamTransform)
  if (c.viaDb)
  {
    ctx.at("AAnam::rawToGaussian");
    if (anam.rawToGaussian(db.get(), "z") != 0) { ctx.fail(pre + "db-z2y-error", "rawToGaussian(db) failed"); return; }
    std::string yname = db->getLastName();
    VectorDouble yv = db->getColumn(yname, false, false);
    ctx.at("AAnam::gaussianToRaw");
    if (anam.gaussianToRaw(db.get(), yname) != 0) { ctx.fail(pre + "db-y2z-error", "gaussianToRaw(db) failed"); return; }
    VectorDouble zv = db->getColumn(db->getLastName(), false, false);
    if ((int)zv.size() != n || (int)yv.size() != n) { ctx.fail(pre + "db-size", "transformed column has another length"); return; }
    for (int i = 0; i < n; i++)
    {
      bool act = c.sel.empty() || c.sel[(size_t)i];
      double z = c.s.z[(size_t)i];
      if (!act || isNA(z)) continue;
      if (isNA(yv[i]) || isNA(zv[i])) { ctx.fail(pre + "db-undefined", fmt("active defined sample %d is transformed to NA", i)); return; }
      if (!(z > zl + mz && z < zh - mz)) continue;
      double slope = std::max(0., f.fwd(yv[i] + delta) - f.fwd(yv[i] - delta));
      double tol = dzmax + slope + rnd;
      checked++;
      if (!(std::fabs(zv[i] - z) <= tol))
      {
        if (subgrid(yv[i], yv[i])) { ctx.inconclusive("subgrid-nonmonotone"); return; }
        ctx.fail(pre + "db-z-roundtrip", fmt("sample %d z=%.17g -> y=%.17g -> z=%.17g tol=%g", i, z, yv[i], zv[i], tol));
        return;
      }
    }
  }
  ctx.nontrivial(checked > 0 && (si.nties > 0 || si.nna > 0 || c.nbpoly >= 20));
  ctx.sig = Hash().add(c.s.kind).add(c.nbpoly).add(c.flagBound).add(c.viaDb).add(c.s.wMode).add(c.s.naMode).add(n).addq(c.s.z[0]).h;
}
VERIF_SUB(anamh, AnamHCase, genAnamH, runAnamH);

// constant data (every active value equal): outside the round-trip statement (there is no interval),
// but the fit must either refuse or report ordered finite bounds, without faulting.
struct AnamDegCase
{
  int n = 1, nbpoly = 3;
  double v = 1;
  int naEvery = 0, withW = 0;
  template<class A> void io(A& a) { a("n", n)("nbpoly", nbpoly)("v", v)("naEvery", naEvery)("withW", withW); }
};
static AnamDegCase genAnamDeg()
{
  AnamDegCase c;
  c.n = G::sz(1, 40);
  c.nbpoly = G::i(2, 30);
  c.v = G::pick({0., 1., -3.5, 1e3});
  c.naEvery = G::pick({0, 0, 3});
  c.withW = G::b();
  return c;
}
static void runAnamDeg(const AnamDegCase& c, Ctx& ctx)
{
  VectorDouble z(c.n), w;
  for (int i = 0; i < c.n; i++) z[i] = (c.naEvery && i % c.naEvery == 1) ? NA : c.v;
  if (c.withW) { w.resize(c.n); for (int i = 0; i < c.n; i++) w[i] = 1. + (i % 3); }
  ctx.label(c.n == 1 ? "n:1" : "n:>1");
  AnamHermite anam(c.nbpoly);
  ctx.at("AnamHermite::fitFromArray(constant)");
  int err = anam.fitFromArray(z, w);
  ctx.nontrivial(true);
  if (err != 0) { ctx.label("refused"); return; }
  double b[4] = {anam.getPzmin(), anam.getPzmax(), anam.getPymin(), anam.getPymax()};
  for (double x : b)
    if (isNA(x) || !std::isfinite(x)) { ctx.fail("anamH:constant:bounds", fmt("constant data accepted but bounds undefined pz[%g,%g] py[%g,%g]", b[0], b[1], b[2], b[3])); return; }
  if (std::fabs(anam.getMean() - c.v) > 1e-6 * (1 + std::fabs(c.v))) ctx.fail("anamH:constant:mean", fmt("constant data %g accepted, mean of the fitted transform = %.17g", c.v, anam.getMean()));
}
VERIF_SUB(anamh_degenerate, AnamDegCase, genAnamDeg, runAnamDeg);

// =================================================================== (b) AnamEmpirical ======
struct AnamECase
{
  Sample s;
  int mode = 0; // 0 normal score (no dilution) 1 gaussian dilution 2 lognormal dilution
  int ndisc = 100;
  double sig = 0; // 0: default sigma2e, else sigma2e = sig * variance
  std::vector<double> t;
  template<class A> void io(A& a) { a("s", s)("mode", mode)("ndisc", ndisc)("sig", sig)("t", t); }
};
static AnamECase genAnamE()
{
  AnamECase c;
  c.mode = G::pick({0, 0, 1, 2});
  c.s = genSample(5, c.mode == 0 ? 2000 : 300, false, c.mode == 2);
  c.s.w.clear(); // weights are not used by the empirical anamorphosis
  c.s.wMode = 0;
  c.ndisc = G::i(10, 200);
  c.sig = G::pick({0., 0., 0.01, 0.1});
  int np = G::i(8, 24);
  for (int k = 0; k < np; k++) c.t.push_back(G::u(0., 1.));
  return c;
}
static void runAnamE(const AnamECase& c, Ctx& ctx)
{
  const int n = (int)c.s.z.size();
  SampleInfo si = sampleInfo(c.s.z, {}, {});
  ctx.label(fmt("mode:%d", c.mode));
  ctx.label(fmt("kind:%d", c.s.kind));
  ctx.label(nClass(n));
  if (si.nties) ctx.label("ties");
  if (si.nna) ctx.label("na");
  if (si.ndistinct < 2) { ctx.inconclusive("fewer-than-2-distinct-values"); return; }
  // moments of the defined data (for sigma2e)
  std::vector<double> a;
  for (double v : c.s.z) if (!isNA(v)) a.push_back(v);
  std::sort(a.begin(), a.end());
  LD m = 0, m2 = 0;
  for (double v : a) { m += v; m2 += (LD)v * v; }
  m /= a.size(); m2 /= a.size();
  double var = (double)(m2 - m * m);
  if (c.mode != 0 && !(var > 1e-12 * (double)m2)) { ctx.inconclusive("variance-lost-in-rounding"); return; }
  if (c.mode == 2 && !(a[0] > 0)) { ctx.inconclusive("lognormal-dilution-needs-positive-data"); return; }

  AnamEmpirical anam(c.ndisc, c.sig > 0 ? c.sig * var : NA, c.mode != 0, c.mode != 2);
  ctx.at("AnamEmpirical::fitFromArray");
  int err;
  try
  {
    err = anam.fitFromArray(toVD(c.s.z));
  }
  catch (const std::exception& e)
  {
    if (c.mode == 1 && a[0] <= 0) { ctx.fail("anamE:gaussian-dilution:nonpositive-data", std::string("Gaussian dilution on data with values <= 0 throws: ") + e.what()); return; }
    throw;
  }
  if (err != 0) { ctx.fail("anamE:fit-error", fmt("fit returned %d (mode %d, %d defined values)", err, c.mode, (int)a.size())); return; }
  const VectorDouble& Z = anam.getZDisc();
  const VectorDouble& Y = anam.getYDisc();
  const int nd = anam.getNDisc();
  if ((int)Z.size() != nd || (int)Y.size() != nd) { ctx.fail("anamE:table-size", fmt("nDisc=%d but tables have %d / %d entries", nd, (int)Z.size(), (int)Y.size())); return; }
  if (nd < 2) { ctx.inconclusive("table-with-less-than-2-points"); return; }
  if (c.mode == 1)
  {
    // Gaussian dilution as documented (AnamEmpirical.hpp): every valid datum is replaced by a Gaussian of
    // variance sigma2e; the table is the Gaussian quantile of the diluted cumulative frequency
    const double s2 = c.sig > 0 ? c.sig * var : var / (2. * (double)a.size());
    const LD sg = sqrtl((LD)s2);
    for (int k = 0; k < nd; k++)
    {
      LD pr = 0;
      for (double v : a) pr += pnormL(((LD)Z[k] - v) / sg);
      pr /= (LD)a.size();
      if (!(pr > 1e-4L && pr < 1 - 1e-4L) || std::fabs(Y[k]) > 3.7) continue;
      LD q = qnormL(pr);
      double tol = tolInvCdf(q) + 1.5e-7 / (double)dnormL(q);
      if (!(std::fabs(Y[k] - (double)q) <= tol))
      {
        ctx.fail(a[0] <= 0 ? "anamE:gaussian-dilution:nonpositive-data" : "anamE:gaussian-dilution:cdf",
                 fmt("Y[%d]=%.10g at Z=%.10g, diluted frequency of the %d data = %.10Lg whose Gaussian quantile is %.10Lg (tol %g); smallest datum %g", k, Y[k], Z[k], (int)a.size(), pr, q, tol, a[0]));
        return;
      }
    }
  }
  const double ytol = (c.mode == 0) ? 0. : 2e-7; // resolution of the bisection in law_invcdf_gaussian
  double zs = 0, ys = 0;
  bool jitter = false;
  for (int k = 0; k < nd; k++)
  {
    if (isNA(Z[k]) || isNA(Y[k]) || !std::isfinite(Z[k]) || !std::isfinite(Y[k])) { ctx.fail("anamE:table-undefined", fmt("table entry %d is (%g,%g)", k, Z[k], Y[k])); return; }
    zs = std::max(zs, std::fabs(Z[k]));
    ys = std::max(ys, std::fabs(Y[k]));
    if (k == 0) continue;
    if (Z[k] < Z[k - 1]) { ctx.fail("anamE:ztable-not-sorted", fmt("Z[%d]=%.17g < Z[%d]=%.17g", k, Z[k], k - 1, Z[k - 1])); return; }
    if (Y[k] < Y[k - 1] - ytol) { ctx.fail("anamE:ytable-not-monotone", fmt("Y[%d]=%.17g < Y[%d]=%.17g (mode %d)", k, Y[k], k - 1, Y[k - 1], c.mode)); return; }
    if (Y[k] < Y[k - 1]) jitter = true;
  }
  if (jitter) { ctx.label("ytable-jitter"); ctx.inconclusive("quantile-table-not-sorted-within-invcdf-resolution"); return; }
  // reported interval = extent of the tables
  if (anam.getPzmin() != Z[0] || anam.getPzmax() != Z[nd - 1] || anam.getPymin() != Y[0] || anam.getPymax() != Y[nd - 1])
  {
    ctx.fail("anamE:bounds", fmt("reported pz[%g,%g] py[%g,%g], tables span z[%g,%g] y[%g,%g]", anam.getPzmin(), anam.getPzmax(), anam.getPymin(), anam.getPymax(), Z[0], Z[nd - 1], Y[0], Y[nd - 1]));
    return;
  }
  if (c.mode == 0)
  {
    // normal-score table: sorted defined data against Gaussian quantiles k/(n+1)
    if (nd != (int)a.size()) { ctx.fail("anamE:nscore-table-size", fmt("%d defined data, table of %d", (int)a.size(), nd)); return; }
    for (int k = 0; k < nd; k++)
    {
      if (Z[k] != a[(size_t)k]) { ctx.fail("anamE:nscore-z", fmt("Z[%d]=%.17g, %d-th smallest datum = %.17g", k, Z[k], k, a[(size_t)k])); return; }
      LD q = qnormL((LD)(k + 1) / (LD)(nd + 1));
      if (!(std::fabs(Y[k] - (double)q) <= tolInvCdf(q))) { ctx.fail("anamE:nscore-y", fmt("Y[%d]=%.17g, Gaussian quantile of %d/%d = %.17g", k, Y[k], k + 1, nd + 1, (double)q)); return; }
    }
  }
  AnamFns f{&anam};
  const double C = 64 * EPS;
  int checked = 0;
  // monotone on sorted probes over the whole reported interval
  {
    std::vector<double> ts = c.t;
    std::sort(ts.begin(), ts.end());
    VectorDouble zp, yp;
    for (double t : ts) { zp.push_back(Z[0] + t * (Z[nd - 1] - Z[0])); yp.push_back(Y[0] + t * (Y[nd - 1] - Y[0])); }
    ctx.at("AnamContinuous::rawToGaussianVector");
    VectorDouble yq = anam.rawToGaussianVector(zp);
    ctx.at("AnamContinuous::gaussianToRawVector");
    VectorDouble zq = anam.gaussianToRawVector(yp);
    for (int k = 1; k < (int)zp.size(); k++)
    {
      if (yq[k] < yq[k - 1] - C * ys) { ctx.fail("anamE:z2y-not-monotone", fmt("y(%.17g)=%.17g > y(%.17g)=%.17g", zp[k - 1], yq[k - 1], zp[k], yq[k])); return; }
      if (zq[k] < zq[k - 1] - C * zs) { ctx.fail("anamE:y2z-not-monotone", fmt("z(%.17g)=%.17g > z(%.17g)=%.17g", yp[k - 1], zq[k - 1], yp[k], zq[k])); return; }
    }
  }
  // round trips inside the segments where the tabulated function is strictly increasing (where an
  // inverse is defined), and at the nodes
  for (double t : c.t)
  {
    int k = std::min(nd - 2, (int)(t * (nd - 1)));
    double fr = t * (nd - 1) - k;
    fr = 0.05 + 0.9 * std::min(1., std::max(0., fr));
    double za = Z[k], zb = Z[k + 1], ya = Y[k], yb = Y[k + 1];
    // node: z = Z[k] -> y -> z (where the tabulated quantile is strictly increasing around the node)
    if ((k == 0 || Y[k - 1] < Y[k]) && Y[k] < Y[k + 1])
    {
      double y = f.inv(za), z = f.fwd(y);
      checked++;
      if (!(std::fabs(z - za) <= C * zs)) { ctx.fail("anamE:node-roundtrip", fmt("z=Z[%d]=%.17g -> y=%.17g -> z=%.17g", k, za, y, z)); return; }
    }
    if (!(zb > za) || !(yb > ya)) { ctx.label("flat-segment"); continue; }
    double sl = (yb - ya) / (zb - za);
    {
      double z = za + fr * (zb - za);
      if (z > za && z < zb)
      {
        double y = f.inv(z), z2 = f.fwd(y);
        double tol = C * (zs + ys / sl);
        checked++;
        if (!(y >= ya - C * ys && y <= yb + C * ys)) { ctx.fail("anamE:z2y-outside-segment", fmt("z=%.17g in (Z[%d],Z[%d]) -> y=%.17g outside [%.17g,%.17g]", z, k, k + 1, y, ya, yb)); return; }
        if (!(std::fabs(z2 - z) <= tol)) { ctx.fail("anamE:z-roundtrip", fmt("z=%.17g -> y=%.17g -> z=%.17g tol=%g (segment %d: z[%.17g,%.17g] y[%.17g,%.17g])", z, y, z2, tol, k, za, zb, ya, yb)); return; }
      }
    }
    {
      double y = ya + fr * (yb - ya);
      if (y > ya && y < yb)
      {
        double z = f.fwd(y), y2 = f.inv(z);
        double tol = C * (ys + zs * sl);
        checked++;
        if (!(std::fabs(y2 - y) <= tol)) { ctx.fail("anamE:y-roundtrip", fmt("y=%.17g -> z=%.17g -> y=%.17g tol=%g (segment %d: z[%.17g,%.17g] y[%.17g,%.17g])", y, z, y2, tol, k, za, zb, ya, yb)); return; }
      }
    }
  }
  ctx.nontrivial(checked > 0 && (si.nties > 0 || si.nna > 0 || c.mode != 0));
  ctx.sig = Hash().add(c.mode).add(c.s.kind).add(c.ndisc).add(n).add(c.s.naMode).addq(c.s.z[0]).h;
}
VERIF_SUB(aname, AnamECase, genAnamE, runAnamE);

// =================================================================== (c) PCA / MAF ==========
struct PcaCase
{
  int nvar = 1, n = 5;
  int mode = 0;   // 0 PCA, 1 MAF on a distance interval, 2 MAF on a lag of a VarioParam direction
  std::vector<double> x, y; // coordinates
  std::vector<double> z;    // n*nvar, sample-major (NA allowed)
  std::vector<int> sel;     // empty = no selection
  double hmin = 0, hmax = 1;
  int ndir = 1, idir0 = 0, ilag0 = 1, npas = 4;
  double dpas = 1, angref = 0;
  template<class A> void io(A& a)
  {
    a("nvar", nvar)("n", n)("mode", mode)("x", x)("y", y)("z", z)("sel", sel)("hmin", hmin)("hmax", hmax)
     ("ndir", ndir)("idir0", idir0)("ilag0", ilag0)("npas", npas)("dpas", dpas)("angref", angref);
  }
};
static PcaCase genPca()
{
  PcaCase c;
  c.nvar = G::i(1, 5);
  c.mode = G::pick({0, 0, 1, 1, 2});
  int nmax = c.mode == 0 ? G::pick({30, 120, 400}) : G::pick({30, 120});
  c.n = G::sz(c.nvar + 4, nmax);
  const int nv = c.nvar, n = c.n;
  const int side = (int)std::ceil(std::sqrt((double)n));
  const double cell = G::pick({1., 1., 25.});
  c.x.resize((size_t)n); c.y.resize((size_t)n);
  for (int i = 0; i < n; i++)
  {
    c.x[(size_t)i] = cell * ((i % side) + G::u(0.15, 0.85));
    c.y[(size_t)i] = cell * ((i / side) + G::u(0.15, 0.85));
  }
  // latent components: smooth spatial part + noise, different for each component
  std::vector<double> om(nv), ph(nv), sm(nv);
  for (int k = 0; k < nv; k++) { om[k] = G::u(0.3, 3.) / (cell * side) * 6.28; ph[k] = G::u(0., 6.28); sm[k] = G::pick({0., 0.5, 0.9}); }
  // mixing matrix: lower triangular, bounded condition number
  std::vector<double> A((size_t)nv * nv, 0.);
  for (int i = 0; i < nv; i++)
    for (int j = 0; j <= i; j++) A[(size_t)i * nv + j] = (i == j) ? G::i(3, 20) / 10. : G::i(-15, 15) / 10.;
  const double scale = G::pick({1., 1., 1e-2, 1e3, 1e-6, 1e6}); // incl. data in "small" units (variances below 1e-10)
  std::vector<double> mean(nv);
  for (int k = 0; k < nv; k++) mean[k] = G::pick({0., 0., 10., -50., 100.});
  c.z.resize((size_t)n * nv);
  std::vector<double> lat(nv);
  for (int i = 0; i < n; i++)
  {
    for (int k = 0; k < nv; k++)
    {
      double g = (double)qnormL((LD)G::i(1, (1 << 20) - 1) / 1048576.0L);
      double s = std::sin(om[k] * c.x[(size_t)i] + ph[k]) * std::cos(om[k] * 0.7 * c.y[(size_t)i] - ph[k]) * 1.6;
      lat[k] = sm[k] * s + std::sqrt(1 - sm[k] * sm[k]) * g;
    }
    for (int v = 0; v < nv; v++)
    {
      double t = mean[v];
      for (int k = 0; k <= v; k++) t += A[(size_t)v * nv + k] * lat[k];
      c.z[(size_t)i * nv + v] = scale * t;
    }
  }
  const int keep = nv + 4; // the first samples stay complete and selected
  if (G::pct(35))
    for (int i = keep; i < n; i++)
      for (int v = 0; v < nv; v++)
        if (G::pct(8)) c.z[(size_t)i * nv + v] = NA;
  if (G::pct(35))
  {
    c.sel.assign((size_t)n, 1);
    for (int i = keep; i < n; i++) c.sel[(size_t)i] = G::pct(75) ? 1 : 0;
  }
  c.hmin = cell * G::u(0., 1.5);
  c.hmax = c.hmin + cell * G::u(0.5, 3.);
  c.ndir = G::pick({1, 1, 2});
  c.idir0 = G::i(0, c.ndir - 1);
  c.ilag0 = G::i(1, 3);
  c.npas = c.ilag0 + G::i(1, 3);
  c.dpas = cell * G::u(0.8, 2.);
  c.angref = (double)G::i(0, 17) * 10.;
  return c;
}

// symmetric eigenvalues by cyclic Jacobi (oracle side, tiny matrices)
static std::vector<LD> jacobiEig(std::vector<LD> a, int n)
{
  for (int sweep = 0; sweep < 60; sweep++)
  {
    LD off = 0;
    for (int p = 0; p < n; p++) for (int q = p + 1; q < n; q++) off += a[(size_t)p * n + q] * a[(size_t)p * n + q];
    if (off < 1e-60L) break;
    for (int p = 0; p < n; p++)
      for (int q = p + 1; q < n; q++)
      {
        LD apq = a[(size_t)p * n + q];
        if (apq == 0) continue;
        LD th = (a[(size_t)q * n + q] - a[(size_t)p * n + p]) / (2 * apq);
        LD t = (th >= 0 ? 1 : -1) / (fabsl(th) + sqrtl(th * th + 1));
        LD cs = 1 / sqrtl(t * t + 1), sn = t * cs;
        for (int k = 0; k < n; k++)
        {
          LD akp = a[(size_t)k * n + p], akq = a[(size_t)k * n + q];
          a[(size_t)k * n + p] = cs * akp - sn * akq;
          a[(size_t)k * n + q] = sn * akp + cs * akq;
        }
        for (int k = 0; k < n; k++)
        {
          LD apk = a[(size_t)p * n + k], aqk = a[(size_t)q * n + k];
          a[(size_t)p * n + k] = cs * apk - sn * aqk;
          a[(size_t)q * n + k] = sn * apk + cs * aqk;
        }
      }
  }
  std::vector<LD> e((size_t)n);
  for (int i = 0; i < n; i++) e[(size_t)i] = a[(size_t)i * n + i];
  return e;
}

static void runPca(const PcaCase& c, Ctx& ctx)
{
  const int nv = c.nvar, n = c.n;
  defineDefaultSpace(ESpaceType::RN, 2);
  ctx.label(fmt("mode:%d", c.mode));
  ctx.label(fmt("nvar:%d", nv));
  ctx.label(nClass(n));
  std::unique_ptr<Db> db(Db::create());
  db->addColumns(toVD(c.x), "x1", ELoc::X, 0);
  db->addColumns(toVD(c.y), "x2", ELoc::X, 1);
  for (int v = 0; v < nv; v++)
  {
    VectorDouble col(n);
    for (int i = 0; i < n; i++) col[i] = c.z[(size_t)i * nv + v];
    db->addColumns(col, fmt("z%d", v + 1), ELoc::Z, v);
  }
  if (!c.sel.empty()) { db->addColumns(toVDi(c.sel), "sel", ELoc::SEL, 0); ctx.label("selection"); }
  // isotopic active samples
  std::vector<int> iso;
  bool anyNA = false;
  for (int i = 0; i < n; i++)
  {
    bool ok = c.sel.empty() || c.sel[(size_t)i];
    for (int v = 0; v < nv; v++)
      if (isNA(c.z[(size_t)i * nv + v])) { ok = false; anyNA = true; }
    if (ok) iso.push_back(i);
  }
  if (anyNA) ctx.label("na");
  const int ni = (int)iso.size();
  if (ni < nv + 2) { ctx.inconclusive("too-few-isotopic-samples"); return; }
  // oracle: mean, covariance (n-1), conditioning
  std::vector<LD> mean((size_t)nv, 0), cov((size_t)nv * nv, 0);
  double zmax = 0;
  for (int i : iso) for (int v = 0; v < nv; v++) { mean[v] += c.z[(size_t)i * nv + v]; zmax = std::max(zmax, std::fabs(c.z[(size_t)i * nv + v])); }
  for (int v = 0; v < nv; v++) mean[v] /= ni;
  for (int i : iso)
    for (int a = 0; a < nv; a++)
      for (int b = 0; b < nv; b++) cov[(size_t)a * nv + b] += (c.z[(size_t)i * nv + a] - mean[a]) * (c.z[(size_t)i * nv + b] - mean[b]);
  for (auto& v : cov) v /= (ni - 1);
  std::vector<LD> ev = jacobiEig(cov, nv);
  LD lmin = *std::min_element(ev.begin(), ev.end()), lmax = *std::max_element(ev.begin(), ev.end());
  if (!(lmin > 0) || lmax / lmin > 1e10L) { ctx.inconclusive("covariance-ill-conditioned"); return; }
  const double smin = (double)sqrtl(lmin);

  PCA pca;
  VarioParam* vp = nullptr;
  std::unique_ptr<VarioParam> vpHold;
  int err;
  if (c.mode == 0) { ctx.at("PCA::pca_compute"); err = pca.pca_compute(db.get()); }
  else if (c.mode == 1) { ctx.at("PCA::maf_compute_interval"); err = pca.maf_compute_interval(db.get(), c.hmin, c.hmax); }
  else
  {
    vp = (c.ndir == 1) ? VarioParam::createOmniDirection(c.npas, c.dpas) : VarioParam::createMultiple(c.ndir, c.npas, c.dpas, 0.5, c.angref);
    vpHold.reset(vp);
    if (vp == nullptr) { ctx.inconclusive("varioparam-not-built"); return; }
    ctx.at("PCA::maf_compute");
    err = pca.maf_compute(db.get(), *vp, c.ilag0, c.idir0);
  }
  if (err != 0) { ctx.fail("pca:compute-error", fmt("computation returned %d (mode %d, %d isotopic samples, %d variables)", err, c.mode, ni, nv)); return; }

  // the pair set of the MAF lag (modes 1, 2), boundaries excluded with a margin
  std::vector<std::pair<int, int>> pairs;
  if (c.mode != 0)
  {
    double psmin = 0, cx = 1, cy = 0, h0 = 0, lag = 0;
    if (c.mode == 2)
    {
      const DirParam& dp = vp->getDirParam(c.idir0);
      double tol = dp.getTolAngle();
      psmin = (tol >= 90.) ? -1. : std::fabs(std::cos(tol * M_PI / 180.));
      cx = dp.getCodirs()[0]; cy = dp.getCodirs()[1];
      lag = dp.getDPas(); h0 = c.ilag0 * lag;
    }
    for (int a = 0; a < ni; a++)
      for (int b = 0; b < a; b++)
      {
        int i = iso[(size_t)a], j = iso[(size_t)b];
        double dx = c.x[(size_t)i] - c.x[(size_t)j], dy = c.y[(size_t)i] - c.y[(size_t)j];
        double d = std::sqrt(dx * dx + dy * dy);
        auto nearTo = [&](double u, double v) { return std::fabs(u - v) <= 1e-9 * (std::fabs(u) + std::fabs(v) + 1e-300); };
        if (c.mode == 1)
        {
          if (nearTo(d, c.hmin) || nearTo(d, c.hmax)) { ctx.inconclusive("pair-on-lag-boundary"); return; }
          if (d < c.hmin || d > c.hmax) continue;
        }
        else
        {
          if (psmin >= 0)
          {
            double ps = std::fabs(dx * cx + dy * cy) / std::sqrt((dx * dx + dy * dy) * (cx * cx + cy * cy));
            if (std::fabs(ps - psmin) < 1e-9) { ctx.inconclusive("pair-on-angle-boundary"); return; }
            if (ps < psmin) continue;
          }
          if (nearTo(d, h0 - lag / 2) || nearTo(d, h0 + lag / 2)) { ctx.inconclusive("pair-on-lag-boundary"); return; }
          if (d < h0 - lag / 2 || d > h0 + lag / 2) continue;
        }
        pairs.push_back({i, j});
      }
    ctx.label(pairs.empty() ? "pairs:0" : ((int)pairs.size() < nv ? "pairs:<nvar" : "pairs:many"));
  }

  ctx.at("PCA::dbZ2F");
  if (pca.dbZ2F(db.get()) != 0) { ctx.fail("pca:z2f-error", "dbZ2F returned an error"); return; }
  if (db->getLocNumber(ELoc::Z) != nv) { ctx.fail("pca:z2f-locators", fmt("%d Z-located columns after dbZ2F, expected the %d factors", db->getLocNumber(ELoc::Z), nv)); return; }
  std::vector<VectorDouble> F((size_t)nv);
  for (int k = 0; k < nv; k++) F[(size_t)k] = db->getColumnByLocator(ELoc::Z, k, false, false);
  // factor moments over the isotopic samples
  const double tolM = 64 * EPS * ni * (1. + zmax / smin);
  std::vector<LD> fm((size_t)nv, 0);
  for (int k = 0; k < nv; k++)
  {
    if ((int)F[(size_t)k].size() != n) { ctx.fail("pca:factor-size", "factor column has another length"); return; }
    for (int i : iso)
    {
      double f = F[(size_t)k][i];
      if (isNA(f) || !std::isfinite(f)) { ctx.fail("pca:factor-undefined", fmt("factor %d undefined at isotopic active sample %d", k + 1, i)); return; }
      fm[(size_t)k] += f;
    }
    fm[(size_t)k] /= ni;
    if (!(fabsl(fm[(size_t)k]) <= tolM)) { ctx.fail("pca:factor-mean", fmt("mean of factor %d = %Lg (tol %g, mode %d)", k + 1, fm[(size_t)k], tolM, c.mode)); return; }
  }
  const double tolC = tolM * 2 * std::sqrt((double)ni) + 1e3 * EPS * (double)(lmax / lmin);
  for (int a = 0; a < nv; a++)
    for (int b = 0; b <= a; b++)
    {
      LD s = 0;
      for (int i : iso) s += ((LD)F[(size_t)a][i] - fm[(size_t)a]) * ((LD)F[(size_t)b][i] - fm[(size_t)b]);
      s /= (ni - 1);
      LD want = (a == b) ? 1 : 0;
      if (!(fabsl(s - want) <= tolC))
      {
        ctx.fail(a == b ? "pca:factor-variance" : "pca:factor-covariance", fmt("cov(F%d,F%d) = %.12Lg, expected %Lg (tol %g, mode %d, cond %Lg)", a + 1, b + 1, s, want, tolC, c.mode, lmax / lmin));
        return;
      }
    }
  if (c.mode != 0 && !pairs.empty())
  {
    // MAF: the factors are also uncorrelated at the chosen lag (variogram matrix of the factors is diagonal)
    std::vector<LD> g((size_t)nv * nv, 0);
    for (auto& pr : pairs)
      for (int a = 0; a < nv; a++)
        for (int b = 0; b <= a; b++)
          g[(size_t)a * nv + b] += ((LD)F[(size_t)a][pr.first] - F[(size_t)a][pr.second]) * ((LD)F[(size_t)b][pr.first] - F[(size_t)b][pr.second]) / 2;
    LD gmax = 1;
    for (int a = 0; a < nv; a++) { g[(size_t)a * nv + a] /= pairs.size(); gmax = std::max(gmax, g[(size_t)a * nv + a]); }
    const double tolG = (double)gmax * (1e3 * EPS * (double)(lmax / lmin) + 64 * EPS * ni * (1. + zmax / smin) * 4 * std::sqrt((double)ni));
    for (int a = 0; a < nv; a++)
      for (int b = 0; b < a; b++)
      {
        LD v = g[(size_t)a * nv + b] / pairs.size();
        if (!(fabsl(v) <= tolG)) { ctx.fail("pca:maf-lag-covariance", fmt("cross-variogram of factors %d,%d at the lag = %.12Lg over %d pairs (tol %g, mode %d)", a + 1, b + 1, v, (int)pairs.size(), tolG, c.mode)); return; }
      }
  }
  // back-transform
  ctx.at("PCA::dbF2Z");
  if (pca.dbF2Z(db.get()) != 0) { ctx.fail("pca:f2z-error", "dbF2Z returned an error"); return; }
  if (db->getLocNumber(ELoc::Z) != nv) { ctx.fail("pca:f2z-locators", "number of Z-located columns after dbF2Z"); return; }
  const double tolZ = 1e-9 * zmax;
  for (int v = 0; v < nv; v++)
  {
    VectorDouble zb = db->getColumnByLocator(ELoc::Z, v, false, false);
    for (int i : iso)
    {
      double z0 = c.z[(size_t)i * nv + v];
      if (!(std::fabs(zb[i] - z0) <= tolZ)) { ctx.fail("pca:roundtrip", fmt("variable %d sample %d: %.17g -> factors -> %.17g (tol %g, mode %d, nvar %d)", v + 1, i, z0, zb[i], tolZ, c.mode, nv)); return; }
    }
  }
  ctx.nontrivial(nv >= 3 || anyNA || !c.sel.empty());
  ctx.sig = Hash().add(c.mode).add(nv).add(n).add(ni).add((int)pairs.size()).addq(c.z[0]).h;
}
VERIF_SUB(pca, PcaCase, genPca, runPca);

// =================================================================== (d) VH::normalScore ====
struct NScoreCase
{
  Sample s;
  template<class A> void io(A& a) { a("s", s); }
};
static NScoreCase genNScore()
{
  NScoreCase c;
  c.s = genSample(2, 2000, false, false);
  // weights of the normal score: non-negative, zeros allowed (wMode 2), never undefined
  if (c.s.wMode == 1 && G::pct(40))
  {
    c.s.wMode = 2;
    for (size_t i = 3; i < c.s.w.size(); i++)
      if (G::pct(15)) c.s.w[i] = 0;
  }
  return c;
}
static void runNScore(const NScoreCase& c, Ctx& ctx)
{
  const int n = (int)c.s.z.size();
  const bool hasW = !c.s.w.empty();
  SampleInfo si = sampleInfo(c.s.z, {}, {});
  ctx.label(fmt("kind:%d", c.s.kind));
  ctx.label(nClass(n));
  ctx.label(hasW ? (c.s.wMode == 2 ? "weights:with-zero" : "weights:positive") : "weights:none");
  if (si.nties) ctx.label("ties");
  if (si.nna) ctx.label("na");
  ctx.at("VH::normalScore");
  VectorDouble sc = VH::normalScore(toVD(c.s.z), toVD(c.s.w));
  if ((int)sc.size() != n) { ctx.fail("nscore:size", fmt("%d scores for %d data", (int)sc.size(), n)); return; }
  // active samples sorted by value
  std::vector<int> act;
  LD wtot = 0;
  for (int i = 0; i < n; i++)
  {
    if (isNA(c.s.z[(size_t)i]))
    {
      if (!isNA(sc[i])) { ctx.fail("nscore:na-gets-score", fmt("undefined datum %d receives the score %g", i, sc[i])); return; }
      continue;
    }
    if (isNA(sc[i]) || !std::isfinite(sc[i])) { ctx.fail("nscore:score-undefined", fmt("defined datum %d receives an undefined score", i)); return; }
    act.push_back(i);
    wtot += hasW ? c.s.w[(size_t)i] : 1.;
  }
  const int na = (int)act.size();
  if (na == 0 || !(wtot > 0)) { ctx.inconclusive("no-active-weight"); return; }
  std::stable_sort(act.begin(), act.end(), [&](int a, int b) { return c.s.z[(size_t)a] < c.s.z[(size_t)b]; });
  const LD denom = wtot * (LD)(na + 1) / (LD)na;
  auto quant = [&](LD cum, double& q, double& tol) {
    LD p = cum / denom;
    if (p <= 0) { q = -10; tol = 1e-12; return; }
    LD x = qnormL(p);
    q = (double)x;
    tol = tolInvCdf(x);
  };
  // groups of tied values
  LD cum = 0;
  double prevTop = -1e300;
  for (int a = 0; a < na;)
  {
    int b = a;
    while (b + 1 < na && c.s.z[(size_t)act[(size_t)b + 1]] == c.s.z[(size_t)act[(size_t)a]]) b++;
    LD cumBefore = cum;
    std::vector<double> got;
    std::vector<LD> wg;
    for (int k = a; k <= b; k++) { got.push_back(sc[act[(size_t)k]]); wg.push_back(hasW ? (LD)c.s.w[(size_t)act[(size_t)k]] : 1.L); cum += wg.back(); }
    std::sort(got.begin(), got.end());
    double qTop, tTop, qLow, tLow;
    quant(cum, qTop, tTop);
    quant(cumBefore, qLow, tLow);
    // (i) the largest score of the group is the Gaussian quantile of the cumulated frequency through the group
    if (!(std::fabs(got.back() - qTop) <= tTop))
    {
      ctx.fail("nscore:quantile", fmt("value %.17g (group of %d, ranks %d..%d of %d): largest score %.10g, Gaussian quantile of the cumulated frequency %.10Lg is %.10g (tol %g)", c.s.z[(size_t)act[(size_t)a]], b - a + 1, a + 1, b + 1, na, got.back(), cum / denom, qTop, tTop));
      return;
    }
    // (ii) every score of the group lies between the quantiles before and through the group
    if (!(got.front() >= qLow - tLow - 2e-7)) { ctx.fail("nscore:tie-range", fmt("value %.17g: smallest score %.10g below the quantile %.10g reached before its group", c.s.z[(size_t)act[(size_t)a]], got.front(), qLow)); return; }
    // (iii) monotone: larger data never get a smaller score (2e-7: resolution of the quantile bisection)
    if (!(got.front() >= prevTop - 2e-7)) { ctx.fail("nscore:not-monotone", fmt("value %.17g gets the score %.10g, a smaller value got %.10g", c.s.z[(size_t)act[(size_t)a]], got.front(), prevTop)); return; }
    // (iv) without weights the scores of a tie group are the consecutive quantiles (k)/(n+1)
    if (!hasW)
      for (int k = a; k <= b; k++)
      {
        double q, t;
        quant((LD)(k + 1), q, t);
        if (!(std::fabs(got[(size_t)(k - a)] - q) <= t)) { ctx.fail("nscore:tie-quantiles", fmt("tie group of value %.17g: %d-th score %.10g, quantile %d/%d = %.10g", c.s.z[(size_t)act[(size_t)a]], k - a + 1, got[(size_t)(k - a)], k + 1, na + 1, q)); return; }
      }
    prevTop = got.back();
    a = b + 1;
  }
  ctx.nontrivial(si.nties > 0 || si.nna > 0 || hasW);
  ctx.sig = Hash().add(c.s.kind).add(n).add(c.s.wMode).add(c.s.naMode).add(si.nties).addq(c.s.z[0]).h;
}
VERIF_SUB(nscore, NScoreCase, genNScore, runNScore);

// =================================================================== (e) Rotation ===========
struct RotCase
{
  int ndim = 2;
  int mode = 0; // 0 setAngles, 1 setMatrixDirect, 2 setMatrixDirectVec
  std::vector<double> ang;
  std::vector<double> v; // nvec * ndim
  template<class A> void io(A& a) { a("ndim", ndim)("mode", mode)("ang", ang)("v", v); }
};
static RotCase genRot()
{
  RotCase c;
  c.ndim = G::pick({1, 2, 2, 3, 3, 3});
  c.mode = G::i(0, 2);
  int na = c.ndim == 3 ? 3 : 1;
  for (int k = 0; k < na; k++)
  {
    int t = G::i(0, 9);
    double a;
    if (t == 0) a = 0;
    else if (t == 1) a = G::pick({90., 180., 270., -90., 360., 45.});
    else if (t == 2) a = G::u(-1e-6, 1e-6);
    else if (t == 3) a = (double)G::i(-720, 720);
    else a = G::u(-180., 180.);
    c.ang.push_back(a);
  }
  int nvec = G::i(1, 4);
  double sc = G::pick({1., 1., 1e-3, 1e4});
  for (int k = 0; k < nvec * c.ndim; k++) c.v.push_back(sc * G::u(-10., 10.));
  return c;
}
// rotation matrix of the documented convention (DESIGN §3): rows are the rotated axes; built by composing
// elementary right-handed rotations about z, the new y, the new x
static std::vector<double> refRot(int ndim, const std::vector<double>& ang)
{
  std::vector<double> m((size_t)ndim * ndim, 0.);
  if (ndim == 1) { m[0] = 1; return m; }
  auto cs = [](double deg, double& cth, double& sth) { double r = deg * M_PI / 180.; cth = std::cos(r); sth = std::sin(r); };
  if (ndim == 2)
  {
    double ca, sa; cs(ang[0], ca, sa);
    m = {ca, sa, -sa, ca};
    return m;
  }
  double c0, s0, c1, s1, c2, s2;
  cs(ang[0], c0, s0); cs(ang[1], c1, s1); cs(ang[2], c2, s2);
  auto mul = [](const std::vector<double>& a, const std::vector<double>& b) {
    std::vector<double> r(9, 0.);
    for (int i = 0; i < 3; i++) for (int j = 0; j < 3; j++) for (int k = 0; k < 3; k++) r[(size_t)i * 3 + j] += a[(size_t)i * 3 + k] * b[(size_t)k * 3 + j];
    return r;
  };
  // coordinates in the rotated frame: x' = Rx(g) Ry(b) Rz(a) x with passive elementary rotations
  std::vector<double> Rz = {c0, s0, 0, -s0, c0, 0, 0, 0, 1};
  std::vector<double> Ry = {c1, 0, -s1, 0, 1, 0, s1, 0, c1};
  std::vector<double> Rx = {1, 0, 0, 0, c2, s2, 0, -s2, c2};
  return mul(Rx, mul(Ry, Rz));
}
static void runRot(const RotCase& c, Ctx& ctx)
{
  const int nd = c.ndim;
  ctx.label(fmt("ndim:%d", nd));
  ctx.label(fmt("mode:%d", c.mode));
  std::vector<double> M = refRot(nd, c.ang);
  Rotation rot((unsigned)nd);
  int err = 0;
  if (c.mode == 0) { ctx.at("Rotation::setAngles"); err = rot.setAngles(toVD(c.ang)); }
  else
  {
    MatrixSquareGeneral mm(nd);
    for (int i = 0; i < nd; i++) for (int j = 0; j < nd; j++) mm.setValue(i, j, M[(size_t)i * nd + j]);
    if (c.mode == 1) { ctx.at("Rotation::setMatrixDirect"); err = rot.setMatrixDirect(mm); }
    else { ctx.at("Rotation::setMatrixDirectVec"); err = rot.setMatrixDirectVec(mm.getValues()); }
  }
  if (err != 0) { ctx.fail("rot:set-error", fmt("setting a valid rotation returned %d (mode %d)", err, c.mode)); return; }
  const MatrixSquareGeneral& R = rot.getMatrixDirect();
  const MatrixSquareGeneral& Ri = rot.getMatrixInverse();
  if (R.getNRows() != nd || R.getNCols() != nd || Ri.getNRows() != nd) { ctx.fail("rot:shape", "matrix of another dimension"); return; }
  const double tolO = 16 * EPS * nd;
  // orthonormal, determinant +1, inverse = transpose
  for (int i = 0; i < nd; i++)
    for (int j = 0; j < nd; j++)
    {
      LD s = 0;
      for (int k = 0; k < nd; k++) s += (LD)R.getValue(i, k) * R.getValue(j, k);
      if (!(fabsl(s - (i == j ? 1 : 0)) <= tolO)) { ctx.fail("rot:not-orthonormal", fmt("(R Rt)[%d,%d] = %.17Lg", i, j, s)); return; }
      if (Ri.getValue(i, j) != R.getValue(j, i)) { ctx.fail("rot:inverse-not-transpose", fmt("Rinv[%d,%d]=%.17g, R[%d,%d]=%.17g", i, j, Ri.getValue(i, j), j, i, R.getValue(j, i))); return; }
    }
  LD det = 1;
  if (nd == 2) det = (LD)R.getValue(0, 0) * R.getValue(1, 1) - (LD)R.getValue(0, 1) * R.getValue(1, 0);
  if (nd == 3)
    det = (LD)R.getValue(0, 0) * ((LD)R.getValue(1, 1) * R.getValue(2, 2) - (LD)R.getValue(1, 2) * R.getValue(2, 1)) -
          (LD)R.getValue(0, 1) * ((LD)R.getValue(1, 0) * R.getValue(2, 2) - (LD)R.getValue(1, 2) * R.getValue(2, 0)) +
          (LD)R.getValue(0, 2) * ((LD)R.getValue(1, 0) * R.getValue(2, 1) - (LD)R.getValue(1, 1) * R.getValue(2, 0));
  if (nd == 1) det = R.getValue(0, 0);
  if (!(fabsl(det - 1) <= 4 * tolO)) { ctx.fail("rot:determinant", fmt("det = %.17Lg", det)); return; }
  // the matrix is the rotation of the given angles (the library's storage convention may be R or Rt)
  {
    double d1 = 0, d2 = 0;
    for (int i = 0; i < nd; i++)
      for (int j = 0; j < nd; j++)
      {
        d1 = std::max(d1, std::fabs(R.getValue(i, j) - M[(size_t)i * nd + j]));
        d2 = std::max(d2, std::fabs(R.getValue(i, j) - M[(size_t)j * nd + i]));
      }
    if (!(std::min(d1, d2) <= 64 * EPS)) { ctx.fail("rot:matrix-not-the-rotation", fmt("matrix differs from the rotation of the angles by %g (and by %g from its transpose), mode %d ndim %d", d1, d2, c.mode, nd)); return; }
    ctx.label(d1 <= d2 ? "convention:rows-are-axes" : "convention:columns-are-axes");
  }
  // change of coordinates and back
  const int nvec = (int)c.v.size() / nd;
  // when the matrix is within 1e-10 of the identity the class treats it as no rotation at all
  const double tolId = rot.isRotated() ? 0. : 2e-10 * nd;
  for (int q = 0; q < nvec; q++)
  {
    VectorDouble v(nd), w(nd), u(nd);
    double nrm = 0;
    for (int k = 0; k < nd; k++) { v[k] = c.v[(size_t)q * nd + k]; nrm = std::max(nrm, std::fabs(v[k])); }
    ctx.at("Rotation::rotateDirect");
    rot.rotateDirect(v, w);
    ctx.at("Rotation::rotateInverse");
    rot.rotateInverse(w, u);
    if ((int)w.size() != nd || (int)u.size() != nd) { ctx.fail("rot:vector-size", "rotated vector of another dimension"); return; }
    for (int i = 0; i < nd; i++)
    {
      LD s = 0;
      for (int k = 0; k < nd; k++) s += (LD)R.getValue(i, k) * v[k];
      if (!(std::fabs(w[i] - (double)s) <= (16 * EPS * nd + tolId) * nrm)) { ctx.fail("rot:direct-not-matrix", fmt("rotateDirect(v)[%d]=%.17g, (R v)[%d]=%.17Lg", i, w[i], i, s)); return; }
      if (!(std::fabs(u[i] - v[i]) <= 32 * EPS * nd * nrm)) { ctx.fail("rot:roundtrip", fmt("rotateInverse(rotateDirect(v))[%d]=%.17g, v[%d]=%.17g (ndim %d mode %d)", i, u[i], i, v[i], nd, c.mode)); return; }
    }
  }
  // the angles reported describe the same rotation (away from the gimbal lock of the Euler angles)
  if (nd >= 2)
  {
    const VectorDouble& an = rot.getAngles();
    std::vector<double> a2;
    for (int k = 0; k < (nd == 3 ? 3 : 1); k++) a2.push_back(an[k]);
    double cb = 1;
    if (nd == 3) cb = std::sqrt(R.getValue(0, 0) * R.getValue(0, 0) + R.getValue(0, 1) * R.getValue(0, 1));
    if (nd == 3) cb = std::min(cb, std::sqrt(M[0] * M[0] + M[1] * M[1]));
    if (cb > 1e-3)
    {
      // angles -> matrix is the library's own setAngles (the storage convention is the library's)
      Rotation r2((unsigned)nd);
      ctx.at("Rotation::setAngles(reported angles)");
      r2.setAngles(toVD(a2));
      double d = 0;
      for (int i = 0; i < nd; i++)
        for (int j = 0; j < nd; j++) d = std::max(d, std::fabs(r2.getMatrixDirect().getValue(i, j) - R.getValue(i, j)));
      if (!(d <= 256 * EPS / (cb * cb))) { ctx.fail("rot:angles-not-the-rotation", fmt("angles reported (%g,%g,%g) give a matrix differing by %g from the rotation set (mode %d ndim %d)", a2[0], nd == 3 ? a2[1] : 0., nd == 3 ? a2[2] : 0., d, c.mode, nd)); return; }
    }
    else
      ctx.label("gimbal-lock");
  }
  ctx.nontrivial(nd >= 2 && rot.isRotated());
  Hash h;
  h.add(nd).add(c.mode);
  for (double a : c.ang) h.addq(a);
  ctx.sig = h.h;
}
VERIF_SUB(rotation, RotCase, genRot, runRot);

// =================================================================== (f) Hermite polynomials =
struct HermCase
{
  int nbpoly = 5;
  double r = 1;               // change-of-support coefficient of hermitePolynomials
  std::vector<double> y;      // evaluation points
  std::vector<int> ifacs;     // ranks for the selective variant
  std::vector<double> phi;    // coefficients of an expansion (size nbpoly)
  double s = 0;               // kriging st. dev. of hermiteCondExpElement
  template<class A> void io(A& a) { a("nbpoly", nbpoly)("r", r)("y", y)("ifacs", ifacs)("phi", phi)("s", s); }
};
static HermCase genHerm()
{
  HermCase c;
  c.nbpoly = G::pick({0, 1}) ? G::i(2, 61) : G::sz(2, 61);
  c.r = G::pct(60) ? 1. : G::i(1, 20) / 20.;
  int ny = G::i(1, 6);
  for (int k = 0; k < ny; k++)
  {
    int t = G::i(0, 5);
    c.y.push_back(t == 0 ? (double)G::i(-4, 4) : (t == 1 ? G::u(-10., 10.) : G::u(-4., 4.)));
  }
  int nf = G::i(1, 5);
  for (int k = 0; k < nf; k++) c.ifacs.push_back(G::i(0, c.nbpoly - 1));
  for (int k = 0; k < c.nbpoly; k++) c.phi.push_back(G::i(-100, 100) / 50. / (1. + (k > 0 ? std::pow((double)k, G::pick({0., 1., 2.})) : 0.)));
  c.s = G::pick({0., 0., 1., 0.5, 0.3, 0.9});
  return c;
}
static void runHerm(const HermCase& c, Ctx& ctx)
{
  const GHRule& gh = gaussHermite();
  if (!gh.ok) { ctx.fail("harness:gauss-hermite-self-check", "the quadrature rule built by the harness is wrong"); return; }
  const int nb = c.nbpoly;
  ctx.label(nb >= 20 ? "order:>=20" : "order:<20");
  ctx.label(c.r == 1. ? "r:1" : "r:<1");
  ctx.label(c.s == 0. ? "s:0" : (c.s == 1. ? "s:1" : "s:(0,1)"));

  // (1) values at the points: reference recurrence (monic, long double), closed forms for orders 0..5
  for (double y : c.y)
  {
    ctx.at("hermitePolynomials");
    VectorDouble h = hermitePolynomials(y, c.r, nb);
    if ((int)h.size() != nb) { ctx.fail("herm:size", fmt("%d values for nbpoly=%d", (int)h.size(), nb)); return; }
    std::vector<LD> ref = hermRef(y, nb);
    LD run = 1, rk = 1;
    for (int k = 0; k < nb; k++)
    {
      run = std::max(run, fabsl(ref[(size_t)k]));
      // forward three-term recurrence: error grows at most linearly with the order, relative to the
      // largest polynomial met so far
      double tol = 64. * (k + 1) * EPS * (double)(run * rk);
      if (!(std::fabs(h[k] - (double)(ref[(size_t)k] * rk)) <= tol)) { ctx.fail("herm:value", fmt("H_%d(%.17g) r=%g: %.17g, reference %.17Lg (tol %g)", k, y, c.r, h[k], ref[(size_t)k] * rk, tol)); return; }
      rk *= c.r;
    }
    LD yy = y;
    LD cf[6] = {1, -yy, (yy * yy - 1) / sqrtl(2.L), -(yy * yy * yy - 3 * yy) / sqrtl(6.L), (yy * yy * yy * yy - 6 * yy * yy + 3) / sqrtl(24.L),
                -(yy * yy * yy * yy * yy - 10 * yy * yy * yy + 15 * yy) / sqrtl(120.L)};
    rk = 1;
    for (int k = 0; k < std::min(nb, 6); k++)
    {
      LD sc = 1 + powl(fabsl(yy), k);
      if (!(fabsl((LD)h[k] - cf[k] * rk) <= 64 * EPS * sc)) { ctx.fail("herm:closed-form", fmt("H_%d(%.17g) r=%g: %.17g, closed form %.17Lg", k, y, c.r, h[k], cf[k] * rk)); return; }
      rk *= c.r;
    }
    // selective variant
    VectorInt ifs;
    for (int q : c.ifacs) ifs.push_back(q);
    ctx.at("hermitePolynomials(ifacs)");
    VectorDouble hs = hermitePolynomials(y, c.r, ifs);
    if (hs.size() != ifs.size()) { ctx.fail("herm:ifacs-size", "selective variant returns another number of values"); return; }
    for (int q = 0; q < (int)ifs.size(); q++)
      if (hs[q] != h[ifs[q]]) { ctx.fail("herm:ifacs-value", fmt("rank %d: %.17g, full vector has %.17g", ifs[q], hs[q], h[ifs[q]])); return; }
  }

  // (2) orthonormality for the Gaussian law by the 80-point Gauss-Hermite rule (exact to degree 159):
  //     sum_k w_k H_i(x_k) H_j(x_k) = r^(i+j) delta_ij
  {
    const int N = (int)gh.x.size();
    std::vector<VectorDouble> H((size_t)N);
    ctx.at("hermitePolynomials(nodes)");
    for (int k = 0; k < N; k++) H[(size_t)k] = hermitePolynomials((double)gh.x[(size_t)k], c.r, nb);
    const double tol = 256. * nb * EPS;
    // all pairs for small orders, a band and the last rows for large ones (cost)
    for (int i = 0; i < nb; i++)
      for (int j = 0; j <= i; j++)
      {
        if (nb > 24 && !(i - j <= 3 || i >= nb - 3 || j == 0)) continue;
        LD s = 0;
        for (int k = 0; k < N; k++) s += gh.w[(size_t)k] * (LD)H[(size_t)k][i] * (LD)H[(size_t)k][j];
        LD want = (i == j) ? powl((LD)c.r, 2 * i) : 0;
        if (!(fabsl(s - want) <= tol)) { ctx.fail("herm:orthonormality", fmt("integral of H_%d H_%d against the Gaussian density = %.17Lg, expected %.17Lg (r=%g, nbpoly=%d, tol %g)", i, j, s, want, c.r, nb, tol)); return; }
      }
  }

  // (3) expansion: hermiteCondExpElement(y, 0, phi) = sum phi_n H_n(y); with a st. dev. s it is the
  //     Gaussian average of the expansion around y: sum_k w_k Phi(y + s x_k)
  for (double y : c.y)
  {
    VectorDouble phi = toVD(c.phi);
    ctx.at("hermiteCondExpElement");
    double got = hermiteCondExpElement(y, c.s, phi);
    LD want = 0, sumabs = 0, errq = 0;
    if (c.s == 0.)
    {
      std::vector<LD> ref = hermRef(y, nb);
      LD run = 1;
      for (int k = 0; k < nb; k++) { want += c.phi[(size_t)k] * ref[(size_t)k]; run = std::max(run, fabsl(ref[(size_t)k])); sumabs += fabsl(c.phi[(size_t)k]) * run * (k + 1); }
    }
    else
    {
      if (nb > 25) { ctx.label("condexp-skipped:order>25"); continue; } // the quadrature sum cancels too much
      const LD r2 = sqrtl(std::max((LD)0, 1 - (LD)c.s * c.s));
      for (size_t q = 0; q < gh.x.size(); q++)
      {
        std::vector<LD> ref = hermRef((LD)y + (LD)c.s * gh.x[q], nb);
        LD v = 0, va = 0;
        for (int k = 0; k < nb; k++) { v += c.phi[(size_t)k] * ref[(size_t)k]; va += fabsl(c.phi[(size_t)k] * ref[(size_t)k]); }
        want += gh.w[q] * v;
        errq += gh.w[q] * va;
      }
      // magnitude of the terms of the library's recurrence: r^n H_n(y/r)
      LD run = 1;
      std::vector<LD> ref = hermRef(r2 > 0 ? (LD)y / r2 : 0, nb);
      LD rk = 1;
      for (int k = 0; k < nb; k++)
      {
        LD term = (r2 > 0) ? rk * ref[(size_t)k] : powl(fabsl((LD)y), k) / sqrtl(tgammal((LD)k + 1));
        run = std::max(run, fabsl(term));
        sumabs += fabsl(c.phi[(size_t)k]) * run * (k + 1);
        rk *= r2;
      }
    }
    double tol = 64. * EPS * (double)sumabs + 64. * 1.1e-19 * (double)errq * 80;
    if (!(std::fabs(got - (double)want) <= tol)) { ctx.fail(c.s == 0. ? "herm:expansion" : "herm:condexp", fmt("hermiteCondExpElement(%.17g, %g, phi[%d]) = %.17g, reference %.17Lg (tol %g)", y, c.s, nb, got, want, tol)); return; }
  }
  ctx.nontrivial(nb >= 20 || c.r != 1. || c.s != 0.);
  ctx.sig = Hash().add(nb).addq(c.r).addq(c.s).addq(c.y[0]).add((int)c.y.size()).h;
}
VERIF_SUB(hermite, HermCase, genHerm, runHerm);
VERIF_MAIN()
