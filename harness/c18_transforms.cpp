// C18 — data transforms and their inverses compose to the identity (DESIGN.md §5 C18).
// Sub-properties: anamh (Hermite anamorphosis), anamh_degenerate (constant data: fit must not fault),
// aname (empirical anamorphosis), pca (PCA / MAF factors), nscore (VH::normalScore),
// rotation (Rotation), hermite (Hermite polynomials).
// Oracles are written here: own Gaussian cdf/quantile (erfc + Newton, long double), own Gauss-Hermite
// quadrature, own moments / pair sets / rotation matrices.  Tolerances are derived from the methods
// (see /verif/agents/C18/REPORT.txt).
#include "verif.hpp"

#include "Anamorphosis/AnamHermite.hpp"
#include "Anamorphosis/AnamEmpirical.hpp"
#include "Polynomials/Hermite.hpp"
#include "Stats/PCA.hpp"
#include "Db/Db.hpp"
#include "Variogram/VarioParam.hpp"
#include "Variogram/DirParam.hpp"
#include "Geometry/Rotation.hpp"
#include "Matrix/MatrixSquareGeneral.hpp"
#include "Basic/VectorHelper.hpp"
#include "Basic/Law.hpp"
#include "Basic/NamingConvention.hpp"
#include "Space/ASpaceObject.hpp"
#include "Enum/ESpaceType.hpp"
#include "Enum/ELoc.hpp"
#include "geoslib_define.h"

#include <Eigen/Dense>
#include <memory>
#include <algorithm>
#include <numeric>

using namespace vf;
typedef long double LD;
static const double EPS = 2.220446049250313e-16;
static const LD PI_L = 3.14159265358979323846264338327950288L;
static const double NA = 1.234e30; // TEST
static inline bool isNA(double v) { return !(v < 1.e30) || std::isnan(v); }
static void dbg(const std::string& m) { if (getenv("C18_DIAG")) diag("C18DBG " + m); }

// ------------------------------------------------------------------ Gaussian law (oracle) --
static LD pnormL(LD x) { return 0.5L * erfcl(-x / sqrtl(2.L)); }
static LD dnormL(LD x) { return expl(-0.5L * x * x) / sqrtl(2.L * PI_L); }
// quantile: Abramowitz-Stegun 26.2.23 as starting point, Newton on erfc in long double
static LD qnormL(LD p)
{
  if (p <= 0) return -INFINITY;
  if (p >= 1) return INFINITY;
  LD q = (p < 0.5L) ? p : 1 - p;
  LD t = sqrtl(-2 * logl(q));
  LD x = t - (2.515517L + t * (0.802853L + t * 0.010328L)) / (1 + t * (1.432788L + t * (0.189269L + t * 0.001308L)));
  // x approximates the upper quantile of q (x >= 0); refine Q(x) = q
  for (int it = 0; it < 50; it++)
  {
    LD f = 0.5L * erfcl(x / sqrtl(2.L)) - q; // decreasing in x
    LD d = dnormL(x);
    if (d <= 0) break;
    LD dx = f / d;
    x += dx;
    if (fabsl(dx) < 1e-17L * (1 + fabsl(x))) break;
  }
  return (p < 0.5L) ? -x : x;
}
// accuracy of law_invcdf_gaussian at the true quantile x (derived from its algorithm, see report):
// it solves cdf_AS(x) = p by bisection (resolution 1e-7) inside +-1e-3 around the A&S 26.2.23 value
// (|error| < 4.5e-4), cdf_AS = A&S 26.2.17 with |error| < 7.5e-8.
static double tolInvCdf(LD x)
{
  double viaCdf = 2e-7 + 1.5e-7 / (double)dnormL(x);
  return std::min(1.5e-3, viaCdf);
}

// ------------------------------------------------------------------ Hermite reference ------
// gstlearn convention (Hermite.cpp): H0 = 1, H1 = -y, Hn = -(y H(n-1) + sqrt(n-1) H(n-2))/sqrt(n)
// i.e. Hn = (-1)^n He_n / sqrt(n!).  Reference: monic He_n by He(n+1) = y He(n) - n He(n-1)
// (a different recurrence), normalised afterwards, in long double.
static std::vector<LD> hermRef(LD y, int nb)
{
  std::vector<LD> h((size_t)std::max(nb, 1));
  LD hm = 1, hc = y; // He0, He1
  LD lognf = 0;      // log(n!)
  for (int n = 0; n < nb; n++)
  {
    LD he;
    if (n == 0) he = 1;
    else if (n == 1) he = y;
    else
    {
      he = y * hc - (LD)(n - 1) * hm;
      hm = hc;
      hc = he;
    }
    if (n >= 1) lognf += logl((LD)n);
    h[(size_t)n] = ((n & 1) ? -he : he) * expl(-0.5L * lognf);
  }
  return h;
}

// Gauss-Hermite rule for the weight exp(-x^2/2)/sqrt(2 pi): nodes = eigenvalues of the Jacobi matrix
// (off-diagonal sqrt(k)), polished by Newton on the orthonormal polynomial; Christoffel weights.
struct GHRule
{
  std::vector<LD> x, w;
  bool ok = false;
};
static void orthoH(LD x, int n, std::vector<LD>& h) // positive-leading orthonormal h_0..h_n
{
  h.resize((size_t)n + 1);
  h[0] = 1;
  if (n >= 1) h[1] = x;
  for (int k = 2; k <= n; k++) h[(size_t)k] = (x * h[(size_t)k - 1] - sqrtl((LD)(k - 1)) * h[(size_t)k - 2]) / sqrtl((LD)k);
}
static const GHRule& gaussHermite()
{
  static GHRule g;
  if (!g.x.empty()) return g;
  const int N = 80;
  Eigen::MatrixXd J = Eigen::MatrixXd::Zero(N, N);
  for (int k = 0; k + 1 < N; k++) J(k, k + 1) = J(k + 1, k) = std::sqrt((double)(k + 1));
  Eigen::SelfAdjointEigenSolver<Eigen::MatrixXd> es(J, Eigen::EigenvaluesOnly);
  std::vector<LD> h;
  for (int k = 0; k < N; k++)
  {
    LD x = es.eigenvalues()(k);
    for (int it = 0; it < 20; it++)
    {
      orthoH(x, N, h);
      LD d = sqrtl((LD)N) * h[(size_t)N - 1]; // h_N' = sqrt(N) h_(N-1)
      if (d == 0) break;
      LD dx = h[(size_t)N] / d;
      x -= dx;
      if (fabsl(dx) < 1e-18L * (1 + fabsl(x))) break;
    }
    orthoH(x, N - 1, h);
    LD s = 0;
    for (int j = 0; j < N; j++) s += h[(size_t)j] * h[(size_t)j];
    g.x.push_back(x);
    g.w.push_back(1 / s);
  }
  // self-check of the rule (harness error otherwise): moments 0,2,4 and Gram of the reference
  LD m0 = 0, m2 = 0, m4 = 0, g55 = 0, g57 = 0, g6060 = 0;
  for (int k = 0; k < N; k++)
  {
    LD x = g.x[(size_t)k], w = g.w[(size_t)k];
    m0 += w; m2 += w * x * x; m4 += w * x * x * x * x;
    std::vector<LD> r = hermRef(x, 61);
    g55 += w * r[5] * r[5]; g57 += w * r[5] * r[7]; g6060 += w * r[60] * r[60];
  }
  g.ok = fabsl(m0 - 1) < 1e-15L && fabsl(m2 - 1) < 1e-14L && fabsl(m4 - 3) < 1e-13L && fabsl(g55 - 1) < 1e-13L &&
         fabsl(g57) < 1e-13L && fabsl(g6060 - 1) < 1e-12L;
  if (!g.ok) diag(fmt("C18 harness: Gauss-Hermite self-check failed m0=%Lg m2=%Lg m4=%Lg g55=%Lg g57=%Lg g6060=%Lg", m0, m2, m4, g55, g57, g6060));
  return g;
}

// ------------------------------------------------------------------ sample generator -------
static uint64_t splitmix(uint64_t z)
{
  z += 0x9e3779b97f4a7c15ull;
  z = (z ^ (z >> 30)) * 0xbf58476d1ce4e5b9ull;
  z = (z ^ (z >> 27)) * 0x94d049bb133111ebull;
  return z ^ (z >> 31);
}
static double unitFrom(uint64_t h) { return ((double)(h >> 11) + 0.5) / 9007199254740992.0; } // (0,1)

struct Sample
{
  int kind = 0;      // 0 lognormal 1 gamma 2 bimodal 3 discrete(ties) 4 normal 5 rounded lognormal
  double par = 1;    // sigma / shape / separation
  double loc = 0, scl = 1;
  int naMode = 0, wMode = 0; // wMode 0 none 1 positive 2 positive with zero / NA weights
  std::vector<double> z, w;
  template<class A> void io(A& a) { a("kind", kind)("par", par)("loc", loc)("scl", scl)("naMode", naMode)("wMode", wMode)("z", z)("w", w); }
};
// one value of the chosen law from the integer m in [1, 2^20-1] (the only random input)
static double drawValue(int kind, double par, int m)
{
  double u = (double)m / 1048576.0;
  double g = (double)qnormL(u);
  switch (kind)
  {
    case 0: return std::exp(par * g);
    case 1:
    {
      int k = std::max(1, (int)par);
      double s = -std::log(u);
      for (int j = 1; j < k; j++) s -= std::log(unitFrom(splitmix((uint64_t)m * 16 + (uint64_t)j)));
      return s;
    }
    case 2: return g + ((splitmix((uint64_t)m) & 1) ? par : -par);
    case 3: return std::floor(par * std::exp(0.8 * g));
    case 4: return g;
    default: return std::round(100. * std::exp(par * g)) / 100.;
  }
}
// allowW2: weights may contain zeros and NA (AnamHermite skips such samples)
static Sample genSample(int nmin, int nmaxCap, bool allowNAweights, bool positiveOnly)
{
  Sample s;
  s.kind = G::pick({0, 0, 1, 1, 2, 3, 3, 4, 5});
  switch (s.kind)
  {
    case 0: s.par = G::i(2, 15) / 10.; break;
    case 1: s.par = G::pick({1., 2., 3., 5.}); break;
    case 2: s.par = G::i(2, 10) / 2.; break;
    case 3: s.par = G::pick({1., 3., 10.}); break;
    case 4: s.par = 1; break;
    default: s.par = G::i(3, 12) / 10.; break;
  }
  if (positiveOnly && (s.kind == 2 || s.kind == 4 || s.kind == 3)) { s.kind = 5; s.par = G::i(3, 12) / 10.; }
  s.scl = G::pick({1., 1., 1e-3, 1e3, 7.5});
  s.loc = positiveOnly ? G::pick({0., 0., 1., 100.}) : G::pick({0., 0., 0., 10., -50., 1000.});
  int nmax = G::pick({20, 60, 200, 200, 2000});
  nmax = std::min(nmax, nmaxCap);
  int n = G::sz(nmin, nmax);
  s.naMode = G::pick({0, 0, 1});
  s.wMode = G::pick({0, 0, 1, 2});
  if (!allowNAweights && s.wMode == 2) s.wMode = 1;
  s.z.resize((size_t)n);
  for (int i = 0; i < n; i++)
  {
    int m = G::i(1, (1 << 20) - 1);
    double v = s.loc * s.scl + s.scl * drawValue(s.kind, s.par, m);
    if (positiveOnly && !(v > 0)) v = s.scl * 0.01;
    s.z[(size_t)i] = v;
  }
  // at least two distinct defined values: samples 0 and 1 differ, and 0..2 are never NA / unweighted
  if (n >= 2 && s.z[1] == s.z[0]) s.z[1] = s.z[0] + s.scl;
  if (s.naMode == 1)
    for (int i = 3; i < n; i++)
      if (G::pct(20)) s.z[(size_t)i] = NA;
  if (s.wMode > 0)
  {
    s.w.resize((size_t)n);
    for (int i = 0; i < n; i++)
    {
      double w = G::i(1, 40) / 10.;
      if (s.wMode == 2 && i >= 3)
      {
        int c = G::i(0, 9);
        if (c == 0) w = 0;
        else if (c == 1 && allowNAweights) w = NA;
      }
      s.w[(size_t)i] = w;
    }
  }
  return s;
}
struct SampleInfo { int nact = 0, ndistinct = 0, nties = 0, nna = 0; };
static SampleInfo sampleInfo(const std::vector<double>& z, const std::vector<double>& w, const std::vector<int>& sel)
{
  SampleInfo r;
  std::vector<double> a;
  for (size_t i = 0; i < z.size(); i++)
  {
    if (!sel.empty() && !sel[i]) continue;
    if (isNA(z[i])) { r.nna++; continue; }
    if (!w.empty() && (isNA(w[i]) || w[i] <= 0)) continue;
    a.push_back(z[i]);
  }
  std::sort(a.begin(), a.end());
  r.nact = (int)a.size();
  for (size_t i = 0; i < a.size(); i++)
    if (i == 0 || a[i] != a[i - 1]) r.ndistinct++;
  r.nties = r.nact - r.ndistinct;
  return r;
}
static VectorDouble toVD(const std::vector<double>& v)
{
  VectorDouble r((int)v.size());
  for (size_t i = 0; i < v.size(); i++) r[(int)i] = v[i];
  return r;
}
static VectorDouble toVDi(const std::vector<int>& v)
{
  VectorDouble r((int)v.size());
  for (size_t i = 0; i < v.size(); i++) r[(int)i] = (double)v[i];
  return r;
}
static std::string nClass(int n) { return n <= 20 ? "n:<=20" : (n <= 200 ? "n:21-200" : "n:>200"); }

// =================================================================== (a) AnamHermite ========
struct AnamHCase
{
  Sample s;
  int nbpoly = 3;
  int flagBound = 1;
  int viaDb = 0;  // fit and transform through a Db (selection, weight locator, CalcAnamTransform)
  int refit = 0;  // the same object is first fitted on a prefix of the data (state must not leak)
  std::vector<int> sel; // used when viaDb
  std::vector<double> t; // probe positions in (0,1)
  template<class A> void io(A& a) { a("s", s)("nbpoly", nbpoly)("flagBound", flagBound)("viaDb", viaDb)("refit", refit)("sel", sel)("t", t); }
};
static AnamHCase genAnamH()
{
  AnamHCase c;
  c.s = genSample(5, 2000, true, false);
  c.nbpoly = G::pick({0, 0, 1}) == 1 ? G::i(20, 60) : G::i(2, 30);
  c.flagBound = G::pct(75) ? 1 : 0;
  c.viaDb = G::pct(30) ? 1 : 0;
  c.refit = G::pct(8) ? 1 : 0;
  if (c.viaDb && G::b())
  {
    c.sel.resize(c.s.z.size());
    for (size_t i = 0; i < c.sel.size(); i++) c.sel[i] = (i < 3) ? 1 : (G::pct(75) ? 1 : 0);
  }
  int np = G::i(6, 16);
  for (int k = 0; k < np; k++) c.t.push_back(G::u(0., 1.));
  return c;
}

struct AnamFns
{
  const AnamContinuous* a;
  double fwd(double y) const { VectorDouble v(1); v[0] = y; return a->gaussianToRawVector(v)[0]; }
  double inv(double z) const { VectorDouble v(1); v[0] = z; return a->rawToGaussianVector(v)[0]; }
};
// is the forward function non-decreasing on [lo,hi] at a resolution of (hi-lo)/npts ?
static bool fineMonotone(const AnamFns& f, double lo, double hi, double slack, int npts = 240)
{
  double prev = f.fwd(lo);
  for (int k = 1; k <= npts; k++)
  {
    double z = f.fwd(lo + (hi - lo) * k / npts);
    if (z < prev - slack) return false;
    prev = std::max(prev, z);
  }
  return true;
}

static void runAnamH(const AnamHCase& c, Ctx& ctx)
{
  const int n = (int)c.s.z.size();
  SampleInfo si = sampleInfo(c.s.z, c.s.w, c.viaDb ? c.sel : std::vector<int>());
  ctx.label(fmt("kind:%d", c.s.kind));
  ctx.label(nClass(n));
  ctx.label(c.nbpoly >= 20 ? "order:>=20" : "order:<20");
  ctx.label(c.flagBound ? "bound:on" : "bound:off");
  if (c.viaDb) ctx.label("via:db"); else ctx.label("via:array");
  if (si.nties) ctx.label("ties");
  if (si.nna) ctx.label("na");
  if (c.s.wMode) ctx.label("weights");
  if (c.refit) ctx.label("refit");
  if (si.ndistinct < 2) { ctx.inconclusive("fewer-than-2-distinct-values"); return; }
  const std::string pre = c.refit ? "anamH:refit:" : "anamH:";

  AnamHermite anam(c.nbpoly, c.flagBound != 0);
  std::unique_ptr<Db> db;
  if (c.refit)
  {
    // first fit: the data shifted and stretched (another distribution on the same object)
    VectorDouble z0 = toVD(c.s.z);
    for (int i = 0; i < n; i++)
      if (!isNA(z0[i])) z0[i] = 3. * z0[i] + 11. * c.s.scl;
    ctx.at("AnamHermite::fitFromArray(first)");
    (void)anam.fitFromArray(z0, toVD(c.s.w));
  }
  int err;
  if (c.viaDb)
  {
    db.reset(Db::create());
    db->addColumns(toVD(c.s.z), "z", ELoc::Z, 0);
    if (!c.s.w.empty()) db->addColumns(toVD(c.s.w), "w", ELoc::W, 0);
    if (!c.sel.empty()) db->addColumns(toVDi(c.sel), "sel", ELoc::SEL, 0);
    ctx.at("AAnam::fit");
    err = anam.fit(db.get(), "z");
  }
  else
  {
    ctx.at("AnamHermite::fitFromArray");
    err = anam.fitFromArray(toVD(c.s.z), toVD(c.s.w));
  }
  if (err != 0) { ctx.fail(pre + "fit-error", fmt("fit returned %d on %d active samples with %d distinct values", err, si.nact, si.ndistinct)); return; }

  const double pymin = anam.getPymin(), pymax = anam.getPymax(), pzmin = anam.getPzmin(), pzmax = anam.getPzmax();
  const double aymin = anam.getAymin(), aymax = anam.getAymax(), azmin = anam.getAzmin(), azmax = anam.getAzmax();
  const double b[8] = {pymin, pymax, pzmin, pzmax, aymin, aymax, azmin, azmax};
  for (double v : b)
    if (isNA(v) || !std::isfinite(v))
    {
      ctx.fail(pre + "bounds-undefined", fmt("a reported bound is undefined: py[%g,%g] pz[%g,%g] ay[%g,%g] az[%g,%g]", pymin, pymax, pzmin, pzmax, aymin, aymax, azmin, azmax));
      return;
    }
  if (azmin > azmax || aymin > aymax || pzmin > pzmax || pymin > pymax)
  {
    ctx.fail(pre + "interval-inverted", fmt("a reported interval has min > max: py[%g,%g] pz[%g,%g] ay[%g,%g] az[%g,%g] nbpoly=%d", pymin, pymax, pzmin, pzmax, aymin, aymax, azmin, azmax, c.nbpoly));
    return;
  }
  // the interval on which the transform is claimed valid: practical interval, within the absolute one
  // (values outside the absolute interval are clamped by design when flagBound is set)
  const double ylo = std::max(pymin, aymin), yhi = std::min(pymax, aymax);
  const double zlo = std::max(pzmin, azmin), zhi = std::min(pzmax, azmax);
  if (!(yhi - ylo > 0.35) || !(zhi > zlo))
  {
    ctx.label("empty-interval");
    dbg(fmt("empty: py[%g,%g] pz[%g,%g] ay[%g,%g] az[%g,%g] nb=%d fb=%d n=%d", pymin, pymax, pzmin, pzmax, aymin, aymax, azmin, azmax, c.nbpoly, c.flagBound, n));
    ctx.inconclusive("reported-interval-narrower-than-3-grid-steps");
    return;
  }
  if (!(ylo <= 0. && 0. <= yhi) && !c.flagBound)
  {
    // without bounds the inverse searches the raw polynomial from y = 0: outside the practical interval
    // it is not claimed to be monotone, so the branch reached is not determined
    ctx.label("zero-outside-py:bound-off");
    ctx.inconclusive("bound-off-and-zero-outside-practical-interval");
    return;
  }
  if (!(ylo <= 0. && 0. <= yhi)) ctx.label("zero-outside-py");
  AnamFns f{&anam};
  const double zscale = std::max(std::fabs(zlo), std::fabs(zhi));
  const double rnd = 64 * EPS * zscale;
  ctx.at("AnamContinuous::gaussianToRawVector");
  const double dzmax = std::fabs(f.fwd(1.) - f.fwd(-1.)) / 100000.; // the method's own resolution in z
  const double delta = 1.5e-7;                                       // ... and in y (dymax = 1e-7)

  // (1) monotone on the method's grid (multiples of YPAS = 0.1 built as the library does) inside the interval
  {
    std::vector<double> grid;
    double y = 0;
    std::vector<double> neg;
    for (int k = 0; k < 100; k++) { y -= 0.1; neg.push_back(y); }
    for (int k = 99; k >= 0; k--) grid.push_back(neg[(size_t)k]);
    grid.push_back(0.);
    y = 0;
    for (int k = 0; k < 100; k++) { y += 0.1; grid.push_back(y); }
    VectorDouble yy;
    for (double g : grid)
      if (g >= ylo && g <= yhi) yy.push_back(g);
    VectorDouble zz = anam.gaussianToRawVector(yy);
    for (int k = 1; k < (int)yy.size(); k++)
      if (zz[k] < zz[k - 1] - rnd)
      {
        ctx.fail(pre + "not-monotone", fmt("z(%.3f)=%.17g > z(%.3f)=%.17g inside the reported interval y[%g,%g]", yy[k - 1], zz[k - 1], yy[k], zz[k], ylo, yhi));
        return;
      }
  }

  // (2) raw -> gaussian -> raw
  // The method locates the ends of the monotone stretch on a grid of step YPAS = 0.1 only: the turning
  // point may lie anywhere inside the end cells, so the claim is tested one grid step inside.
  int checked = 0, flat = 0;
  const double YPAS = 0.1;
  const double yl = ylo + YPAS, yh = yhi - YPAS;
  const double zl = std::max(zlo, f.fwd(yl)), zh = std::min(zhi, f.fwd(yh));
  const double mz = std::max(1e-6 * (zhi - zlo), 2 * dzmax);
  // excuse for a mismatch: the transform is not monotone at sub-grid resolution between the two points
  auto subgrid = [&](double ya, double yb) {
    if (ya > yb) std::swap(ya, yb);
    if (ya < ylo - 1e-6 || yb > yhi + 1e-6) return false; // left the reported interval: no excuse
    return !fineMonotone(f, std::max(ylo, ya - YPAS), std::min(yhi, yb + YPAS), rnd);
  };
  if (zh - zl > 4 * mz)
  {
    VectorDouble zp;
    for (double t : c.t) zp.push_back(zl + mz + t * (zh - zl - 2 * mz));
    ctx.at("AnamContinuous::rawToGaussianVector");
    VectorDouble yq = anam.rawToGaussianVector(zp);
    ctx.at("AnamContinuous::gaussianToRawVector");
    VectorDouble zq = anam.gaussianToRawVector(yq);
    for (int k = 0; k < (int)zp.size(); k++)
    {
      double slope = std::max(0., f.fwd(yq[k] + delta) - f.fwd(yq[k] - delta));
      double tol = dzmax + slope + rnd;
      checked++;
      if (!(std::fabs(zq[k] - zp[k]) <= tol))
      {
        if (subgrid(yq[k], yq[k])) { dbg(fmt("subgrid z: z=%g y=%g zback=%g tol=%g y[%g,%g] z[%g,%g] ay[%g,%g] az[%g,%g] nb=%d fb=%d", zp[k], yq[k], zq[k], tol, ylo, yhi, zlo, zhi, aymin, aymax, azmin, azmax, c.nbpoly, c.flagBound)); ctx.inconclusive("subgrid-nonmonotone"); return; }
        ctx.fail(pre + "z-roundtrip", fmt("z=%.17g -> y=%.17g -> z=%.17g: |diff|=%g > tol=%g (dzmax=%g) interval z[%g,%g] y[%g,%g] nbpoly=%d", zp[k], yq[k], zq[k], std::fabs(zq[k] - zp[k]), tol, dzmax, zlo, zhi, ylo, yhi, c.nbpoly));
        return;
      }
    }
  }

  // (3) gaussian -> raw -> gaussian
  {
    VectorDouble yp;
    const double my = 1e-6;
    for (double t : c.t) yp.push_back(yl + my + t * (yh - yl - 2 * my));
    VectorDouble zq = anam.gaussianToRawVector(yp);
    ctx.at("AnamContinuous::rawToGaussianVector");
    VectorDouble yq = anam.rawToGaussianVector(zq);
    for (int k = 0; k < (int)yp.size(); k++)
    {
      // smallest eta such that every y'' with |z(y'') - z| <= dzmax lies within eta of y
      double eta = -1;
      for (double e : {1e-6, 1e-5, 1e-4, 1e-3, 1e-2, 1e-1, 0.5})
      {
        if (f.fwd(yp[k] + e) - zq[k] > 2 * dzmax + rnd && zq[k] - f.fwd(yp[k] - e) > 2 * dzmax + rnd) { eta = e; break; }
      }
      if (eta < 0) { flat++; continue; }
      checked++;
      if (!(std::fabs(yq[k] - yp[k]) <= eta + 2e-7))
      {
        if (subgrid(yp[k], yq[k])) { dbg(fmt("subgrid y: y=%g z=%g yback=%g eta=%g y[%g,%g] z[%g,%g] ay[%g,%g] az[%g,%g] nb=%d fb=%d", yp[k], zq[k], yq[k], eta, ylo, yhi, zlo, zhi, aymin, aymax, azmin, azmax, c.nbpoly, c.flagBound)); ctx.inconclusive("subgrid-nonmonotone"); return; }
        ctx.fail(pre + "y-roundtrip", fmt("y=%.17g -> z=%.17g -> y=%.17g: |diff|=%g > eta=%g interval y[%g,%g] z[%g,%g] ay[%g,%g] nbpoly=%d", yp[k], zq[k], yq[k], std::fabs(yq[k] - yp[k]), eta, ylo, yhi, zlo, zhi, aymin, aymax, c.nbpoly));
        return;
      }
    }
  }
  if (flat) ctx.label("flat-probe");

  // (4) Db level: rawToGaussian then gaussianToRaw on the samples (CalcAnamTransform)
  if (c.viaDb)
  {
    ctx.at("AAnam::rawToGaussian");
    if (anam.rawToGaussian(db.get(), "z") != 0) { ctx.fail(pre + "db-z2y-error", "rawToGaussian(db) failed"); return; }
    std::string yname = db->getLastName();
    VectorDouble yv = db->getColumn(yname, false, false);
    ctx.at("AAnam::gaussianToRaw");
    if (anam.gaussianToRaw(db.get(), yname) != 0) { ctx.fail(pre + "db-y2z-error", "gaussianToRaw(db) failed"); return; }
    VectorDouble zv = db->getColumn(db->getLastName(), false, false);
    if ((int)zv.size() != n || (int)yv.size() != n) { ctx.fail(pre + "db-size", "transformed column has another length"); return; }
    for (int i = 0; i < n; i++)
    {
      bool act = c.sel.empty() || c.sel[(size_t)i];
      double z = c.s.z[(size_t)i];
      if (!act || isNA(z)) continue;
      if (isNA(yv[i]) || isNA(zv[i])) { ctx.fail(pre + "db-undefined", fmt("active defined sample %d is transformed to NA", i)); return; }
      if (!(z > zl + mz && z < zh - mz)) continue;
      double slope = std::max(0., f.fwd(yv[i] + delta) - f.fwd(yv[i] - delta));
      double tol = dzmax + slope + rnd;
      checked++;
      if (!(std::fabs(zv[i] - z) <= tol))
      {
        if (subgrid(yv[i], yv[i])) { ctx.inconclusive("subgrid-nonmonotone"); return; }
        ctx.fail(pre + "db-z-roundtrip", fmt("sample %d z=%.17g -> y=%.17g -> z=%.17g tol=%g", i, z, yv[i], zv[i], tol));
        return;
      }
    }
  }
  ctx.nontrivial(checked > 0 && (si.nties > 0 || si.nna > 0 || c.nbpoly >= 20));
  ctx.sig = Hash().add(c.s.kind).add(c.nbpoly).add(c.flagBound).add(c.viaDb).add(c.s.wMode).add(c.s.naMode).add(n).addq(c.s.z[0]).h;
}
VERIF_SUB(anamh, AnamHCase, genAnamH, runAnamH);

// constant data (every active value equal): outside the round-trip statement (there is no interval),
// but the fit must either refuse or report ordered finite bounds, without faulting.
struct AnamDegCase
{
  int n = 1, nbpoly = 3;
  double v = 1;
  int naEvery = 0, withW = 0;
  template<class A> void io(A& a) { a("n", n)("nbpoly", nbpoly)("v", v)("naEvery", naEvery)("withW", withW); }
};
static AnamDegCase genAnamDeg()
{
  AnamDegCase c;
  c.n = G::sz(1, 40);
  c.nbpoly = G::i(2, 30);
  c.v = G::pick({0., 1., -3.5, 1e3});
  c.naEvery = G::pick({0, 0, 3});
  c.withW = G::b();
  return c;
}
static void runAnamDeg(const AnamDegCase& c, Ctx& ctx)
{
  VectorDouble z(c.n), w;
  for (int i = 0; i < c.n; i++) z[i] = (c.naEvery && i % c.naEvery == 1) ? NA : c.v;
  if (c.withW) { w.resize(c.n); for (int i = 0; i < c.n; i++) w[i] = 1. + (i % 3); }
  ctx.label(c.n == 1 ? "n:1" : "n:>1");
  AnamHermite anam(c.nbpoly);
  ctx.at("AnamHermite::fitFromArray(constant)");
  int err = anam.fitFromArray(z, w);
  ctx.nontrivial(true);
  if (err != 0) { ctx.label("refused"); return; }
  double b[4] = {anam.getPzmin(), anam.getPzmax(), anam.getPymin(), anam.getPymax()};
  for (double x : b)
    if (isNA(x) || !std::isfinite(x)) { ctx.fail("anamH:constant:bounds", fmt("constant data accepted but bounds undefined pz[%g,%g] py[%g,%g]", b[0], b[1], b[2], b[3])); return; }
  if (std::fabs(anam.getMean() - c.v) > 1e-6 * (1 + std::fabs(c.v))) ctx.fail("anamH:constant:mean", fmt("constant data %g accepted, mean of the fitted transform = %.17g", c.v, anam.getMean()));
}
VERIF_SUB(anamh_degenerate, AnamDegCase, genAnamDeg, runAnamDeg);
VERIF_MAIN()
