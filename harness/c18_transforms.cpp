// C18 — data transforms and their inverses compose to the identity (DESIGN.md §5 C18).
// Sub-properties: anamh (Hermite anamorphosis), anamh_degenerate (constant data: fit must not fault),
// aname (empirical anamorphosis), pca (PCA / MAF factors), nscore (VH::normalScore),
// rotation (Rotation), hermite (Hermite polynomials).
// Oracles are written here: own Gaussian cdf/quantile (erfc + Newton, long double), own Gauss-Hermite
// quadrature, own moments / pair sets / rotation matrices.  Tolerances are derived from the methods
// (see /verif/agents/C18/REPORT.txt).
#include "verif.hpp"

#include "Anamorphosis/AnamHermite.hpp"
#include "Anamorphosis/AnamEmpirical.hpp"
#include "Polynomials/Hermite.hpp"
#include "Stats/PCA.hpp"
#include "Db/Db.hpp"
#include "Variogram/VarioParam.hpp"
#include "Variogram/DirParam.hpp"
#include "Geometry/Rotation.hpp"
#include "Matrix/MatrixSquareGeneral.hpp"
#include "Basic/VectorHelper.hpp"
#include "Basic/Law.hpp"
#include "Basic/NamingConvention.hpp"
#include "Space/ASpaceObject.hpp"
#include "Enum/ESpaceType.hpp"
#include "Enum/ELoc.hpp"
#include "geoslib_define.h"

#include <Eigen/Dense>
#include <memory>
#include <algorithm>
#include <numeric>

using namespace vf;
typedef long double LD;
static const double EPS = 2.220446049250313e-16;
static const LD PI_L = 3.14159265358979323846264338327950288L;
static const double NA = 1.234e30; // TEST
static inline bool isNA(double v) { return !(v < 1.e30) || std::isnan(v); }

// ------------------------------------------------------------------ Gaussian law (oracle) --
static LD pnormL(LD x) { return 0.5L * erfcl(-x / sqrtl(2.L)); }
static LD dnormL(LD x) { return expl(-0.5L * x * x) / sqrtl(2.L * PI_L); }
// quantile: Abramowitz-Stegun 26.2.23 as starting point, Newton on erfc in long double
static LD qnormL(LD p)
{
  if (p <= 0) return -INFINITY;
  if (p >= 1) return INFINITY;
  LD q = (p < 0.5L) ? p : 1 - p;
  LD t = sqrtl(-2 * logl(q));
  LD x = t - (2.515517L + t * (0.802853L + t * 0.010328L)) / (1 + t * (1.432788L + t * (0.189269L + t * 0.001308L)));
  // x approximates the upper quantile of q (x >= 0); refine Q(x) = q
  for (int it = 0; it < 50; it++)
  {
    LD f = 0.5L * erfcl(x / sqrtl(2.L)) - q; // decreasing in x
    LD d = dnormL(x);
    if (d <= 0) break;
    LD dx = f / d;
    x += dx;
    if (fabsl(dx) < 1e-17L * (1 + fabsl(x))) break;
  }
  return (p < 0.5L) ? -x : x;
}
// accuracy of law_invcdf_gaussian at the true quantile x (derived from its algorithm, see report):
// it solves cdf_AS(x) = p by bisection (resolution 1e-7) inside +-1e-3 around the A&S 26.2.23 value
// (|error| < 4.5e-4), cdf_AS = A&S 26.2.17 with |error| < 7.5e-8.
static double tolInvCdf(LD x)
{
  double viaCdf = 2e-7 + 1.5e-7 / (double)dnormL(x);
  return std::min(1.5e-3, viaCdf);
}

// ------------------------------------------------------------------ Hermite reference ------
// gstlearn convention (Hermite.cpp): H0 = 1, H1 = -y, Hn = -(y H(n-1) + sqrt(n-1) H(n-2))/sqrt(n)
// i.e. Hn = (-1)^n He_n / sqrt(n!).  Reference: monic He_n by He(n+1) = y He(n) - n He(n-1)
// (a different recurrence), normalised afterwards, in long double.
static std::vector<LD> hermRef(LD y, int nb)
{
  std::vector<LD> h((size_t)std::max(nb, 1));
  LD hm = 1, hc = y; // He0, He1
  LD lognf = 0;      // log(n!)
  for (int n = 0; n < nb; n++)
  {
    LD he;
    if (n == 0) he = 1;
    else if (n == 1) he = y;
    else
    {
      he = y * hc - (LD)(n - 1) * hm;
      hm = hc;
      hc = he;
    }
    if (n >= 1) lognf += logl((LD)n);
    h[(size_t)n] = ((n & 1) ? -he : he) * expl(-0.5L * lognf);
  }
  return h;
}

// Gauss-Hermite rule for the weight exp(-x^2/2)/sqrt(2 pi): nodes = eigenvalues of the Jacobi matrix
// (off-diagonal sqrt(k)), polished by Newton on the orthonormal polynomial; Christoffel weights.
struct GH
{
  std::vector<LD> x, w;
  bool ok = false;
};
static void orthoH(LD x, int n, std::vector<LD>& h) // positive-leading orthonormal h_0..h_n
{
  h.resize((size_t)n + 1);
  h[0] = 1;
  if (n >= 1) h[1] = x;
  for (int k = 2; k <= n; k++) h[(size_t)k] = (x * h[(size_t)k - 1] - sqrtl((LD)(k - 1)) * h[(size_t)k - 2]) / sqrtl((LD)k);
}
static const GH& gaussHermite()
{
  static GH g;
  if (!g.x.empty()) return g;
  const int N = 80;
  Eigen::MatrixXd J = Eigen::MatrixXd::Zero(N, N);
  for (int k = 0; k + 1 < N; k++) J(k, k + 1) = J(k + 1, k) = std::sqrt((double)(k + 1));
  Eigen::SelfAdjointEigenSolver<Eigen::MatrixXd> es(J, Eigen::EigenvaluesOnly);
  std::vector<LD> h;
  for (int k = 0; k < N; k++)
  {
    LD x = es.eigenvalues()(k);
    for (int it = 0; it < 20; it++)
    {
      orthoH(x, N, h);
      LD d = sqrtl((LD)N) * h[(size_t)N - 1]; // h_N' = sqrt(N) h_(N-1)
      if (d == 0) break;
      LD dx = h[(size_t)N] / d;
      x -= dx;
      if (fabsl(dx) < 1e-18L * (1 + fabsl(x))) break;
    }
    orthoH(x, N - 1, h);
    LD s = 0;
    for (int j = 0; j < N; j++) s += h[(size_t)j] * h[(size_t)j];
    g.x.push_back(x);
    g.w.push_back(1 / s);
  }
  // self-check of the rule (harness error otherwise): moments 0,2,4 and Gram of the reference
  LD m0 = 0, m2 = 0, m4 = 0, g55 = 0, g57 = 0, g6060 = 0;
  for (int k = 0; k < N; k++)
  {
    LD x = g.x[(size_t)k], w = g.w[(size_t)k];
    m0 += w; m2 += w * x * x; m4 += w * x * x * x * x;
    std::vector<LD> r = hermRef(x, 61);
    g55 += w * r[5] * r[5]; g57 += w * r[5] * r[7]; g6060 += w * r[60] * r[60];
  }
  g.ok = fabsl(m0 - 1) < 1e-15L && fabsl(m2 - 1) < 1e-14L && fabsl(m4 - 3) < 1e-13L && fabsl(g55 - 1) < 1e-13L &&
         fabsl(g57) < 1e-13L && fabsl(g6060 - 1) < 1e-12L;
  if (!g.ok) diag(fmt("C18 harness: Gauss-Hermite self-check failed m0=%Lg m2=%Lg m4=%Lg g55=%Lg g57=%Lg g6060=%Lg", m0, m2, m4, g55, g57, g6060));
  return g;
}

// ------------------------------------------------------------------ sample generator -------
static uint64_t splitmix(uint64_t z)
{
  z += 0x9e3779b97f4a7c15ull;
  z = (z ^ (z >> 30)) * 0xbf58476d1ce4e5b9ull;
  z = (z ^ (z >> 27)) * 0x94d049bb133111ebull;
  return z ^ (z >> 31);
}
static double unitFrom(uint64_t h) { return ((double)(h >> 11) + 0.5) / 9007199254740992.0; } // (0,1)

struct Sample
{
  int kind = 0;      // 0 lognormal 1 gamma 2 bimodal 3 discrete(ties) 4 normal 5 rounded lognormal
  double par = 1;    // sigma / shape / separation
  double loc = 0, scl = 1;
  int naMode = 0, wMode = 0; // wMode 0 none 1 positive 2 positive with zero / NA weights
  std::vector<double> z, w;
  template<class A> void io(A& a) { a("kind", kind)("par", par)("loc", loc)("scl", scl)("naMode", naMode)("wMode", wMode)("z", z)("w", w); }
};
// one value of the chosen law from the integer m in [1, 2^20-1] (the only random input)
static double drawValue(int kind, double par, int m)
{
  double u = (double)m / 1048576.0;
  double g = (double)qnormL(u);
  switch (kind)
  {
    case 0: return std::exp(par * g);
    case 1:
    {
      int k = std::max(1, (int)par);
      double s = -std::log(u);
      for (int j = 1; j < k; j++) s -= std::log(unitFrom(splitmix((uint64_t)m * 16 + (uint64_t)j)));
      return s;
    }
    case 2: return g + ((splitmix((uint64_t)m) & 1) ? par : -par);
    case 3: return std::floor(par * std::exp(0.8 * g));
    case 4: return g;
    default: return std::round(100. * std::exp(par * g)) / 100.;
  }
}
// allowW2: weights may contain zeros and NA (AnamHermite skips such samples)
static Sample genSample(int nmin, int nmaxCap, bool allowNAweights, bool positiveOnly)
{
  Sample s;
  s.kind = G::pick({0, 0, 1, 1, 2, 3, 3, 4, 5});
  switch (s.kind)
  {
    case 0: s.par = G::r(2, 15, 10); break;
    case 1: s.par = G::pick({1., 2., 3., 5.}); break;
    case 2: s.par = G::r(1, 5, 2); break;
    case 3: s.par = G::pick({1., 3., 10.}); break;
    case 4: s.par = 1; break;
    default: s.par = G::r(3, 12, 10); break;
  }
  if (positiveOnly && (s.kind == 2 || s.kind == 4 || s.kind == 3)) { s.kind = 5; s.par = G::r(3, 12, 10); }
  s.scl = G::pick({1., 1., 1e-3, 1e3, 7.5});
  s.loc = positiveOnly ? G::pick({0., 0., 1., 100.}) : G::pick({0., 0., 0., 10., -50., 1000.});
  int nmax = G::pick({20, 60, 200, 200, 2000});
  nmax = std::min(nmax, nmaxCap);
  int n = G::sz(nmin, nmax);
  s.naMode = G::pick({0, 0, 1});
  s.wMode = G::pick({0, 0, 1, 2});
  if (!allowNAweights && s.wMode == 2) s.wMode = 1;
  s.z.resize((size_t)n);
  for (int i = 0; i < n; i++)
  {
    int m = G::i(1, (1 << 20) - 1);
    double v = s.loc * s.scl + s.scl * drawValue(s.kind, s.par, m);
    if (positiveOnly && !(v > 0)) v = s.scl * 0.01;
    s.z[(size_t)i] = v;
  }
  // at least two distinct defined values: samples 0 and 1 differ, and 0..2 are never NA / unweighted
  if (n >= 2 && s.z[1] == s.z[0]) s.z[1] = s.z[0] + s.scl;
  if (s.naMode == 1)
    for (int i = 3; i < n; i++)
      if (G::pct(20)) s.z[(size_t)i] = NA;
  if (s.wMode > 0)
  {
    s.w.resize((size_t)n);
    for (int i = 0; i < n; i++)
    {
      double w = G::r(1, 40, 10);
      if (s.wMode == 2 && i >= 3)
      {
        int c = G::i(0, 9);
        if (c == 0) w = 0;
        else if (c == 1 && allowNAweights) w = NA;
      }
      s.w[(size_t)i] = w;
    }
  }
  return s;
}
struct SampleInfo { int nact = 0, ndistinct = 0, nties = 0, nna = 0; };
static SampleInfo sampleInfo(const std::vector<double>& z, const std::vector<double>& w, const std::vector<int>& sel)
{
  SampleInfo r;
  std::vector<double> a;
  for (size_t i = 0; i < z.size(); i++)
  {
    if (!sel.empty() && !sel[i]) continue;
    if (isNA(z[i])) { r.nna++; continue; }
    if (!w.empty() && (isNA(w[i]) || w[i] <= 0)) continue;
    a.push_back(z[i]);
  }
  std::sort(a.begin(), a.end());
  r.nact = (int)a.size();
  for (size_t i = 0; i < a.size(); i++)
    if (i == 0 || a[i] != a[i - 1]) r.ndistinct++;
  r.nties = r.nact - r.ndistinct;
  return r;
}
static VectorDouble toVD(const std::vector<double>& v)
{
  VectorDouble r((int)v.size());
  for (size_t i = 0; i < v.size(); i++) r[(int)i] = v[i];
  return r;
}
static VectorDouble toVDi(const std::vector<int>& v)
{
  VectorDouble r((int)v.size());
  for (size_t i = 0; i < v.size(); i++) r[(int)i] = (double)v[i];
  return r;
}
static std::string nClass(int n) { return n <= 20 ? "n:<=20" : (n <= 200 ? "n:21-200" : "n:>200"); }
