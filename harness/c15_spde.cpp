// C15 — SPDE operators, projections and solvers are mutually consistent (DESIGN.md §5 C15).
// Oracles written here: sparse/dense long-double algebra (spde_common.hpp), mesh geometry known to the
// harness (grid nodes computed from nx/dx/x0/angles, jittered copies), barycentric weights by construction.
#include "spde_common.hpp"

#include "LinearOp/ShiftOpCs.hpp"
#include "LinearOp/PrecisionOp.hpp"
#include "LinearOp/PrecisionOpCs.hpp"
#include "LinearOp/ProjMatrix.hpp"
#include "LinearOp/CholeskySparse.hpp"
#include "LinearOp/PrecisionOpMultiConditional.hpp"
#include "LinearOp/PrecisionOpMultiConditionalCs.hpp"
#include "LinearOp/PrecisionOpMulti.hpp"
#include "LinearOp/PrecisionOpMultiMatrix.hpp"
#include "LinearOp/ProjMultiMatrix.hpp"
#include "LinearOp/SPDEOp.hpp"
#include "LinearOp/SPDEOpMatrix.hpp"
#include "LinearOp/MatrixSquareSymmetricSim.hpp"
#include "Polynomials/APolynomial.hpp"
#include "API/SPDE.hpp"
#include "API/SPDEParam.hpp"

using namespace vf;
using namespace vfspde;

static std::vector<double> genVec(int n, int style)
{
  std::vector<double> x((size_t)n);
  for (int i = 0; i < n; i++)
  {
    if (style == 0) x[(size_t)i] = G::r(-8, 8, 8);
    else if (style == 1) x[(size_t)i] = std::sin(0.7 * i + 0.3);
    else x[(size_t)i] = 0.;
  }
  if (style == 2) x[(size_t)G::i(0, n - 1)] = 1.;
  return x;
}
// a vector of the case (size fixed at generation time: larger than any mesh) cut to n
static std::vector<double> cut(const std::vector<double>& v, int n)
{
  std::vector<double> x((size_t)n);
  for (int i = 0; i < n; i++) x[(size_t)i] = v[(size_t)i % v.size()];
  bool allz = true;
  for (double e : x)
    if (e != 0) allz = false;
  if (allz) x[0] = 1.;
  return x;
}

// reference y = Lambda P(S) Lambda x
static void refQx(const Sp& S, const std::vector<LD>& lam, const std::vector<LD>& coef, const std::vector<LD>& x, std::vector<LD>& y,
                  std::vector<LD>* absy = nullptr)
{
  int n = S.nr;
  std::vector<LD> v((size_t)n), h((size_t)n), t, ha((size_t)n), ta;
  for (int i = 0; i < n; i++) v[(size_t)i] = lam[(size_t)i] * x[(size_t)i];
  for (int i = 0; i < n; i++) { h[(size_t)i] = coef.back() * v[(size_t)i]; ha[(size_t)i] = fabsl(h[(size_t)i]); }
  for (int k = (int)coef.size() - 2; k >= 0; k--)
  {
    S.mul(h, t);
    S.mulAbs(ha, ta);
    for (int i = 0; i < n; i++)
    {
      h[(size_t)i] = t[(size_t)i] + coef[(size_t)k] * v[(size_t)i];
      ha[(size_t)i] = ta[(size_t)i] + fabsl(coef[(size_t)k] * v[(size_t)i]);
    }
  }
  y.resize((size_t)n);
  for (int i = 0; i < n; i++) y[(size_t)i] = lam[(size_t)i] * h[(size_t)i];
  if (absy)
  {
    absy->resize((size_t)n);
    for (int i = 0; i < n; i++) (*absy)[(size_t)i] = lam[(size_t)i] * ha[(size_t)i];
  }
}

// =====================================================================================
// sub-property "precision": (a) matrix-free = assembled = Lambda P(S) Lambda, (b) Q symmetric PD
// =====================================================================================
struct PrecCase
{
  MeshSpec mesh;
  CovSpec cov;
  int eigen = 1;
  std::vector<double> x1, x2, y0;
  int unit = 0;
  template<class A> void io(A& a) { a("mesh", mesh)("cov", cov)("eigen", eigen)("x1", x1)("x2", x2)("y0", y0)("unit", unit); }
};
static PrecCase genPrec()
{
  PrecCase c;
  c.mesh = genMeshSpec(400, {0, 0, 1, 2, 2, 3});
  double sc = G::pick<double>({1e-6, 1., 1., 1e4});
  c.cov = genCov(c.mesh.ndim, c.mesh.cell(), sc, true);
  c.eigen = G::pct(75) ? 1 : 0;
  int n = 40;
  for (int i = 0; i < n; i++) c.x1.push_back(G::r(-8, 8, 8));
  for (int i = 0; i < n; i++) c.x2.push_back(G::pct(50) ? 0. : G::r(-100, 100, 1));
  for (int i = 0; i < n; i++) c.y0.push_back(G::r(-8, 8, 8));
  c.unit = G::i(0, 1 << 20);
  return c;
}

static bool cmpVec(Ctx& ctx, const std::string& key, const std::string& what, const double* got, const std::vector<LD>& ref,
                   const std::vector<LD>& scale, double rel)
{
  LD sc = 0;
  for (auto v : scale) sc = std::max(sc, fabsl(v));
  for (size_t i = 0; i < ref.size(); i++)
  {
    if (!(fabsl((LD)got[i] - ref[i]) <= (LD)rel * sc))
    {
      ctx.fail(key, what + fmt(": component %d = %.17g, expected %.17Lg (scale %Lg)", (int)i, got[i], ref[i], sc));
      return false;
    }
  }
  return true;
}

static void runPrec(const PrecCase& c, Ctx& ctx)
{
  int ndim = c.mesh.ndim;
  resetGlobals(ndim, c.eigen != 0);
  ctx.label(std::string("mesh:") + kindName(c.mesh.kind));
  ctx.label(fmt("ndim:%d", ndim));
  ctx.label(c.cov.type ? "cov:markov" : "cov:matern");
  ctx.label(c.eigen ? "storage:eigen" : "storage:cs");
  Built B;
  if (!buildMesh(c.mesh, B, ctx)) return;
  if (B.nel == 0) { ctx.inconclusive("no-element"); return; }
  ctx.at("Model");
  std::unique_ptr<Model> model(buildModel(ndim, {c.cov}, 0.));
  if (!model) { ctx.fail("model-null", "Model::createFromParam returned null"); return; }
  CovAniso* cova = model->getCova(0);
  ctx.at("PrecisionOp(mesh,cova)");
  PrecisionOp pop(B.mesh, cova);
  ctx.at("PrecisionOpCs(mesh,cova)");
  PrecisionOpCs pcs(B.mesh, cova);
  int n = B.nap;
  if (pop.getSize() != n || pcs.getSize() != n) { ctx.fail("size", fmt("operator sizes %d %d for %d apices", pop.getSize(), pcs.getSize(), n)); return; }
  const MatrixSparse* Qm = pcs.getQ();
  if (Qm == nullptr) { ctx.fail("Q-null", "PrecisionOpCs::getQ() is null"); return; }
  Sp Q, S;
  if (!spFrom(Qm, Q) || Q.nr != n || Q.nc != n) { ctx.fail("Q-shape", fmt("Q is %d x %d for %d apices", Qm->getNRows(), Qm->getNCols(), n)); return; }
  if (!spFrom(pcs.getShiftOp()->getS(), S) || S.nr != n) { ctx.fail("S-shape", "shift operator has a wrong shape"); return; }
  std::vector<LD> lam = toLD(pcs.getShiftOp()->getLambdas().getVector());
  VectorDouble cf = cova->getMarkovCoeffs();
  std::vector<LD> coef(cf.begin(), cf.end());
  if ((int)lam.size() != n || coef.empty()) { ctx.fail("lambda-size", fmt("%d lambdas, %d Markov coefficients", (int)lam.size(), (int)coef.size())); return; }
  for (int i = 0; i < n; i++)
    if (!(lam[(size_t)i] > 0) || !std::isfinite((double)lam[(size_t)i])) { ctx.fail("lambda-sign", fmt("Lambda[%d] = %Lg", i, lam[(size_t)i])); return; }
  LD qmax = Q.maxAbs();
  // --- (b) symmetry of S and Q
  LD smax = S.maxAbs();
  for (int i = 0; i < n; i++)
    for (auto& e : S.row[(size_t)i])
      if (!(fabsl(e.second - S.get(e.first, i)) <= 1e-10L * smax)) { ctx.fail("S-asym", fmt("S(%d,%d)=%Lg S(%d,%d)=%Lg", i, e.first, e.second, e.first, i, S.get(e.first, i))); return; }
  for (int i = 0; i < n; i++)
    for (auto& e : Q.row[(size_t)i])
      if (!(fabsl(e.second - Q.get(e.first, i)) <= 1e-10L * qmax)) { ctx.fail("Q-asym", fmt("Q(%d,%d)=%.17Lg Q(%d,%d)=%.17Lg", i, e.first, e.second, e.first, i, Q.get(e.first, i))); return; }
  // --- (a) assembled Q = Lambda P(S) Lambda, column by column
  {
    std::vector<LD> ej((size_t)n, 0.L), col, acol;
    int ncolCheck = (n <= 160) ? n : 40;
    for (int q = 0; q < ncolCheck; q++)
    {
      int j = (n <= 160) ? q : (int)(((long)c.unit + 7919L * q) % n);
      ej[(size_t)j] = 1.L;
      refQx(S, lam, coef, ej, col, &acol);
      ej[(size_t)j] = 0.L;
      LD sc = std::max(qmax, normInfV(acol));
      for (int i = 0; i < n; i++)
        if (!(fabsl(Q.get(i, j) - col[(size_t)i]) <= 1e-10L * sc))
        {
          ctx.fail("Q-assembly", fmt("Q(%d,%d) = %.17Lg, Lambda P(S) Lambda gives %.17Lg (max|Q| %Lg, nnz(Q) %ld, nnz(S) %ld)", i, j, Q.get(i, j), col[(size_t)i], qmax, Q.nnz(), S.nnz()));
          return;
        }
    }
  }
  // --- (a) products
  std::vector<std::vector<double>> xs = {cut(c.x1, n), cut(c.x2, n), std::vector<double>((size_t)n, 0.)};
  xs[2][(size_t)(c.unit % n)] = 1.;
  for (size_t k = 0; k < xs.size(); k++)
  {
    std::vector<LD> x = toLD(xs[k]), yq, ya, yr, yra;
    Q.mul(x, yq);
    Q.mulAbs(x, ya);
    refQx(S, lam, coef, x, yr, &yra);
    VectorDouble vx = toVD(xs[k]);
    ctx.at("PrecisionOp::evalDirect");
    VectorDouble yf = pop.evalDirect(vx);
    if ((int)yf.size() != n) { ctx.fail("evalDirect:size", "evalDirect returned a vector of wrong size"); return; }
    if (!cmpVec(ctx, "evalDirect:free-vs-Q", "matrix-free evalDirect vs getQ()*x", yf.data(), yq, yra, 1e-8)) return;
    if (c.eigen) // csparse storage: done last (MatrixSparse::addToDest ignores the storage, recorded finding)
    {
      ctx.at("PrecisionOpCs::evalDirect");
      VectorDouble yc = pcs.evalDirect(vx);
      if ((int)yc.size() != n) { ctx.fail("evalDirect:size", "evalDirect returned a vector of wrong size"); return; }
      if (!cmpVec(ctx, "evalDirect:cs-vs-Q", "PrecisionOpCs evalDirect vs getQ()*x", yc.data(), yq, ya, 1e-10)) return;
    }
    if (!cmpVec(ctx, "evalDirect:free-vs-definition", "matrix-free evalDirect vs Lambda P(S) Lambda x", yf.data(), yr, yra, 1e-8)) return;
    // MatrixSparse product used by callers
    VectorDouble ym((size_t)n);
    ctx.at("MatrixSparse::prodMatVecInPlace");
    Qm->prodMatVecInPlace(vx, ym);
    if (!cmpVec(ctx, "Q-prodMatVec", "getQ()->prodMatVecInPlace vs entries of Q", ym.data(), yq, ya, 1e-10)) return;
    // x'Qx > 0
    LD xqx = 0;
    for (int i = 0; i < n; i++) xqx += x[(size_t)i] * (LD)ym[i];
    if (!(xqx > 0)) { ctx.fail("xQx", fmt("x'Qx = %Lg for a non-zero x", xqx)); return; }
  }
  // --- (b) positive definite: dense Cholesky in long double, lambda_min, library's sparse Cholesky
  Dense D(n);
  for (int i = 0; i < n; i++)
    for (auto& e : Q.row[(size_t)i]) D.at(i, e.first) += e.second;
  Dense L = D;
  if (!cholFactor(L)) { ctx.fail("Q-not-PD:dense", "dense Cholesky of Q meets a non-positive pivot"); return; }
  LD lmin = lambdaMin(L), lmax = D.normInf();
  if (!(lmin > 0)) { ctx.fail("lambda-min", fmt("smallest eigenvalue estimate %Lg", lmin)); return; }
  LD kappa = lmax / lmin;
  ctx.label(kappa > 1e8 ? "kappa:>1e8" : (kappa > 1e4 ? "kappa:1e4-1e8" : "kappa:<1e4"));
  ctx.at("CholeskySparse(Q)");
  CholeskySparse chol(Qm);
  if (!chol.isReady()) { ctx.fail("chol-Q:not-ready", "CholeskySparse of Q is not ready"); return; }
  {
    std::vector<double> b = xs[0], x((size_t)n, 0.);
    ctx.at("CholeskySparse::solve");
    int err = chol.solve(constvect(b), vect(x));
    if (err) { ctx.fail("chol-Q:solve-error", "CholeskySparse::solve returns an error on Q"); return; }
    std::vector<LD> r;
    Q.mul(toLD(x), r);
    LD res = 0, xm = normInfV(toLD(x)), bm = normInfV(toLD(b));
    for (int i = 0; i < n; i++) res = std::max(res, fabsl(r[(size_t)i] - (LD)b[(size_t)i]));
    if (!(res <= 1e-9L * (Q.normInf() * xm + bm))) { ctx.fail("chol-Q:residual", fmt("|Qx-b| = %Lg, |Q||x|+|b| = %Lg", res, Q.normInf() * xm + bm)); return; }
    // PrecisionOpCs::evalInverse is the same solve
    std::vector<double> x2((size_t)n, 0.);
    ctx.at("PrecisionOpCs::evalInverse");
    pcs.evalInverse(constvect(b), x2);
    Q.mul(toLD(x2), r);
    res = 0;
    for (int i = 0; i < n; i++) res = std::max(res, fabsl(r[(size_t)i] - (LD)b[(size_t)i]));
    if (!(res <= 1e-9L * (Q.normInf() * normInfV(toLD(x2)) + bm))) { ctx.fail("cs-evalInverse:residual", fmt("|Qx-b| = %Lg", res)); return; }
    // simulation through the factor: y = A w with A A' = Q^-1, hence y'Qy = w'w
    std::vector<double> y((size_t)n, 0.);
    ctx.at("PrecisionOpCs::evalSimulate");
    pcs.evalSimulate(constvect(b), vect(y));
    Q.mul(toLD(y), r);
    LD yqy = 0, ww = 0;
    for (int i = 0; i < n; i++) { yqy += (LD)y[(size_t)i] * r[(size_t)i]; ww += (LD)b[(size_t)i] * (LD)b[(size_t)i]; }
    if (kappa <= 1e10L && !(fabsl(yqy - ww) <= 1e-8L * ww * std::max((LD)1., kappa * 1e-6L)))
    { ctx.fail("cs-simulate:covariance", fmt("y = evalSimulate(w): y'Qy = %.17Lg, w'w = %.17Lg", yqy, ww)); return; }
    ctx.at("PrecisionOpCs::getLogDeterminant");
    double ld = pcs.getLogDeterminant();
    LD ldr = cholLogDet(L);
    if (!(fabsl((LD)ld - ldr) <= 1e-8L * (fabsl(ldr) + n))) { ctx.fail("cs-logdet", fmt("log det Q = %.17g, dense reference %.17Lg", ld, ldr)); return; }
  }
  // --- deferred (recorded findings first stop here, everything else has been checked before)
  {
    // addToDest adds to its destination (ALinearOp contract relied upon by SPDEOp / Eigen CG products)
    size_t k = 0;
    std::vector<LD> x = toLD(xs[k]), yq, yr, yra;
    Q.mul(x, yq);
    refQx(S, lam, coef, x, yr, &yra);
    std::vector<double> y0 = cut(c.y0, n);
    LD ymag = std::max(normInfV(yq), (LD)1e-300);
    for (auto& v : y0) v = (double)((LD)v / 8.L * ymag); // same magnitude as Qx: an overwrite is always visible
    std::vector<LD> exp((size_t)n);
    for (int i = 0; i < n; i++) exp[(size_t)i] = (LD)y0[(size_t)i] + yq[(size_t)i];
    std::vector<LD> sc = yra;
    sc.push_back(ymag);
    if (c.eigen)
    {
      std::vector<double> o = y0;
      ctx.at("PrecisionOpCs::addToDest");
      pcs.addToDest(constvect(xs[k]), vect(o));
      if (!cmpVec(ctx, "addToDest:cs", "PrecisionOpCs::addToDest(x, y0) vs y0 + Qx", o.data(), exp, sc, 1e-8)) return;
    }
    {
      std::vector<double> o = y0;
      ctx.at("PrecisionOp::addToDest");
      pop.addToDest(constvect(xs[k]), vect(o));
      if (!cmpVec(ctx, "addToDest:free-overwrites", "PrecisionOp::addToDest(x, y0) vs y0 + Qx", o.data(), exp, sc, 1e-8)) return;
    }
  }
  if (!c.eigen)
  {
    std::vector<LD> x = toLD(xs[0]), yq, ya;
    Q.mul(x, yq);
    Q.mulAbs(x, ya);
    ctx.at("PrecisionOpCs::evalDirect(csparse)");
    VectorDouble yc = pcs.evalDirect(toVD(xs[0]));
    if ((int)yc.size() != n) { ctx.fail("evalDirect:size", "evalDirect returned a vector of wrong size"); return; }
    if (!cmpVec(ctx, "evalDirect:cs-vs-Q", "PrecisionOpCs evalDirect vs getQ()*x", yc.data(), yq, ya, 1e-10)) return;
  }
  ctx.nontrivial(nontrivialGeom(c.mesh, {c.cov}));
  ctx.sig = Hash().add(c.mesh.ndim).add(c.mesh.kind).add(n).add(c.cov.type).addq(c.cov.param).addq(c.cov.ranges[0] / c.mesh.cell()).addq(c.mesh.ang.empty() ? 0. : c.mesh.ang[0]).add(c.eigen).h;
}
VERIF_SUB(precision, PrecCase, genPrec, runPrec);

// =====================================================================================
// sub-property "proj": (c) ProjMatrix rows are barycentric coordinates
// =====================================================================================
struct ProjCase
{
  MeshSpec mesh;
  std::vector<PtSpec> pts;
  std::vector<int> sel, zna; // per point: selected (1) / Z undefined (1)
  int useSel = 0, rankZ = -1, eigen = 1;
  std::vector<double> aff;   // affine function c0 + c.x (size ndim+1)
  template<class A> void io(A& a) { a("mesh", mesh)("pts", pts)("sel", sel)("zna", zna)("useSel", useSel)("rankZ", rankZ)("eigen", eigen)("aff", aff); }
};
static ProjCase genProj()
{
  ProjCase c;
  c.mesh = genMeshSpec(2744, {0, 0, 1, 2, 2, 3});
  if (c.mesh.kind == 2 && c.mesh.nnodes() > 600) c.mesh.kind = 0, c.mesh.jit.clear();
  int np = G::sz(1, 25);
  int pout = G::pick<int>({0, 15, 40});
  for (int i = 0; i < np; i++) c.pts.push_back(genPt(c.mesh, pout, true));
  c.useSel = G::pct(30);
  c.rankZ = G::pct(40) ? 0 : -1;
  for (int i = 0; i < np; i++) c.sel.push_back(c.useSel ? (G::pct(25) ? 0 : 1) : 1);
  for (int i = 0; i < np; i++) c.zna.push_back(G::pct(20) ? 1 : 0);
  c.eigen = G::pct(75) ? 1 : 0;
  for (int k = 0; k <= c.mesh.ndim; k++) c.aff.push_back(G::r(-4, 4, 4));
  return c;
}
struct Row
{
  std::vector<std::pair<int, double>> e; // non-zero entries
};
static bool rowMatches(const Row& lib, const ResolvedPt& p, const Built& B, std::string& why)
{
  if (!p.inside)
  {
    if (!lib.e.empty()) { why = fmt("outside-nonempty|%d entries for a point outside the mesh", (int)lib.e.size()); return false; }
    return true;
  }
  if (lib.e.empty()) { why = "inside-empty|no entry for a point inside the mesh"; return false; }
  if ((int)lib.e.size() > B.ndim + 1) { why = fmt("count|%d entries (more than ndim+1)", (int)lib.e.size()); return false; }
  LD sum = 0;
  std::vector<LD> x((size_t)B.ndim, 0.L);
  for (auto& e : lib.e)
  {
    if (!(e.second >= -1e-12)) { why = fmt("negative|weight %.17g", e.second); return false; }
    if (e.first < 0 || e.first >= B.nap) { why = fmt("column|apex rank %d", e.first); return false; }
    sum += e.second;
    for (int j = 0; j < B.ndim; j++) x[(size_t)j] += (LD)e.second * (LD)B.apex[(size_t)(e.first * B.ndim + j)];
  }
  if (!(fabsl(sum - 1.L) <= 1e-9L)) { why = fmt("sum|weights sum to %.17Lg", sum); return false; }
  // size of an element: tolerance 1e-8 of it (coordinates carry |x|*eps)
  LD h = 0;
  for (int c = 1; c < B.nc; c++)
    for (int j = 0; j < B.ndim; j++)
      h = std::max(h, fabsl((LD)B.apex[(size_t)(B.elem[(size_t)(p.el * B.nc + c)] * B.ndim + j)] - (LD)B.apex[(size_t)(B.elem[(size_t)(p.el * B.nc)] * B.ndim + j)]));
  for (int j = 0; j < B.ndim; j++)
    if (!(fabsl(x[(size_t)j] - (LD)p.x[(size_t)j]) <= 1e-8L * h + 1e-12L * B.extent))
    { why = fmt("reproduce|sum w*apex = %.17Lg on axis %d, the point is at %.17g", x[(size_t)j], j, p.x[(size_t)j]); return false; }
  return true;
}
static void runProj(const ProjCase& c, Ctx& ctx)
{
  int ndim = c.mesh.ndim;
  resetGlobals(ndim, c.eigen != 0);
  std::string kn = kindName(c.mesh.kind);
  ctx.label("mesh:" + kn);
  ctx.label(fmt("ndim:%d", ndim));
  Built B;
  if (!buildMesh(c.mesh, B, ctx)) return;
  if (B.nel == 0) { ctx.inconclusive("no-element"); return; }
  int np = (int)c.pts.size();
  std::vector<ResolvedPt> P;
  std::vector<std::vector<double>> xs;
  for (auto& p : c.pts) { P.push_back(resolvePt(c.mesh, B, p)); xs.push_back(P.back().x); }
  ctx.at("Db");
  std::unique_ptr<Db> db(makeDb(ndim, xs));
  VectorDouble z((size_t)np);
  for (int i = 0; i < np; i++) z[i] = c.zna[(size_t)i] ? TEST : 1. + i;
  db->addColumns(z, "z1", ELoc::Z, 0);
  if (c.useSel)
  {
    VectorDouble s((size_t)np);
    for (int i = 0; i < np; i++) s[i] = c.sel[(size_t)i];
    db->addColumns(s, "sel", ELoc::SEL, 0);
  }
  // expected rows: active samples (with Z defined when rankZ >= 0) in sample order
  std::vector<int> rowsOf;
  for (int i = 0; i < np; i++)
  {
    if (c.useSel && !c.sel[(size_t)i]) continue;
    if (c.rankZ >= 0 && c.zna[(size_t)i]) continue;
    rowsOf.push_back(i);
  }
  int nrow = (int)rowsOf.size();
  if (nrow == 0) { ctx.inconclusive("no-active-point"); return; }
  int nin = 0, nout = 0;
  for (int r : rowsOf) (P[(size_t)r].inside ? nin : nout)++;
  ctx.label(nout == 0 ? "points:all-inside" : (nin == 0 ? "points:all-outside" : "points:mixed"));
  ctx.at("ProjMatrix(db,mesh)");
  ProjMatrix proj(db.get(), B.mesh, c.rankZ);
  Sp A;
  if (!spFrom(&proj, A)) { ctx.fail("proj:" + kn + ":triplet", "entries outside the matrix"); return; }
  std::vector<Row> rows((size_t)std::max(A.nr, 0));
  for (int i = 0; i < A.nr; i++)
    for (auto& e : A.row[(size_t)i])
      if (e.second != 0) rows[(size_t)i].e.push_back({e.first, (double)e.second});
  auto rowAt = [&](int i) { return (i < A.nr) ? rows[(size_t)i] : Row(); };
  // plain comparison
  bool ok = (A.nr == nrow && A.nc == B.nap && proj.getPointNumber() == nrow && proj.getApexNumber() == B.nap);
  std::string why;
  int bad = -1;
  if (ok)
    for (int k = 0; k < nrow && ok; k++)
      if (!rowMatches(rowAt(k), P[(size_t)rowsOf[(size_t)k]], B, why)) { ok = false; bad = k; }
  if (!ok)
  {
    // recognisable patterns first (stable keys for the two row-bookkeeping defects)
    if (c.mesh.kind != 2 && A.nc == B.nap)
    {
      // rows of samples outside the index range of the grid are not counted: later rows move up
      std::vector<int> kept;
      bool any = false;
      for (int r : rowsOf)
        if (P[(size_t)r].outOfGrid) any = true; else kept.push_back(r);
      bool shifted = any;
      std::string w2;
      for (int k = 0; k < (int)kept.size() && shifted; k++)
        if (!rowMatches(rowAt(k), P[(size_t)kept[(size_t)k]], B, w2)) shifted = false;
      for (int k = (int)kept.size(); k < A.nr && shifted; k++)
        if (!rows[(size_t)k].e.empty()) shifted = false;
      if (shifted)
      {
        ctx.fail("proj:turbo:row-shift-after-point-outside-grid",
                 fmt("%d active samples, rows of the samples after a sample outside the grid extent are stored one row too early (matrix %d x %d)", nrow, A.nr, A.nc));
        return;
      }
    }
    if (c.mesh.kind == 2 && A.nc == B.nap && A.nr < nrow)
    {
      bool trunc = true;
      std::string w2;
      for (int k = 0; k < nrow && trunc; k++)
        if (!rowMatches(rowAt(k), P[(size_t)rowsOf[(size_t)k]], B, w2)) trunc = false;
      if (trunc)
      {
        ctx.fail("proj:std:rows-truncated", fmt("%d active samples but the matrix has %d rows (trailing samples outside the mesh)", nrow, A.nr));
        return;
      }
    }
    if (bad < 0)
    {
      ctx.fail("proj:" + kn + ":shape", fmt("matrix %d x %d (getPointNumber %d, getApexNumber %d), expected %d x %d", A.nr, A.nc, proj.getPointNumber(), proj.getApexNumber(), nrow, B.nap));
      return;
    }
    size_t bar = why.find('|');
    ctx.fail("proj:" + kn + ":" + why.substr(0, bar), fmt("row %d (sample %d): ", bad, rowsOf[(size_t)bad]) + why.substr(bar + 1));
    return;
  }
  // affine functions are reproduced by mesh2point
  {
    VectorDouble f((size_t)B.nap), out;
    LD scale = fabsl(c.aff[0]);
    for (int j = 0; j < ndim; j++) scale += fabsl(c.aff[(size_t)(j + 1)]) * B.extent;
    for (int k = 0; k < B.nap; k++)
    {
      LD v = c.aff[0];
      for (int j = 0; j < ndim; j++) v += (LD)c.aff[(size_t)(j + 1)] * (LD)B.apex[(size_t)(k * ndim + j)];
      f[k] = (double)v;
    }
    ctx.at("ProjMatrix::mesh2point");
    if (proj.mesh2point(f, out) != 0 || (int)out.size() != nrow) { ctx.fail("proj:" + kn + ":mesh2point-error", "mesh2point returns an error"); return; }
    for (int k = 0; k < nrow; k++)
    {
      const ResolvedPt& p = P[(size_t)rowsOf[(size_t)k]];
      LD v = 0;
      if (p.inside)
      {
        v = c.aff[0];
        for (int j = 0; j < ndim; j++) v += (LD)c.aff[(size_t)(j + 1)] * (LD)p.x[(size_t)j];
      }
      if (!(fabsl((LD)out[k] - v) <= 1e-9L * scale + 1e-300L))
      { ctx.fail("proj:" + kn + ":affine", fmt("mesh2point of an affine function at sample %d: %.17g, expected %.17Lg", rowsOf[(size_t)k], out[k], v)); return; }
    }
  }
  bool rot = false;
  for (double a : c.mesh.ang)
    if (a != 0) rot = true;
  ctx.nontrivial(nin > 0 && (rot || ndim == 3 || c.mesh.kind == 2 || c.mesh.kind == 3));
  ctx.sig = Hash().add(ndim).add(c.mesh.kind).add(B.nap).add(nin).add(nout).addq(c.mesh.ang.empty() ? 0. : c.mesh.ang[0]).add(c.rankZ).add(c.useSel).h;
}
VERIF_SUB(proj, ProjCase, genProj, runProj);

#include "c15_spde_part2.hpp"

VERIF_MAIN()
