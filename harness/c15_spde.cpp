// C15 — SPDE operators, projections and solvers are mutually consistent (DESIGN.md §5 C15).
// Oracles written here: sparse/dense long-double algebra (spde_common.hpp), mesh geometry known to the
// harness (grid nodes computed from nx/dx/x0/angles, jittered copies), barycentric weights by construction.
#include "spde_common.hpp"

#include "LinearOp/ShiftOpCs.hpp"
#include "LinearOp/PrecisionOp.hpp"
#include "LinearOp/PrecisionOpCs.hpp"
#include "LinearOp/ProjMatrix.hpp"
#include "LinearOp/CholeskySparse.hpp"
#include "LinearOp/PrecisionOpMultiConditional.hpp"
#include "LinearOp/PrecisionOpMultiConditionalCs.hpp"
#include "LinearOp/PrecisionOpMulti.hpp"
#include "LinearOp/PrecisionOpMultiMatrix.hpp"
#include "LinearOp/ProjMultiMatrix.hpp"
#include "LinearOp/SPDEOp.hpp"
#include "LinearOp/SPDEOpMatrix.hpp"
#include "LinearOp/MatrixSquareSymmetricSim.hpp"
#include "Polynomials/APolynomial.hpp"
#include "API/SPDE.hpp"
#include "API/SPDEParam.hpp"

using namespace vf;
using namespace vfspde;

static std::vector<double> genVec(int n, int style)
{
  std::vector<double> x((size_t)n);
  for (int i = 0; i < n; i++)
  {
    if (style == 0) x[(size_t)i] = G::r(-8, 8, 8);
    else if (style == 1) x[(size_t)i] = std::sin(0.7 * i + 0.3);
    else x[(size_t)i] = 0.;
  }
  if (style == 2) x[(size_t)G::i(0, n - 1)] = 1.;
  return x;
}
// a vector of the case (size fixed at generation time: larger than any mesh) cut to n
static std::vector<double> cut(const std::vector<double>& v, int n)
{
  std::vector<double> x((size_t)n);
  for (int i = 0; i < n; i++) x[(size_t)i] = v[(size_t)i % v.size()];
  bool allz = true;
  for (double e : x)
    if (e != 0) allz = false;
  if (allz) x[0] = 1.;
  return x;
}

// reference y = Lambda P(S) Lambda x
static void refQx(const Sp& S, const std::vector<LD>& lam, const std::vector<LD>& coef, const std::vector<LD>& x, std::vector<LD>& y,
                  std::vector<LD>* absy = nullptr)
{
  int n = S.nr;
  std::vector<LD> v((size_t)n), h((size_t)n), t, ha((size_t)n), ta;
  for (int i = 0; i < n; i++) v[(size_t)i] = lam[(size_t)i] * x[(size_t)i];
  for (int i = 0; i < n; i++) { h[(size_t)i] = coef.back() * v[(size_t)i]; ha[(size_t)i] = fabsl(h[(size_t)i]); }
  for (int k = (int)coef.size() - 2; k >= 0; k--)
  {
    S.mul(h, t);
    S.mulAbs(ha, ta);
    for (int i = 0; i < n; i++)
    {
      h[(size_t)i] = t[(size_t)i] + coef[(size_t)k] * v[(size_t)i];
      ha[(size_t)i] = ta[(size_t)i] + fabsl(coef[(size_t)k] * v[(size_t)i]);
    }
  }
  y.resize((size_t)n);
  for (int i = 0; i < n; i++) y[(size_t)i] = lam[(size_t)i] * h[(size_t)i];
  if (absy)
  {
    absy->resize((size_t)n);
    for (int i = 0; i < n; i++) (*absy)[(size_t)i] = lam[(size_t)i] * ha[(size_t)i];
  }
}

// =====================================================================================
// sub-property "precision": (a) matrix-free = assembled = Lambda P(S) Lambda, (b) Q symmetric PD
// =====================================================================================
struct PrecCase
{
  MeshSpec mesh;
  CovSpec cov;
  int eigen = 1;
  std::vector<double> x1, x2, y0;
  int unit = 0;
  template<class A> void io(A& a) { a("mesh", mesh)("cov", cov)("eigen", eigen)("x1", x1)("x2", x2)("y0", y0)("unit", unit); }
};
static PrecCase genPrec()
{
  PrecCase c;
  c.mesh = genMeshSpec(400, {0, 0, 1, 2, 2, 3});
  double sc = G::pick<double>({1e-6, 1., 1., 1e4});
  c.cov = genCov(c.mesh.ndim, c.mesh.cell(), sc, true);
  c.eigen = G::pct(75) ? 1 : 0;
  int n = 40;
  for (int i = 0; i < n; i++) c.x1.push_back(G::r(-8, 8, 8));
  for (int i = 0; i < n; i++) c.x2.push_back(G::pct(50) ? 0. : G::r(-100, 100, 1));
  for (int i = 0; i < n; i++) c.y0.push_back(G::r(-8, 8, 8));
  c.unit = G::i(0, 1 << 20);
  return c;
}

static bool cmpVec(Ctx& ctx, const std::string& key, const std::string& what, const double* got, const std::vector<LD>& ref,
                   const std::vector<LD>& scale, double rel)
{
  LD sc = 0;
  for (auto v : scale) sc = std::max(sc, fabsl(v));
  for (size_t i = 0; i < ref.size(); i++)
  {
    if (!(fabsl((LD)got[i] - ref[i]) <= (LD)rel * sc))
    {
      ctx.fail(key, what + fmt(": component %d = %.17g, expected %.17Lg (scale %Lg)", (int)i, got[i], ref[i], sc));
      return false;
    }
  }
  return true;
}

static void runPrecMode(const PrecCase& c, Ctx& ctx, bool addOnly)
{
  int ndim = c.mesh.ndim;
  resetGlobals(ndim, c.eigen != 0);
  ctx.label(std::string("mesh:") + kindName(c.mesh.kind));
  ctx.label(fmt("ndim:%d", ndim));
  ctx.label(c.cov.type ? "cov:markov" : "cov:matern");
  ctx.label(c.eigen ? "storage:eigen" : "storage:cs");
  Built B;
  if (!buildMesh(c.mesh, B, ctx)) return;
  if (B.nel == 0) { ctx.inconclusive("no-element"); return; }
  ctx.at("Model");
  std::unique_ptr<Model> model(buildModel(ndim, {c.cov}, 0.));
  if (!model) { ctx.fail("model-null", "Model::createFromParam returned null"); return; }
  CovAniso* cova = model->getCova(0);
  ctx.at("PrecisionOp(mesh,cova)");
  PrecisionOp pop(B.mesh, cova);
  ctx.at("PrecisionOpCs(mesh,cova)");
  PrecisionOpCs pcs(B.mesh, cova);
  int n = B.nap;
  if (pop.getSize() != n || pcs.getSize() != n) { ctx.fail("size", fmt("operator sizes %d %d for %d apices", pop.getSize(), pcs.getSize(), n)); return; }
  const MatrixSparse* Qm = pcs.getQ();
  if (Qm == nullptr) { ctx.fail("Q-null", "PrecisionOpCs::getQ() is null"); return; }
  Sp Q, S;
  if (!spFrom(Qm, Q) || Q.nr != n || Q.nc != n) { ctx.fail("Q-shape", fmt("Q is %d x %d for %d apices", Qm->getNRows(), Qm->getNCols(), n)); return; }
  if (!spFrom(pcs.getShiftOp()->getS(), S) || S.nr != n) { ctx.fail("S-shape", "shift operator has a wrong shape"); return; }
  std::vector<LD> lam = toLD(pcs.getShiftOp()->getLambdas().getVector());
  VectorDouble cf = cova->getMarkovCoeffs();
  std::vector<LD> coef(cf.begin(), cf.end());
  if ((int)lam.size() != n || coef.empty()) { ctx.fail("lambda-size", fmt("%d lambdas, %d Markov coefficients", (int)lam.size(), (int)coef.size())); return; }
  for (int i = 0; i < n; i++)
    if (!(lam[(size_t)i] > 0) || !std::isfinite((double)lam[(size_t)i])) { ctx.fail("lambda-sign", fmt("Lambda[%d] = %Lg", i, lam[(size_t)i])); return; }
  LD qmax = Q.maxAbs();
  std::vector<std::vector<double>> xs = {cut(c.x1, n), cut(c.x2, n), std::vector<double>((size_t)n, 0.)};
  xs[2][(size_t)(c.unit % n)] = 1.;
  if (!addOnly)
  {
  // --- (b) symmetry of S and Q
  LD smax = S.maxAbs();
  for (int i = 0; i < n; i++)
    for (auto& e : S.row[(size_t)i])
      if (!(fabsl(e.second - S.get(e.first, i)) <= 1e-10L * smax)) { ctx.fail("S-asym", fmt("S(%d,%d)=%Lg S(%d,%d)=%Lg", i, e.first, e.second, e.first, i, S.get(e.first, i))); return; }
  for (int i = 0; i < n; i++)
    for (auto& e : Q.row[(size_t)i])
      if (!(fabsl(e.second - Q.get(e.first, i)) <= 1e-10L * qmax)) { ctx.fail("Q-asym", fmt("Q(%d,%d)=%.17Lg Q(%d,%d)=%.17Lg", i, e.first, e.second, e.first, i, Q.get(e.first, i))); return; }
  // --- (a) assembled Q = Lambda P(S) Lambda, column by column
  {
    std::vector<LD> ej((size_t)n, 0.L), col, acol;
    int ncolCheck = (n <= 160) ? n : 40;
    for (int q = 0; q < ncolCheck; q++)
    {
      int j = (n <= 160) ? q : (int)(((long)c.unit + 7919L * q) % n);
      ej[(size_t)j] = 1.L;
      refQx(S, lam, coef, ej, col, &acol);
      ej[(size_t)j] = 0.L;
      LD sc = std::max(qmax, normInfV(acol));
      for (int i = 0; i < n; i++)
        if (!(fabsl(Q.get(i, j) - col[(size_t)i]) <= 1e-10L * sc))
        {
          ctx.fail("Q-assembly", fmt("Q(%d,%d) = %.17Lg, Lambda P(S) Lambda gives %.17Lg (max|Q| %Lg, nnz(Q) %ld, nnz(S) %ld)", i, j, Q.get(i, j), col[(size_t)i], qmax, Q.nnz(), S.nnz()));
          return;
        }
    }
  }
  // --- (a) products
  for (size_t k = 0; k < xs.size(); k++)
  {
    std::vector<LD> x = toLD(xs[k]), yq, ya, yr, yra;
    Q.mul(x, yq);
    Q.mulAbs(x, ya);
    refQx(S, lam, coef, x, yr, &yra);
    VectorDouble vx = toVD(xs[k]);
    ctx.at("PrecisionOp::evalDirect");
    VectorDouble yf = pop.evalDirect(vx);
    if ((int)yf.size() != n) { ctx.fail("evalDirect:size", "evalDirect returned a vector of wrong size"); return; }
    if (!cmpVec(ctx, "evalDirect:free-vs-Q", "matrix-free evalDirect vs getQ()*x", yf.data(), yq, yra, 1e-8)) return;
    if (c.eigen) // csparse storage: done last (MatrixSparse::addToDest ignores the storage, recorded finding)
    {
      ctx.at("PrecisionOpCs::evalDirect");
      VectorDouble yc = pcs.evalDirect(vx);
      if ((int)yc.size() != n) { ctx.fail("evalDirect:size", "evalDirect returned a vector of wrong size"); return; }
      if (!cmpVec(ctx, "evalDirect:cs-vs-Q", "PrecisionOpCs evalDirect vs getQ()*x", yc.data(), yq, ya, 1e-10)) return;
    }
    if (!cmpVec(ctx, "evalDirect:free-vs-definition", "matrix-free evalDirect vs Lambda P(S) Lambda x", yf.data(), yr, yra, 1e-8)) return;
    // MatrixSparse product used by callers
    VectorDouble ym((size_t)n);
    ctx.at("MatrixSparse::prodMatVecInPlace");
    Qm->prodMatVecInPlace(vx, ym);
    if (!cmpVec(ctx, "Q-prodMatVec", "getQ()->prodMatVecInPlace vs entries of Q", ym.data(), yq, ya, 1e-10)) return;
    // x'Qx > 0
    LD xqx = 0;
    for (int i = 0; i < n; i++) xqx += x[(size_t)i] * (LD)ym[i];
    if (!(xqx > 0)) { ctx.fail("xQx", fmt("x'Qx = %Lg for a non-zero x", xqx)); return; }
  }
  // --- (b) positive definite: dense Cholesky in long double, lambda_min, library's sparse Cholesky
  Dense D(n);
  for (int i = 0; i < n; i++)
    for (auto& e : Q.row[(size_t)i]) D.at(i, e.first) += e.second;
  Dense L = D;
  if (!cholFactor(L)) { ctx.fail("Q-not-PD:dense", "dense Cholesky of Q meets a non-positive pivot"); return; }
  LD lmin = lambdaMin(L), lmax = D.normInf();
  if (!(lmin > 0)) { ctx.fail("lambda-min", fmt("smallest eigenvalue estimate %Lg", lmin)); return; }
  LD kappa = lmax / lmin;
  ctx.label(kappa > 1e8 ? "kappa:>1e8" : (kappa > 1e4 ? "kappa:1e4-1e8" : "kappa:<1e4"));
  ctx.at("CholeskySparse(Q)");
  CholeskySparse chol(Qm);
  if (!chol.isReady()) { ctx.fail("chol-Q:not-ready", "CholeskySparse of Q is not ready"); return; }
  {
    std::vector<double> b = xs[0], x((size_t)n, 0.);
    ctx.at("CholeskySparse::solve");
    int err = chol.solve(constvect(b), vect(x));
    if (err) { ctx.fail("chol-Q:solve-error", "CholeskySparse::solve returns an error on Q"); return; }
    std::vector<LD> r;
    Q.mul(toLD(x), r);
    LD res = 0, xm = normInfV(toLD(x)), bm = normInfV(toLD(b));
    for (int i = 0; i < n; i++) res = std::max(res, fabsl(r[(size_t)i] - (LD)b[(size_t)i]));
    if (!(res <= 1e-9L * (Q.normInf() * xm + bm))) { ctx.fail("chol-Q:residual", fmt("|Qx-b| = %Lg, |Q||x|+|b| = %Lg", res, Q.normInf() * xm + bm)); return; }
    // PrecisionOpCs::evalInverse is the same solve
    std::vector<double> x2((size_t)n, 0.);
    ctx.at("PrecisionOpCs::evalInverse");
    pcs.evalInverse(constvect(b), x2);
    Q.mul(toLD(x2), r);
    res = 0;
    for (int i = 0; i < n; i++) res = std::max(res, fabsl(r[(size_t)i] - (LD)b[(size_t)i]));
    if (!(res <= 1e-9L * (Q.normInf() * normInfV(toLD(x2)) + bm))) { ctx.fail("cs-evalInverse:residual", fmt("|Qx-b| = %Lg", res)); return; }
    // simulation through the factor: y = A w with A A' = Q^-1, hence y'Qy = w'w
    std::vector<double> y((size_t)n, 0.);
    ctx.at("PrecisionOpCs::evalSimulate");
    pcs.evalSimulate(constvect(b), vect(y));
    Q.mul(toLD(y), r);
    LD yqy = 0, ww = 0;
    for (int i = 0; i < n; i++) { yqy += (LD)y[(size_t)i] * r[(size_t)i]; ww += (LD)b[(size_t)i] * (LD)b[(size_t)i]; }
    if (kappa <= 1e10L && !(fabsl(yqy - ww) <= 1e-8L * ww * std::max((LD)1., kappa * 1e-6L)))
    { ctx.fail("cs-simulate:covariance", fmt("y = evalSimulate(w): y'Qy = %.17Lg, w'w = %.17Lg", yqy, ww)); return; }
    ctx.at("PrecisionOpCs::getLogDeterminant");
    double ld = pcs.getLogDeterminant();
    LD ldr = cholLogDet(L);
    if (!(fabsl((LD)ld - ldr) <= 1e-8L * (fabsl(ldr) + n))) { ctx.fail("cs-logdet", fmt("log det Q = %.17g, dense reference %.17Lg", ld, ldr)); return; }
  }
  } // !addOnly
  if (addOnly)
  {
    // addToDest adds to its destination (ALinearOp contract relied upon by SPDEOp / Eigen CG products)
    size_t k = 0;
    std::vector<LD> x = toLD(xs[k]), yq, yr, yra;
    Q.mul(x, yq);
    refQx(S, lam, coef, x, yr, &yra);
    std::vector<double> y0 = cut(c.y0, n);
    LD ymag = std::max(normInfV(yq), (LD)1e-300);
    for (auto& v : y0) v = (double)((LD)v / 8.L * ymag); // same magnitude as Qx: an overwrite is always visible
    std::vector<LD> exp((size_t)n);
    for (int i = 0; i < n; i++) exp[(size_t)i] = (LD)y0[(size_t)i] + yq[(size_t)i];
    std::vector<LD> sc = yra;
    sc.push_back(ymag);
    if (c.eigen)
    {
      std::vector<double> o = y0;
      ctx.at("PrecisionOpCs::addToDest");
      pcs.addToDest(constvect(xs[k]), vect(o));
      if (!cmpVec(ctx, "addToDest:cs", "PrecisionOpCs::addToDest(x, y0) vs y0 + Qx", o.data(), exp, sc, 1e-8)) return;
    }
    {
      std::vector<double> o = y0;
      ctx.at("PrecisionOp::addToDest");
      pop.addToDest(constvect(xs[k]), vect(o));
      if (!cmpVec(ctx, "addToDest:free-overwrites", "PrecisionOp::addToDest(x, y0) vs y0 + Qx", o.data(), exp, sc, 1e-8)) return;
    }
  }
  if (!c.eigen && !addOnly) // last: MatrixSparse::addToDest ignores the csparse storage (recorded finding)
  {
    std::vector<LD> x = toLD(xs[0]), yq, ya;
    Q.mul(x, yq);
    Q.mulAbs(x, ya);
    ctx.at("PrecisionOpCs::evalDirect(csparse)");
    VectorDouble yc = pcs.evalDirect(toVD(xs[0]));
    if ((int)yc.size() != n) { ctx.fail("evalDirect:size", "evalDirect returned a vector of wrong size"); return; }
    if (!cmpVec(ctx, "evalDirect:cs-vs-Q", "PrecisionOpCs evalDirect vs getQ()*x", yc.data(), yq, ya, 1e-10)) return;
  }
  ctx.nontrivial(nontrivialGeom(c.mesh, {c.cov}));
  ctx.sig = Hash().add(c.mesh.ndim).add(c.mesh.kind).add(n).add(c.cov.type).addq(c.cov.param).addq(c.cov.ranges[0] / c.mesh.cell()).addq(c.mesh.ang.empty() ? 0. : c.mesh.ang[0]).add(c.eigen).h;
}
static void runPrec(const PrecCase& c, Ctx& ctx) { runPrecMode(c, ctx, false); }
VERIF_SUB(precision, PrecCase, genPrec, runPrec);
// sub-property "addtodest": ALinearOp::addToDest adds to its destination in both forms (callers: SPDEOp
// and the Eigen conjugate-gradient products rely on it)
static PrecCase genAdd()
{
  PrecCase c = genPrec();
  c.mesh = genMeshSpec(80, {0, 1, 2, 3});
  c.cov = genCov(c.mesh.ndim, c.mesh.cell(), c.cov.sill > 100 ? 1e4 : (c.cov.sill < 1e-3 ? 1e-6 : 1.), false);
  c.eigen = 1;
  return c;
}
static void runAdd(const PrecCase& c, Ctx& ctx) { runPrecMode(c, ctx, true); }
VERIF_SUB(addtodest, PrecCase, genAdd, runAdd);

// =====================================================================================
// sub-property "proj": (c) ProjMatrix rows are barycentric coordinates
// =====================================================================================
struct ProjCase
{
  MeshSpec mesh;
  std::vector<PtSpec> pts;
  std::vector<int> sel, zna; // per point: selected (1) / Z undefined (1)
  int useSel = 0, rankZ = -1, eigen = 1;
  std::vector<double> aff;   // affine function c0 + c.x (size ndim+1)
  template<class A> void io(A& a) { a("mesh", mesh)("pts", pts)("sel", sel)("zna", zna)("useSel", useSel)("rankZ", rankZ)("eigen", eigen)("aff", aff); }
};
static ProjCase genProj()
{
  ProjCase c;
  c.mesh = genMeshSpec(2744, {0, 0, 1, 2, 2, 3});
  if (c.mesh.kind == 2 && c.mesh.nnodes() > 600) c.mesh.kind = 0, c.mesh.jit.clear();
  int np = G::sz(1, 25);
  int pout = G::pick<int>({0, 15, 40});
  for (int i = 0; i < np; i++)
  {
    c.pts.push_back(genPt(c.mesh, pout, true));
    if (c.mesh.kind != 3 && G::pct(12)) c.pts.back().type = 3; // an apex of the mesh (hull apices included); not on masked meshes, where an apex between active and masked cells is a boundary case the property does not decide
  }
  c.useSel = G::pct(30);
  c.rankZ = G::pct(40) ? 0 : -1;
  for (int i = 0; i < np; i++) c.sel.push_back(c.useSel ? (G::pct(25) ? 0 : 1) : 1);
  for (int i = 0; i < np; i++) c.zna.push_back(G::pct(20) ? 1 : 0);
  c.eigen = G::pct(75) ? 1 : 0;
  for (int k = 0; k <= c.mesh.ndim; k++) c.aff.push_back(G::r(-4, 4, 4));
  return c;
}
struct Row
{
  std::vector<std::pair<int, double>> e; // non-zero entries
};
static bool rowMatches(const Row& lib, const ResolvedPt& p, const Built& B, std::string& why)
{
  if (!p.inside)
  {
    if (!lib.e.empty()) { why = fmt("outside-nonempty|%d entries for a point outside the mesh", (int)lib.e.size()); return false; }
    return true;
  }
  if (lib.e.empty()) { why = "inside-empty|no entry for a point inside the mesh"; return false; }
  if ((int)lib.e.size() > B.ndim + 1) { why = fmt("count|%d entries (more than ndim+1)", (int)lib.e.size()); return false; }
  LD sum = 0;
  std::vector<LD> x((size_t)B.ndim, 0.L);
  for (auto& e : lib.e)
  {
    if (!(e.second >= -1e-12)) { why = fmt("negative|weight %.17g", e.second); return false; }
    if (e.first < 0 || e.first >= B.nap) { why = fmt("column|apex rank %d", e.first); return false; }
    sum += e.second;
    for (int j = 0; j < B.ndim; j++) x[(size_t)j] += (LD)e.second * (LD)B.apex[(size_t)(e.first * B.ndim + j)];
  }
  if (!(fabsl(sum - 1.L) <= 1e-9L)) { why = fmt("sum|weights sum to %.17Lg", sum); return false; }
  // size of an element: tolerance 1e-8 of it (coordinates carry |x|*eps)
  LD h = 0;
  for (int c = 1; c < B.nc; c++)
    for (int j = 0; j < B.ndim; j++)
      h = std::max(h, fabsl((LD)B.apex[(size_t)(B.elem[(size_t)(p.el * B.nc + c)] * B.ndim + j)] - (LD)B.apex[(size_t)(B.elem[(size_t)(p.el * B.nc)] * B.ndim + j)]));
  for (int j = 0; j < B.ndim; j++)
    if (!(fabsl(x[(size_t)j] - (LD)p.x[(size_t)j]) <= 1e-8L * h + 1e-12L * B.extent))
    { why = fmt("reproduce|sum w*apex = %.17Lg on axis %d, the point is at %.17g", x[(size_t)j], j, p.x[(size_t)j]); return false; }
  return true;
}
static void runProj(const ProjCase& c, Ctx& ctx)
{
  int ndim = c.mesh.ndim;
  resetGlobals(ndim, c.eigen != 0);
  std::string kn = kindName(c.mesh.kind);
  ctx.label("mesh:" + kn);
  ctx.label(fmt("ndim:%d", ndim));
  Built B;
  if (!buildMesh(c.mesh, B, ctx)) return;
  if (B.nel == 0) { ctx.inconclusive("no-element"); return; }
  int np = (int)c.pts.size();
  std::vector<ResolvedPt> P;
  std::vector<std::vector<double>> xs;
  for (auto& p : c.pts) { P.push_back(resolvePt(c.mesh, B, p)); xs.push_back(P.back().x); }
  ctx.at("Db");
  std::unique_ptr<Db> db(makeDb(ndim, xs));
  VectorDouble z((size_t)np);
  for (int i = 0; i < np; i++) z[i] = c.zna[(size_t)i] ? TEST : 1. + i;
  db->addColumns(z, "z1", ELoc::Z, 0);
  if (c.useSel)
  {
    VectorDouble s((size_t)np);
    for (int i = 0; i < np; i++) s[i] = c.sel[(size_t)i];
    db->addColumns(s, "sel", ELoc::SEL, 0);
  }
  // expected rows: active samples (with Z defined when rankZ >= 0) in sample order
  std::vector<int> rowsOf;
  for (int i = 0; i < np; i++)
  {
    if (c.useSel && !c.sel[(size_t)i]) continue;
    if (c.rankZ >= 0 && c.zna[(size_t)i]) continue;
    rowsOf.push_back(i);
  }
  int nrow = (int)rowsOf.size();
  if (nrow == 0) { ctx.inconclusive("no-active-point"); return; }
  int nin = 0, nout = 0;
  for (int r : rowsOf) (P[(size_t)r].inside ? nin : nout)++;
  ctx.label(nout == 0 ? "points:all-inside" : (nin == 0 ? "points:all-outside" : "points:mixed"));
  ctx.at("ProjMatrix(db,mesh)");
  ProjMatrix proj(db.get(), B.mesh, c.rankZ);
  Sp A;
  if (!spFrom(&proj, A)) { ctx.fail("proj:" + kn + ":triplet", "entries outside the matrix"); return; }
  std::vector<Row> rows((size_t)std::max(A.nr, 0));
  for (int i = 0; i < A.nr; i++)
    for (auto& e : A.row[(size_t)i])
      if (e.second != 0) rows[(size_t)i].e.push_back({e.first, (double)e.second});
  auto rowAt = [&](int i) { return (i < A.nr) ? rows[(size_t)i] : Row(); };
  // plain comparison
  bool ok = (A.nr == nrow && A.nc == B.nap && proj.getPointNumber() == nrow && proj.getApexNumber() == B.nap);
  std::string why;
  int bad = -1;
  if (ok)
    for (int k = 0; k < nrow && ok; k++)
      if (!rowMatches(rowAt(k), P[(size_t)rowsOf[(size_t)k]], B, why)) { ok = false; bad = k; }
  if (!ok)
  {
    // recognisable patterns first (stable keys for the two row-bookkeeping defects)
    if (c.mesh.kind != 2 && A.nc == B.nap)
    {
      // rows of samples outside the index range of the grid are not counted: later rows move up
      std::vector<int> kept;
      bool any = false;
      for (int r : rowsOf)
        if (P[(size_t)r].outOfGrid) any = true; else kept.push_back(r);
      bool shifted = any;
      std::string w2;
      for (int k = 0; k < (int)kept.size() && shifted; k++)
        if (!rowMatches(rowAt(k), P[(size_t)kept[(size_t)k]], B, w2)) shifted = false;
      for (int k = (int)kept.size(); k < A.nr && shifted; k++)
        if (!rows[(size_t)k].e.empty()) shifted = false;
      if (shifted)
      {
        ctx.fail("proj:turbo:row-shift-after-point-outside-grid",
                 fmt("%d active samples, rows of the samples after a sample outside the grid extent are stored one row too early (matrix %d x %d)", nrow, A.nr, A.nc));
        return;
      }
    }
    if (c.mesh.kind == 2 && A.nc == B.nap && A.nr < nrow)
    {
      bool trunc = true;
      std::string w2;
      for (int k = 0; k < nrow && trunc; k++)
        if (!rowMatches(rowAt(k), P[(size_t)rowsOf[(size_t)k]], B, w2)) trunc = false;
      if (trunc)
      {
        ctx.fail("proj:std:rows-truncated", fmt("%d active samples but the matrix has %d rows (trailing samples outside the mesh)", nrow, A.nr));
        return;
      }
    }
    if (bad < 0)
    {
      ctx.fail("proj:" + kn + ":shape", fmt("matrix %d x %d (getPointNumber %d, getApexNumber %d), expected %d x %d", A.nr, A.nc, proj.getPointNumber(), proj.getApexNumber(), nrow, B.nap));
      return;
    }
    size_t bar = why.find('|');
    ctx.fail("proj:" + kn + ":" + why.substr(0, bar), fmt("row %d (sample %d): ", bad, rowsOf[(size_t)bad]) + why.substr(bar + 1));
    return;
  }
  // affine functions are reproduced by mesh2point
  {
    VectorDouble f((size_t)B.nap), out;
    LD scale = fabsl(c.aff[0]);
    for (int j = 0; j < ndim; j++) scale += fabsl(c.aff[(size_t)(j + 1)]) * B.extent;
    for (int k = 0; k < B.nap; k++)
    {
      LD v = c.aff[0];
      for (int j = 0; j < ndim; j++) v += (LD)c.aff[(size_t)(j + 1)] * (LD)B.apex[(size_t)(k * ndim + j)];
      f[k] = (double)v;
    }
    ctx.at("ProjMatrix::mesh2point");
    if (proj.mesh2point(f, out) != 0 || (int)out.size() != nrow) { ctx.fail("proj:" + kn + ":mesh2point-error", "mesh2point returns an error"); return; }
    for (int k = 0; k < nrow; k++)
    {
      const ResolvedPt& p = P[(size_t)rowsOf[(size_t)k]];
      LD v = 0;
      if (p.inside)
      {
        v = c.aff[0];
        for (int j = 0; j < ndim; j++) v += (LD)c.aff[(size_t)(j + 1)] * (LD)p.x[(size_t)j];
      }
      if (!(fabsl((LD)out[k] - v) <= 1e-9L * scale + 1e-300L))
      { ctx.fail("proj:" + kn + ":affine", fmt("mesh2point of an affine function at sample %d: %.17g, expected %.17Lg", rowsOf[(size_t)k], out[k], v)); return; }
    }
  }
  bool rot = false;
  for (double a : c.mesh.ang)
    if (a != 0) rot = true;
  ctx.nontrivial(nin > 0 && (rot || ndim == 3 || c.mesh.kind == 2 || c.mesh.kind == 3));
  ctx.sig = Hash().add(ndim).add(c.mesh.kind).add(B.nap).add(nin).add(nout).addq(c.mesh.ang.empty() ? 0. : c.mesh.ang[0]).add(c.rankZ).add(c.useSel).h;
}
VERIF_SUB(proj, ProjCase, genProj, runProj);

// =====================================================================================
// shared: data / targets inside the mesh, conditional system M = diag(Q_i) + [A_i]' D^-1 [A_j]
// =====================================================================================
struct CondSystem
{
  int N = 0;
  std::vector<int> off;     // offset of each structure
  Dense M, L;               // matrix and its Cholesky factor
  std::vector<LD> b, u;     // rhs = A' D^-1 z and exact solution
  LD normM = 0, lmin = 0, kappa = 0;
};
// Qs[i]: precision of structure i (n_i x n_i), As[i]: projection (ndat x n_i), dinv: 1/variance per datum
static bool buildSystem(const std::vector<Sp>& Qs, const std::vector<Sp>& As, const std::vector<LD>& dinv, const std::vector<LD>& z, CondSystem& C)
{
  int ns = (int)Qs.size(), nd = (int)dinv.size();
  C.off.assign((size_t)ns + 1, 0);
  for (int i = 0; i < ns; i++) C.off[(size_t)i + 1] = C.off[(size_t)i] + Qs[(size_t)i].nr;
  C.N = C.off[(size_t)ns];
  C.M = Dense(C.N);
  for (int i = 0; i < ns; i++)
    for (int r = 0; r < Qs[(size_t)i].nr; r++)
      for (auto& e : Qs[(size_t)i].row[(size_t)r]) C.M.at(C.off[(size_t)i] + r, C.off[(size_t)i] + e.first) += e.second;
  for (int k = 0; k < nd; k++)
    for (int i = 0; i < ns; i++)
      for (auto& ei : As[(size_t)i].row[(size_t)k])
        for (int j = 0; j < ns; j++)
          for (auto& ej : As[(size_t)j].row[(size_t)k])
            C.M.at(C.off[(size_t)i] + ei.first, C.off[(size_t)j] + ej.first) += ei.second * dinv[(size_t)k] * ej.second;
  C.b.assign((size_t)C.N, 0.L);
  for (int k = 0; k < nd; k++)
    for (int i = 0; i < ns; i++)
      for (auto& e : As[(size_t)i].row[(size_t)k]) C.b[(size_t)(C.off[(size_t)i] + e.first)] += e.second * dinv[(size_t)k] * z[(size_t)k];
  C.L = C.M;
  if (!cholFactor(C.L)) return false;
  C.u = C.b;
  cholSolve(C.L, C.u);
  C.normM = C.M.normInf();
  C.lmin = lambdaMin(C.L);
  C.kappa = C.normM / C.lmin;
  return true;
}
// number of iterations of plain conjugate gradients on M with the library's stopping rule
// (|r|^2 / nb <= eps), used only to recognise runs that end on the iteration cap
static int cgIterations(const CondSystem& C, double nb, double eps, int cap)
{
  int N = C.N;
  std::vector<LD> x((size_t)N, 0.L), r = C.b, p = C.b, Ap;
  LD rs = 0;
  for (auto v : r) rs += v * v;
  int it = 0;
  while (it < cap && rs / (LD)nb > (LD)eps)
  {
    it++;
    C.M.mul(p, Ap);
    LD pAp = 0;
    for (int i = 0; i < N; i++) pAp += p[(size_t)i] * Ap[(size_t)i];
    LD al = rs / pAp, rn = 0;
    for (int i = 0; i < N; i++) { x[(size_t)i] += al * p[(size_t)i]; r[(size_t)i] -= al * Ap[(size_t)i]; rn += r[(size_t)i] * r[(size_t)i]; }
    for (int i = 0; i < N; i++) p[(size_t)i] = r[(size_t)i] + rn / rs * p[(size_t)i];
    rs = rn;
  }
  return it;
}

struct DataSpec
{
  std::vector<PtSpec> pts;
  std::vector<double> z;     // in units of zscale
  std::vector<int> zna, sel;
  std::vector<double> verr;  // in units of the total sill; < 0 = undefined
  int useSel = 0, useVerr = 0;
  double zscale = 1;
  template<class A> void io(A& a) { a("pts", pts)("z", z)("zna", zna)("sel", sel)("verr", verr)("useSel", useSel)("useVerr", useVerr)("zscale", zscale); }
};
static DataSpec genData(const MeshSpec& m, int nmax, bool layouts)
{
  DataSpec d;
  int n = G::sz(2, nmax);
  d.zscale = G::pick<double>({1e-6, 1e-3, 1., 1., 1., 1e3, 1e6});
  d.useSel = layouts && G::pct(25);
  d.useVerr = layouts && G::pct(25);
  for (int i = 0; i < n; i++)
  {
    PtSpec p = genPt(m, 0, false);
    p.type = 0;
    d.pts.push_back(p);
    d.z.push_back(G::r(-3, 3, 100));
    d.zna.push_back((layouts && i > 0 && G::pct(12)) ? 1 : 0);
    d.sel.push_back((d.useSel && i > 0 && G::pct(25)) ? 0 : 1);
    d.verr.push_back(G::pct(15) ? -1. : G::pick<double>({0., 1e-4, 0.01, 0.1, 1.}));
  }
  return d;
}

// =====================================================================================
// sub-property "kriging": (d) krigingSPDE / quadratic term, Cholesky vs conjugate gradients
// =====================================================================================
struct KrigCase
{
  MeshSpec mesh;
  std::vector<CovSpec> covs;
  double nugget = 0; // in units of the first sill
  int autoMesh = 0, refine = 1, border = 1, eigen = 1;
  DataSpec data;
  std::vector<PtSpec> targ;
  template<class A> void io(A& a) { a("mesh", mesh)("covs", covs)("nugget", nugget)("autoMesh", autoMesh)("refine", refine)("border", border)("eigen", eigen)("data", data)("targ", targ); }
};
static KrigCase genKrig()
{
  KrigCase c;
  c.autoMesh = G::pct(25);
  c.mesh = genMeshSpec(c.autoMesh ? 49 : 150, {0, 0, 1, 2}, c.autoMesh ? 7 : 14);
  if (c.mesh.ndim == 3) c.autoMesh = 0;
  c.data = genData(c.mesh, 25, true);
  double sill = c.data.zscale * c.data.zscale;
  int nc = G::pct(30) ? 2 : 1;
  for (int k = 0; k < nc; k++) c.covs.push_back(genCov(c.mesh.ndim, c.mesh.cell(), sill, false));
  c.nugget = G::pct(40) ? G::pick<double>({0.001, 0.05, 0.5}) : 0.;
  c.refine = G::i(1, 2);
  c.border = G::i(1, 3);
  c.eigen = 1;
  int nt = G::sz(1, 12);
  for (int i = 0; i < nt; i++) { PtSpec p = genPt(c.mesh, 0, false); p.type = 0; c.targ.push_back(p); }
  return c;
}
static const double kCgEps = 1e-8; // default of ALinearOpMulti / CGParam (EPSILON8), not changed by SPDE

static void runKrig(const KrigCase& c, Ctx& ctx)
{
  int ndim = c.mesh.ndim;
  resetGlobals(ndim, c.eigen != 0);
  ctx.label(std::string("mesh:") + (c.autoMesh ? "auto" : kindName(c.mesh.kind)));
  ctx.label(fmt("ndim:%d", ndim));
  ctx.label(fmt("ncov:%d", (int)c.covs.size()));
  Built B;
  if (!buildMesh(c.mesh, B, ctx)) return;
  // data and targets
  int np = (int)c.data.pts.size();
  std::vector<std::vector<double>> xd, xt;
  for (auto& p : c.data.pts) xd.push_back(resolvePt(c.mesh, B, p).x);
  for (auto& p : c.targ) xt.push_back(resolvePt(c.mesh, B, p).x);
  double totalSill = 0;
  for (auto& cv : c.covs) totalSill += cv.sill;
  double nug = c.nugget * c.covs[0].sill;
  ctx.at("Db");
  std::unique_ptr<Db> dbin(makeDb(ndim, xd)), dbout(makeDb(ndim, xt));
  VectorDouble z((size_t)np), ve((size_t)np), se((size_t)np);
  std::vector<LD> zc;
  std::vector<int> act;
  for (int i = 0; i < np; i++)
  {
    z[i] = c.data.zna[(size_t)i] ? TEST : c.data.zscale * c.data.z[(size_t)i];
    ve[i] = (c.data.verr[(size_t)i] < 0) ? TEST : c.data.verr[(size_t)i] * totalSill;
    se[i] = c.data.sel[(size_t)i];
    if (c.data.zna[(size_t)i] || (c.data.useSel && !c.data.sel[(size_t)i])) continue;
    act.push_back(i);
    zc.push_back((LD)z[i]);
  }
  dbin->addColumns(z, "z1", ELoc::Z, 0);
  if (c.data.useVerr) dbin->addColumns(ve, "v1", ELoc::V, 0);
  if (c.data.useSel) dbin->addColumns(se, "sel", ELoc::SEL, 0);
  int nd = (int)act.size();
  if (nd == 0) { ctx.inconclusive("no-data"); return; }
  ctx.label(c.data.useVerr ? "layout:verr" : (nug > 0 ? "layout:nugget" : "layout:plain"));
  ctx.at("Model");
  std::unique_ptr<Model> model(buildModel(ndim, c.covs, nug));
  if (!model) { ctx.fail("model-null", "model construction failed"); return; }
  SPDEParam params(c.refine, 18, c.border);
  const AMesh* userMesh = c.autoMesh ? nullptr : B.mesh;
  const Db* domain = c.autoMesh ? (const Db*)B.grid.get() : (const Db*)dbout.get();
  int ns = (int)c.covs.size();

  ctx.at("SPDE(useCholesky=1)");
  SPDE s1(model.get(), domain, dbin.get(), ESPDECalcMode::KRIGING, userMesh, 1, params);
  ctx.at("SPDE::compute(useCholesky=1)");
  int u1 = s1.compute(dbout.get());
  VectorDouble est1 = dbout->getColumnByUID(u1);
  int nt = (int)xt.size();
  if ((int)est1.size() != nt) { ctx.fail("krig:output-size", fmt("%d estimates for %d targets", (int)est1.size(), nt)); return; }
  // the pieces of the system as held by the Cholesky-mode object
  std::vector<Sp> Qs((size_t)ns), As((size_t)ns), Ao((size_t)ns);
  int total = 0;
  for (int i = 0; i < ns; i++)
  {
    const PrecisionOpCs* p = s1.getPrecisionOpCs(i);
    const ProjMatrix* a = s1.getProjMatrix(i);
    const AMesh* me = s1.getMeshingKrig(i);
    if (p == nullptr || a == nullptr || me == nullptr || p->getQ() == nullptr) { ctx.fail("krig:pieces-null", "SPDE object without precision / projection / mesh"); return; }
    total += me->getNApices();
    if (total > 460) { ctx.inconclusive("mesh-too-large-for-dense-bound"); return; }
    if (!spFrom(p->getQ(), Qs[(size_t)i]) || !spFrom(a, As[(size_t)i])) { ctx.fail("krig:pieces-shape", "cannot read Q / A"); return; }
    if (As[(size_t)i].nr != nd || As[(size_t)i].nc != Qs[(size_t)i].nr) { ctx.fail("krig:proj-shape", fmt("data projection %d x %d for %d data and %d apices", As[(size_t)i].nr, As[(size_t)i].nc, nd, Qs[(size_t)i].nr)); return; }
    for (int k = 0; k < nd; k++)
    {
      LD sum = 0;
      for (auto& e : As[(size_t)i].row[(size_t)k]) sum += e.second;
      if (!(fabsl(sum - 1.L) <= 1e-6L)) { ctx.inconclusive("datum-outside-auto-mesh"); return; }
    }
    ctx.at("ProjMatrix(dbout,mesh)");
    ProjMatrix po(dbout.get(), me);
    if (!spFrom(&po, Ao[(size_t)i]) || Ao[(size_t)i].nr != nt) { ctx.fail("krig:target-proj-shape", "target projection has a wrong shape"); return; }
  }
  VectorDouble var = s1.getPrecisionKrig()->getAllVarianceData();
  if ((int)var.size() != nd) { ctx.fail("krig:variance-size", fmt("%d data variances for %d active defined data", (int)var.size(), nd)); return; }
  std::vector<LD> dinv;
  for (int k = 0; k < nd; k++)
  {
    if (!(var[k] > 0)) { ctx.fail("krig:variance-sign", fmt("data variance %g", var[k])); return; }
    dinv.push_back(1.L / (LD)var[k]);
  }
  CondSystem C;
  if (!buildSystem(Qs, As, dinv, zc, C)) { ctx.fail("krig:system-not-PD", "Q + A'D^-1A is not positive definite"); return; }
  if (C.kappa > 1e10L) { ctx.inconclusive("ill-conditioned"); return; }
  ctx.label(C.kappa > 1e6 ? "kappa:>1e6" : "kappa:<1e6");
  LD nb2 = norm2(C.b);
  ctx.label(nb2 < 1 ? "rhs-norm:<1" : "rhs-norm:>=1");
  // reference estimates and the vectors M^-1 a_j
  std::vector<LD> ref((size_t)nt, 0.L), amp((size_t)nt, 0.L);
  LD emax = 0;
  for (int j = 0; j < nt; j++)
  {
    std::vector<LD> a((size_t)C.N, 0.L);
    for (int i = 0; i < ns; i++)
      for (auto& e : Ao[(size_t)i].row[(size_t)j]) a[(size_t)(C.off[(size_t)i] + e.first)] += e.second;
    for (int k = 0; k < C.N; k++) ref[(size_t)j] += a[(size_t)k] * C.u[(size_t)k];
    cholSolve(C.L, a);
    amp[(size_t)j] = norm2(a);
  }
  // round-off of an estimate a'u is relative to the size of u (the estimate itself may be a small
  // difference of large terms), not to the estimate
  emax = normInfV(C.u);
  LD round = 1e3L * C.kappa * 2.220446e-16L;
  for (int j = 0; j < nt; j++)
    if (!(fabsl((LD)est1[j] - ref[(size_t)j]) <= round * emax + 1e-300L))
    { ctx.fail("krig:chol-vs-dense", fmt("target %d: useCholesky=1 gives %.17g, the documented system gives %.17Lg (kappa %Lg)", j, est1[j], ref[(size_t)j], C.kappa)); return; }
  ctx.at("SPDE::computeQuad(useCholesky=1)");
  double q1 = s1.computeQuad();
  LD zdz = 0, bu = 0;
  for (int k = 0; k < nd; k++) zdz += zc[(size_t)k] * zc[(size_t)k] * dinv[(size_t)k];
  for (int k = 0; k < C.N; k++) bu += C.b[(size_t)k] * C.u[(size_t)k];
  LD qref = zdz - bu;
  if (!(fabsl((LD)q1 - qref) <= round * zdz + 1e-300L))
  { ctx.fail("quad:chol-vs-dense", fmt("quadratic term %.17g, reference %.17Lg (z'D^-1z = %Lg)", q1, qref, zdz)); return; }

  // iterative mode
  ctx.at("SPDE(useCholesky=0)");
  SPDE s0(model.get(), domain, dbin.get(), ESPDECalcMode::KRIGING, userMesh, 0, params);
  ctx.at("SPDE::compute(useCholesky=0)");
  int u0 = s0.compute(dbout.get());
  VectorDouble est0 = dbout->getColumnByUID(u0);
  if ((int)est0.size() != nt) { ctx.fail("krig:output-size", fmt("%d estimates for %d targets", (int)est0.size(), nt)); return; }
  ctx.at("SPDE::computeQuad(useCholesky=0)");
  double q0 = s0.computeQuad();
  // iteration cap: the library stops on |r|^2 / sum_i |b_i| <= eps or 1000 iterations
  double nbLib = 0;
  for (int i = 0; i < ns; i++)
  {
    LD s = 0;
    for (int k = C.off[(size_t)i]; k < C.off[(size_t)i + 1]; k++) s += C.b[(size_t)k] * C.b[(size_t)k];
    nbLib += (double)sqrtl(s);
  }
  if (nbLib > 0 && cgIterations(C, nbLib, kCgEps, 1000) >= 800) { ctx.inconclusive("cg-near-iteration-cap"); return; }
  // |r| <= tau |b| with tau = sqrt(eps) (squared-norm criterion |r|^2 <= eps |b|^2)
  LD tau = sqrtl((LD)kCgEps);
  for (int j = 0; j < nt; j++)
  {
    LD bound = tau * nb2 * amp[(size_t)j] * 1.01L + 2 * round * emax + 1e-300L;
    if (!(fabsl((LD)est0[j] - (LD)est1[j]) <= bound))
    {
      ctx.fail("krig:chol-vs-cg", fmt("target %d: Cholesky %.17g, conjugate gradients %.17g, |diff| %.3Lg > bound %.3Lg = sqrt(eps)|b||M^-1 a| (|b| = %Lg)", j, est1[j], est0[j],
                                      fabsl((LD)est0[j] - (LD)est1[j]), bound, nb2));
      return;
    }
  }
  {
    LD bound = tau * nb2 * norm2(C.u) * 1.01L + 2 * round * zdz + 1e-300L;
    if (!(fabsl((LD)q0 - (LD)q1) <= bound))
    { ctx.fail("quad:chol-vs-cg", fmt("quadratic term: Cholesky %.17g, conjugate gradients %.17g, bound %.3Lg (|b| = %Lg)", q1, q0, bound, nb2)); return; }
  }
  ctx.nontrivial(nontrivialGeom(c.mesh, c.covs) || c.autoMesh);
  ctx.sig = Hash().add(ndim).add(c.autoMesh ? 9 : c.mesh.kind).add(C.N).add(nd).add(nt).add(ns).addq(c.data.zscale).addq(c.covs[0].param).add(c.data.useVerr).add(c.data.useSel).h;
}
VERIF_SUB(kriging, KrigCase, genKrig, runKrig);

// =====================================================================================
// sub-property "solves": (e) every solve satisfies its system
// =====================================================================================
struct SolveCase
{
  MeshSpec mesh;
  std::vector<CovSpec> covs;
  DataSpec data;
  std::vector<double> var; // per datum, in units of the total sill
  double nugget = 0;
  int epsExp = 8, tolExp = 8, eigen = 1;
  std::vector<double> x;
  template<class A> void io(A& a) { a("mesh", mesh)("covs", covs)("data", data)("var", var)("nugget", nugget)("epsExp", epsExp)("tolExp", tolExp)("eigen", eigen)("x", x); }
};
static SolveCase genSolve()
{
  SolveCase c;
  c.mesh = genMeshSpec(150, {0, 0, 1, 2});
  c.data = genData(c.mesh, 25, false);
  double sill = c.data.zscale * c.data.zscale;
  int nc = G::pct(30) ? 2 : 1;
  for (int k = 0; k < nc; k++) c.covs.push_back(genCov(c.mesh.ndim, c.mesh.cell(), sill, false));
  double vs = G::pick<double>({0.01, 0.1, 1., 10.});
  for (size_t i = 0; i < c.data.pts.size(); i++) c.var.push_back(vs * G::r(1, 20, 1) / 10.);
  c.nugget = G::pct(50) ? G::pick<double>({0.001, 0.05, 0.5}) : 0.;
  c.epsExp = G::pick<int>({4, 6, 8, 8, 10, 12});
  c.tolExp = G::pick<int>({3, 5, 8, 10});
  // csparse storage only with one structure: with two, MatrixSparse::glue loses the trailing empty columns of
  // the projection matrices and PrecisionOpMultiConditionalCs overruns a buffer (recorded finding, the
  // process dies, so the region is excluded here by construction)
  c.eigen = (nc == 1 && G::pct(25)) ? 0 : 1;
  for (int i = 0; i < 40; i++) c.x.push_back(G::r(-8, 8, 8));
  return c;
}
static bool residualOK(Ctx& ctx, const std::string& key, const CondSystem& C, const std::vector<LD>& b, const std::vector<double>& x, LD tol2, const std::string& what)
{
  std::vector<LD> xl = toLD(x), r;
  C.M.mul(xl, r);
  for (int i = 0; i < C.N; i++) r[(size_t)i] -= b[(size_t)i];
  LD res = norm2(r), nb = norm2(b);
  LD floor = 1e-9L * sqrtl((LD)C.N) * (C.normM * normInfV(xl) + normInfV(b));
  if (!(res <= tol2 * nb + floor))
  {
    ctx.fail(key, what + fmt(": |Mx-b| = %.4Lg, |b| = %.4Lg, relative %.3Lg, admitted %.3Lg (+ round-off %.3Lg)", res, nb, res / nb, tol2, floor));
    return false;
  }
  return true;
}
static void runSolveMode(const SolveCase& c, Ctx& ctx, bool spdeOnly)
{
  int ndim = c.mesh.ndim;
  resetGlobals(ndim, c.eigen != 0);
  ctx.label(std::string("mesh:") + kindName(c.mesh.kind));
  ctx.label(fmt("ndim:%d", ndim));
  ctx.label(c.eigen ? "storage:eigen" : "storage:cs");
  Built B;
  if (!buildMesh(c.mesh, B, ctx)) return;
  int nd = (int)c.data.pts.size(), ns = (int)c.covs.size(), n = B.nap;
  std::vector<std::vector<double>> xd;
  for (auto& p : c.data.pts) xd.push_back(resolvePt(c.mesh, B, p).x);
  double totalSill = 0;
  for (auto& cv : c.covs) totalSill += cv.sill;
  ctx.at("Db");
  std::unique_ptr<Db> db(makeDb(ndim, xd));
  VectorDouble z((size_t)nd);
  std::vector<LD> zc;
  for (int i = 0; i < nd; i++) { z[i] = c.data.zscale * c.data.z[(size_t)i]; zc.push_back((LD)z[i]); }
  db->addColumns(z, "z1", ELoc::Z, 0);
  ctx.at("Model");
  std::unique_ptr<Model> model(buildModel(ndim, c.covs, c.nugget * c.covs[0].sill));
  if (!model) { ctx.fail("model-null", "model construction failed"); return; }
  // operators of each structure on the same mesh
  std::vector<std::unique_ptr<PrecisionOp>> pops;
  std::vector<std::unique_ptr<PrecisionOpCs>> pcss;
  std::vector<std::unique_ptr<ProjMatrix>> projs, projs2;
  std::vector<Sp> Qs((size_t)ns), As((size_t)ns);
  for (int i = 0; i < ns; i++)
  {
    ctx.at("PrecisionOp / PrecisionOpCs / ProjMatrix");
    pops.emplace_back(new PrecisionOp(B.mesh, model->getCova(i)));
    pcss.emplace_back(new PrecisionOpCs(B.mesh, model->getCova(i)));
    projs.emplace_back(new ProjMatrix(db.get(), B.mesh, 0));
    projs2.emplace_back(new ProjMatrix(db.get(), B.mesh, 0));
    if (pcss.back()->getQ() == nullptr || !spFrom(pcss.back()->getQ(), Qs[(size_t)i]) || !spFrom(projs.back().get(), As[(size_t)i]) || As[(size_t)i].nr != nd || As[(size_t)i].nc != n)
    { ctx.fail("solve:pieces", "cannot read Q / A"); return; }
  }
  std::vector<LD> dinv;
  VectorDouble var((size_t)nd);
  for (int k = 0; k < nd; k++) { var[k] = c.var[(size_t)k] * totalSill; dinv.push_back(1.L / (LD)var[k]); }
  CondSystem C;
  if (!buildSystem(Qs, As, dinv, zc, C)) { ctx.fail("solve:system-not-PD", "Q + A'D^-1A is not positive definite"); return; }
  if (C.kappa > 1e10L) { ctx.inconclusive("ill-conditioned"); return; }
  LD nb2 = norm2(C.b);
  ctx.label(nb2 < 1 ? "rhs-norm:<1" : "rhs-norm:>=1");
  auto flat = [&](const std::vector<std::vector<double>>& v) {
    std::vector<double> f;
    for (auto& e : v) f.insert(f.end(), e.begin(), e.end());
    return f;
  };
  std::vector<double> zv(z.begin(), z.end());
  std::vector<std::vector<double>> xin((size_t)ns);
  for (int i = 0; i < ns; i++)
    for (int k = 0; k < n; k++) xin[(size_t)i].push_back(c.x[(size_t)(i * 7 + k) % c.x.size()]);

  // ---- A. conjugate gradients of PrecisionOpMultiConditional (its residual is judged after the
  //         Cholesky-based checks so that the recorded stopping-rule finding does not hide them)
  std::vector<double> cgOut;
  double cgEps = 0;
  auto cgResidual = [&]() {
    return residualOK(ctx, "cg-multi:residual", C, C.b, cgOut, sqrtl((LD)cgEps), fmt("conjugate gradients (eps %g, i.e. |r|^2 <= eps |b|^2)", cgEps));
  };
  if (!spdeOnly)
  {
    PrecisionOpMultiConditional pmc;
    for (int i = 0; i < ns; i++)
      if (pmc.push_back(pops[(size_t)i].get(), projs[(size_t)i].get()) != 0) { ctx.fail("multi:push_back", "push_back refuses consistent operators"); return; }
    pmc.setVarianceDataVector(var);
    double eps = std::pow(10., -c.epsExp);
    pmc.setEps(eps);
    pmc.setNIterMax(200000);
    ctx.at("PrecisionOpMultiConditional::computeRhs");
    std::vector<std::vector<double>> rhs = pmc.computeRhs(zv);
    std::vector<double> rf = flat(rhs);
    if ((int)rf.size() != C.N) { ctx.fail("multi:computeRhs", "wrong size"); return; }
    LD bmax = normInfV(C.b);
    for (int k = 0; k < C.N; k++)
      if (!(fabsl((LD)rf[(size_t)k] - C.b[(size_t)k]) <= 1e-10L * bmax + 1e-300L)) { ctx.fail("multi:computeRhs", fmt("component %d: %.17g, A'D^-1 z gives %.17Lg", k, rf[(size_t)k], C.b[(size_t)k])); return; }
    ctx.at("PrecisionOpMultiConditional::evalDirect");
    std::vector<std::vector<double>> yo((size_t)ns);
    for (int i = 0; i < ns; i++) yo[(size_t)i].assign((size_t)n, 0.);
    pmc.evalDirect(xin, yo);
    {
      std::vector<LD> xf = toLD(flat(xin)), yr, ya;
      C.M.mul(xf, yr);
      std::vector<double> yf = flat(yo);
      LD sc = C.normM * normInfV(xf);
      for (int k = 0; k < C.N; k++)
        if (!(fabsl((LD)yf[(size_t)k] - yr[(size_t)k]) <= 1e-8L * sc)) { ctx.fail("multi:evalDirect", fmt("component %d: %.17g, (Q + A'D^-1A)x gives %.17Lg", k, yf[(size_t)k], yr[(size_t)k])); return; }
    }
    ctx.at("PrecisionOpMultiConditional::evalInverse");
    std::vector<std::vector<double>> out((size_t)ns);
    for (int i = 0; i < ns; i++) out[(size_t)i].assign((size_t)n, 0.);
    pmc.evalInverse(rhs, out);
    cgOut = flat(out);
    cgEps = eps;
  }
  // ---- B. sparse Cholesky of PrecisionOpMultiConditionalCs
  if (!spdeOnly)
  {
    PrecisionOpMultiConditionalCs pcs;
    for (int i = 0; i < ns; i++)
      if (pcs.push_back(pcss[(size_t)i].get(), projs2[(size_t)i].get()) != 0) { ctx.fail("multi-cs:push_back", "push_back refuses consistent operators"); return; }
    pcs.setVarianceDataVector(var);
    ctx.at("PrecisionOpMultiConditionalCs::makeReady");
    pcs.makeReady();
    std::vector<std::vector<double>> rhs = pcs.computeRhs(zv), out((size_t)ns);
    for (int i = 0; i < ns; i++) out[(size_t)i].assign((size_t)n, 0.);
    ctx.at("PrecisionOpMultiConditionalCs::evalInverse");
    pcs.evalInverse(rhs, out);
    if (!residualOK(ctx, std::string("chol-multi:residual:") + (c.eigen ? "eigen" : "csparse"), C, C.b, flat(out), 0.L, "sparse Cholesky of Q + A'D^-1A")) return;
    ctx.at("PrecisionOpMultiConditionalCs::computeLogDetOp");
    double ld = pcs.computeLogDetOp(1);
    LD ldr = cholLogDet(C.L);
    if (!(fabsl((LD)ld - ldr) <= 1e-8L * (fabsl(ldr) + C.N))) { ctx.fail(std::string("chol-multi:logdet:") + (c.eigen ? "eigen" : "csparse"), fmt("log det = %.17g, dense reference %.17Lg", ld, ldr)); return; }
    ctx.at("PrecisionOpMultiConditionalCs::computeQuadratic");
    double q = pcs.computeQuadratic(zv);
    LD zdz = 0, bu = 0;
    for (int k = 0; k < nd; k++) zdz += zc[(size_t)k] * zc[(size_t)k] * dinv[(size_t)k];
    for (int k = 0; k < C.N; k++) bu += C.b[(size_t)k] * C.u[(size_t)k];
    if (!(fabsl((LD)q - (zdz - bu)) <= 1e3L * C.kappa * 2.220446e-16L * zdz + 1e-300L)) { ctx.fail(std::string("chol-multi:quadratic:") + (c.eigen ? "eigen" : "csparse"), fmt("z'Sigma^-1 z = %.17g, reference %.17Lg", q, zdz - bu)); return; }
  }
  ctx.nontrivial(nontrivialGeom(c.mesh, c.covs));
  ctx.sig = Hash().add(ndim).add(c.mesh.kind).add(C.N).add(nd).add(ns).add(c.epsExp).add(c.tolExp).addq(c.data.zscale).add(c.eigen).h;
  if (!spdeOnly) { cgResidual(); return; }
  // ProjMultiMatrix::createFromDbAndMeshes admits one mesh (or one per variable): single-structure models only;
  // Eigen storage only (MatrixSparse::addToDest ignores the csparse storage, recorded finding)
  if (!c.eigen || ns != 1) { ctx.inconclusive("spdeop-needs-eigen-storage-and-one-structure"); return; }

  // ---- C. SPDEOp (Eigen conjugate gradients through LinearOpCGSolver) and SPDEOpMatrix (Cholesky)
  {
    VectorMeshes meshes((size_t)ns, B.mesh);
    ctx.at("buildInvNugget");
    std::unique_ptr<MatrixSparse> invn(buildInvNugget(db.get(), model.get()));
    Sp Nn;
    if (!invn || !spFrom(invn.get(), Nn) || Nn.nr != nd || Nn.nc != nd) { ctx.fail("spdeop:invnoise-shape", "buildInvNugget returns a matrix of wrong shape"); return; }
    std::vector<LD> ninv;
    for (int k = 0; k < nd; k++)
    {
      if (Nn.row[(size_t)k].size() != 1 || !(Nn.get(k, k) > 0)) { ctx.fail("spdeop:invnoise-diagonal", "inverse nugget matrix is not a positive diagonal"); return; }
      ninv.push_back(Nn.get(k, k));
    }
    CondSystem C2;
    if (!buildSystem(Qs, As, ninv, zc, C2)) { ctx.fail("solve:system-not-PD", "Q + A'N A is not positive definite"); return; }
    if (C2.kappa > 1e10L) { ctx.inconclusive("ill-conditioned"); return; }
    ctx.at("ProjMultiMatrix::createFromDbAndMeshes");
    ProjMultiMatrix AM = ProjMultiMatrix::createFromDbAndMeshes(db.get(), meshes);
    std::vector<double> xf = flat(xin);
    std::vector<LD> yr;
    C2.M.mul(toLD(xf), yr);
    LD sc = C2.normM * normInfV(toLD(xf));
    {
      ctx.at("SPDEOpMatrix");
      PrecisionOpMultiMatrix Qm(model.get(), meshes);
      SPDEOpMatrix opm(&Qm, &AM, invn.get());
      if (opm.getSize() != C2.N) { ctx.fail("spdeop-matrix:size", fmt("size %d, expected %d", opm.getSize(), C2.N)); return; }
      ctx.at("SPDEOpMatrix::evalDirect");
      VectorDouble y = opm.evalDirect(toVD(xf));
      for (int k = 0; k < C2.N; k++)
        if (!(fabsl((LD)y[k] - yr[(size_t)k]) <= 1e-8L * sc)) { ctx.fail("spdeop-matrix:evalDirect", fmt("component %d: %.17g, (Q + A'NA)x gives %.17Lg", k, y[k], yr[(size_t)k])); return; }
      ctx.at("SPDEOpMatrix::kriging");
      VectorDouble kr = opm.kriging(z);
      if ((int)kr.size() != C2.N) { ctx.fail("spdeop-matrix:kriging-size", "kriging returns a vector of wrong size"); return; }
      if (!residualOK(ctx, "spdeop-matrix:residual", C2, C2.b, kr.getVector(), 0.L, "SPDEOpMatrix::kriging (Cholesky)")) return;
    }
    {
      ctx.at("SPDEOp");
      PrecisionOpMulti Qf(model.get(), meshes);
      MatrixSquareSymmetricSim invp(invn.get());
      SPDEOp opf(&Qf, &AM, &invp);
      double tol = std::pow(10., -c.tolExp);
      opf.setTolerance(tol);
      opf.setMaxIterations(50 * C2.N + 1000);
      ctx.at("SPDEOp::evalDirect");
      VectorDouble y = opf.evalDirect(toVD(xf));
      for (int k = 0; k < C2.N; k++)
        if (!(fabsl((LD)y[k] - yr[(size_t)k]) <= 1e-8L * sc)) { ctx.fail("spdeop-free:evalDirect", fmt("component %d: %.17g, (Q + A'NA)x gives %.17Lg", k, y[k], yr[(size_t)k])); return; }
      ctx.at("SPDEOp::kriging");
      VectorDouble kr = opf.kriging(z);
      if ((int)kr.size() != C2.N) { ctx.fail("spdeop-free:kriging-size", "kriging returns a vector of wrong size"); return; }
      if (opf.getError() <= tol)
      {
        if (!residualOK(ctx, "spdeop-free:cg-residual", C2, C2.b, kr.getVector(), 2.L * (LD)tol, fmt("LinearOpCGSolver (tolerance %g, %d iterations, reported error %g)", tol, opf.getIterations(), opf.getError()))) return;
      }
      else
        ctx.label("eigen-cg:not-converged");
    }
  }
}
static void runSolve(const SolveCase& c, Ctx& ctx) { runSolveMode(c, ctx, false); }
VERIF_SUB(solves, SolveCase, genSolve, runSolve);
// sub-property "spdeop": SPDEOpMatrix (Cholesky) and SPDEOp (matrix-free, Eigen conjugate gradients through
// LinearOpCGSolver) apply and solve the documented system Q + A' N A
static SolveCase genSpdeOp()
{
  SolveCase c = genSolve();
  c.covs.resize(1);
  c.eigen = 1;
  return c;
}
static void runSpdeOp(const SolveCase& c, Ctx& ctx) { runSolveMode(c, ctx, true); }
VERIF_SUB(spdeop, SolveCase, genSpdeOp, runSpdeOp);

// =====================================================================================
// sub-property "powers": (a, continued) the matrix-free powers used by simulation (P^-1/2) and by
// evalInverse (P^-1) apply Lambda^-1 p(S) [Lambda^-1] with the library's own Chebyshev polynomial p
// (each case fits two Chebyshev series on 2^20 points: slow, few cases)
// =====================================================================================
struct PowCase
{
  MeshSpec mesh;
  CovSpec cov;
  std::vector<double> w;
  template<class A> void io(A& a) { a("mesh", mesh)("cov", cov)("w", w); }
};
static PowCase genPow()
{
  PowCase c;
  c.mesh = genMeshSpec(120, {0, 1, 2, 3});
  c.cov = genCov(c.mesh.ndim, c.mesh.cell(), G::pick<double>({1e-4, 1., 1e4}), false);
  for (int i = 0; i < 40; i++) c.w.push_back(G::r(-8, 8, 8));
  return c;
}
// y = sum_k c_k T_k((2 S - (a+b) I) / (b-a)) x
static void chebApply(const Sp& S, const std::vector<LD>& cf, LD a, LD b, const std::vector<LD>& x, std::vector<LD>& y, LD* sumAbs)
{
  int n = S.nr;
  LD v1 = 2.L / (b - a), v2 = -(b + a) / (b - a);
  std::vector<LD> t0 = x, t1((size_t)n), t2((size_t)n), sx;
  S.mul(x, sx);
  for (int i = 0; i < n; i++) t1[(size_t)i] = v1 * sx[(size_t)i] + v2 * x[(size_t)i];
  y.assign((size_t)n, 0.L);
  *sumAbs = 0;
  for (size_t k = 0; k < cf.size(); k++)
  {
    *sumAbs += fabsl(cf[k]);
    if (k == 0) { for (int i = 0; i < n; i++) y[(size_t)i] += cf[0] * t0[(size_t)i]; continue; }
    if (k == 1) { for (int i = 0; i < n; i++) y[(size_t)i] += cf[1] * t1[(size_t)i]; continue; }
    S.mul(t1, sx);
    for (int i = 0; i < n; i++) t2[(size_t)i] = 2.L * (v1 * sx[(size_t)i] + v2 * t1[(size_t)i]) - t0[(size_t)i];
    for (int i = 0; i < n; i++) y[(size_t)i] += cf[k] * t2[(size_t)i];
    t0 = t1;
    t1 = t2;
  }
}
static void runPow(const PowCase& c, Ctx& ctx)
{
  int ndim = c.mesh.ndim;
  resetGlobals(ndim, true);
  ctx.label(std::string("mesh:") + kindName(c.mesh.kind));
  ctx.label(fmt("ndim:%d", ndim));
  Built B;
  if (!buildMesh(c.mesh, B, ctx)) return;
  if (B.nel == 0) { ctx.inconclusive("no-element"); return; }
  std::unique_ptr<Model> model(buildModel(ndim, {c.cov}, 0.));
  if (!model) { ctx.fail("model-null", "model construction failed"); return; }
  ctx.at("PrecisionOp(mesh,cova)");
  PrecisionOp pop(B.mesh, model->getCova(0));
  int n = B.nap;
  Sp S;
  if (!spFrom(pop.getShiftOp()->getS(), S) || S.nr != n) { ctx.fail("S-shape", "shift operator has a wrong shape"); return; }
  std::vector<LD> lam = toLD(pop.getShiftOp()->getLambdas().getVector());
  LD bmax = (LD)pop.getShiftOp()->getMaxEigenValue();
  std::vector<double> w = cut(c.w, n);
  std::vector<LD> wl = toLD(w);
  // simulation: y = Lambda^-1 p_{-1/2}(S) w
  {
    std::vector<double> y((size_t)n, 0.);
    ctx.at("PrecisionOp::evalSimulate");
    pop.evalSimulate(constvect(w), vect(y));
    VectorDouble cf = pop.getPolyCoeffs(EPowerPT::MINUSHALF);
    if (cf.size() < 2) { ctx.fail("powers:coeffs", "no Chebyshev coefficient for the power -1/2"); return; }
    ctx.label(cf.size() > 200 ? "cheb-terms:>200" : "cheb-terms:<=200");
    std::vector<LD> ref, cl(cf.begin(), cf.end());
    LD sa;
    chebApply(S, cl, 0.L, bmax, wl, ref, &sa);
    LD sc = 0;
    for (int i = 0; i < n; i++) { ref[(size_t)i] /= lam[(size_t)i]; sc = std::max(sc, sa * normInfV(wl) / lam[(size_t)i]); }
    for (int i = 0; i < n; i++)
      if (!(fabsl((LD)y[(size_t)i] - ref[(size_t)i]) <= 1e-8L * sc))
      { ctx.fail("powers:simulate", fmt("evalSimulate component %d = %.17g, Lambda^-1 p(S) w gives %.17Lg (scale %Lg)", i, y[(size_t)i], ref[(size_t)i], sc)); return; }
  }
  // inverse: x = Lambda^-1 p_{-1}(S) Lambda^-1 b
  {
    std::vector<double> x((size_t)n, 0.);
    ctx.at("PrecisionOp::evalInverse");
    pop.evalInverse(constvect(w), x);
    VectorDouble cf = pop.getPolyCoeffs(EPowerPT::MINUSONE);
    if (cf.size() < 2) { ctx.fail("powers:coeffs", "no Chebyshev coefficient for the power -1"); return; }
    std::vector<LD> in((size_t)n), ref, cl(cf.begin(), cf.end());
    for (int i = 0; i < n; i++) in[(size_t)i] = wl[(size_t)i] / lam[(size_t)i];
    LD sa;
    chebApply(S, cl, 0.L, bmax, in, ref, &sa);
    LD sc = 0;
    for (int i = 0; i < n; i++) { ref[(size_t)i] /= lam[(size_t)i]; sc = std::max(sc, sa * normInfV(in) / lam[(size_t)i]); }
    for (int i = 0; i < n; i++)
      if (!(fabsl((LD)x[(size_t)i] - ref[(size_t)i]) <= 1e-8L * sc))
      { ctx.fail("powers:inverse", fmt("evalInverse component %d = %.17g, Lambda^-1 p(S) Lambda^-1 b gives %.17Lg (scale %Lg)", i, x[(size_t)i], ref[(size_t)i], sc)); return; }
  }
  ctx.nontrivial(nontrivialGeom(c.mesh, {c.cov}));
  ctx.sig = Hash().add(ndim).add(c.mesh.kind).add(n).addq(c.cov.param).addq(c.cov.ranges[0] / c.mesh.cell()).h;
}
VERIF_SUB(powers, PowCase, genPow, runPow);

VERIF_MAIN()
