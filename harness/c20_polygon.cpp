// C20 — point-in-polygon decisions and polygon selections are geometrically exact.
// Oracle: every polygon lives on an integer lattice ("fine units"); the truth is the even-odd rule
// evaluated with exact 64-bit integer cross products (and, for polyomino outlines, the membership of
// the lattice cell known by construction, used as a self-check of the oracle).  Real coordinates are
// (fine + t) * 2^k, which is exact in binary, so the library sees exactly the polygon of the oracle.
// DESIGN.md §5 C20.
#include "verif.hpp"

#include "Polygon/Polygons.hpp"
#include "Polygon/PolyElem.hpp"
#include "Db/Db.hpp"
#include "Db/DbGrid.hpp"
#include "Basic/NamingConvention.hpp"
#include "Space/ASpaceObject.hpp"
#include "Enum/ELoadBy.hpp"
#include "Enum/ELoc.hpp"
#include "Enum/ESpaceType.hpp"
#include "geoslib_define.h"

#include <algorithm>
#include <csignal>
#include <sys/time.h>
#include <array>
#include <memory>
#include <numeric>

using namespace vf;
typedef long long I64;

// =================================================================== plain data of the cases
struct Ring
{
  std::vector<int> xy;   // x0 y0 x1 y1 ... (fine units), stored open; consecutive duplicates allowed
  int closed = 0;        // hand the polygon to the library with the first vertex repeated at the end
  int hasZmin = 0, zmin = 0, hasZmax = 0, zmax = 0; // vertical limits (fine units, even numbers)
  template<class A> void io(A& a)
  {
    a("xy", xy)("closed", closed)("hasZmin", hasZmin)("zmin", zmin)("hasZmax", hasZmax)("zmax", zmax);
  }
  int n() const { return (int)xy.size() / 2; }
  int X(int i) const { return xy[2 * (size_t)i]; }
  int Y(int i) const { return xy[2 * (size_t)i + 1]; }
};
struct Xf // real = (fine + t) * 2^k
{
  int k = 0, tx = 0, ty = 0;
  template<class A> void io(A& a) { a("k", k)("tx", tx)("ty", ty); }
  double x(I64 f) const { return std::ldexp((double)(f + tx), k); }
  double y(I64 f) const { return std::ldexp((double)(f + ty), k); }
  double z(I64 f) const { return std::ldexp((double)f, k); }
};

// =================================================================== exact integer geometry
static I64 crs(I64 ax, I64 ay, I64 bx, I64 by) { return ax * by - ay * bx; }
static bool onSeg(I64 ax, I64 ay, I64 bx, I64 by, I64 px, I64 py)
{
  if (crs(bx - ax, by - ay, px - ax, py - ay) != 0) return false;
  return std::min(ax, bx) <= px && px <= std::max(ax, bx) && std::min(ay, by) <= py && py <= std::max(ay, by);
}
static bool onBoundary(const Ring& r, I64 px, I64 py)
{
  int n = r.n();
  for (int i = 0; i < n; i++)
  {
    int j = (i + 1) % n;
    if (onSeg(r.X(i), r.Y(i), r.X(j), r.Y(j), px, py)) return true;
  }
  return false;
}
// even-odd rule, half-open edges (an edge counts when exactly one end is strictly above the point)
static bool evenOdd(const Ring& r, I64 px, I64 py)
{
  bool in = false;
  int n = r.n();
  for (int i = 0; i < n; i++)
  {
    int j = (i + 1) % n;
    I64 ax = r.X(i), ay = r.Y(i), bx = r.X(j), by = r.Y(j);
    if ((ay > py) == (by > py)) continue;
    I64 den = by - ay;
    I64 num = (ax - px) * den + (py - ay) * (bx - ax); // (xinter - px) * den
    if ((num > 0 && den > 0) || (num < 0 && den < 0)) in = !in;
  }
  return in;
}
// 0 generic, 1 level with a vertex, 2 level with a horizontal edge (implies 1)
static int levelClass(const Ring& r, I64 py)
{
  int n = r.n();
  int c = 0;
  for (int i = 0; i < n; i++)
  {
    if (r.Y(i) != py) continue;
    c = std::max(c, 1);
    int j = (i + 1) % n;
    if (r.Y(j) == py && r.X(j) != r.X(i)) c = 2;
  }
  return c;
}
static const char* levelName(int c) { return c == 2 ? "level-hedge" : c == 1 ? "level-vertex" : "generic"; }
static int igcd(int a, int b)
{
  a = std::abs(a);
  b = std::abs(b);
  while (b) { int t = a % b; a = b; b = t; }
  return a;
}
static I64 floorDiv(I64 a, I64 b) // b > 0
{
  I64 q = a / b;
  if ((a % b != 0) && (a < 0)) q--;
  return q;
}

// strictly convex hull (counter-clockwise, no collinear vertices) by the monotone chain
static std::vector<std::pair<int, int>> hullOf(std::vector<std::pair<int, int>> p)
{
  std::sort(p.begin(), p.end());
  p.erase(std::unique(p.begin(), p.end()), p.end());
  size_t n = p.size();
  if (n < 3) return p;
  std::vector<std::pair<int, int>> h(2 * n);
  size_t k = 0;
  for (size_t i = 0; i < n; i++)
  {
    while (k >= 2 && crs(h[k - 1].first - h[k - 2].first, h[k - 1].second - h[k - 2].second,
                         p[i].first - h[k - 2].first, p[i].second - h[k - 2].second) <= 0) k--;
    h[k++] = p[i];
  }
  for (size_t i = n - 1, t = k + 1; i > 0; i--)
  {
    while (k >= t && crs(h[k - 1].first - h[k - 2].first, h[k - 1].second - h[k - 2].second,
                         p[i - 1].first - h[k - 2].first, p[i - 1].second - h[k - 2].second) <= 0) k--;
    h[k++] = p[i - 1];
  }
  h.resize(k - 1);
  return h;
}

// =================================================================== polygon generators
enum PType { POLYOMINO = 0, STAR = 1, HULL = 2 };
static const char* typeName(int t, int sheared)
{
  static const char* n[] = {"polyomino", "star", "hull", "polyomino-sheared", "star-sheared", "hull-sheared"};
  return n[t + (sheared ? 3 : 0)];
}
struct GenPoly
{
  std::vector<int> xy;      // final ring (fine units)
  int type = 0, sheared = 0;
  // polyomino bookkeeping: cell (i,j) covers [2i,2i+2]x[2j,2j+2] before the linear map m
  int W = 0, H = 0;
  std::vector<char> cells;
  int m[4] = {1, 0, 0, 1};
  // membership known by construction (polyomino only): -1 unknown, else 0/1; p must be off the boundary
  int cellTruth(I64 px, I64 py) const
  {
    if (type != POLYOMINO) return -1;
    I64 det = (I64)m[0] * m[3] - (I64)m[1] * m[2];
    I64 un = (I64)m[3] * px - (I64)m[1] * py; // adj(m) * p
    I64 vn = -(I64)m[2] * px + (I64)m[0] * py;
    if (det < 0) { det = -det; un = -un; vn = -vn; }
    I64 i = floorDiv(un, 2 * det), j = floorDiv(vn, 2 * det);
    if (i < 0 || i >= W || j < 0 || j >= H) return 0;
    return cells[(size_t)(j * W + i)] ? 1 : 0;
  }
};

static bool bgConnected(const std::vector<char>& g, int SW, int SH)
{
  int zeros = 0;
  for (char c : g) if (!c) zeros++;
  std::vector<char> seen(g.size(), 0);
  std::vector<int> st;
  st.push_back(0);
  seen[0] = 1;
  int cnt = 0;
  while (!st.empty())
  {
    int c = st.back();
    st.pop_back();
    cnt++;
    int i = c % SW, j = c / SW;
    const int di[4] = {1, -1, 0, 0}, dj[4] = {0, 0, 1, -1};
    for (int d = 0; d < 4; d++)
    {
      int ni = i + di[d], nj = j + dj[d];
      if (ni < 0 || ni >= SW || nj < 0 || nj >= SH) continue;
      int nc = nj * SW + ni;
      if (g[(size_t)nc] || seen[(size_t)nc]) continue;
      seen[(size_t)nc] = 1;
      st.push_back(nc);
    }
  }
  return cnt == zeros;
}

// simply connected cell set grown on a lattice; outline traced counter-clockwise, corners only
static void genPolyomino(int maxDim, GenPoly& gp)
{
  int W = G::i(1, maxDim), H = G::i(1, maxDim);
  int target = G::i(1, std::max(1, (W * H * 2) / 3));
  int SW = W + 2, SH = H + 2;
  std::vector<char> g((size_t)(SW * SH), 0);
  auto at = [&](int i, int j) -> char& { return g[(size_t)((j + 1) * SW + (i + 1))]; };
  std::vector<std::pair<int, int>> cl;
  {
    int ci = G::i(0, W - 1), cj = G::i(0, H - 1);
    at(ci, cj) = 1;
    cl.push_back({ci, cj});
  }
  const int di[4] = {1, -1, 0, 0}, dj[4] = {0, 0, 1, -1};
  for (int a = 0; a < 3 * target && (int)cl.size() < target; a++)
  {
    auto c = cl[(size_t)G::i(0, (int)cl.size() - 1)];
    int d = G::i(0, 3);
    int ni = c.first + di[d], nj = c.second + dj[d];
    if (ni < 0 || ni >= W || nj < 0 || nj >= H || at(ni, nj)) continue;
    at(ni, nj) = 1;
    if (!bgConnected(g, SW, SH)) { at(ni, nj) = 0; continue; }
    cl.push_back({ni, nj});
  }
  gp.W = W;
  gp.H = H;
  gp.cells.assign((size_t)(W * H), 0);
  for (auto& c : cl) gp.cells[(size_t)(c.second * W + c.first)] = 1;
  // directed unit edges, interior on the left
  int VW = W + 1;
  std::vector<int> next((size_t)((W + 1) * (H + 1)), -1);
  auto vid = [&](int x, int y) { return y * VW + x; };
  int start = -1;
  for (auto& c : cl)
  {
    int i = c.first, j = c.second;
    if (!at(i, j - 1)) { next[(size_t)vid(i, j)] = vid(i + 1, j); start = vid(i, j); }
    if (!at(i + 1, j)) next[(size_t)vid(i + 1, j)] = vid(i + 1, j + 1);
    if (!at(i, j + 1)) next[(size_t)vid(i + 1, j + 1)] = vid(i, j + 1);
    if (!at(i - 1, j)) next[(size_t)vid(i, j + 1)] = vid(i, j);
  }
  std::vector<std::pair<int, int>> ring;
  for (int v = start, guard = 0; guard < (int)next.size() + 1; guard++)
  {
    ring.push_back({v % VW, v / VW});
    v = next[(size_t)v];
    if (v == start) break;
  }
  // keep the corners only
  size_t n = ring.size();
  gp.xy.clear();
  for (size_t i = 0; i < n; i++)
  {
    auto p = ring[(i + n - 1) % n], c = ring[i], q = ring[(i + 1) % n];
    if (crs(c.first - p.first, c.second - p.second, q.first - c.first, q.second - c.second) == 0) continue;
    gp.xy.push_back(2 * c.first);
    gp.xy.push_back(2 * c.second);
  }
}

// star-shaped polygon (the origin is strictly interior): lattice points sorted by exact angle
static void genStar(int nmax, GenPoly& gp)
{
  int R = G::pick({2, 3, 4, 8, 16, 50});
  int n = G::i(3, nmax);
  std::vector<std::pair<int, int>> pts;
  for (int i = 0; i < n; i++)
  {
    int x = G::i(-R, R), y = G::i(-R, R);
    if (x || y) pts.push_back({x, y});
  }
  auto half = [](const std::pair<int, int>& a) { return (a.second > 0 || (a.second == 0 && a.first > 0)) ? 0 : 1; };
  auto build = [&]() {
    std::map<std::pair<int, int>, std::pair<int, int>> byDir; // one vertex per direction
    for (auto& p : pts)
    {
      int g = igcd(p.first, p.second);
      byDir.insert({{p.first / g, p.second / g}, p});
    }
    std::vector<std::pair<int, int>> v;
    for (auto& kv : byDir) v.push_back(kv.second);
    std::sort(v.begin(), v.end(), [&](const std::pair<int, int>& a, const std::pair<int, int>& b) {
      if (half(a) != half(b)) return half(a) < half(b);
      return crs(a.first, a.second, b.first, b.second) > 0;
    });
    return v;
  };
  auto gapsOk = [&](const std::vector<std::pair<int, int>>& v) {
    if (v.size() < 3) return false;
    for (size_t i = 0; i < v.size(); i++)
    {
      auto a = v[i], b = v[(i + 1) % v.size()];
      if (crs(a.first, a.second, b.first, b.second) <= 0) return false; // angular gap >= 180 degrees
    }
    return true;
  };
  auto v = build();
  if (!gapsOk(v))
  {
    pts.push_back({G::i(1, R), 0});
    pts.push_back({0, G::i(1, R)});
    pts.push_back({-G::i(1, R), 0});
    pts.push_back({0, -G::i(1, R)});
    v = build();
  }
  gp.xy.clear();
  for (auto& p : v) { gp.xy.push_back(p.first); gp.xy.push_back(p.second); }
}

static void genHullPoly(int nmax, GenPoly& gp)
{
  int R = G::pick({2, 3, 5, 10, 40});
  int n = G::i(3, nmax);
  std::vector<std::pair<int, int>> pts;
  for (int i = 0; i < n; i++) pts.push_back({G::i(-R, R), G::i(-R, R)});
  pts.push_back({pts[0].first + 1, pts[0].second});
  pts.push_back({pts[0].first, pts[0].second + 1});
  auto h = hullOf(pts);
  gp.xy.clear();
  for (auto& p : h) { gp.xy.push_back(p.first); gp.xy.push_back(p.second); }
}

// lattice points strictly inside the edges become vertices with probability pct
static void insertCollinear(std::vector<int>& xy, int pct)
{
  if (pct <= 0) return;
  std::vector<int> out;
  size_t n = xy.size() / 2;
  for (size_t i = 0; i < n; i++)
  {
    size_t j = (i + 1) % n;
    int ax = xy[2 * i], ay = xy[2 * i + 1], bx = xy[2 * j], by = xy[2 * j + 1];
    out.push_back(ax);
    out.push_back(ay);
    int g = igcd(bx - ax, by - ay);
    for (int t = 1; t < g; t++)
    {
      if (pct < 100 && !G::pct(pct)) continue;
      out.push_back(ax + (bx - ax) / g * t);
      out.push_back(ay + (by - ay) / g * t);
    }
  }
  xy.swap(out);
}

// one simple polygon: type, optional linear map, collinear vertices, orientation, start vertex, duplicates
static GenPoly genPolygon(int sizeCap)
{
  GenPoly gp;
  gp.type = G::i(0, 2);
  if (gp.type == POLYOMINO) genPolyomino(std::max(2, std::min(20, sizeCap / 4 + 2)), gp);
  else if (gp.type == STAR) genStar(std::max(3, sizeCap), gp);
  else genHullPoly(std::max(3, sizeCap), gp);
  if (G::pct(35))
  {
    gp.sheared = 1;
    static const int M[][4] = {{1, 1, 0, 1}, {1, -2, 0, 1}, {1, 0, 1, 1}, {1, 0, -3, 1}, {1, -1, 1, 1},
                               {2, 1, 1, 3}, {0, 1, 1, 0}, {-1, 0, 0, 1}, {0, -1, 1, 0}, {3, 0, 0, 1}};
    int w = G::i(0, 10);
    if (w < 10) for (int t = 0; t < 4; t++) gp.m[t] = M[w][t];
    else
    {
      for (int t = 0; t < 4; t++) gp.m[t] = G::i(-3, 3);
      if (gp.m[0] * gp.m[3] - gp.m[1] * gp.m[2] == 0) { gp.m[0] = 1; gp.m[1] = 2; gp.m[2] = 0; gp.m[3] = 1; }
    }
    for (size_t i = 0; i + 1 < gp.xy.size(); i += 2)
    {
      int x = gp.xy[i], y = gp.xy[i + 1];
      gp.xy[i] = gp.m[0] * x + gp.m[1] * y;
      gp.xy[i + 1] = gp.m[2] * x + gp.m[3] * y;
    }
  }
  insertCollinear(gp.xy, G::pick({0, 0, 30, 100}));
  size_t n = gp.xy.size() / 2;
  if (G::b()) // reverse the orientation
  {
    std::vector<int> r;
    for (size_t i = n; i-- > 0;) { r.push_back(gp.xy[2 * i]); r.push_back(gp.xy[2 * i + 1]); }
    gp.xy.swap(r);
  }
  {
    int s = G::i(0, (int)n - 1); // any start vertex
    std::rotate(gp.xy.begin(), gp.xy.begin() + 2 * s, gp.xy.end());
  }
  if (G::pct(8)) // a digitised vertex repeated
  {
    int s = G::i(0, (int)n - 1);
    int x = gp.xy[2 * (size_t)s], y = gp.xy[2 * (size_t)s + 1];
    gp.xy.insert(gp.xy.begin() + 2 * s, {x, y});
  }
  return gp;
}
static void translate(std::vector<int>& xy, int dx, int dy)
{
  for (size_t i = 0; i + 1 < xy.size(); i += 2) { xy[i] += dx; xy[i + 1] += dy; }
}

static Xf genXf()
{
  Xf t;
  t.k = G::pct(35) ? 0 : G::i(-10, 10);
  auto tr = []() {
    switch (G::i(0, 3))
    {
      case 0: return 0;
      case 1: return G::i(-1000, 1000);
      case 2: return G::i(-(1 << 20), 1 << 20);
      default: return (G::b() ? 1 : -1) * (1 << 24) + G::i(-5, 5);
    }
  };
  t.tx = tr();
  t.ty = tr();
  return t;
}

// query points (fine units): forced level with vertices / horizontal edges, left and right of the
// polygons, half-lattice points; never on a boundary (exact test, moved to the right until free)
static void genQueries(const std::vector<Ring>& rings, int nq, std::vector<int>& q)
{
  std::vector<int> vx, vy;
  for (auto& r : rings)
    for (int i = 0; i < r.n(); i++) { vx.push_back(r.X(i)); vy.push_back(r.Y(i)); }
  int xmin = *std::min_element(vx.begin(), vx.end()), xmax = *std::max_element(vx.begin(), vx.end());
  int ymin = *std::min_element(vy.begin(), vy.end()), ymax = *std::max_element(vy.begin(), vy.end());
  int nv = (int)vx.size();
  for (int t = 0; t < nq; t++)
  {
    int x, y;
    int mode = G::i(0, 99);
    if (mode < 45)
    {
      int a = G::i(0, nv - 1);
      y = vy[(size_t)a];
      switch (G::i(0, 4))
      {
        case 0: x = vx[(size_t)G::i(0, nv - 1)] + G::i(-2, 2); break;
        case 1: x = xmin - G::i(1, 3); break;
        case 2: x = xmax + G::i(1, 3); break;
        case 3: x = vx[(size_t)a] + G::pick({-1, 1}); break;
        default: x = G::i(xmin - 1, xmax + 1); break;
      }
    }
    else if (mode < 60)
    {
      y = vy[(size_t)G::i(0, nv - 1)];
      x = vx[(size_t)G::i(0, nv - 1)];
    }
    else if (mode < 80)
    {
      x = G::i(xmin - 2, xmax + 2) | 1;
      y = G::i(ymin - 2, ymax + 2) | 1;
    }
    else
    {
      x = G::i(xmin - 3, xmax + 3);
      y = G::i(ymin - 3, ymax + 3);
    }
    for (int guard = 0; guard < 100000; guard++)
    {
      bool onb = false;
      for (auto& r : rings) if (onBoundary(r, x, y)) { onb = true; break; }
      if (!onb) break;
      x++;
    }
    q.push_back(x);
    q.push_back(y);
  }
}

// hand a ring to the library
static PolyElem makeElem(const Ring& r, const Xf& xf)
{
  int n = r.n();
  VectorDouble x, y;
  for (int i = 0; i < n; i++) { x.push_back(xf.x(r.X(i))); y.push_back(xf.y(r.Y(i))); }
  if (r.closed) { x.push_back(xf.x(r.X(0))); y.push_back(xf.y(r.Y(0))); }
  double zmin = r.hasZmin ? xf.z(r.zmin) : TEST;
  double zmax = r.hasZmax ? xf.z(r.zmax) : TEST;
  return PolyElem(x, y, zmin, zmax);
}
static uint64_t ringHash(const Ring& r)
{
  Hash h;
  for (int v : r.xy) h.add(v);
  h.add(r.closed).add(r.hasZmin * 1000 + r.zmin).add(r.hasZmax * 1000 + r.zmax);
  return h.h;
}

// A failure whose key is excluded as a known finding does not end the case: the remaining queries are still
// checked and the case is counted as excluded at the end (unless something else, not excluded, fails first).
struct FailAcc
{
  Ctx& ctx;
  std::string exKey, exMsg;
  explicit FailAcc(Ctx& c) : ctx(c) {}
  bool report(const std::string& key, const std::string& msg) // true: stop the case
  {
    if (isExcluded(key))
    {
      if (exKey.empty()) { exKey = key; exMsg = msg; }
      return false;
    }
    ctx.fail(key, msg);
    return true;
  }
  void finish() { if (!ctx.failed() && !exKey.empty()) ctx.fail(exKey, exMsg); }
};

// =================================================================== (a) one simple polygon
struct PipCase
{
  int type = 0, sheared = 0;
  Ring ring;
  Xf xf;
  std::vector<int> q; // x, y, truth known by construction (-1 unknown) per query
  template<class A> void io(A& a) { a("type", type)("sheared", sheared)("ring", ring)("xf", xf)("q", q); }
};
static PipCase genPip()
{
  PipCase c;
  GenPoly gp = genPolygon(G::sz(3, 260));
  c.type = gp.type;
  c.sheared = gp.sheared;
  c.ring.xy = gp.xy;
  c.ring.closed = G::b();
  c.xf = genXf();
  std::vector<int> q;
  genQueries({c.ring}, G::i(8, 40), q);
  for (size_t i = 0; i + 1 < q.size(); i += 2)
  {
    c.q.push_back(q[i]);
    c.q.push_back(q[i + 1]);
    c.q.push_back(gp.cellTruth(q[i], q[i + 1]));
  }
  return c;
}
static void runPip(const PipCase& c, Ctx& ctx)
{
  const Ring& r = c.ring;
  if (r.n() < 3 || c.type < 0 || c.type > 2) { ctx.inconclusive("degenerate-replay"); return; }
  std::string tname = typeName(c.type, c.sheared);
  ctx.label("type:" + tname);
  ctx.label(r.closed ? "closed" : "open");
  ctx.label(fmt("nvert:%s", r.n() <= 8 ? "3-8" : r.n() <= 40 ? "9-40" : r.n() <= 150 ? "41-150" : ">150"));
  ctx.at("Polygons::inside");
  PolyElem pe = makeElem(r, c.xf);
  Polygons P;
  P.addPolyElem(pe);
  bool anyLevel = false;
  int nin = 0, nout = 0;
  for (size_t t = 0; t + 2 < c.q.size(); t += 3)
  {
    I64 px = c.q[t], py = c.q[t + 1];
    if (onBoundary(r, px, py)) { ctx.label("query-on-boundary-skipped"); continue; }
    bool truth = evenOdd(r, px, py);
    if (c.q[t + 2] >= 0 && (c.q[t + 2] != 0) != truth)
    {
      ctx.fail("harness:oracle-vs-cells", fmt("even-odd %d differs from the cell membership at (%lld,%lld)", (int)truth, px, py));
      return;
    }
    int lev = levelClass(r, py);
    if (lev > 0) anyLevel = true;
    (truth ? nin : nout)++;
    double X = c.xf.x(px), Y = c.xf.y(py);
    VectorDouble c2 = {X, Y};
    VectorDouble c3 = {X, Y, TEST};
    bool g1 = P.inside(c2, false);
    bool g2 = P.inside(c2, true);
    bool g3 = P.inside(c3, false);
    bool g4 = truth;
    if (r.closed) g4 = pe.inside(c2);
    if (g1 != truth || g2 != truth || g3 != truth || g4 != truth)
    {
      ctx.fail("pip:" + tname + ":" + levelName(lev),
               fmt("point fine(%lld,%lld)=(%.17g,%.17g) is %s the polygon (%d vertices, %s); inside(2D)=%d nested=%d "
                   "3D-with-NA-z=%d PolyElem::inside=%d",
                   px, py, X, Y, truth ? "inside" : "outside", r.n(), r.closed ? "closed" : "open", (int)g1, (int)g2,
                   (int)g3, (int)g4));
      return;
    }
  }
  if (nin) ctx.label("has-inside-query");
  if (nout) ctx.label("has-outside-query");
  if (anyLevel) ctx.label("level-query");
  ctx.nontrivial(anyLevel);
}
VERIF_SUB(pip_single, PipCase, genPip, runPip);

// =================================================================== (b) polygon sets
struct SetCase
{
  std::vector<Ring> rings;
  Xf xf;
  std::vector<int> q; // x, y, zmode (0: 2-D point, 1: z undefined, 2: z given), z (odd, fine units)
  template<class A> void io(A& a) { a("rings", rings)("xf", xf)("q", q); }
};
static void genZ(Ring& r)
{
  if (G::pct(45)) return;
  int lo = 2 * G::i(-3, 3), hi = lo + 2 * G::i(0, 3);
  switch (G::i(0, 2))
  {
    case 0: r.hasZmin = 1; r.zmin = lo; r.hasZmax = 1; r.zmax = hi; break;
    case 1: r.hasZmin = 1; r.zmin = lo; break;
    default: r.hasZmax = 1; r.zmax = hi; break;
  }
}
static std::vector<Ring> genRings(bool period)
{
  std::vector<Ring> rings;
  int nel = G::pct(15) ? 1 : G::i(2, 5);
  int mode = G::i(0, 3);
  if (mode == 0 || nel == 1) // independent polygons, overlapping or apart
  {
    int S = G::pick({0, 3, 10, 40, 200});
    for (int e = 0; e < nel; e++)
    {
      GenPoly gp = genPolygon(G::sz(3, 40));
      translate(gp.xy, G::i(-S, S), G::i(-S, S));
      Ring r;
      r.xy = gp.xy;
      rings.push_back(r);
    }
  }
  else if (mode == 1) // strictly nested copies m*P of a star-shaped polygon
  {
    GenPoly gp;
    gp.type = STAR;
    genStar(G::i(3, 20), gp);
    auto ms = G::perm(6);
    for (int e = 0; e < nel; e++)
    {
      Ring r;
      for (int v : gp.xy) r.xy.push_back(v * (ms[(size_t)e] + 1));
      if (G::b())
      {
        std::vector<int> rev;
        for (size_t i = r.xy.size() / 2; i-- > 0;) { rev.push_back(r.xy[2 * i]); rev.push_back(r.xy[2 * i + 1]); }
        r.xy.swap(rev);
      }
      rings.push_back(r);
    }
  }
  else if (mode == 2) // the same outline several times, possibly shifted
  {
    GenPoly gp = genPolygon(G::sz(3, 40));
    int S = G::pick({0, 0, 1, 2, 7});
    for (int e = 0; e < nel; e++)
    {
      Ring r;
      r.xy = gp.xy;
      translate(r.xy, G::i(-S, S), G::i(-S, S));
      rings.push_back(r);
    }
  }
  else // concentric axis-parallel rectangles (sides may coincide in abscissa or ordinate)
  {
    for (int e = 0; e < nel; e++)
    {
      int a = G::i(1, 8), b = G::i(1, 8), cx = G::i(-1, 1), cy = G::i(-1, 1);
      Ring r;
      r.xy = {cx - a, cy - b, cx + a, cy - b, cx + a, cy + b, cx - a, cy + b};
      insertCollinear(r.xy, G::pick({0, 50}));
      rings.push_back(r);
    }
  }
  bool withZ = G::pct(50); // half of the sets carry no vertical limits at all
  for (auto& r : rings)
  {
    r.closed = G::b();
    if (withZ) genZ(r);
    if (period && G::pct(50)) translate(r.xy, G::pick({-360, 360}), 0);
  }
  return rings;
}
static SetCase genSet()
{
  SetCase c;
  c.rings = genRings(false);
  c.xf = genXf();
  std::vector<int> q;
  genQueries(c.rings, G::i(8, 30), q);
  bool anyZ = false;
  for (auto& r : c.rings) anyZ = anyZ || r.hasZmin || r.hasZmax;
  for (size_t i = 0; i + 1 < q.size(); i += 2)
  {
    c.q.push_back(q[i]);
    c.q.push_back(q[i + 1]);
    int zm = G::pick({0, 1, 2, 2, 2});
    c.q.push_back(zm);
    c.q.push_back(2 * G::i(-5, 5) + 1);
  }
  return c;
}
struct SetTruth
{
  int count = 0;      // elements containing the point (xy and their own z-interval)
  bool zexcl = false; // some element's z-interval excludes the point
  bool onb = false;
};
static bool zOk(const Ring& r, int zmode, int z)
{
  if (zmode != 2) return true; // 2-D point or undefined z: no vertical test
  if (r.hasZmin && z < r.zmin) return false;
  if (r.hasZmax && z > r.zmax) return false;
  return true;
}
static SetTruth setTruth(const std::vector<Ring>& rings, I64 px, I64 py, int zmode, int z)
{
  SetTruth t;
  for (auto& r : rings)
  {
    if (onBoundary(r, px, py)) { t.onb = true; return t; }
    bool zok = zOk(r, zmode, z);
    if (!zok) t.zexcl = true;
    if (zok && evenOdd(r, px, py)) t.count++;
  }
  return t;
}
static const char* zClass(int zmode, bool zexcl) { return zmode == 0 ? "2d" : zmode == 1 ? "z-na" : zexcl ? "z-excl" : "z-allin"; }
static bool ringsValid(const std::vector<Ring>& rings)
{
  if (rings.empty()) return false;
  for (auto& r : rings) if (r.n() < 3) return false;
  return true;
}
static void runSet(const SetCase& c, Ctx& ctx)
{
  if (!ringsValid(c.rings)) { ctx.inconclusive("degenerate-replay"); return; }
  ctx.label(fmt("nelem:%d", (int)c.rings.size()));
  ctx.at("Polygons::inside");
  Polygons P;
  bool anyZ = false;
  for (auto& r : c.rings)
  {
    P.addPolyElem(makeElem(r, c.xf));
    anyZ = anyZ || r.hasZmin || r.hasZmax;
  }
  ctx.label(anyZ ? "with-zlimits" : "no-zlimits");
  int maxCount = 0;
  FailAcc acc(ctx);
  for (size_t t = 0; t + 3 < c.q.size(); t += 4)
  {
    I64 px = c.q[t], py = c.q[t + 1];
    int zmode = c.q[t + 2], z = c.q[t + 3];
    SetTruth tr = setTruth(c.rings, px, py, zmode, z);
    if (tr.onb) { ctx.label("query-on-boundary-skipped"); continue; }
    maxCount = std::max(maxCount, tr.count);
    VectorDouble coor = {c.xf.x(px), c.xf.y(py)};
    if (zmode == 1) coor.push_back(TEST);
    if (zmode == 2) coor.push_back(c.xf.z(z));
    for (int nested = 0; nested < 2; nested++)
    {
      bool truth = nested ? (tr.count % 2 != 0) : (tr.count > 0);
      bool got = P.inside(coor, nested != 0);
      if (got != truth)
      {
        if (acc.report(fmt("set:%s:%s", nested ? "nested" : "union", zClass(zmode, tr.zexcl)),
                       fmt("point fine(%lld,%lld,z=%s) belongs to %d of %d elements (each gated by its own z-interval): expected %d, "
                           "Polygons::inside(flag_nested=%d) = %d",
                           px, py, zmode == 2 ? std::to_string(z).c_str() : zmode == 1 ? "NA" : "none", tr.count,
                           (int)c.rings.size(), (int)truth, nested, (int)got)))
          return;
      }
    }
    if (tr.zexcl) ctx.label("query-z-excluded-by-some-element");
  }
  ctx.label(fmt("max-overlap:%d", std::min(maxCount, 3)));
  ctx.nontrivial(c.rings.size() >= 2);
  acc.finish();
}
VERIF_SUB(polygon_sets, SetCase, genSet, runSet);

// =================================================================== (c) db_polygon
struct DbPolyCase
{
  std::vector<Ring> rings;
  Xf xf;
  int ndim = 2;
  int grid = 0;
  std::vector<int> pts;     // points: x y z per sample (fine units)
  std::vector<int> gridDef; // grid: nx ny nz  dx dy dz  x0 y0 z0 (fine units)
  int hasSel = 0;
  std::vector<int> sel;     // previous selection (one flag per sample, recycled)
  int flagSel = 0, flagNested = 0, flagPeriod = 0, addRank = 1;
  template<class A> void io(A& a)
  {
    a("rings", rings)("xf", xf)("ndim", ndim)("grid", grid)("pts", pts)("gridDef", gridDef)("hasSel", hasSel)("sel", sel)
     ("flagSel", flagSel)("flagNested", flagNested)("flagPeriod", flagPeriod)("addRank", addRank);
  }
};
static DbPolyCase genDbPoly()
{
  DbPolyCase c;
  c.flagPeriod = G::pct(15);
  c.rings = genRings(c.flagPeriod != 0);
  c.xf = genXf();
  if (c.flagPeriod) { c.xf.k = 0; c.xf.tx = G::i(-400, 400); c.xf.ty = G::i(-1000, 1000); }
  c.ndim = G::pick({2, 2, 3});
  c.grid = G::pct(35);
  std::vector<int> vx, vy;
  for (auto& r : c.rings) for (int i = 0; i < r.n(); i++) { vx.push_back(r.X(i)); vy.push_back(r.Y(i)); }
  int xmin = *std::min_element(vx.begin(), vx.end()), xmax = *std::max_element(vx.begin(), vx.end());
  int ymin = *std::min_element(vy.begin(), vy.end()), ymax = *std::max_element(vy.begin(), vy.end());
  int nech;
  if (c.grid)
  {
    int dx = G::i(1, 3), dy = G::i(1, 3);
    int nx = std::min(14, (xmax - xmin) / dx + 3), ny = std::min(14, (ymax - ymin) / dy + 3);
    int nz = c.ndim == 3 ? G::i(1, 3) : 1;
    c.gridDef = {nx, ny, nz, dx, dy, 2 * G::i(1, 2), xmin - G::i(0, 2), ymin - G::i(0, 2), 2 * G::i(-4, 2) + 1};
    nech = nx * ny * nz;
  }
  else
  {
    std::vector<int> q;
    genQueries(c.rings, G::i(1, 40), q);
    for (size_t i = 0; i + 1 < q.size(); i += 2)
    {
      c.pts.push_back(q[i]);
      c.pts.push_back(q[i + 1]);
      c.pts.push_back(2 * G::i(-5, 5) + 1);
    }
    // a few raw vertices (on the boundary): the column must still equal Polygons::inside
    for (int t = G::i(0, 2); t > 0; t--)
    {
      size_t a = (size_t)G::i(0, (int)vx.size() - 1);
      c.pts.push_back(vx[a]);
      c.pts.push_back(vy[a]);
      c.pts.push_back(2 * G::i(-5, 5) + 1);
    }
    nech = (int)c.pts.size() / 3;
  }
  c.hasSel = G::pct(60);
  if (c.hasSel)
    for (int i = 0; i < std::min(nech, 64); i++) c.sel.push_back(G::pct(65));
  c.flagSel = G::b();
  c.flagNested = G::b();
  c.addRank = G::b();
  return c;
}
static void runDbPoly(const DbPolyCase& c, Ctx& ctx)
{
  if (!ringsValid(c.rings) || (c.ndim != 2 && c.ndim != 3)) { ctx.inconclusive("degenerate-replay"); return; }
  if (c.grid ? (c.gridDef.size() != 9 || c.gridDef[0] < 1 || c.gridDef[1] < 1 || c.gridDef[2] < 1) : c.pts.size() < 3)
  {
    ctx.inconclusive("degenerate-replay");
    return;
  }
  defineDefaultSpace(ESpaceType::RN, (unsigned)c.ndim);
  const Xf& xf = c.xf;
  ctx.label(c.grid ? "db:grid" : "db:points");
  ctx.label(fmt("ndim:%d", c.ndim));
  ctx.label(fmt("flag_sel:%d/hasSel:%d", c.flagSel, c.hasSel));
  ctx.label(fmt("flag_nested:%d", c.flagNested));
  if (c.flagPeriod) ctx.label("flag_period");
  ctx.label(fmt("nelem:%d", (int)c.rings.size()));

  Polygons P;
  for (auto& r : c.rings) P.addPolyElem(makeElem(r, xf));

  // fine coordinates of the samples
  std::vector<std::array<int, 3>> fine;
  std::unique_ptr<Db> db;
  ctx.at("Db-creation");
  if (c.grid)
  {
    const auto& g = c.gridDef;
    VectorInt nx = {g[0], g[1]};
    VectorDouble dx = {std::ldexp((double)g[3], xf.k), std::ldexp((double)g[4], xf.k)};
    VectorDouble x0 = {xf.x(g[6]), xf.y(g[7])};
    if (c.ndim == 3) { nx.push_back(g[2]); dx.push_back(std::ldexp((double)g[5], xf.k)); x0.push_back(xf.z(g[8])); }
    int nz = c.ndim == 3 ? g[2] : 1;
    for (int iz = 0; iz < nz; iz++)
      for (int iy = 0; iy < g[1]; iy++)
        for (int ix = 0; ix < g[0]; ix++) fine.push_back({g[6] + ix * g[3], g[7] + iy * g[4], g[8] + iz * g[5]});
    db.reset(DbGrid::create(nx, dx, x0, VectorDouble(), ELoadBy::SAMPLE, VectorDouble(), VectorString(), VectorString(),
                            c.addRank != 0));
  }
  else
  {
    int n = (int)c.pts.size() / 3;
    VectorDouble tab;
    for (int i = 0; i < n; i++) fine.push_back({c.pts[3 * (size_t)i], c.pts[3 * (size_t)i + 1], c.pts[3 * (size_t)i + 2]});
    for (int i = 0; i < n; i++) tab.push_back(xf.x(fine[(size_t)i][0]));
    for (int i = 0; i < n; i++) tab.push_back(xf.y(fine[(size_t)i][1]));
    VectorString names = {"x", "y"}, locs = {"x1", "x2"};
    if (c.ndim == 3)
    {
      for (int i = 0; i < n; i++) tab.push_back(xf.z(fine[(size_t)i][2]));
      names.push_back("zc");
      locs.push_back("x3");
    }
    for (int i = 0; i < n; i++) tab.push_back(100. + i);
    names.push_back("v");
    locs.push_back("z1");
    db.reset(Db::createFromSamples(n, ELoadBy::COLUMN, tab, names, locs, c.addRank != 0));
  }
  if (!db) { ctx.fail("dbpoly:db-creation", "the Db could not be created"); return; }
  int nech = db->getSampleNumber();
  if (nech != (int)fine.size() || db->getNDim() != c.ndim)
  {
    ctx.fail("harness:db-shape", fmt("Db has %d samples / %d dims, expected %d / %d", nech, db->getNDim(), (int)fine.size(), c.ndim));
    return;
  }
  std::vector<int> active((size_t)nech, 1);
  if (c.hasSel && !c.sel.empty())
  {
    VectorDouble s((size_t)nech);
    for (int i = 0; i < nech; i++)
    {
      active[(size_t)i] = c.sel[(size_t)i % c.sel.size()] ? 1 : 0;
      s[(size_t)i] = active[(size_t)i];
    }
    db->addColumns(s, "oldsel", ELoc::SEL);
  }
  // the coordinates seen by the library are exactly those of the oracle
  for (int i = 0; i < nech; i++)
  {
    double ex[3] = {xf.x(fine[(size_t)i][0]), xf.y(fine[(size_t)i][1]), xf.z(fine[(size_t)i][2])};
    for (int d = 0; d < c.ndim; d++)
      if (db->getCoordinate(i, d) != ex[d])
      {
        ctx.fail("harness:db-coordinates", fmt("sample %d dim %d: %.17g, expected %.17g", i, d, db->getCoordinate(i, d), ex[d]));
        return;
      }
  }
  int ncolBefore = db->getColumnNumber();
  std::vector<double> before;
  for (int col = 0; col < ncolBefore; col++)
    for (int i = 0; i < nech; i++) before.push_back(db->getValueByColIdx(i, col));

  ctx.at("db_polygon");
  db_polygon(db.get(), &P, c.flagSel != 0, c.flagPeriod != 0, c.flagNested != 0);

  if (db->getSampleNumber() != nech || db->getColumnNumber() != ncolBefore + 1)
  {
    ctx.fail("dbpoly:shape", fmt("after db_polygon: %d samples x %d columns, expected %d x %d", db->getSampleNumber(),
                                 db->getColumnNumber(), nech, ncolBefore + 1));
    return;
  }
  int icol = db->getColIdxByLocator(ELoc::SEL, 0);
  if (icol != ncolBefore || db->getLocatorNumber(ELoc::SEL) != 1)
  {
    ctx.fail("dbpoly:locator", fmt("the new column (index %d) is not the unique selection: SEL locator on column %d, %d SEL columns",
                                   ncolBefore, icol, db->getLocatorNumber(ELoc::SEL)));
    return;
  }
  // previous content untouched
  {
    for (int col = 0; col < ncolBefore; col++)
      for (int i = 0; i < nech; i++)
      {
        double a = db->getValueByColIdx(i, col), b = before[(size_t)col * nech + i];
        if (a != b)
        {
          ctx.fail("dbpoly:other-columns", fmt("column %d sample %d changed from %.17g to %.17g", col, i, b, a));
          return;
        }
      }
  }
  bool anyLevel = false;
  int nsel = 0;
  FailAcc acc(ctx);
  for (int i = 0; i < nech; i++)
  {
    double got = db->getValueByColIdx(i, icol);
    I64 px = fine[(size_t)i][0], py = fine[(size_t)i][1];
    int z = fine[(size_t)i][2];
    VectorDouble coor = {xf.x(px), xf.y(py)};
    if (c.ndim == 3) coor.push_back(xf.z(z));
    bool masked = c.flagSel && !active[(size_t)i];
    // (1) the column is the per-sample Polygons::inside of the sample's location
    ctx.at("Polygons::inside");
    bool ins = false;
    if (!masked)
    {
      ins = P.inside(coor, c.flagNested != 0);
      if (c.flagPeriod)
      {
        VectorDouble cm = coor, cp = coor;
        cm[0] = coor[0] - 360;
        cp[0] = coor[0] + 360;
        ins = ins || P.inside(cm, c.flagNested != 0) || P.inside(cp, c.flagNested != 0);
      }
    }
    if (got != (ins ? 1. : 0.))
    {
      ctx.fail(fmt("dbpoly:column-vs-inside:%s", masked ? "masked" : "active"),
               fmt("sample %d fine(%lld,%lld,%d) %s: column = %g, Polygons::inside of its location = %d (flag_sel=%d flag_nested=%d "
                   "flag_period=%d)", i, px, py, z, masked ? "masked by the previous selection" : "active", got, (int)ins,
                   c.flagSel, c.flagNested, c.flagPeriod));
      return;
    }
    if (got != 0.) nsel++;
    // (2) and it is the geometric truth for samples off every boundary
    if (masked) continue;
    int zmode = c.ndim == 3 ? 2 : 0;
    bool onb = false, zexcl = false, truth = false;
    for (int s = -1; s <= 1; s++)
    {
      if (s != 0 && !c.flagPeriod) continue;
      SetTruth tr = setTruth(c.rings, px + 360 * s, py, zmode, z);
      if (tr.onb) { onb = true; break; }
      zexcl = zexcl || tr.zexcl;
      truth = truth || (c.flagNested ? (tr.count % 2 != 0) : (tr.count > 0));
    }
    if (onb) continue;
    for (auto& r : c.rings) if (levelClass(r, py) > 0) anyLevel = true;
    if ((got != 0.) != truth)
    {
      if (acc.report(fmt("dbpoly:truth:%s:%s", c.flagNested ? "nested" : "union", zClass(zmode, zexcl)),
                     fmt("sample %d fine(%lld,%lld,%d): selection = %g, geometric truth = %d (flag_nested=%d flag_period=%d)", i, px, py, z,
                         got, (int)truth, c.flagNested, c.flagPeriod)))
        return;
    }
  }
  ctx.label(nsel == 0 ? "selected:none" : nsel == nech ? "selected:all" : "selected:some");
  ctx.nontrivial(anyLevel || c.rings.size() >= 2);
  acc.finish();
}
VERIF_SUB(db_polygon_selection, DbPolyCase, genDbPoly, runDbPoly);

// =================================================================== (d) convex hull of a Db
struct HullCase
{
  std::vector<int> pts; // x y z per sample (fine units)
  std::vector<int> sel; // previous selection of the data Db (empty: none)
  int ndim = 2;
  Xf xf;
  int dilNum = 0; // dilate = dilNum * 2^(k-2) (0: none)
  std::vector<int> q; // query samples (x y) of the second Db
  int addRank = 1;
  template<class A> void io(A& a) { a("pts", pts)("sel", sel)("ndim", ndim)("xf", xf)("dilNum", dilNum)("q", q)("addRank", addRank); }
};
static HullCase genHull()
{
  HullCase c;
  int R = G::pick({1, 2, 3, 5, 10, 50, 500});
  int n = G::sz(1, 60);
  std::vector<std::pair<int, int>> p;
  for (int i = 0; i < n; i++)
  {
    if (i > 0 && G::pct(10)) p.push_back(p[(size_t)G::i(0, i - 1)]); // duplicated location
    else p.push_back({G::i(-R, R), G::i(-R, R)});
  }
  bool hasSel = G::pct(40);
  std::vector<int> sel;
  for (int i = 0; i < n; i++) sel.push_back(hasSel ? (int)G::pct(70) : 1);
  // at least three active samples that are not aligned (appended active; the order is then shuffled)
  p.push_back({p[0].first, p[0].second});
  p.push_back({p[0].first + G::i(1, 2), p[0].second});
  p.push_back({p[0].first, p[0].second + G::i(1, 2)});
  for (int t = 0; t < 3; t++) sel.push_back(1);
  auto perm = G::perm((int)p.size());
  for (size_t i = 0; i < p.size(); i++)
  {
    c.pts.push_back(p[(size_t)perm[i]].first);
    c.pts.push_back(p[(size_t)perm[i]].second);
    c.pts.push_back(G::i(-5, 5));
    if (hasSel) c.sel.push_back(sel[(size_t)perm[i]]);
  }
  c.ndim = G::pick({2, 2, 3});
  c.xf = genXf();
  c.dilNum = G::pct(30) ? G::i(1, 40) : 0;
  c.addRank = G::b();
  // queries relative to the exact hull of the active samples
  std::vector<std::pair<int, int>> act;
  for (size_t i = 0; i < p.size(); i++)
    if (!hasSel || c.sel[i]) act.push_back({c.pts[3 * i], c.pts[3 * i + 1]});
  auto h = hullOf(act);
  Ring hr;
  for (auto& v : h) { hr.xy.push_back(v.first); hr.xy.push_back(v.second); }
  std::vector<Ring> rr = {hr};
  genQueries(rr, G::i(5, 30), c.q);
  return c;
}
// CPU-time watchdog around library calls that may not terminate (normal duration: well below 1 ms)
static std::string g_wdKey;
static void wdHandler(int)
{
  Stats& s = stats();
  std::string msg = "the library call did not return within 20 s of CPU time (normal: below 1 ms)";
  if (!s.outPrefix.empty())
  {
    std::string text;
    readFile(s.outPrefix + ".current", text);
    writeFile(s.outPrefix + ".fail", text + "#trailer\nkey " + g_wdKey + "\nmsg " + msg + "\n");
  }
  s.lastFailKey = g_wdKey;
  s.lastFailMsg = msg;
  s.failing_runs++;
  writeStats();
  diag("SEARCH-FAIL/REPLAY-FAIL sub=" + s.sub + " key=" + g_wdKey + " msg=" + msg);
  _exit(1);
}
struct Watchdog
{
  Watchdog(const std::string& key, int sec)
  {
    g_wdKey = key;
    signal(SIGVTALRM, wdHandler);
    struct itimerval t = {{0, 0}, {sec, 0}};
    setitimer(ITIMER_VIRTUAL, &t, nullptr);
  }
  ~Watchdog()
  {
    struct itimerval t = {{0, 0}, {0, 0}};
    setitimer(ITIMER_VIRTUAL, &t, nullptr);
  }
};
typedef long double LD;
static LD distSeg(LD ax, LD ay, LD bx, LD by, LD px, LD py)
{
  LD dx = bx - ax, dy = by - ay;
  LD l2 = dx * dx + dy * dy;
  LD t = l2 > 0 ? ((px - ax) * dx + (py - ay) * dy) / l2 : 0;
  t = std::max((LD)0, std::min((LD)1, t));
  return hypotl(px - (ax + t * dx), py - (ay + t * dy));
}
static void runHull(const HullCase& c, Ctx& ctx)
{
  int n = (int)c.pts.size() / 3;
  if (n < 3 || (c.ndim != 2 && c.ndim != 3) || (!c.sel.empty() && (int)c.sel.size() != n)) { ctx.inconclusive("degenerate-replay"); return; }
  const Xf& xf = c.xf;
  std::vector<std::pair<int, int>> act;
  for (int i = 0; i < n; i++)
    if (c.sel.empty() || c.sel[(size_t)i]) act.push_back({c.pts[3 * (size_t)i], c.pts[3 * (size_t)i + 1]});
  auto h = hullOf(act);
  if (h.size() < 3) { ctx.inconclusive("aligned-data"); return; }
  Ring hr; // exact hull, counter-clockwise, strictly convex
  for (auto& v : h) { hr.xy.push_back(v.first); hr.xy.push_back(v.second); }
  defineDefaultSpace(ESpaceType::RN, (unsigned)c.ndim);
  ctx.label(fmt("ndim:%d", c.ndim));
  ctx.label(c.sel.empty() ? "data:no-selection" : "data:with-selection");
  ctx.label(c.dilNum ? "dilated" : "plain");
  ctx.label(fmt("hull-vertices:%s", h.size() <= 4 ? "3-4" : h.size() <= 8 ? "5-8" : ">8"));
  bool collinearOnHull = false;
  for (auto& a : act)
  {
    bool isV = std::find(h.begin(), h.end(), a) != h.end();
    if (!isV && onBoundary(hr, a.first, a.second)) collinearOnHull = true;
  }
  if (collinearOnHull) ctx.label("data-aligned-on-hull-edge");
  if (act.size() != std::set<std::pair<int, int>>(act.begin(), act.end()).size()) ctx.label("duplicated-locations");

  ctx.at("Db-creation");
  VectorDouble tab;
  for (int i = 0; i < n; i++) tab.push_back(xf.x(c.pts[3 * (size_t)i]));
  for (int i = 0; i < n; i++) tab.push_back(xf.y(c.pts[3 * (size_t)i + 1]));
  VectorString names = {"x", "y"}, locs = {"x1", "x2"};
  if (c.ndim == 3)
  {
    for (int i = 0; i < n; i++) tab.push_back(xf.z(c.pts[3 * (size_t)i + 2]));
    names.push_back("zc");
    locs.push_back("x3");
  }
  if (!c.sel.empty())
  {
    for (int i = 0; i < n; i++) tab.push_back(c.sel[(size_t)i] ? 1. : 0.);
    names.push_back("sel");
    locs.push_back("sel");
  }
  std::unique_ptr<Db> db(Db::createFromSamples(n, ELoadBy::COLUMN, tab, names, locs, c.addRank != 0));
  if (!db || db->getSampleNumber(true) != (int)act.size())
  {
    ctx.fail("harness:db-shape", fmt("data Db: %d active samples, expected %d", db ? db->getSampleNumber(true) : -1, (int)act.size()));
    return;
  }
  double dilate = c.dilNum ? std::ldexp((double)c.dilNum, xf.k - 2) : 0.;
  LD dilFine = (LD)c.dilNum / 4; // in fine units

  // Class of inputs on which an absolute collinearity tolerance can bite (keys start with "hull-tinycross:"):
  // three active samples spanning a non-zero area below 1e-6 (in real units), or a dilation radius below 2^-6
  // (the 16 sector points around a vertex then span such areas).
  bool tiny = false;
  if (c.dilNum) tiny = dilate < std::ldexp(1., -6);
  else if (std::ldexp(1., 2 * xf.k) < 1e-6)
  {
    std::vector<std::pair<int, int>> u(act);
    std::sort(u.begin(), u.end());
    u.erase(std::unique(u.begin(), u.end()), u.end());
    for (size_t a = 0; a < u.size() && !tiny; a++)
      for (size_t b = a + 1; b < u.size() && !tiny; b++)
        for (size_t d = b + 1; d < u.size() && !tiny; d++)
        {
          I64 cr = crs(u[b].first - u[a].first, u[b].second - u[a].second, u[d].first - u[a].first, u[d].second - u[a].second);
          if (cr != 0 && std::ldexp((double)std::llabs(cr), 2 * xf.k) < 1e-6) tiny = true;
        }
  }
  if (tiny) ctx.label("tiny-cross-class");
  std::string dk = tiny ? (c.dilNum ? "hull-tinycross:dilated" : "hull-tinycross:plain") : (c.dilNum ? "hull-dilated" : "hull");

  // Inputs of that class can send the gift-wrapping loop of the library into an endless cycle: when the class is
  // excluded as a known finding the library is not called at all (the case is counted as excluded); otherwise a
  // CPU-time watchdog turns non-termination into a reported failure instead of a stuck worker.
  if (tiny && isExcluded(dk + ":no-termination"))
  {
    ctx.fail(dk + ":no-termination", "class excluded as a known finding: library not called");
    return;
  }
  Watchdog wd(dk + ":no-termination", 20);

  ctx.at("Polygons::createFromDb");
  std::unique_ptr<Polygons> P(Polygons::createFromDb(db.get(), dilate));
  if (!P || P->getPolyElemNumber() != 1)
  {
    ctx.fail(dk + ":create", fmt("createFromDb returned %s", P ? "a set without exactly one element" : "nullptr"));
    return;
  }
  const VectorDouble& hx = P->getX(0);
  const VectorDouble& hy = P->getY(0);
  int nv = (int)hx.size();
  if (nv < 3 || (int)hy.size() != nv) { ctx.fail(dk + ":degenerate", fmt("hull polygon with %d vertices", nv)); return; }
  // vertices in fine units (exact when not dilated)
  std::vector<LD> fx((size_t)nv), fy((size_t)nv);
  for (int i = 0; i < nv; i++)
  {
    fx[(size_t)i] = (LD)std::ldexp(hx[i], -xf.k) - xf.tx;
    fy[(size_t)i] = (LD)std::ldexp(hy[i], -xf.k) - xf.ty;
  }
  LD tol = c.dilNum ? 1e-9L * (1 + dilFine) + 1e-7L * (LD)std::ldexp(1., -20) * (std::fabs((LD)xf.tx) + std::fabs((LD)xf.ty)) : 0;
  if (!c.dilNum)
  {
    // every vertex is an active sample (bit copy)
    for (int i = 0; i < nv; i++)
    {
      bool found = false;
      for (auto& a : act) if (xf.x(a.first) == hx[i] && xf.y(a.second) == hy[i]) { found = true; break; }
      if (!found)
      {
        ctx.fail(dk + ":vertex-not-data", fmt("vertex %d (%.17g,%.17g) is not an active sample", i, hx[i], hy[i]));
        return;
      }
    }
  }
  else
  {
    // every vertex lies within the dilation radius of the exact hull
    for (int i = 0; i < nv; i++)
    {
      LD px = fx[(size_t)i], py = fy[(size_t)i];
      LD d = 1e300L;
      bool inside = true;
      for (size_t e = 0; e < h.size(); e++)
      {
        auto a = h[e], b = h[(e + 1) % h.size()];
        d = std::min(d, distSeg(a.first, a.second, b.first, b.second, px, py));
        if ((b.first - a.first) * (py - a.second) - (b.second - a.second) * (px - a.first) < 0) inside = false;
      }
      if (!inside && d > dilFine + tol + 1e-9L * dilFine)
      {
        ctx.fail(dk + ":vertex-too-far", fmt("vertex %d lies %.12Lg fine units from the hull of the data, dilation radius %.12Lg", i, d, dilFine));
        return;
      }
    }
  }
  // turns all of one sign (zero turns allowed, at least one non-zero); closing vertex tolerated
  {
    int pos = 0, neg = 0;
    for (int i = 0; i < nv; i++)
    {
      int j = (i + 1) % nv, k2 = (i + 2) % nv;
      LD t = (fx[(size_t)j] - fx[(size_t)i]) * (fy[(size_t)k2] - fy[(size_t)j]) - (fy[(size_t)j] - fy[(size_t)i]) * (fx[(size_t)k2] - fx[(size_t)j]);
      LD tt = c.dilNum ? tol * (1 + hypotl(fx[(size_t)j] - fx[(size_t)i], fy[(size_t)j] - fy[(size_t)i]) + hypotl(fx[(size_t)k2] - fx[(size_t)j], fy[(size_t)k2] - fy[(size_t)j])) : 0;
      if (t > tt) pos++;
      if (t < -tt) neg++;
    }
    if ((pos > 0 && neg > 0) || (pos == 0 && neg == 0))
    {
      ctx.fail(dk + ":not-convex", fmt("hull polygon (%d vertices) has %d left and %d right turns", nv, pos, neg));
      return;
    }
    // every active sample inside or on the polygon
    LD s = pos > 0 ? 1 : -1;
    for (auto& a : act)
      for (int i = 0; i < nv; i++)
      {
        int j = (i + 1) % nv;
        LD ex = fx[(size_t)j] - fx[(size_t)i], ey = fy[(size_t)j] - fy[(size_t)i];
        LD t = s * (ex * ((LD)a.second - fy[(size_t)i]) - ey * ((LD)a.first - fx[(size_t)i]));
        if (t < -tol * (1 + hypotl(ex, ey)))
        {
          ctx.fail(dk + ":point-outside", fmt("active sample fine(%d,%d) lies outside the hull polygon (edge %d, signed area %.6Lg)", a.first,
                                              a.second, i, t));
          return;
        }
      }
  }

  // selection of a second Db by the hull
  int nq = (int)c.q.size() / 2;
  if (nq < 1) return;
  ctx.at("Db-creation");
  VectorDouble tq;
  for (int i = 0; i < nq; i++) tq.push_back(xf.x(c.q[2 * (size_t)i]));
  for (int i = 0; i < nq; i++) tq.push_back(xf.y(c.q[2 * (size_t)i + 1]));
  VectorString qn = {"x", "y"}, ql = {"x1", "x2"};
  if (c.ndim == 3)
  {
    for (int i = 0; i < nq; i++) tq.push_back(xf.z(2 * i + 1));
    qn.push_back("zc");
    ql.push_back("x3");
  }
  std::unique_ptr<Db> dq(Db::createFromSamples(nq, ELoadBy::COLUMN, tq, qn, ql, c.addRank != 0));
  if (!dq) { ctx.fail("harness:db-shape", "query Db not created"); return; }
  int ncolBefore = dq->getColumnNumber();
  ctx.at("addSelectionFromDbByConvexHull");
  int err = dq->addSelectionFromDbByConvexHull(db.get(), dilate);
  int icol = dq->getColIdxByLocator(ELoc::SEL, 0);
  if (err != 0 || dq->getColumnNumber() != ncolBefore + 1 || icol != ncolBefore || dq->getSampleNumber() != nq)
  {
    ctx.fail(dk + ":sel-shape", fmt("addSelectionFromDbByConvexHull: error %d, %d columns (expected %d), SEL column %d", err,
                                    dq->getColumnNumber(), ncolBefore + 1, icol));
    return;
  }
  bool anyLevel = false;
  int nskip = 0;
  for (int i = 0; i < nq; i++)
  {
    I64 px = c.q[2 * (size_t)i], py = c.q[2 * (size_t)i + 1];
    double got = dq->getValueByColIdx(i, icol);
    if (got != 0. && got != 1.)
    {
      ctx.fail(dk + ":sel-value", fmt("selection value %g of sample %d is neither 0 nor 1", got, i));
      return;
    }
    bool onb = onBoundary(hr, px, py);
    bool in = !onb && evenOdd(hr, px, py);
    if (levelClass(hr, py) > 0) anyLevel = true;
    if (!c.dilNum)
    {
      if (onb) { nskip++; continue; }
      if ((got != 0.) != in)
      {
        ctx.fail(dk + ":sel:" + (in ? "inside-not-selected" : "outside-selected"),
                 fmt("query fine(%lld,%lld) is %s the convex hull of the active data, selection = %g", px, py, in ? "inside" : "outside", got));
        return;
      }
    }
    else
    {
      LD d = 0;
      if (!in && !onb)
      {
        d = 1e300L;
        for (size_t e = 0; e < h.size(); e++)
        {
          auto a = h[e], b = h[(e + 1) % h.size()];
          d = std::min(d, distSeg(a.first, a.second, b.first, b.second, (LD)px, (LD)py));
        }
      }
      // the dilated hull is approximated by sectors: undecided between 0.9 r and r
      if (d < 0.9L * dilFine) { if (got == 0.) { ctx.fail(dk + ":sel:near-not-selected", fmt("query fine(%lld,%lld) at distance %.9Lg from the hull (radius %.9Lg) is not selected", px, py, d, dilFine)); return; } }
      else if (d > dilFine * (1 + 1e-9L) + tol) { if (got != 0.) { ctx.fail(dk + ":sel:far-selected", fmt("query fine(%lld,%lld) at distance %.9Lg from the hull (radius %.9Lg) is selected", px, py, d, dilFine)); return; } }
      else nskip++;
    }
  }
  if (nskip) ctx.label("query-undecided-skipped");
  ctx.nontrivial(act.size() >= 4 && anyLevel);
}
VERIF_SUB(convex_hull, HullCase, genHull, runHull);

VERIF_MAIN()
