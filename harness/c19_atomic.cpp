// C19 — a calculation either completes or leaves its data bases untouched.
//
// Case = calculator x valid small inputs x prior contents of dbin/dbout (extra columns, roles, selections, columns
// whose names collide with the outputs) x way of failing.
//   sub success : un-faulted valid call; dbin identical, dbout = old columns (names, values, UIDs) + exactly the
//                 documented new variables (names from the NamingConvention rules).
//   sub natural : one naturally invalid argument; on a reported failure both Dbs, Model and Neigh are identical to
//                 their state before the call; the objects that were valid are then reused for a valid call whose
//                 result must equal that of fresh objects.
//   sub inject  : the un-faulted call is run once to count the passages of every VerifHooks stage, then EVERY
//                 (stage, k) is armed on fresh objects (exhaustive enumeration per case); same oracle as natural.
// Failure keys: <calculator>:<stage-or-mode>:<what differs>.
#include "verif.hpp"

#include "Basic/VerifHooks.hpp"
#include "Basic/Law.hpp"
#include "Basic/OptDbg.hpp"
#include "Basic/NamingConvention.hpp"
#include "Db/Db.hpp"
#include "Db/DbGrid.hpp"
#include "Model/Model.hpp"
#include "Neigh/NeighUnique.hpp"
#include "Neigh/NeighMoving.hpp"
#include "Neigh/NeighImage.hpp"
#include "Space/ASpaceObject.hpp"
#include "Estimation/CalcKriging.hpp"
#include "Estimation/CalcSimpleInterpolation.hpp"
#include "Estimation/CalcImage.hpp"
#include "Simulation/CalcSimuTurningBands.hpp"
#include "Simulation/CalcSimuFFT.hpp"
#include "Simulation/SimuFFTParam.hpp"
#include "Calculators/CalcMigrate.hpp"
#include "Calculators/CalcStatistics.hpp"
#include "Calculators/CalcGridToGrid.hpp"
#include "Anamorphosis/AnamHermite.hpp"
#include "Anamorphosis/AnamDiscreteDD.hpp"
#include "Stats/PCA.hpp"
#include "Matrix/MatrixSquareSymmetric.hpp"
#include "Enum/EKrigOpt.hpp"
#include "Enum/EStatOption.hpp"
#include "Enum/EMorpho.hpp"
#include "Enum/ELoadBy.hpp"
#include "Enum/ESpaceType.hpp"

#include <memory>
#include <algorithm>

using namespace vf;

// ------------------------------------------------------------------ calculators -----------------------------
enum Calc
{
  K_KRIGING, K_KRIBAYES, K_XVALID, K_TESTNEIGH, K_KRIGTEST, K_KRIGDGM, K_SIMTUB, K_SIMBAYES, K_SIMFFT,
  K_MIGRATE, K_MIGMULTI, K_MIGLOC, K_MIGATT, K_STATGRID, K_REGR,
  K_R2GLOC, K_R2GNAME, K_NSCORE, K_G2RNAME, K_R2FACTOR,
  K_INVDIST, K_NEAREST, K_MOVAVE, K_MOVMED, K_LSTSQR,
  K_KRIMAGE, K_MORPHO, K_SMOOTH, K_G2GCOPY, K_G2GSHRINK, K_PCAZ2F,
  NCALC
};
static const char* kCalcName[NCALC] = {
  "kriging", "kribayes", "xvalid", "test_neigh", "krigtest", "krigdgm", "simtub", "simbayes", "simfft",
  "migrate", "migrateMulti", "migrateByLocator", "migrateByAttribute", "dbStatisticsOnGrid", "dbRegression",
  "rawToGaussianByLocator", "rawToGaussian", "normalScore", "gaussianToRaw", "rawToFactor",
  "inverseDistance", "nearestNeighbor", "movingAverage", "movingMedian", "leastSquares",
  "krimage", "dbMorpho", "dbSmoother", "dbg2gCopy", "dbg2gShrink", "pcaZ2F"};

// natural ways of failing
enum Mode
{
  M_NONE, M_MODEL_NDIM, M_NEIGH_NDIM, M_MODEL_NVAR, M_NO_Z, M_NO_COVA, M_NMINI, M_BLOCK_ON_POINT, M_BAD_NDISCS,
  M_EMPTY_SEL_IN, M_EMPTY_SEL_OUT, M_NFEX_MISSING, M_DBOUT_NDIM, M_DGM_SILL, M_BAD_DISTTYPE, M_BAD_NAME,
  M_ANAM_NOT_CONT, M_BAD_IFAC, M_NBSIMU0, M_NBTUBA0, M_SMOOTH_TYPE, M_GRID_MISMATCH, M_NO_AUX, M_NVAR2,
  M_NEIGH_IMAGE, M_NEIGH_NOT_IMAGE, M_BAYES_PRIOR,
  NMODE
};
static const char* kModeName[NMODE] = {
  "none", "model-ndim", "neigh-ndim", "model-nvar", "no-z", "no-cova", "nmini", "block-on-point", "bad-ndiscs",
  "empty-sel-in", "empty-sel-out", "nfex-missing", "dbout-ndim", "dgm-sill", "bad-disttype", "bad-name",
  "anam-not-continuous", "bad-ifac", "nbsimu0", "nbtuba0", "smooth-type", "grid-mismatch", "no-aux", "nvar2",
  "neigh-image", "neigh-not-image", "bayes-prior"};
// which argument a mode makes invalid (those are not reused after the failure)
enum { B_IN = 1, B_OUT = 2, B_MODEL = 4, B_NEIGH = 8, B_ANAM = 16 };
static int badMask(int mode)
{
  switch (mode)
  {
    case M_MODEL_NDIM: case M_MODEL_NVAR: case M_NO_COVA: case M_DGM_SILL: return B_MODEL;
    case M_NEIGH_NDIM: case M_NMINI: case M_NEIGH_IMAGE: case M_NEIGH_NOT_IMAGE: return B_NEIGH;
    case M_NO_Z: case M_EMPTY_SEL_IN: case M_NVAR2: return B_IN;
    case M_EMPTY_SEL_OUT: case M_NFEX_MISSING: case M_DBOUT_NDIM: case M_GRID_MISMATCH: return B_OUT;
    case M_ANAM_NOT_CONT: return B_ANAM;
    default: return 0; // pure call-argument modes
  }
}

// ------------------------------------------------------------------ case ------------------------------------
struct Case
{
  int calc = 0, ndim = 2, nin = 8, nvar = 1, nfex = 0, fexInDbin = 0, inGrid = 0, outGrid = 1, ntgt = 4;
  std::vector<int> nx;             // grid mesh counts (ndim entries)
  std::vector<int> cells, tcells;  // distinct lattice cells of data / point targets
  int vseed = 1, naPct = 0;
  int neigh = 0, nmaxi = 6, nsect = 1;
  int cov = 0, drift = 0;
  int opt = 0, nbsimu = 1, nbtuba = 8, simseed = 1;
  int inExtra = 0, outExtra = 0, inRoles = 0, outRoles = 0, inSel = 0, outSel = 0, collide = 0;
  int mode = 0;
  int hist = 0;                    // earlier life of the data bases: bit 0 / 1 = a scratch variable was created and deleted in dbin / dbout
  template<class A> void io(A& a)
  {
    a("calc", calc)("ndim", ndim)("nin", nin)("nvar", nvar)("nfex", nfex)("fexInDbin", fexInDbin)("inGrid", inGrid)
      ("outGrid", outGrid)("ntgt", ntgt)("nx", nx)("cells", cells)("tcells", tcells)("vseed", vseed)("naPct", naPct)
      ("neigh", neigh)("nmaxi", nmaxi)("nsect", nsect)("cov", cov)("drift", drift)("opt", opt)("nbsimu", nbsimu)
      ("nbtuba", nbtuba)("simseed", simseed)("inExtra", inExtra)("outExtra", outExtra)("inRoles", inRoles)
      ("outRoles", outRoles)("inSel", inSel)("outSel", outSel)("collide", collide)("mode", mode)("hist", hist);
  }
};

static Case genCase()
{
  Case c;
  c.calc = G::i(0, NCALC - 1);
  c.ndim = G::pick({2, 2, 2, 2, 3, 1});
  c.nin  = G::sz(6, 14);
  c.nvar = G::pick({1, 1, 2});
  c.nfex = G::pct(30) ? 1 : 0;
  c.fexInDbin = G::b();
  c.inGrid  = G::b();
  c.outGrid = G::pct(65);
  c.ntgt    = G::sz(2, 7);
  for (int d = 0; d < 3; d++) c.nx.push_back(G::i(2, c.ndim == 3 ? 3 : (c.ndim == 1 ? 7 : 4)));
  {
    int m = 1;
    auto ipow = [](int b, int e) { int r = 1; for (int k = 0; k < e; k++) r *= b; return r; };
    while (ipow(m, c.ndim) < 2 * 14) m++;
    std::vector<int> p = G::perm(ipow(m, c.ndim));
    c.cells.assign(p.begin(), p.begin() + 14);
    std::vector<int> q = G::perm(ipow(m, c.ndim));
    c.tcells.assign(q.begin(), q.begin() + 7);
  }
  c.vseed = G::i(1, 9999);
  c.naPct = G::pick({0, 0, 20});
  c.neigh = G::b();
  c.nmaxi = G::i(3, 8);
  c.nsect = G::pick({1, 1, 4});
  c.cov   = G::i(0, 2);
  c.drift = G::i(0, 2);
  c.opt   = G::i(0, 255);
  c.nbsimu = G::i(1, 2);
  c.nbtuba = G::i(3, 12);
  c.simseed = G::seed();
  c.inExtra = G::i(0, 2);
  c.outExtra = G::i(0, 2);
  c.inRoles = G::i(0, 3);
  c.outRoles = G::i(0, 3);
  c.inSel = G::pct(40) ? G::i(1, 99) : 0;
  c.outSel = G::pct(40) ? G::i(1, 99) : 0;
  c.collide = G::pct(50) ? G::i(1, 255) : 0;
  c.mode = G::i(0, 63);
  c.hist = G::pct(50) ? G::i(1, 3) : 0;
  return c;
}

// ------------------------------------------------------------------ plan (normalised case) ------------------
struct Plan
{
  int calc = 0, ndim = 2, ndimOut = 2;
  bool hasIn = true, twoDb = true, inGrid = false, outGrid = true;
  int nin = 8, nvar = 1, nfex = 0, ntgt = 4;
  bool fexInDbin = false;
  bool needModel = false, needNeigh = false;
  int neighType = 0; // 0 unique, 1 moving, 2 image
  int driftOrder = -1;
  bool est = true, std_ = true, varz = false, block = false;
  int xvEst = 1, xvStd = 1, xvVarz = 0;
  int nbsimu = 1, nfact = 1, operMorpho = 0, statOper = 0, distType = 1, smoothType = 1, iech0 = 0;
  bool cleanIn = false; // no undefined value and no selection in dbin (kribayes/simbayes read out of bounds otherwise)
  bool cond = true, flagStd = false, flagCst = true, fill = false, inter = false, ball = false, priorGiven = false;
  std::vector<std::string> znames, migNames;
};

static bool inSet(int v, std::initializer_list<int> l) { for (int x : l) if (x == v) return true; return false; }

static Plan makePlan(const Case& c)
{
  Plan p;
  p.calc = ((c.calc % NCALC) + NCALC) % NCALC;
  int k  = p.calc;
  p.ndim = std::min(3, std::max(1, c.ndim));
  p.nin  = std::min(14, std::max(6, c.nin));
  p.nvar = (c.nvar == 2) ? 2 : 1;
  p.ntgt = std::min(7, std::max(2, c.ntgt));
  p.outGrid = c.outGrid != 0;
  p.inGrid  = false;
  p.nbsimu  = (c.nbsimu == 2) ? 2 : 1;
  int o = c.opt;
  // who needs what
  bool krigFam = inSet(k, {K_KRIGING, K_KRIBAYES, K_XVALID, K_TESTNEIGH, K_KRIGTEST, K_KRIGDGM});
  p.needModel = krigFam || inSet(k, {K_SIMTUB, K_SIMBAYES, K_SIMFFT, K_KRIMAGE});
  p.needNeigh = krigFam || inSet(k, {K_SIMTUB, K_SIMBAYES, K_MOVAVE, K_MOVMED, K_LSTSQR, K_KRIMAGE, K_SMOOTH});
  p.neighType = c.neigh ? 1 : 0;
  p.twoDb = !inSet(k, {K_XVALID, K_REGR, K_R2GLOC, K_R2GNAME, K_NSCORE, K_G2RNAME, K_R2FACTOR, K_KRIMAGE, K_MORPHO, K_SMOOTH,
                       K_PCAZ2F, K_SIMFFT});
  if (!p.twoDb) p.outGrid = false;
  if (inSet(k, {K_KRIGDGM, K_STATGRID, K_SIMFFT, K_G2GCOPY, K_G2GSHRINK})) p.outGrid = true;
  if (inSet(k, {K_KRIMAGE, K_MORPHO, K_SMOOTH, K_G2GCOPY, K_G2GSHRINK})) p.inGrid = true;
  if (inSet(k, {K_MIGRATE, K_MIGMULTI, K_MIGLOC, K_MIGATT, K_INVDIST})) p.inGrid = c.inGrid != 0;
  if (inSet(k, {K_KRIMAGE, K_MORPHO, K_SMOOTH})) { p.neighType = 2; if (p.ndim == 1) p.ndim = 2; }
  if (k == K_G2GSHRINK) p.ndim = 3;
  if (k == K_SIMFFT && p.ndim == 1) p.ndim = 2; // the 1-D dilation search of simfft does not terminate in reasonable time
  p.ndimOut = (k == K_G2GSHRINK) ? 2 : p.ndim;
  // number of variables
  if (inSet(k, {K_KRIBAYES, K_KRIGDGM, K_SIMFFT, K_SIMBAYES, K_R2GNAME, K_NSCORE, K_G2RNAME, K_R2FACTOR, K_INVDIST, K_NEAREST, K_MOVAVE,
                K_MOVMED, K_LSTSQR, K_MORPHO, K_SMOOTH, K_G2GCOPY, K_G2GSHRINK, K_REGR, K_KRIGTEST, K_MIGRATE}))
    p.nvar = 1;
  for (int i = 0; i < p.nvar; i++) p.znames.push_back("z" + std::to_string(i + 1));
  // external drift only where the expansion is documented
  p.nfex = (inSet(k, {K_KRIGING, K_SIMTUB}) && c.nfex) ? 1 : 0;
  p.fexInDbin = c.fexInDbin != 0 || !p.outGrid;
  // drift
  p.driftOrder = -1;
  if (krigFam || k == K_SIMTUB) p.driftOrder = (c.drift % 3) - 1; // -1 (simple), 0, 1
  if (inSet(k, {K_KRIBAYES, K_SIMBAYES})) { p.driftOrder = c.drift % 2; p.neighType = 0; p.cleanIn = true; }
  if (k == K_KRIGDGM) p.driftOrder = -1;
  if (p.nfex > 0 && p.driftOrder < 0) p.driftOrder = 0;
  // options
  p.est = (o & 1) != 0; p.std_ = (o & 2) != 0; p.varz = (o & 4) != 0;
  if (!p.est && !p.std_ && !p.varz) p.est = true;
  if (k == K_KRIGDGM) p.varz = false;
  if (k == K_KRIBAYES) p.varz = false;
  p.block = (k == K_KRIGING) && p.outGrid && (o & 8);
  p.xvEst = (o & 1) ? ((o & 16) ? 1 : -1) : 0;
  p.xvStd = (o & 2) ? ((o & 32) ? 1 : -1) : 0;
  p.xvVarz = (o & 4) ? 1 : 0;
  if (p.xvEst == 0 && p.xvStd == 0 && p.xvVarz == 0) p.xvEst = 1;
  p.cond = (k == K_SIMBAYES) || (o & 1);
  if (k == K_SIMTUB && !p.cond) { p.hasIn = false; p.nfex = 0; }
  if (k == K_SIMFFT) { p.hasIn = false; }
  p.flagStd = (o & 2) != 0 && inSet(k, {K_INVDIST, K_NEAREST, K_MOVAVE, K_MOVMED});
  if (p.flagStd) p.needModel = true;
  p.flagCst = (o & 1) != 0;
  p.fill = (o & 16) != 0; p.inter = (o & 32) != 0 && p.inGrid && !p.outGrid; p.ball = (o & 64) != 0;
  p.distType = (o & 128) ? 2 : 1;
  p.priorGiven = (o & 8) != 0;
  p.nfact = 1 + (o % 3);
  p.operMorpho = o % 6;
  p.statOper = o % 4;
  p.smoothType = 1 + (o & 1);
  p.iech0 = o % 64;
  // migrated names
  if (k == K_MIGRATE) p.migNames = {"z1"};
  if (k == K_MIGMULTI || k == K_MIGATT) { p.migNames = p.znames; if (c.inExtra > 0) p.migNames.push_back("e1"); }
  if (k == K_MIGLOC) p.migNames = p.znames;
  return p;
}

// ------------------------------------------------------------------ deterministic values --------------------
static uint64_t mix(uint64_t x)
{
  x += 0x9e3779b97f4a7c15ull; x = (x ^ (x >> 30)) * 0xbf58476d1ce4e5b9ull; x = (x ^ (x >> 27)) * 0x94d049bb133111ebull;
  return x ^ (x >> 31);
}
static uint64_t hsh(int seed, int a, int b) { return mix(mix(mix((uint64_t)seed) + (uint64_t)a) + (uint64_t)b); }
static double hval(int seed, int a, int b) { return (double)((int64_t)(hsh(seed, a, b) % 2001) - 1000) / 100.0; }

// ------------------------------------------------------------------ objects ---------------------------------
struct ColSpec
{
  std::string name; ELoc loc = ELoc::UNKNOWN; int idx = 0; std::vector<double> v;
};
static Db* makePointDb(int nech, const std::vector<ColSpec>& cols)
{
  VectorDouble tab; VectorString names;
  for (auto& c : cols) { names.push_back(c.name); for (int i = 0; i < nech; i++) tab.push_back(c.v[(size_t)i]); }
  Db* db = Db::createFromSamples(nech, ELoadBy::COLUMN, tab, names, VectorString(), false);
  for (auto& c : cols) if (c.loc != ELoc::UNKNOWN) db->setLocator(c.name, c.loc, c.idx, false);
  return db;
}
static DbGrid* makeGridDb(const std::vector<int>& nx, const std::vector<ColSpec>& cols)
{
  int nd = (int)nx.size(); int nech = 1;
  VectorInt NX; VectorDouble DX, X0;
  for (int d = 0; d < nd; d++) { NX.push_back(nx[(size_t)d]); DX.push_back(10. / nx[(size_t)d]); X0.push_back(5. / nx[(size_t)d]); nech *= nx[(size_t)d]; }
  VectorDouble tab; VectorString names;
  for (auto& c : cols) { names.push_back(c.name); for (int i = 0; i < nech; i++) tab.push_back(c.v[(size_t)i]); }
  DbGrid* db = DbGrid::create(NX, DX, X0, VectorDouble(), ELoadBy::COLUMN, tab, names, VectorString(), false, true);
  for (auto& c : cols) if (c.loc != ELoc::UNKNOWN) db->setLocator(c.name, c.loc, c.idx, false);
  return db;
}

struct Objs
{
  std::unique_ptr<Db> in, out; std::unique_ptr<Model> model; std::unique_ptr<ANeigh> neigh; std::unique_ptr<AAnam> anam;
  std::unique_ptr<PCA> pca;
};
struct View
{
  Db* in = nullptr; Db* out = nullptr; Model* model = nullptr; ANeigh* neigh = nullptr; AAnam* anam = nullptr; PCA* pca = nullptr;
};
static View viewOf(const Objs& o, const Plan& p)
{
  View v; v.in = o.in.get(); v.out = p.twoDb ? o.out.get() : (p.hasIn ? o.in.get() : o.out.get());
  if (!p.hasIn) v.in = nullptr;
  v.model = o.model.get(); v.neigh = o.neigh.get(); v.anam = o.anam.get(); v.pca = o.pca.get();
  return v;
}

// documented names of the new variables (NamingConvention: prefix.varname.qualifier.rank, empty parts skipped)
static std::vector<std::string> mk(const std::string& prefix, const std::vector<std::string>& vars, const std::string& qual, int nitems,
                                   bool flagVarname = true)
{
  std::vector<std::string> out; int nvar = (int)vars.size();
  for (int iv = 0; iv < nvar; iv++)
  {
    std::string vn, num;
    if (flagVarname) { vn = vars[(size_t)iv]; if (vn.empty() && nvar > 1) vn = std::to_string(iv + 1); }
    else if (nvar > 1) num = std::to_string(iv + 1);
    for (int it = 0; it < nitems; it++)
    {
      if (nitems > 1) num = std::to_string(it + 1);
      std::string n;
      for (const std::string& part : {prefix, vn, qual, num}) if (!part.empty()) { if (!n.empty()) n += "."; n += part; }
      if (n.empty()) n = "Dummy";
      out.push_back(n);
    }
  }
  return out;
}
static void app(std::vector<std::string>& a, const std::vector<std::string>& b) { a.insert(a.end(), b.begin(), b.end()); }
static const char* kMorphoKey[6] = {"THRESH", "NEGATION", "EROSION", "DILATION", "OPEN", "GRADIENT"};

static std::vector<std::string> expectedNames(const Plan& p)
{
  std::vector<std::string> e; const auto& z = p.znames; std::vector<std::string> z1 = {"z1"};
  auto estim = [&](const std::string& pre) {
    if (p.est) app(e, mk(pre, z, "estim", 1));
    if (p.std_) app(e, mk(pre, z, "stdev", 1));
    if (p.varz) app(e, mk(pre, z, "varz", 1));
  };
  switch (p.calc)
  {
    case K_KRIGING: case K_KRIGDGM: estim("Kriging"); break;
    case K_KRIBAYES: estim("Bayes"); break;
    case K_XVALID:
      if (p.xvEst) app(e, mk("Xvalid", z, p.xvEst > 0 ? "esterr" : "estim", 1));
      if (p.xvStd) app(e, mk("Xvalid", z, p.xvStd > 0 ? "stderr" : "stdev", 1));
      if (p.xvVarz) app(e, mk("Xvalid", z, "varz", 1));
      break;
    case K_TESTNEIGH:
      for (const char* q : {"Number", "MaxDist", "MinDist", "NbNESect", "NbCESect"}) app(e, mk("Neigh", z1, q, 1));
      break;
    case K_KRIGTEST: break;
    case K_SIMTUB: app(e, mk("Simu", p.cond ? z : std::vector<std::string>((size_t)p.nvar, ""), "", p.nbsimu)); break;
    case K_SIMBAYES: app(e, mk("SimBayes", z, "", p.nbsimu)); break;
    case K_SIMFFT: app(e, mk("FFT", {""}, "", p.nbsimu)); break;
    case K_MIGRATE: app(e, mk("Migrate", p.migNames, "", 1, false)); break;
    case K_MIGMULTI: case K_MIGLOC: case K_MIGATT: app(e, mk("Migrate", p.migNames, "", 1)); break;
    case K_STATGRID: app(e, mk("Stats", z, "", 1)); break;
    case K_REGR: app(e, mk("Regr", z1, "", 1)); break;
    case K_R2GLOC: app(e, mk("Y", z, "", 1)); break;
    case K_R2GNAME: app(e, mk("Y", z1, "", 1)); break;
    case K_NSCORE: app(e, mk("Gaussian", z1, "", 1)); break;
    case K_G2RNAME: app(e, mk("Z", z1, "", 1)); break;
    case K_R2FACTOR: app(e, mk("Factor", z1, "", p.nfact)); break;
    case K_INVDIST: case K_NEAREST: case K_MOVAVE: case K_MOVMED: case K_LSTSQR:
    {
      const char* pre = p.calc == K_INVDIST ? "InvDist" : p.calc == K_NEAREST ? "Nearest" : p.calc == K_MOVAVE ? "MovAve" :
                        p.calc == K_MOVMED ? "MovMed" : "LstSqr";
      app(e, mk(pre, z1, "estim", 1));
      if (p.flagStd) app(e, mk(pre, z1, "stdev", 1));
      break;
    }
    case K_KRIMAGE: app(e, mk("Filtering", z, "", 1)); break;
    case K_MORPHO: app(e, mk("Morpho", z1, kMorphoKey[p.operMorpho], p.operMorpho == 5 ? p.ndim : 1)); break;
    case K_SMOOTH: app(e, mk("Smooth", z1, "", 1)); break;
    case K_G2GCOPY: app(e, mk("Copy", z1, "", 1)); break;
    case K_G2GSHRINK: app(e, mk("Shrink", z1, "", 1)); break;
    case K_PCAZ2F: app(e, mk("F", z, "", 1, false)); break;
  }
  return e;
}

static Model* makeModel(const Plan& p, const Case& c, int ndim, int nvar, bool withCova, double sillScale)
{
  Model* m = new Model(nvar, ndim);
  if (withCova)
  {
    static const char* types[3] = {"SPHERICAL", "EXPONENTIAL", "CUBIC"};
    VectorDouble sills;
    if (nvar == 1) sills = {0.8 * sillScale};
    else
      for (int i = 0; i < nvar; i++) for (int j = 0; j < nvar; j++) sills.push_back((i == j ? 1.0 : 0.3) * 0.8 * sillScale);
    VectorDouble nug;
    for (int i = 0; i < nvar; i++) for (int j = 0; j < nvar; j++) nug.push_back((i == j ? 1.0 : 0.0) * 0.2 * sillScale);
    m->addCovFromParam(ECov::NUGGET, 0., 0., 1., VectorDouble(), nug);
    m->addCovFromParam(ECov::fromKey(types[((c.cov % 3) + 3) % 3]), 4. + (c.vseed % 5), 0., 1., VectorDouble(), sills);
  }
  if (p.driftOrder >= 0 || p.nfex > 0) m->setDriftIRF(std::max(0, p.driftOrder), p.nfex);
  return m;
}
static ANeigh* makeNeigh(const Plan& p, const Case& c, int ndim, int type, bool hugeNmini)
{
  defineDefaultSpace(ESpaceType::RN, (unsigned)ndim);
  ANeigh* n = nullptr;
  if (type == 0) n = NeighUnique::create(false);
  else if (type == 1)
  {
    int nmaxi = std::min(10, std::max(3, c.nmaxi));
    int nsect = (c.nsect == 4 && ndim >= 2) ? 4 : 1;
    // explicit isotropic coefficients: without them the distance checker assumes 2 dimensions whatever the space
    n = NeighMoving::create(false, hugeNmini ? 1000 : nmaxi, 30., hugeNmini ? 500 : 1, nsect, nsect > 1 ? 3 : ITEST, VectorDouble((size_t)ndim, 1.));
  }
  else n = NeighImage::create(VectorInt((size_t)ndim, 1), 0);
  defineDefaultSpace(ESpaceType::RN, (unsigned)p.ndim);
  return n;
}

// The objects of a case; `mode` makes exactly one argument invalid (M_NONE: all valid).
static Objs build(const Case& c, const Plan& p, int mode)
{
  Objs o;
  defineDefaultSpace(ESpaceType::RN, (unsigned)p.ndim);
  int nd = p.ndim;
  auto ipow = [](int b, int e) { int r = 1; for (int k = 0; k < e; k++) r *= b; return r; };
  std::vector<std::string> expect = expectedNames(p);
  auto collisions = [&](std::vector<ColSpec>& cols, int nech) {
    for (size_t i = 0; i < expect.size(); i++)
      if (c.collide & (1 << (i % 8)))
      {
        bool dup = false; for (auto& x : cols) if (x.name == expect[i]) dup = true;
        if (dup) continue;
        ColSpec s; s.name = expect[i];
        for (int e = 0; e < nech; e++) s.v.push_back(hval(c.vseed, 900 + (int)i, e));
        cols.push_back(s);
      }
  };
  auto zcol = [&](int iv, int nech, bool allowNA) {
    ColSpec s; s.name = "z" + std::to_string(iv + 1); s.loc = ELoc::Z; s.idx = iv;
    for (int e = 0; e < nech; e++)
    {
      double v = hval(c.vseed, 10 + iv, e);
      if (p.calc == K_MORPHO) v = (hsh(c.vseed, 10, e) % 2) ? 1. : 0.;
      if (allowNA && !p.cleanIn && c.naPct > 0 && e >= 5 && (int)(hsh(c.vseed, 50 + iv, e) % 100) < c.naPct) v = TEST;
      s.v.push_back(v);
    }
    return s;
  };
  auto selcol = [&](int key, int nech, int keep, bool empty) {
    ColSpec s; s.name = "sel"; s.loc = ELoc::SEL; s.idx = 0;
    for (int e = 0; e < nech; e++) s.v.push_back(empty ? 0. : ((e < keep || (int)(hsh(key, 77, e) % 100) >= 30) ? 1. : 0.));
    return s;
  };

  // ---- dbin
  if (p.hasIn)
  {
    std::vector<ColSpec> cols; int nech;
    int nvarIn = p.nvar + ((mode == M_NVAR2) ? 1 : 0);
    if (p.inGrid)
    {
      std::vector<int> nx; nech = 1;
      for (int d = 0; d < nd; d++) { int n = std::min(7, std::max(2, c.nx[(size_t)d])); nx.push_back(n); nech *= n; }
      for (int iv = 0; iv < nvarIn; iv++) cols.push_back(zcol(iv, nech, false));
      if (mode == M_NO_Z) for (auto& s : cols) s.loc = ELoc::UNKNOWN;
      for (int k = 0; k < c.inExtra; k++)
      {
        ColSpec s; s.name = "e" + std::to_string(k + 1);
        if (c.inRoles & (1 << k)) { s.loc = (k == 0) ? ELoc::P : ELoc::LAYER; s.idx = 0; }
        for (int e = 0; e < nech; e++) s.v.push_back(hval(c.vseed, 30 + k, e));
        cols.push_back(s);
      }
      if (c.inSel > 0 || mode == M_EMPTY_SEL_IN) cols.push_back(selcol(c.inSel, nech, 4, mode == M_EMPTY_SEL_IN));
      if (!p.twoDb) collisions(cols, nech);
      o.in.reset(makeGridDb(nx, cols));
    }
    else
    {
      nech = p.nin;
      int m = 1; while (ipow(m, nd) < 2 * 14) m++;
      for (int d = 0; d < nd; d++)
      {
        ColSpec s; s.name = "x" + std::to_string(d + 1); s.loc = ELoc::X; s.idx = d;
        for (int e = 0; e < nech; e++)
        {
          int cell = c.cells[(size_t)e % c.cells.size()];
          int cd = (cell / ipow(m, d)) % m;
          double fr = (double)(hsh(c.vseed, 1 + d, e) % 1000) / 1000.;
          s.v.push_back((cd + 0.2 + 0.6 * fr) * 10. / m);
        }
        cols.push_back(s);
      }
      for (int iv = 0; iv < nvarIn; iv++) { cols.push_back(zcol(iv, nech, true)); if (mode == M_NO_Z) cols.back().loc = ELoc::UNKNOWN; }
      if (p.nfex > 0 && p.fexInDbin)
      {
        ColSpec s; s.name = "f1"; s.loc = ELoc::F; s.idx = 0;
        for (int e = 0; e < nech; e++) s.v.push_back(hval(c.vseed, 20, e));
        cols.push_back(s);
      }
      if (p.calc == K_REGR)
        for (int k = 0; k < 2; k++)
        {
          ColSpec s; s.name = "a" + std::to_string(k + 1);
          for (int e = 0; e < nech; e++) s.v.push_back(hval(c.vseed, 25 + k, e));
          cols.push_back(s);
        }
      for (int k = 0; k < c.inExtra; k++)
      {
        ColSpec s; s.name = "e" + std::to_string(k + 1);
        if (c.inRoles & (1 << k)) { s.loc = (k == 0) ? ELoc::P : ELoc::LAYER; s.idx = 0; }
        for (int e = 0; e < nech; e++) s.v.push_back(hval(c.vseed, 30 + k, e));
        cols.push_back(s);
      }
      if ((c.inSel > 0 && !p.cleanIn) || mode == M_EMPTY_SEL_IN) cols.push_back(selcol(c.inSel, nech, 5, mode == M_EMPTY_SEL_IN));
      if (!p.twoDb) collisions(cols, nech);
      o.in.reset(makePointDb(nech, cols));
    }
  }
  // ---- dbout
  if (p.twoDb || !p.hasIn)
  {
    int ndo = p.ndimOut;
    if (mode == M_DBOUT_NDIM) ndo = (p.ndimOut == 3) ? 2 : p.ndimOut + 1;
    std::vector<ColSpec> cols; int nech;
    std::vector<int> nx;
    if (p.outGrid)
    {
      nech = 1;
      for (int d = 0; d < ndo; d++)
      {
        int n = std::min(7, std::max(2, c.nx[(size_t)d % 3]));
        if (mode == M_GRID_MISMATCH && d == 0) n += 1;
        nx.push_back(n); nech *= n;
      }
    }
    else
    {
      nech = p.ntgt;
      int m = 1; while (ipow(m, ndo) < 2 * 14) m++;
      for (int d = 0; d < ndo; d++)
      {
        ColSpec s; s.name = "x" + std::to_string(d + 1); s.loc = ELoc::X; s.idx = d;
        for (int e = 0; e < nech; e++)
        {
          int cell = c.tcells[(size_t)e % c.tcells.size()];
          int cd = (cell / ipow(m, d)) % m;
          double fr = (double)(hsh(c.vseed, 5 + d, e) % 1000) / 1000.;
          s.v.push_back((cd + 0.25 + 0.5 * fr) * 10. / m);
        }
        cols.push_back(s);
      }
    }
    if (p.nfex > 0 && mode != M_NFEX_MISSING)
    {
      ColSpec s; s.name = "f1"; s.loc = ELoc::F; s.idx = 0;
      for (int e = 0; e < nech; e++) s.v.push_back(hval(c.vseed, 21, e));
      cols.push_back(s);
    }
    for (int k = 0; k < c.outExtra; k++)
    {
      ColSpec s; s.name = "o" + std::to_string(k + 1);
      if (c.outRoles & (1 << k)) { s.loc = (k == 0) ? ELoc::Z : ELoc::P; s.idx = 0; }
      for (int e = 0; e < nech; e++) s.v.push_back(hval(c.vseed, 40 + k, e));
      cols.push_back(s);
    }
    if (c.outSel > 0 || mode == M_EMPTY_SEL_OUT) cols.push_back(selcol(c.outSel + 1000, nech, 1, mode == M_EMPTY_SEL_OUT));
    collisions(cols, nech);
    if (p.outGrid) o.out.reset(makeGridDb(nx, cols)); else o.out.reset(makePointDb(nech, cols));
  }
  // ---- model
  if (p.needModel)
  {
    int ndm = nd, nvm = p.nvar; bool cova = true; double scale = 1.;
    if (mode == M_MODEL_NDIM) ndm = (nd == 3) ? 2 : nd + 1;
    if (mode == M_MODEL_NVAR) nvm = p.nvar + 1;
    if (mode == M_NO_COVA) cova = false;
    if (mode == M_DGM_SILL) scale = 2.;
    o.model.reset(makeModel(p, c, ndm, nvm, cova, scale));
  }
  // ---- anamorphosis
  bool anamCalc = inSet(p.calc, {K_R2GLOC, K_R2GNAME, K_NSCORE, K_G2RNAME, K_R2FACTOR});
  if (anamCalc || p.calc == K_KRIGDGM)
  {
    if (mode == M_ANAM_NOT_CONT) o.anam.reset(AnamDiscreteDD::create(1., 0.));
    else
    {
      AnamHermite* ah = AnamHermite::create(8, true, p.calc == K_KRIGDGM ? 0.9 : 1.);
      VectorDouble tab; for (int e = 0; e < 30; e++) tab.push_back(hval(c.vseed, 10, e));
      (void)ah->fitFromArray(tab);
      o.anam.reset(ah);
    }
    if (p.calc == K_KRIGDGM && o.model) (void)o.model->setAnam(o.anam.get());
  }
  // ---- neighbourhood
  if (p.needNeigh)
  {
    int ndn = nd, type = p.neighType;
    if (mode == M_NEIGH_NDIM) ndn = (nd == 3) ? 2 : nd + 1;
    if (mode == M_NEIGH_IMAGE) type = 2;
    if (mode == M_NEIGH_NOT_IMAGE) type = 0;
    o.neigh.reset(makeNeigh(p, c, ndn, (mode == M_NMINI) ? 1 : type, mode == M_NMINI));
  }
  // ---- PCA (computed on a scratch copy of the valid data)
  if (p.calc == K_PCAZ2F)
  {
    o.pca.reset(new PCA());
    if (mode == M_NONE || mode == M_NVAR2 || mode == M_NO_Z)
    {
      std::vector<ColSpec> cols;
      for (int iv = 0; iv < p.nvar; iv++)
      {
        ColSpec s; s.name = "z" + std::to_string(iv + 1); s.loc = ELoc::Z; s.idx = iv;
        for (int e = 0; e < p.nin; e++) s.v.push_back(hval(c.vseed, 10 + iv, e));
        cols.push_back(s);
      }
      std::unique_ptr<Db> tmp(makePointDb(p.nin, cols));
      (void)o.pca->pca_compute(tmp.get(), false);
    }
  }
  // ---- earlier life of the data bases: a scratch variable was created and deleted (user identifiers and column ranks differ afterwards)
  auto scratch = [](Db* db) {
    if (db == nullptr) return;
    int uid = db->addColumnsByConstant(1, 0., "verif_scratch");
    if (uid >= 0) db->deleteColumnByUID(uid);
  };
  if (c.hist & 1) scratch(o.in.get());
  if (c.hist & 2) scratch(o.out.get());
  return o;
}

// ------------------------------------------------------------------ the call --------------------------------
static int callCalc(const View& v, const Plan& p, const Case& c, int mode)
{
  law_set_random_seed(1234);
  defineDefaultSpace(ESpaceType::RN, (unsigned)p.ndim);
  VectorInt ndiscs;
  if (p.block) ndiscs = VectorInt((size_t)p.ndim, 2);
  EKrigOpt calcul = p.block ? EKrigOpt::BLOCK : EKrigOpt::POINT;
  if (mode == M_BLOCK_ON_POINT) { calcul = EKrigOpt::BLOCK; ndiscs = VectorInt((size_t)p.ndim, 2); }
  if (mode == M_BAD_NDISCS) { calcul = EKrigOpt::BLOCK; ndiscs = (c.opt & 16) ? VectorInt() : VectorInt((size_t)p.ndim + 1, (c.opt & 32) ? 0 : 2); }
  int nbsimu = (mode == M_NBSIMU0) ? 0 : p.nbsimu;
  int nbtuba = (mode == M_NBTUBA0) ? 0 : std::min(12, std::max(3, c.nbtuba));
  int seed = std::max(1, c.simseed);
  VectorDouble pm; MatrixSquareSymmetric pc;
  if (inSet(p.calc, {K_KRIBAYES, K_SIMBAYES}) && (p.priorGiven || mode == M_BAYES_PRIOR))
  {
    int nfeq = (p.driftOrder == 0) ? 1 : 1 + p.ndim;
    if (mode == M_BAYES_PRIOR) nfeq += 1;
    pm = VectorDouble((size_t)nfeq, 0.5);
    pc = MatrixSquareSymmetric(nfeq);
    for (int i = 0; i < nfeq; i++) pc.setValue(i, i, 2.);
  }
  int dist = (mode == M_BAD_DISTTYPE) ? 3 : p.distType;
  switch (p.calc)
  {
    case K_KRIGING: return kriging(v.in, v.out, v.model, v.neigh, calcul, p.est, p.std_, p.varz, ndiscs);
    case K_KRIGDGM: return kriging(v.in, v.out, v.model, v.neigh, EKrigOpt::DGM, p.est, p.std_, false);
    case K_KRIBAYES: return kribayes(v.in, v.out, v.model, v.neigh, pm, pc, p.est, p.std_);
    case K_XVALID: return xvalid(v.in, v.model, v.neigh, false, p.xvEst, p.xvStd, p.xvVarz);
    case K_TESTNEIGH: return test_neigh(v.in, v.out, v.model, v.neigh);
    case K_KRIGTEST: (void)krigtest(v.in, v.out, v.model, v.neigh, p.iech0 % std::max(1, v.out->getSampleNumber()), calcul, ndiscs, false, false); return 0;
    case K_SIMTUB: return simtub(v.in, v.out, v.model, p.cond ? v.neigh : nullptr, nbsimu, seed, nbtuba);
    case K_SIMBAYES: return simbayes(v.in, v.out, v.model, v.neigh, nbsimu, seed, pm, pc, nbtuba);
    case K_SIMFFT: { SimuFFTParam prm(true, 0.1); return simfft(dynamic_cast<DbGrid*>(v.out), v.model, prm, nbsimu, seed, 0); }
    case K_MIGRATE: return migrate(v.in, v.out, mode == M_BAD_NAME ? "nope" : "z1", dist, VectorDouble(), p.fill, p.inter, p.ball);
    case K_MIGMULTI:
    {
      VectorString names(p.migNames.begin(), p.migNames.end());
      if (mode == M_BAD_NAME) names.push_back("nope");
      return migrateMulti(v.in, v.out, names, dist, VectorDouble(), p.fill, p.inter, p.ball);
    }
    case K_MIGLOC: return migrateByLocator(v.in, v.out, mode == M_BAD_NAME ? ELoc::G : ELoc::Z, dist, VectorDouble(), p.fill, p.inter, p.ball);
    case K_MIGATT:
    {
      VectorInt atts; for (auto& n : p.migNames) atts.push_back(v.in->getUID(n));
      if (mode == M_BAD_NAME) atts.push_back(v.in->getUIDMaxNumber() + 3);
      return migrateByAttribute(v.in, v.out, atts, dist, VectorDouble(), p.fill, p.inter, p.ball);
    }
    case K_STATGRID:
    {
      static const char* ops[4] = {"NUM", "MEAN", "VAR", "MINI"};
      return dbStatisticsOnGrid(v.in, dynamic_cast<DbGrid*>(v.out), EStatOption::fromKey(ops[p.statOper]), (c.opt & 16) ? 1 : 0);
    }
    case K_REGR:
    {
      VectorString aux = {"a1", "a2"}; bool cst = p.flagCst; std::string resp = "z1";
      if (mode == M_NO_AUX) { aux.clear(); cst = false; }
      if (mode == M_BAD_NAME) aux.push_back("nope");
      return dbRegression(v.in, resp, aux, 0, cst);
    }
    case K_R2GLOC: return v.anam->rawToGaussianByLocator(v.in);
    case K_R2GNAME: return v.anam->rawToGaussian(v.in, "z1");
    case K_NSCORE: return v.anam->normalScore(v.in, "z1");
    case K_G2RNAME: return v.anam->gaussianToRaw(v.in, "z1");
    case K_R2FACTOR:
      if (mode == M_BAD_IFAC) return v.anam->rawToFactorByRanks(v.in, {1, 99});
      return v.anam->rawToFactor(v.in, p.nfact);
    case K_INVDIST: return inverseDistance(v.in, v.out, 2., true, TEST, true, p.flagStd, v.model);
    case K_NEAREST: return nearestNeighbor(v.in, v.out, true, p.flagStd, v.model);
    case K_MOVAVE: return movingAverage(v.in, v.out, v.neigh, true, p.flagStd, v.model);
    case K_MOVMED: return movingMedian(v.in, v.out, v.neigh, true, p.flagStd, v.model);
    case K_LSTSQR: return leastSquares(v.in, v.out, v.neigh, (c.opt & 4) ? 1 : 0);
    case K_KRIMAGE: return krimage(dynamic_cast<DbGrid*>(v.in), v.model, v.neigh);
    case K_MORPHO:
    {
      EMorpho op = EMorpho::fromKey(kMorphoKey[p.operMorpho]);
      return dbMorpho(dynamic_cast<DbGrid*>(v.in), op, 0.5, 1.5, 0, VectorInt((size_t)p.ndim, 1), false, false);
    }
    case K_SMOOTH: return dbSmoother(dynamic_cast<DbGrid*>(v.in), v.neigh, mode == M_SMOOTH_TYPE ? 3 : p.smoothType, 1.5);
    case K_G2GCOPY: return dbg2gCopy(dynamic_cast<DbGrid*>(v.in), dynamic_cast<DbGrid*>(v.out));
    case K_G2GSHRINK: return dbg2gShrink(dynamic_cast<DbGrid*>(v.in), dynamic_cast<DbGrid*>(v.out));
    case K_PCAZ2F: return v.pca->dbZ2F(v.in, false);
  }
  return 0;
}

static std::vector<int> applicableModes(const Plan& p)
{
  std::vector<int> m; int k = p.calc;
  bool krigFam = inSet(k, {K_KRIGING, K_KRIBAYES, K_XVALID, K_TESTNEIGH, K_KRIGTEST, K_KRIGDGM});
  // without dbin the space dimension of dbout is never compared with the Model's (simfft then runs away): not generated
  if (p.needModel) { if (p.hasIn) m.push_back(M_MODEL_NDIM); m.push_back(M_NO_COVA); m.push_back(M_MODEL_NVAR); }
  if (p.needNeigh && p.neighType != 2) m.push_back(M_NEIGH_NDIM);
  if (p.hasIn && !inSet(k, {K_MIGRATE, K_MIGMULTI, K_MIGATT})) m.push_back(M_NO_Z);
  if (krigFam || inSet(k, {K_MOVAVE, K_MOVMED, K_LSTSQR})) m.push_back(M_NMINI);
  if ((krigFam || k == K_SIMTUB) && p.hasIn && !p.cleanIn) m.push_back(M_EMPTY_SEL_IN);
  if (p.twoDb && p.hasIn) { m.push_back(M_EMPTY_SEL_OUT); if (k != K_G2GSHRINK) m.push_back(M_DBOUT_NDIM); }
  if (k == K_KRIGING) { if (!p.outGrid) m.push_back(M_BLOCK_ON_POINT); else m.push_back(M_BAD_NDISCS); m.push_back(M_NEIGH_IMAGE); }
  if (p.nfex > 0) m.push_back(M_NFEX_MISSING);
  if (k == K_KRIGDGM) m.push_back(M_DGM_SILL);
  if (inSet(k, {K_MIGRATE, K_MIGMULTI, K_MIGLOC, K_MIGATT})) { m.push_back(M_BAD_DISTTYPE); m.push_back(M_BAD_NAME); }
  if (k == K_REGR) { m.push_back(M_BAD_NAME); m.push_back(M_NO_AUX); }
  if (inSet(k, {K_R2GLOC, K_R2GNAME, K_NSCORE, K_G2RNAME})) m.push_back(M_ANAM_NOT_CONT);
  if (k == K_R2FACTOR) { m.push_back(M_BAD_IFAC); m.push_back(M_NVAR2); }
  if (inSet(k, {K_SIMTUB, K_SIMBAYES, K_SIMFFT})) m.push_back(M_NBSIMU0);
  if (inSet(k, {K_SIMTUB, K_SIMBAYES})) m.push_back(M_NBTUBA0);
  if (k == K_SMOOTH) m.push_back(M_SMOOTH_TYPE);
  if (inSet(k, {K_G2GCOPY, K_G2GSHRINK})) m.push_back(M_GRID_MISMATCH);
  if (inSet(k, {K_INVDIST, K_NEAREST, K_MOVAVE, K_MOVMED, K_LSTSQR, K_MORPHO, K_SMOOTH, K_G2GCOPY, K_PCAZ2F})) m.push_back(M_NVAR2);
  if (k == K_KRIMAGE) m.push_back(M_NEIGH_NOT_IMAGE);
  if (inSet(k, {K_KRIBAYES, K_SIMBAYES})) m.push_back(M_BAYES_PRIOR);
  // the modes that are detected after variables were created (the non-trivial ones) are drawn three times as often
  size_t n0 = m.size();
  for (size_t i = 0; i < n0; i++)
  {
    bool late = inSet(m[i], {M_BAD_NDISCS, M_BLOCK_ON_POINT, M_DGM_SILL, M_NEIGH_IMAGE, M_NBTUBA0, M_NEIGH_NOT_IMAGE}) ||
                (m[i] == M_NO_Z && (krigFam || inSet(k, {K_SIMTUB, K_SIMBAYES}))) ||
                (m[i] == M_DBOUT_NDIM && inSet(k, {K_MIGRATE, K_MIGMULTI, K_MIGLOC, K_MIGATT})) ||
                (inSet(m[i], {M_EMPTY_SEL_IN, M_EMPTY_SEL_OUT, M_NMINI}) && inSet(k, {K_KRIGTEST, K_XVALID}));
    if (late) { m.push_back(m[i]); m.push_back(m[i]); }
  }
  return m;
}

// ------------------------------------------------------------------ snapshots -------------------------------
struct Snap
{
  bool present = false, grid = false; int nech = 0, ncol = 0;
  std::vector<std::string> names, roles; std::vector<int> uids; std::vector<std::vector<double>> cols; std::vector<double> geom;
};
static Snap snap(const Db* db)
{
  Snap s; if (db == nullptr) return s;
  s.present = true; s.grid = db->isGrid(); s.nech = db->getSampleNumber(false); s.ncol = db->getColumnNumber();
  for (int i = 0; i < s.ncol; i++)
  {
    s.names.push_back(db->getNameByColIdx(i));
    s.uids.push_back(db->getUIDByColIdx(i));
    ELoc t = ELoc::UNKNOWN; int li = -1;
    bool has = db->getLocatorByColIdx(i, &t, &li);
    s.roles.push_back(has && t != ELoc::UNKNOWN ? std::string(t.getKey()) + std::to_string(li) : std::string("-"));
    std::vector<double> v((size_t)s.nech);
    for (int e = 0; e < s.nech; e++) v[(size_t)e] = db->getValueByColIdx(e, i);
    s.cols.push_back(v);
  }
  const DbGrid* g = dynamic_cast<const DbGrid*>(db);
  if (g != nullptr)
    for (int d = 0; d < g->getNDim(); d++) { s.geom.push_back(g->getNX(d)); s.geom.push_back(g->getDX(d)); s.geom.push_back(g->getX0(d)); s.geom.push_back(g->getAngle(d)); }
  return s;
}
static bool sameCell(double a, double b) { return (std::isnan(a) && std::isnan(b)) || memcmp(&a, &b, sizeof a) == 0; }
static bool sameCol(const std::vector<double>& a, const std::vector<double>& b)
{
  if (a.size() != b.size()) return false;
  for (size_t i = 0; i < a.size(); i++) if (!sameCell(a[i], b[i])) return false;
  return true;
}
static std::string joinNames(const std::vector<std::string>& v, size_t from = 0)
{
  std::string s; for (size_t i = from; i < v.size(); i++) { if (!s.empty()) s += ","; s += "'" + v[i] + "'"; } return s;
}
// first difference between two snapshots of the same Db: {what, message}; what empty when identical
static std::pair<std::string, std::string> diffSnap(const Snap& a, const Snap& b, bool withUid = true)
{
  if (a.present != b.present) return {"presence", ""};
  if (!a.present) return {"", ""};
  if (a.grid != b.grid) return {"class", ""};
  if (a.nech != b.nech) return {"nech", fmt("%d -> %d", a.nech, b.nech)};
  if (a.geom != b.geom) return {"grid", "grid geometry changed"};
  if (a.ncol != b.ncol)
  {
    std::vector<std::string> extra; for (auto& n : b.names) if (std::find(a.names.begin(), a.names.end(), n) == a.names.end()) extra.push_back(n);
    std::vector<std::string> lost; for (auto& n : a.names) if (std::find(b.names.begin(), b.names.end(), n) == b.names.end()) lost.push_back(n);
    return {"ncol", fmt("%d -> %d columns; new: %s; lost: %s", a.ncol, b.ncol, joinNames(extra).c_str(), joinNames(lost).c_str())};
  }
  for (int i = 0; i < a.ncol; i++) if (a.names[(size_t)i] != b.names[(size_t)i]) return {"names", fmt("column %d '%s' -> '%s'", i, a.names[(size_t)i].c_str(), b.names[(size_t)i].c_str())};
  if (withUid) for (int i = 0; i < a.ncol; i++) if (a.uids[(size_t)i] != b.uids[(size_t)i]) return {"uid", fmt("column %d uid %d -> %d", i, a.uids[(size_t)i], b.uids[(size_t)i])};
  for (int i = 0; i < a.ncol; i++) if (a.roles[(size_t)i] != b.roles[(size_t)i]) return {"roles", fmt("column '%s' role %s -> %s", a.names[(size_t)i].c_str(), a.roles[(size_t)i].c_str(), b.roles[(size_t)i].c_str())};
  for (int i = 0; i < a.ncol; i++) if (!sameCol(a.cols[(size_t)i], b.cols[(size_t)i])) return {"values", fmt("values of column '%s' changed", a.names[(size_t)i].c_str())};
  return {"", ""};
}
struct Full
{
  Snap in, out; std::string model, neigh; bool aliased = false;
};
static Full snapAll(const View& v)
{
  Full f; f.aliased = (v.in == v.out) || v.in == nullptr;
  if (v.in != nullptr && v.in != v.out) f.in = snap(v.in);
  f.out = snap(v.out);
  if (v.model) f.model = v.model->toString();
  if (v.neigh) f.neigh = v.neigh->toString();
  return f;
}

// failures of one case: known (excluded) keys do not hide the other checks of the same case
struct Sink
{
  Ctx& ctx; std::string firstKnown, firstKnownMsg; int nfail = 0;
  explicit Sink(Ctx& c) : ctx(c) {}
  void fail(const std::string& key, const std::string& msg)
  {
    // development aid: C19_SURVEY=<file> lists every failure (key | message) instead of stopping at the first one
    if (const char* sv = getenv("C19_SURVEY")) { FILE* f = fopen(sv, "a"); if (f) { fprintf(f, "%s | %s\n", key.c_str(), msg.c_str()); fclose(f); } return; }
    if (isExcluded(key)) { if (firstKnown.empty()) { firstKnown = key; firstKnownMsg = msg; } ctx.label("known:" + key); return; }
    nfail++;
    ctx.fail(key, msg);
  }
  void finish() { if (nfail == 0 && !firstKnown.empty()) ctx.fail(firstKnown, firstKnownMsg); }
};

// both Dbs (+ Model, Neigh) identical? reports `<prefix>:<db>-<what>`; returns true when identical
static bool expectUntouched(const Full& a, const Full& b, const std::string& prefix, Sink& sk)
{
  bool ok = true;
  auto di = diffSnap(a.in, b.in);
  if (!di.first.empty()) { sk.fail(prefix + ":dbin-" + di.first, "after a reported failure dbin differs: " + di.second); ok = false; }
  auto dq = diffSnap(a.out, b.out);
  if (!dq.first.empty()) { sk.fail(prefix + (a.aliased ? ":db-" : ":dbout-") + dq.first, std::string("after a reported failure ") + (a.aliased ? "the db" : "dbout") + " differs: " + dq.second); ok = false; }
  if (a.model != b.model) { sk.fail(prefix + ":model-changed", "Model description changed by a failed call"); ok = false; }
  if (a.neigh != b.neigh) { sk.fail(prefix + ":neigh-changed", "Neigh description changed by a failed call"); ok = false; }
  return ok;
}

// success rule. `exact`: also require exactly the documented new variables
static bool expectSuccess(const Full& a, const Full& b, const Plan& p, bool exact, const std::string& prefix, Sink& sk)
{
  bool ok = true;
  auto di = diffSnap(a.in, b.in);
  if (!di.first.empty()) { sk.fail(prefix + ":dbin-" + di.first, "after success dbin differs: " + di.second); ok = false; }
  const Snap &o = a.out, &n = b.out;
  const char* dn = a.aliased ? "db" : "dbout";
  if (n.nech != o.nech || n.grid != o.grid || n.geom != o.geom) { sk.fail(prefix + ":" + dn + "-shape", "shape of the output Db changed"); return false; }
  if (n.ncol < o.ncol) { sk.fail(prefix + ":" + dn + "-lost-columns", fmt("%d -> %d columns", o.ncol, n.ncol)); return false; }
  for (int i = 0; i < o.ncol; i++)
  {
    if (o.names[(size_t)i] != n.names[(size_t)i]) { sk.fail(prefix + ":" + dn + "-old-names", fmt("column %d '%s' -> '%s'", i, o.names[(size_t)i].c_str(), n.names[(size_t)i].c_str())); return false; }
    if (o.uids[(size_t)i] != n.uids[(size_t)i]) { sk.fail(prefix + ":" + dn + "-old-uid", fmt("column '%s' uid %d -> %d", o.names[(size_t)i].c_str(), o.uids[(size_t)i], n.uids[(size_t)i])); return false; }
    if (!sameCol(o.cols[(size_t)i], n.cols[(size_t)i])) { sk.fail(prefix + ":" + dn + "-old-values", fmt("values of pre-existing column '%s' changed", o.names[(size_t)i].c_str())); ok = false; }
  }
  // roles of old columns: unchanged, except a role type that a new variable now holds (documented: the naming
  // convention assigns its locator to the outputs and cancels the previous holders)
  std::set<std::string> newTypes;
  for (int i = o.ncol; i < n.ncol; i++) { std::string r = n.roles[(size_t)i]; while (!r.empty() && isdigit((unsigned char)r.back())) r.pop_back(); newTypes.insert(r); }
  for (int i = 0; i < o.ncol; i++)
    if (o.roles[(size_t)i] != n.roles[(size_t)i])
    {
      std::string r = o.roles[(size_t)i]; while (!r.empty() && isdigit((unsigned char)r.back())) r.pop_back();
      bool displaced = n.roles[(size_t)i] == "-" && newTypes.count(r);
      // rawToGaussian(name)/normalScore/gaussianToRaw give the Z role to the named variable first (documented target)
      if (!displaced) { sk.fail(prefix + ":" + dn + "-old-roles", fmt("column '%s' role %s -> %s", o.names[(size_t)i].c_str(), o.roles[(size_t)i].c_str(), n.roles[(size_t)i].c_str())); ok = false; break; }
    }
  if (!exact) return ok;
  std::vector<std::string> expect = expectedNames(p), got(n.names.begin() + o.ncol, n.names.end());
  if (got.size() != expect.size())
  {
    sk.fail(prefix + ":new-count", fmt("%d new variables, documented %d (%s); got %s", (int)got.size(), (int)expect.size(), joinNames(expect).c_str(), joinNames(got).c_str()));
    return false;
  }
  // names: exact, or (when the name already existed) the documented name followed by version suffixes ".1"
  std::vector<int> used(expect.size(), 0);
  std::vector<std::string> left;
  for (auto& g : got)
  {
    bool f = false;
    for (size_t j = 0; j < expect.size() && !f; j++) if (!used[j] && expect[j] == g) { used[j] = 1; f = true; }
    if (!f) left.push_back(g);
  }
  for (auto g : left)
  {
    bool f = false; std::string s = g;
    while (!f && s.size() > 2 && s.compare(s.size() - 2, 2, ".1") == 0)
    {
      s.resize(s.size() - 2);
      bool existed = std::find(o.names.begin(), o.names.end(), s) != o.names.end() || std::find(got.begin(), got.end(), s) != got.end();
      for (size_t j = 0; j < expect.size() && !f; j++) if (!used[j] && expect[j] == s && existed) { used[j] = 1; f = true; }
    }
    if (!f) { sk.fail(prefix + ":new-names", fmt("new variable '%s' is not among the documented names %s", g.c_str(), joinNames(expect).c_str())); ok = false; break; }
  }
  // masked targets keep the undefined value (kriging family: results are initialised to TEST and masked targets skipped)
  if (inSet(p.calc, {K_KRIGING, K_KRIBAYES, K_TESTNEIGH, K_KRIGDGM}))
  {
    int isel = -1; for (int i = 0; i < o.ncol; i++) if (o.roles[(size_t)i] == "SEL0") isel = i;
    if (isel >= 0)
      for (int i = o.ncol; i < n.ncol && ok; i++)
        for (int e = 0; e < n.nech; e++)
          if (o.cols[(size_t)isel][(size_t)e] == 0. && n.cols[(size_t)i][(size_t)e] != TEST)
          { sk.fail(prefix + ":masked-target-defined", fmt("'%s' holds %g at masked target %d", n.names[(size_t)i].c_str(), n.cols[(size_t)i][(size_t)e], e)); ok = false; break; }
  }
  return ok;
}

static void dbgMsg(const char* m) { diag(std::string("  lib: ") + m); }
struct Guard
{
  Guard() { if (getenv("C19_DEBUG")) { redefine_error(dbgMsg); if (getenv("C19_DEBUG")[0] == '2') redefine_message(dbgMsg); } VerifHooks::disarm(); VerifHooks::resetCounters(); OptDbg::reset(); }
  ~Guard() { VerifHooks::disarm(); }
};

// mix: reuse the objects of `f` that were valid in the failed call, fresh ones otherwise
static View mixView(const Objs& f, const Objs& fresh, const Plan& p, int bad)
{
  View a = viewOf(f, p), b = viewOf(fresh, p), v = b;
  if (!(bad & B_IN)) v.in = a.in;
  if (!(bad & B_OUT)) v.out = a.out;
  if (!p.twoDb && p.hasIn) v.out = v.in;
  if (!(bad & B_MODEL)) v.model = a.model;
  if (!(bad & B_NEIGH)) v.neigh = a.neigh;
  if (!(bad & B_ANAM)) { v.anam = a.anam; }
  v.pca = b.pca;
  // the DGM model refers to its anamorphosis: keep the pair consistent
  if (p.calc == K_KRIGDGM) { if (v.model == a.model) v.anam = a.anam; else v.anam = b.anam; }
  return v;
}

// reference result of the valid call on fresh objects (computed once per case)
struct Ref { bool done = false; int ret = 0; Full before, after; int passages[VerifHooks::NSTAGES] = {0}; };
static void computeRef(const Case& c, const Plan& p, Ref& r)
{
  if (r.done) return;
  Objs o = build(c, p, M_NONE); View v = viewOf(o, p);
  r.before = snapAll(v);
  VerifHooks::disarm(); VerifHooks::resetCounters();
  r.ret = callCalc(v, p, c, M_NONE);
  for (int s = 0; s < VerifHooks::NSTAGES; s++) r.passages[s] = VerifHooks::state().passages[s];
  r.after = snapAll(v);
  r.done = true;
}

// after a failure that left everything untouched: valid call on the reused objects == valid call on fresh objects
static void checkReuse(const Case& c, const Plan& p, const Objs& failed, int bad, Ref& ref, const std::string& prefix, Sink& sk)
{
  computeRef(c, p, ref);
  if (ref.ret != 0) return; // the valid call itself is rejected: nothing to compare
  Objs fresh = build(c, p, M_NONE);
  View v = mixView(failed, fresh, p, bad);
  VerifHooks::disarm();
  int ret = callCalc(v, p, c, M_NONE);
  if (ret != 0) { sk.fail(prefix + ":reuse-fails", "valid call on the objects of a failed call reports an error"); return; }
  Full after = snapAll(v);
  auto di = diffSnap(ref.after.in, after.in, false);
  if (!di.first.empty()) { sk.fail(prefix + ":reuse-dbin-" + di.first, "valid call after a failure differs from fresh objects: " + di.second); return; }
  auto d2 = diffSnap(ref.after.out, after.out, false);
  if (!d2.first.empty()) { sk.fail(prefix + ":reuse-dbout-" + d2.first, "valid call after a failure differs from fresh objects: " + d2.second); return; }
}

static uint64_t sigOf(const Plan& p, const Case& c, int extra)
{
  return Hash().add(p.calc).add(p.ndim).add(p.nvar).add(p.nfex).add((int)p.fexInDbin).add((int)p.inGrid).add((int)p.outGrid).add(p.neighType)
    .add(p.driftOrder).add(c.opt).add(p.nbsimu).add(c.inExtra).add(c.outExtra).add(c.inRoles).add(c.outRoles).add(c.inSel > 0).add(c.outSel > 0)
    .add(c.collide).add(extra).h;
}

// ------------------------------------------------------------------ sub: success ----------------------------
static void runSuccess(const Case& c, Ctx& ctx)
{
  Guard g; Sink sk(ctx);
  Plan p = makePlan(c);
  std::string cn = kCalcName[p.calc];
  ctx.label("calc:" + cn); ctx.at(cn + ":success");
  if (c.collide) ctx.label("prior:collide");
  if (c.inSel || c.outSel) ctx.label("prior:selection");
  Objs o = build(c, p, M_NONE); View v = viewOf(o, p);
  Full before = snapAll(v);
  int ret = callCalc(v, p, c, M_NONE);
  Full after = snapAll(v);
  if (ret != 0)
  {
    ctx.label("valid-rejected:" + cn);
    if (getenv("C19_DEBUG")) diag("valid-rejected " + cn + "\n" + toText(c));
    expectUntouched(before, after, cn + ":rejected", sk);
  }
  else
  {
    ctx.label("ok");
    expectSuccess(before, after, p, true, cn + ":success", sk);
    bool collided = false;
    for (auto& e : expectedNames(p)) if (std::find(before.out.names.begin(), before.out.names.end(), e) != before.out.names.end()) collided = true;
    ctx.nontrivial(collided || before.out.ncol > (p.outGrid ? p.ndimOut : p.ndim) + 1);
  }
  ctx.sig = sigOf(p, c, 0);
  sk.finish();
}

// ------------------------------------------------------------------ sub: natural ----------------------------
static void runNatural(const Case& c, Ctx& ctx)
{
  Guard g; Sink sk(ctx);
  Plan p = makePlan(c);
  std::string cn = kCalcName[p.calc];
  std::vector<int> modes = applicableModes(p);
  ctx.label("calc:" + cn); ctx.label(c.hist ? "db-history:column-deleted-before" : "db-history:fresh");
  if (modes.empty()) { ctx.label("no-mode"); return; }
  int mode = modes[(size_t)(((c.mode % (int)modes.size()) + (int)modes.size()) % (int)modes.size())];
  std::string prefix = cn + ":" + kModeName[mode];
  ctx.label("mode:" + std::string(kModeName[mode])); ctx.at(prefix);
  if (getenv("C19_DEBUG")) diag("natural " + prefix);
  Ref ref;
  Objs o = build(c, p, mode); View v = viewOf(o, p);
  Full before = snapAll(v);
  VerifHooks::resetCounters();
  int ret = callCalc(v, p, c, mode);
  int nadd = VerifHooks::state().passages[VerifHooks::ADD_VARIABLE];
  Full after = snapAll(v);
  if (ret != 0 || p.calc == K_KRIGTEST)
  {
    ctx.label("rejected");
    if (nadd > 0) ctx.label("late:" + cn + ":" + kModeName[mode]);
    ctx.nontrivial(nadd > 0);
    bool same = expectUntouched(before, after, prefix, sk);
    if (same) checkReuse(c, p, o, badMask(mode), ref, prefix, sk);
  }
  else
  {
    ctx.label("accepted:" + std::string(kModeName[mode]));
    // the argument was accepted after all: the success rule applies (without the exact list of new variables)
    expectSuccess(before, after, p, false, cn + ":success", sk);
  }
  ctx.sig = sigOf(p, c, mode);
  sk.finish();
}

// ------------------------------------------------------------------ sub: inject -----------------------------
static const char* kStageName[VerifHooks::NSTAGES] = {"none", "AFTER_CHECK", "AFTER_PREPROCESS", "AFTER_RUN", "AFTER_POSTPROCESS", "ADD_VARIABLE", "KRIGING_TARGET"};

static void runInject(const Case& c, Ctx& ctx)
{
  Guard g; Sink sk(ctx);
  Plan p = makePlan(c);
  std::string cn = kCalcName[p.calc];
  ctx.label("calc:" + cn); ctx.at(cn + ":unfaulted"); ctx.label(c.hist ? "db-history:column-deleted-before" : "db-history:fresh");
  Ref ref;
  computeRef(c, p, ref);
  if (ref.ret != 0) { ctx.label("valid-rejected:" + cn); return; }
  int npoints = 0, nfired = 0;
  for (int s = 1; s < VerifHooks::NSTAGES; s++)
  {
    for (int k = 1; k <= ref.passages[s]; k++)
    {
      std::string prefix = cn + ":" + kStageName[s];
      ctx.at(prefix);
      Objs o = build(c, p, M_NONE); View v = viewOf(o, p);
      Full before = snapAll(v);
      VerifHooks::resetCounters();
      VerifHooks::arm(s, k);
      int ret = callCalc(v, p, c, M_NONE);
      int fired = VerifHooks::state().fired;
      VerifHooks::disarm();
      npoints++;
      if (!fired) { ctx.label("not-fired"); continue; }
      nfired++;
      ctx.label(std::string("stage:") + kStageName[s]);
      Full after = snapAll(v);
      if (ret == 0 && p.calc != K_KRIGTEST)
      {
        // the injected failure was swallowed: the call claims success
        sk.fail(prefix + ":failure-not-reported", fmt("failure injected at passage %d of %s but the call returned 0", k, kStageName[s]));
        continue;
      }
      bool same = expectUntouched(before, after, prefix, sk);
      if (same) checkReuse(c, p, o, 0, ref, prefix, sk);
    }
  }
  ctx.label(npoints == 0 ? "no-injection-point" : "injected");
  ctx.nontrivial(nfired > 0 && ref.passages[VerifHooks::ADD_VARIABLE] > 0);
  ctx.sig = sigOf(p, c, 1000 + npoints);
  sk.finish();
}

// natural / inject: the calculators with many stages, temporaries and role changes are drawn more often
static Case genCaseWeighted()
{
  Case c = genCase();
  static const std::vector<int> w = {K_KRIGING, K_KRIGING, K_KRIGING, K_KRIGING, K_KRIGING, K_KRIGDGM, K_KRIGDGM, K_KRIGDGM, K_SIMTUB, K_SIMTUB,
                                     K_SIMTUB, K_SIMBAYES, K_KRIGTEST, K_KRIGTEST, K_XVALID, K_KRIBAYES, K_TESTNEIGH, K_G2GSHRINK, K_KRIMAGE};
  if (G::pct(45)) c.calc = G::pickv(w);
  if (c.calc == K_KRIGING || c.calc == K_SIMTUB) c.nfex = G::pct(55) ? 1 : 0;
  return c;
}
VERIF_SUB(success, Case, genCase, runSuccess);
VERIF_SUB(natural, Case, genCaseWeighted, runNatural);
VERIF_SUB(inject, Case, genCaseWeighted, runInject);
VERIF_MAIN()
