// C14 — non-conditional simulations follow the model they are given; the basic random generators have the
// moments and ranges of their laws.  Statistical property (DESIGN.md §5 C14).
//
// Sub-properties (each case = one ensemble of R realisations, or one sample of N = 1e5 draws)
//   tb        simtub (non conditional) on points / on a grid, 1-3 D, 1-2 variables, 1-2 structures (+ nugget)
//   fft       simfft on a grid whose extension is >= 3 ranges, 1-3 D, 1 variable
//   spectral  simuSpectral (Rn), one structure (exponential / gaussian / Matern), 1-3 D
//   spde      simulateSPDE (non conditional), 2-D Matern nu in {1,2} (+ nugget), Cholesky and Chebyshev
//   chol      MatrixSquareSymmetricSim (CholeskyDense sampler): covariance given as matrix or as precision
//   law       law_uniform/gaussian/exponential/gamma/beta1/beta2/poisson/binomial, both generator styles
//
// Oracle of the field simulators.  The model covariance is recomputed here from closed forms (correlation
// functions, anisotropy axes composed from elementary rotations, sill matrices) and cross-checked against
// Model::eval.  P probe locations: K anchors + partners of every anchor along every anisotropy axis of every
// structure at 0.3 and 0.7 of the range (snapped to the nearest node on a grid; the oracle always uses the
// location where the value was actually read).  With the R realisations z_r (centred by the MODEL mean):
//    mean      |mean_r z_i|                       <= 6 sqrt(C_ii / R)
//    (co)var   |mean_r z_i z_j  -  C_ij|          <= 6 sigma_MC + b sqrt(C_ii C_jj),  sigma_MC^2 = (C_ii C_jj + C_ij^2)/R
//    pooled    the same statistic averaged over the K translated copies of a pair (all probe points for the
//              variance); its sigma_MC comes from the Gaussian 4th-moment formula
//              Cov(z_a z_b, z_c z_d) = C_ac C_bd + C_ad C_bc  evaluated with the model (so pooling over nearly
//              independent anchors tightens the bound by ~sqrt(K) without any new assumption)
// b = discretisation allowance of the simulator (relative to sqrt(C_ii C_jj)); see allowance() for the derivation.
//
// Oracle of the generators: every draw inside the support; the first four central moments (about the true mean)
// within max(6, Cornish-Fisher quantile at 5.7e-7) sigma of the closed-form values, sigma, skewness and kurtosis
// of the estimator from the closed-form moments of order <= 16 (orders whose estimator is too far from normal are
// not asserted); the Kolmogorov-Smirnov distance below the Dvoretzky-Kiefer-Wolfowitz bound sqrt(ln(2/alpha)/(2N)),
// alpha = 1e-6 (valid for continuous and discrete laws alike); for continuous laws the two tails are reached:
// F(min) and 1 - F(max) <= ln(4e6)/N (they are Beta(1,N) variables).  CDFs from boost::math (independent of Law.cpp).
//
// Failure keys: <stat>:<simulator[:support|solver]>[:sill variant]:<iso|aniso>:<structure code path> for the fields
// (stat in mean, var, cov, xvar, xcov; the pooled statistics share the key of the plain ones);
// <law code path>:<old|new>:<support|moment k|ks|tail> for the generators.
#include "verif.hpp"
#include "geo_common.hpp"

#include "Db/Db.hpp"
#include "Db/DbGrid.hpp"
#include "Model/Model.hpp"
#include "Covariances/CovContext.hpp"
#include "Simulation/CalcSimuTurningBands.hpp"
#include "Simulation/CalcSimuFFT.hpp"
#include "Simulation/SimuFFTParam.hpp"
#include "Simulation/SimuSpectral.hpp"
#include "API/SPDE.hpp"
#include "API/SPDEParam.hpp"
#include "LinearOp/MatrixSquareSymmetricSim.hpp"
#include "Matrix/MatrixSparse.hpp"
#include "Matrix/NF_Triplet.hpp"
#include "Matrix/MatrixSquareSymmetric.hpp"
#include "Space/ASpaceObject.hpp"
#include "Space/SpacePoint.hpp"
#include "Basic/Law.hpp"
#include "Basic/OptDbg.hpp"
#include "Basic/NamingConvention.hpp"
#include "Enum/ECov.hpp"
#include "Enum/ELoc.hpp"
#include "Enum/ESpaceType.hpp"
#include "geoslib_f.h"
#include "geoslib_define.h"

#include <boost/math/special_functions/gamma.hpp>
#include <boost/math/special_functions/beta.hpp>
#include <Eigen/Dense>
#include <memory>
#include <algorithm>
#include <numeric>
#include <array>
#include <ctime>

using namespace vf;
typedef long double LD;

static VectorDouble toVD(const std::vector<double>& v) { return VectorDouble(v.begin(), v.end()); }
static VectorInt toVI(const std::vector<int>& v) { return VectorInt(v.begin(), v.end()); }

// global state every case starts from (one process runs many cases)
static void resetGlobals(int ndim)
{
  defineDefaultSpace(ESpaceType::RN, (unsigned)ndim);
  law_set_old_style(true);
  law_set_random_seed(13579);
  OptDbg::reset();
}

// the k-th seed of an ensemble: explicit function of the generated base seed (replay is exact)
static int callSeed(int seed, int k) { return 1 + (int)(((long)seed - 1 + (long)k * 104729L) % 20000158L); }

// ====================================================================== model + oracle ======
enum { T_NUGGET = 0, T_EXPO, T_SPHE, T_CUBIC, T_GAUSS, T_MATERN, T_STABLE, T_NTYPES };
static ECov ecovOf(int t)
{
  switch (t)
  {
    case T_NUGGET: return ECov::NUGGET;
    case T_EXPO: return ECov::EXPONENTIAL;
    case T_SPHE: return ECov::SPHERICAL;
    case T_CUBIC: return ECov::CUBIC;
    case T_GAUSS: return ECov::GAUSSIAN;
    case T_MATERN: return ECov::MATERN;
    default: return ECov::STABLE;
  }
}
static const char* tname(int t)
{
  static const char* n[] = {"nugget", "expo", "sphe", "cubic", "gauss", "matern", "stable"};
  return n[t];
}

struct Struc
{
  int type = T_EXPO;
  double range = 1.;           // (practical) range along the first anisotropy axis
  std::vector<double> ratio;   // range_i = range * ratio[i], ratio[0] = 1
  std::vector<double> angles;  // degrees (geo_common convention), empty = no rotation
  double param = 1.;
  std::vector<double> sill;    // nvar x nvar, row-major, symmetric positive definite
  template<class A> void io(A& a) { a("type", type)("range", range)("ratio", ratio)("angles", angles)("param", param)("sill", sill); }
};

// correlation at reduced distance h (= distance / practical range).  Conventions of the documentation:
// exponential, gaussian: 5 % of the sill at the range; stable: exp(-3 h^alpha); Matern: scale = range/sqrt(12 nu)
static double corrOf(int type, double param, double h)
{
  if (h <= 0) return 1.;
  switch (type)
  {
    case T_EXPO: return std::exp(-std::log(20.) * h);
    case T_GAUSS: return std::exp(-std::log(20.) * h * h);
    case T_SPHE: return h < 1 ? 1. - 1.5 * h + 0.5 * h * h * h : 0.;
    case T_CUBIC:
    {
      if (h >= 1) return 0.;
      double h2 = h * h;
      return std::max(0., 1. - 7. * h2 + 8.75 * h2 * h - 3.5 * h2 * h2 * h + 0.75 * h2 * h2 * h2 * h);
    }
    case T_STABLE: return std::exp(-3. * std::pow(h, param));
    case T_MATERN:
    {
      double t = h * std::sqrt(12. * param);
      if (t > 600.) return 0.;
      return 2. * std::pow(t / 2., param) * std::cyl_bessel_k(param, t) / std::tgamma(param);
    }
    default: return 0.;
  }
}

struct ModelOracle
{
  int ndim = 2, nvar = 1;
  std::vector<Struc> st;
  std::vector<vfgeo::Aniso> an;
  ModelOracle(int nd, int nv, const std::vector<Struc>& s) : ndim(nd), nvar(nv), st(s)
  {
    for (auto& q : st)
    {
      std::vector<double> rg((size_t)ndim, q.range);
      for (int d = 0; d < ndim && d < (int)q.ratio.size(); d++) rg[(size_t)d] = q.range * q.ratio[(size_t)d];
      an.push_back(vfgeo::Aniso::make(ndim, rg, q.angles));
    }
  }
  // covariance between (point x, variable iv) and (point y, variable jv); `same` = same sample (nugget)
  double cov(const double* x, const double* y, bool same, int iv, int jv) const
  {
    double c = 0;
    for (size_t s = 0; s < st.size(); s++)
    {
      double rho;
      if (st[s].type == T_NUGGET) rho = same ? 1. : 0.;
      else rho = same ? 1. : corrOf(st[s].type, st[s].param, an[s].dist(x, y));
      c += st[s].sill[(size_t)(iv * nvar + jv)] * rho;
    }
    return c;
  }
};

static std::unique_ptr<Model> buildModel(int ndim, int nvar, const std::vector<Struc>& st, const std::vector<double>& means)
{
  CovContext ctxt(nvar, ndim);
  std::unique_ptr<Model> m(Model::create(ctxt));
  for (auto& s : st)
  {
    if (s.type == T_NUGGET)
      m->addCovFromParam(ECov::NUGGET, 0., 0., 1., VectorDouble(), toVD(s.sill));
    else
    {
      VectorDouble ranges((size_t)ndim);
      for (int d = 0; d < ndim; d++) ranges[(size_t)d] = s.range * (d < (int)s.ratio.size() ? s.ratio[(size_t)d] : 1.);
      m->addCovFromParam(ecovOf(s.type), 0., 0., s.param, ranges, toVD(s.sill), toVD(s.angles), true);
    }
  }
  if (!means.empty()) m->setMeans(toVD(means));
  return m;
}

// ---------------------------------------------------------------------- generators ----------
static std::vector<double> genSill(int nvar)
{
  if (nvar == 1) return {G::r(1, 16, 4)};
  double s11 = G::r(2, 12, 4), s22 = G::r(2, 12, 4);
  double rho = G::pick<double>({0.3, -0.3, 0.6, -0.6, 0.85, -0.85});
  double s12 = rho * std::sqrt(s11 * s22);
  return {s11, s12, s12, s22};
}
static Struc genStruc(int ndim, int nvar, double range, const std::vector<int>& types, bool aniso)
{
  Struc s;
  s.type = G::pickv(types);
  s.range = range;
  s.param = 1.;
  if (s.type == T_MATERN) s.param = G::pick<double>({0.3, 0.5, 1., 1.5, 2.5});  // < 0.5: migration, 0.5: exponential, > 0.5: spectral
  if (s.type == T_STABLE) s.param = G::pick<double>({0.5, 0.8, 1., 1.5, 2.});  // < 1: migration, 1: exponential, > 1: spectral, 2: gaussian
  s.ratio.assign((size_t)ndim, 1.);
  if (aniso && ndim >= 2)
  {
    s.ratio[1] = 1. / G::u(3., 4.5); // anisotropy ratio >= 3
    if (ndim == 3) s.ratio[2] = G::pct(50) ? 1. / G::u(3., 4.5) : G::u(0.5, 1.);
    s.angles.assign((size_t)ndim, 0.);
    s.angles[0] = G::r(0, 179, 1);
    if (ndim == 3) { s.angles[1] = G::r(-60, 60, 1); s.angles[2] = G::r(-60, 60, 1); }
  }
  s.sill = genSill(nvar);
  return s;
}
static Struc genNugget(int ndim, int nvar)
{
  Struc s;
  s.type = T_NUGGET;
  s.ratio.assign((size_t)ndim, 1.);
  s.sill = genSill(nvar);
  for (auto& v : s.sill) v *= 0.25;
  return s;
}

// ====================================================================== ensemble case =======
enum { SIM_TB = 0, SIM_FFT, SIM_SPECTRAL, SIM_SPDE };
struct SimCase
{
  int sim = SIM_TB, ndim = 2, nvar = 1;
  std::vector<Struc> st;
  std::vector<double> means;     // model means (asserted for the turning bands only: documented there)
  int grid = 0;                  // support: 0 points (exactly the probe locations), 1 grid
  int cpr = 4;                   // grid: cells per smallest range
  double gangle = 0.;            // grid rotation (degrees, 2-D / about z)
  std::vector<double> gfac;      // grid: extension factor per axis (>= 1), empty = 1
  std::vector<double> anchors;   // K x ndim
  int nb = 60;                   // tb: number of bands; spectral: number of components; spde: refinement (cells per range)
  int opt = 1;                   // spde: 1 Cholesky, 0 Chebyshev; fft: anti-aliasing flag
  int border = 8;                // spde: border of the mesh (cells)
  int nbsimu = 250, ncalls = 4, seed = 1; // R = nbsimu * ncalls; call k uses callSeed(seed, k)
  int style = 1;                 // random generator: 1 = old style (library default), 0 = new style (law_set_old_style(false))
  template<class A> void io(A& a)
  {
    a("sim", sim)("ndim", ndim)("nvar", nvar)("st", st)("means", means)("grid", grid)("cpr", cpr)("gangle", gangle)("gfac", gfac);
    a("anchors", anchors)("nb", nb)("opt", opt)("border", border)("nbsimu", nbsimu)("ncalls", ncalls)("seed", seed)("style", style);
  }
  double rmax() const { double r = 0; for (auto& s : st) if (s.type != T_NUGGET) r = std::max(r, s.range); return r; }
  double rmin() const
  {
    double r = 1e300;
    for (auto& s : st)
      if (s.type != T_NUGGET)
        for (int d = 0; d < ndim; d++) r = std::min(r, s.range * s.ratio[(size_t)d]);
    return r;
  }
  bool anisotropic() const
  {
    for (auto& s : st)
      for (double q : s.ratio)
        if (q != 1.) return true;
    return false;
  }
  int nstruct() const { int n = 0; for (auto& s : st) if (s.type != T_NUGGET) n++; return n; }
};

// K anchors in a box of side L centred at `centre`: distinct cells of a lattice, jittered inside the central 60 %
static std::vector<double> genAnchors(int ndim, int K, double L, double centre)
{
  int m = 1;
  while (std::pow((double)m, ndim) < 2. * K) m++;
  int ncell = 1;
  for (int d = 0; d < ndim; d++) ncell *= m;
  std::vector<int> p = G::perm(ncell);
  std::vector<double> a;
  for (int k = 0; k < K; k++)
  {
    int cell = p[(size_t)k];
    for (int d = 0; d < ndim; d++)
    {
      int id = cell % m;
      cell /= m;
      a.push_back(centre + L * ((id + 0.5 + G::i(-30, 30) / 100.) / m - 0.5));
    }
  }
  return a;
}

// ---------------------------------------------------------------------- probes --------------
struct Probes
{
  int ndim = 2;
  std::vector<double> x;                     // P x ndim: where values are read (after snapping on grids)
  std::vector<int> row;                      // sample rank in the Db
  std::vector<std::array<int, 3>> pairs;     // (a, b, class); class 0 = variance (a == b)
  int nclass = 1;
  int n() const { return (int)row.size(); }
};
// continuous design: anchors + partners along every axis of every structure at 0.3 and 0.7 of the range
static Probes designProbes(const SimCase& c)
{
  Probes P;
  P.ndim = c.ndim;
  int K = (int)c.anchors.size() / c.ndim;
  int cls = 1;
  std::vector<std::vector<double>> offs; // offsets, one per class
  for (auto& s : c.st)
  {
    if (s.type == T_NUGGET) continue;
    std::vector<double> U = vfgeo::rotationAxes(c.ndim, s.angles);
    for (int i = 0; i < c.ndim; i++)
      for (double f : {0.3, 0.7})
      {
        std::vector<double> o((size_t)c.ndim);
        for (int d = 0; d < c.ndim; d++) o[(size_t)d] = f * s.range * s.ratio[(size_t)i] * U[(size_t)(i * c.ndim + d)];
        offs.push_back(o);
      }
  }
  for (int k = 0; k < K; k++)
  {
    int a = P.n();
    for (int d = 0; d < c.ndim; d++) P.x.push_back(c.anchors[(size_t)(k * c.ndim + d)]);
    P.row.push_back(a);
    P.pairs.push_back({a, a, 0});
    for (size_t o = 0; o < offs.size(); o++)
    {
      int b = P.n();
      for (int d = 0; d < c.ndim; d++) P.x.push_back(c.anchors[(size_t)(k * c.ndim + d)] + offs[o][(size_t)d]);
      P.row.push_back(b);
      P.pairs.push_back({b, b, 0});
      P.pairs.push_back({a, b, cls + (int)o});
    }
  }
  P.nclass = cls + (int)offs.size();
  return P;
}

// the output Db: the probe points themselves, or a grid covering them (probes snapped to their nearest node)
static std::unique_ptr<Db> buildSupport(const SimCase& c, Probes& P)
{
  int ndim = c.ndim;
  if (!c.grid)
  {
    std::unique_ptr<Db> db(Db::create());
    int n = P.n();
    for (int d = 0; d < ndim; d++)
    {
      VectorDouble col((size_t)n);
      for (int i = 0; i < n; i++) col[(size_t)i] = P.x[(size_t)(i * ndim + d)];
      db->addColumns(col, "x" + std::to_string(d + 1), ELoc::X, d);
    }
    return db;
  }
  // grid axes (rotation about z by gangle); box of the probes in the grid frame
  double ca = std::cos(c.gangle * vfgeo::kPi / 180.), sa = std::sin(c.gangle * vfgeo::kPi / 180.);
  auto toFrame = [&](const double* x, double* f) {
    for (int d = 0; d < ndim; d++) f[d] = x[d];
    if (ndim >= 2) { f[0] = ca * x[0] + sa * x[1]; f[1] = -sa * x[0] + ca * x[1]; }
  };
  std::vector<double> lo((size_t)ndim, 1e300), hi((size_t)ndim, -1e300);
  for (int i = 0; i < P.n(); i++)
  {
    double f[3];
    toFrame(&P.x[(size_t)(i * ndim)], f);
    for (int d = 0; d < ndim; d++) { lo[(size_t)d] = std::min(lo[(size_t)d], f[d]); hi[(size_t)d] = std::max(hi[(size_t)d], f[d]); }
  }
  double cell = c.rmin() / c.cpr;
  double minExt = (c.sim == SIM_FFT) ? 3. * c.rmax() : 0.; // FFT: field >= 3 ranges (precondition of the allowance)
  std::vector<int> nx((size_t)ndim);
  std::vector<double> dx((size_t)ndim, cell), x0f((size_t)ndim);
  for (int d = 0; d < ndim; d++)
  {
    double ext = std::max(hi[(size_t)d] - lo[(size_t)d] + 2. * cell, minExt) * (d < (int)c.gfac.size() ? c.gfac[(size_t)d] : 1.);
    double mid = 0.5 * (hi[(size_t)d] + lo[(size_t)d]);
    nx[(size_t)d] = (int)std::ceil(ext / cell) + 1;
    x0f[(size_t)d] = mid - 0.5 * (nx[(size_t)d] - 1) * cell;
  }
  std::vector<double> x0 = x0f; // back to the user frame
  if (ndim >= 2) { x0[0] = ca * x0f[0] - sa * x0f[1]; x0[1] = sa * x0f[0] + ca * x0f[1]; }
  VectorDouble angles;
  if (c.gangle != 0. && ndim >= 2) { angles = VectorDouble((size_t)ndim, 0.); angles[0] = c.gangle; }
  std::unique_ptr<Db> db(DbGrid::create(toVI(nx), toVD(dx), toVD(x0), angles));
  if (getenv("VERIF_C14_DIAG") && !getenv("VERIF_C14_DIAG_ONCE"))
  {
    setenv("VERIF_C14_DIAG_ONCE", "1", 1);
    diag(fmt("D grid nx=%d,%d dx=%.6g x0=%.10g,%.10g angle=%g", nx[0], ndim > 1 ? nx[1] : 1, dx[0], x0[0], ndim > 1 ? x0[1] : 0., c.gangle));
  }
  // snap: nearest node, coordinates read back from the Db
  int nn = db->getSampleNumber();
  std::vector<double> gx((size_t)(nn * ndim));
  for (int d = 0; d < ndim; d++)
  {
    for (int i = 0; i < nn; i++) gx[(size_t)(i * ndim + d)] = db->getCoordinate(i, d);
  }
  std::vector<int> node((size_t)P.n());
  for (int p = 0; p < P.n(); p++)
  {
    double best = 1e300;
    int ib = 0;
    for (int i = 0; i < nn; i++)
    {
      double s = 0;
      for (int d = 0; d < ndim; d++) { double t = gx[(size_t)(i * ndim + d)] - P.x[(size_t)(p * ndim + d)]; s += t * t; }
      if (s < best) { best = s; ib = i; }
    }
    node[(size_t)p] = ib;
  }
  // distinct nodes -> new probe list; pairs remapped (collapsed or duplicated pairs dropped)
  std::map<int, int> idx;
  Probes Q;
  Q.ndim = ndim;
  Q.nclass = P.nclass;
  std::vector<int> remap((size_t)P.n());
  for (int p = 0; p < P.n(); p++)
  {
    auto it = idx.find(node[(size_t)p]);
    if (it == idx.end())
    {
      it = idx.emplace(node[(size_t)p], Q.n()).first;
      Q.row.push_back(node[(size_t)p]);
      for (int d = 0; d < ndim; d++) Q.x.push_back(gx[(size_t)(node[(size_t)p] * ndim + d)]);
    }
    remap[(size_t)p] = it->second;
  }
  std::set<std::array<int, 3>> seen;
  for (auto& pr : P.pairs)
  {
    int a = remap[(size_t)pr[0]], b = remap[(size_t)pr[1]];
    if (pr[2] != 0 && a == b) continue;
    std::array<int, 3> q = {a, b, pr[2]};
    if (seen.insert(q).second) Q.pairs.push_back(q);
  }
  P = Q;
  return db;
}

// ---------------------------------------------------------------------- allowances ----------
// Discretisation allowance b (fraction of sqrt(C_ii C_jj)) added to 6 sigma_MC.
//  tb       1 %.  A turning-band field with N bands has covariance (1/N) sum_b C1(<h,u_b>), the average of the 1-D
//           covariance over the direction set, whose expectation over a uniformly rotated set is the model covariance
//           exactly, for every N (no bias from the number of bands).  The library draws its directions from ONE
//           Van der Corput / Halton sequence for the nbsimu simulations of a call (simulation r uses elements
//           r*N*ncov ... of it), rotated as a whole by one random rotation per call: the ensemble covariance is the
//           quasi-Monte-Carlo average of C1(<h,u>) over >= nbsimu*N >= 7500 directions.  Koksma-Hlawka with the Halton
//           discrepancy ~ (log n)^2/n ~ 1e-2 at n = 7500 and integrands of variation O(sill): <= 1 % of the sill.
//  fft      3 %.  The library dilates the grid until the covariance at the wrap-around distance is < 0.1 % of the
//           variance, clips the negative part of the discrete spectrum and rescales the positive part to the same total:
//           the alteration is of the order of the clipped fraction (a few 1e-3 for the generated models); the second
//           (anti-aliasing) pass adds copies of the covariance shifted by the field size, which is why the field is made
//           >= 3 ranges (C(3a) <= 1e-4 C(0) for all generated structures).  DESIGN allows 3 % of the sill.
//  spectral 0.  Continuous spectral method: unbiased for every number of components.
//  spde     10 %.  P1 finite elements with lumped mass on a mesh of range/refine (refine >= 8) under-resolve the Matern
//           operator by O((kappa h)^2) ~ (sqrt(12 nu)/8)^2/4 ~ 5 % in variance, the linear interpolation from the
//           vertices to the targets removes up to ~2 %, the Neumann boundary at >= 1 range adds <= C(2a) ~ 1e-3.
//           DESIGN allows 10 % of the sill.
static double allowance(const SimCase& c)
{
  switch (c.sim)
  {
    case SIM_TB: return 0.01;
    case SIM_FFT: return 0.03;
    case SIM_SPECTRAL: return 0.;
    default: return 0.10;
  }
}

// ---------------------------------------------------------------------- running the simulator
// one call: nbsimu realisations appended to Z (each of size P*nvar, index p*nvar + v).  Returns "" or an error key.
static std::string simulateOnce(const SimCase& c, const Probes& P0, int seed, std::vector<std::vector<double>>& Z, Probes& Pout, Ctx& ctx)
{
  Probes P = P0;
  std::unique_ptr<Db> db = buildSupport(c, P);
  Pout = P;
  std::unique_ptr<Model> model = buildModel(c.ndim, c.nvar, c.st, c.sim == SIM_TB ? c.means : std::vector<double>());
  int ncol0 = db->getColumnNumber();
  int err = 0;
  law_set_old_style(c.style != 0);
  struct Restore { ~Restore() { law_set_old_style(true); } } restore;
  switch (c.sim)
  {
    case SIM_TB:
      ctx.at("simtub");
      err = simtub(nullptr, db.get(), model.get(), nullptr, c.nbsimu, seed, c.nb);
      break;
    case SIM_FFT:
    {
      ctx.at("simfft");
      SimuFFTParam par(c.opt != 0, 0.1);
      err = simfft(dynamic_cast<DbGrid*>(db.get()), model.get(), par, c.nbsimu, seed);
      break;
    }
    case SIM_SPECTRAL:
      ctx.at("simuSpectral");
      err = simuSpectral(nullptr, db.get(), model.get(), c.nbsimu, seed, c.nb);
      break;
    default:
    {
      ctx.at("simulateSPDE");
      SPDEParam par(c.nb, c.nb, c.border);
      law_set_random_seed(seed); // simulateSPDE has no seed argument
      // the value returned is the rank of the first new column (not the documented error code): success is judged
      // on the delivered columns
      (void)simulateSPDE(nullptr, db.get(), model.get(), nullptr, c.nbsimu, nullptr, c.opt, par);
      break;
    }
  }
  if (err != 0) return "error";
  int nnew = db->getColumnNumber() - ncol0;
  if (nnew != c.nbsimu * c.nvar) return "columns";
  // column of (simulation s, variable v): s + nbsimu * v  (Db::getSimRank)
  std::vector<std::vector<double>> cols((size_t)nnew);
  for (int k = 0; k < nnew; k++)
  {
    VectorDouble v = db->getColumnByColIdx(ncol0 + k, false, false);
    cols[(size_t)k].resize((size_t)P.n());
    for (int p = 0; p < P.n(); p++) cols[(size_t)k][(size_t)p] = v[(size_t)P.row[(size_t)p]];
  }
  for (int s = 0; s < c.nbsimu; s++)
  {
    std::vector<double> z((size_t)(P.n() * c.nvar));
    for (int p = 0; p < P.n(); p++)
      for (int v = 0; v < c.nvar; v++) z[(size_t)(p * c.nvar + v)] = cols[(size_t)(s + c.nbsimu * v)][(size_t)p];
    Z.push_back(std::move(z));
  }
  return "";
}

// code path of the structure(s): the type when there is one structure (with the regime of its third parameter:
// turning bands and spectral methods switch algorithm with it), "mixed" otherwise
static std::string typeTag(const SimCase& c)
{
  if (c.nstruct() != 1) return "mixed";
  for (auto& s : c.st)
    if (s.type != T_NUGGET)
    {
      std::string t = tname(s.type);
      if (s.type == T_MATERN) t += (s.param < 0.5 ? "-lt.5" : (s.param == 0.5 ? "-eq.5" : "-gt.5"));
      if (s.type == T_STABLE) t += (s.param < 1. ? "-lt1" : (s.param == 1. ? "-eq1" : (s.param == 2. ? "-eq2" : "-gt1")));
      return t;
    }
  return "mixed";
}
static std::string simTag0(const SimCase& c);
// the generator style enters the key for the turning bands only (they are the only simulator whose behaviour
// depends on it, see report); it is a label for the others
static std::string simTag(const SimCase& c) { return (c.sim == SIM_TB && !c.style ? "newstyle-" : "") + simTag0(c); }
static std::string simTag0(const SimCase& c)
{
  switch (c.sim)
  {
    case SIM_TB: return c.grid ? "tb:grid" : "tb:points";
    case SIM_FFT: // same / different numbers of nodes along the axes (see report: the two behave differently)
    {
      bool rect = false;
      for (double f : c.gfac) rect = rect || f != c.gfac[0];
      return rect ? "fft:rect" : "fft:square";
    }
    case SIM_SPECTRAL: return "spectral";
    default: return c.opt ? "spde:chol" : "spde:cheb";
  }
}

static void runSim(const SimCase& c, Ctx& ctx)
{
  clock_t t0 = clock();
  resetGlobals(c.ndim);
  const std::string tag = simTag(c);
  const int nvar = c.nvar, ndim = c.ndim;
  ctx.label("sim:" + tag);
  ctx.label(fmt("ndim:%d", ndim));
  ctx.label(fmt("nvar:%d", nvar));
  ctx.label(c.grid ? "support:grid" : "support:points");
  ctx.label(c.anisotropic() ? "aniso" : "iso");
  ctx.label(c.style ? "generator:old" : "generator:new");
  for (auto& s : c.st) ctx.label(std::string("struct:") + tname(s.type));
  const int R = c.nbsimu * c.ncalls;
  ctx.label(fmt("R:%d", R));

  ModelOracle orc(ndim, nvar, c.st);
  Probes P0 = designProbes(c), P;
  std::vector<std::vector<double>> Z;
  for (int k = 0; k < c.ncalls; k++)
  {
    std::string e = simulateOnce(c, P0, callSeed(c.seed, k), Z, P, ctx);
    if (!e.empty()) { ctx.fail(e + ":" + tag, fmt("call %d of the simulator failed (%s) on a valid input", k, e.c_str())); return; }
  }
  const int np = P.n(), D = np * nvar;
  for (auto& z : Z)
    for (double v : z)
      if (!(std::fabs(v) < 1e29)) { ctx.fail("nan:" + tag, "undefined / non finite simulated value at a probe"); return; }

  // oracle self-check: closed forms versus Model::eval at the probes (conventions of ranges / angles / sills)
  {
    std::unique_ptr<Model> model = buildModel(ndim, nvar, c.st, {});
    for (auto& pr : P.pairs)
    {
      if (pr[0] == pr[1]) continue;
      VectorDouble xa((size_t)ndim), xb((size_t)ndim);
      for (int d = 0; d < ndim; d++) { xa[(size_t)d] = P.x[(size_t)(pr[0] * ndim + d)]; xb[(size_t)d] = P.x[(size_t)(pr[1] * ndim + d)]; }
      SpacePoint pa(xa), pb(xb);
      for (int iv = 0; iv < nvar; iv++)
        for (int jv = 0; jv < nvar; jv++)
        {
          double lib = model->eval(pa, pb, iv, jv);
          double mine = orc.cov(&P.x[(size_t)(pr[0] * ndim)], &P.x[(size_t)(pr[1] * ndim)], false, iv, jv);
          double sc = std::sqrt(orc.cov(xa.data(), xa.data(), true, iv, iv) * orc.cov(xa.data(), xa.data(), true, jv, jv));
          if (std::fabs(lib - mine) > 1e-5 * sc)
          { ctx.fail("oracle-vs-eval", fmt("closed-form covariance %.10g, Model::eval %.10g (var %d,%d)", mine, lib, iv, jv)); return; }
        }
    }
  }

  // model covariance between all probe variables
  std::vector<double> C((size_t)D * (size_t)D);
  for (int a = 0; a < np; a++)
    for (int b = 0; b < np; b++)
      for (int iv = 0; iv < nvar; iv++)
        for (int jv = 0; jv < nvar; jv++)
          C[(size_t)(a * nvar + iv) * D + (size_t)(b * nvar + jv)] = orc.cov(&P.x[(size_t)(a * ndim)], &P.x[(size_t)(b * ndim)], a == b, iv, jv);
  auto Cm = [&](int a, int iv, int b, int jv) { return C[(size_t)(a * nvar + iv) * D + (size_t)(b * nvar + jv)]; };

  // ensemble moments (centred by the model mean)
  std::vector<double> mu((size_t)nvar, 0.);
  if (c.sim == SIM_TB && !c.means.empty()) mu = c.means;
  std::vector<LD> m1((size_t)D, 0.L);
  for (auto& z : Z)
    for (int i = 0; i < D; i++) m1[(size_t)i] += z[(size_t)i] - mu[(size_t)(i % nvar)];
  auto ecov = [&](int i, int j) {
    LD s = 0;
    for (auto& z : Z) s += (LD)(z[(size_t)i] - mu[(size_t)(i % nvar)]) * (LD)(z[(size_t)j] - mu[(size_t)(j % nvar)]);
    return (double)(s / R);
  };
  const double b = allowance(c);
  const std::string isoTag = std::string(c.anisotropic() ? "aniso" : "iso") + ":" + typeTag(c);
  // variant of the key for the spectral simulator: its variance does not depend on the sill (see report)
  std::string varVariant;
  if (c.sim == SIM_SPECTRAL) varVariant = (c.st[0].sill[0] == 1.) ? ":unit-sill" : ":nonunit-sill";
  double maxz = 0.;
  bool neededB = false;

  // 1. means
  for (int i = 0; i < D; i++)
  {
    double cii = C[(size_t)i * D + (size_t)i];
    double sd = std::sqrt(cii / R), dev = std::fabs((double)(m1[(size_t)i] / R));
    maxz = std::max(maxz, dev / sd);
    if (dev > 6. * sd)
    { ctx.fail("mean:" + tag + ":" + isoTag, fmt("ensemble mean at probe %d var %d deviates from the model mean by %.4g = %.1f sigma (R=%d)", i / nvar, i % nvar, dev, dev / sd, R)); return; }
  }
  // statistic of one (pair, variables)
  struct Stat { double est, exp, sd, scale; };
  auto stat = [&](int a, int iv, int bb, int jv) {
    Stat s;
    s.est = ecov(a * nvar + iv, bb * nvar + jv);
    s.exp = Cm(a, iv, bb, jv);
    s.scale = std::sqrt(Cm(a, iv, a, iv) * Cm(bb, jv, bb, jv));
    s.sd = std::sqrt((Cm(a, iv, a, iv) * Cm(bb, jv, bb, jv) + s.exp * s.exp) / R);
    return s;
  };
  Stat worst = {0, 0, 1, 1};
  auto judge = [&](const Stat& s) { // 0 ok, 1 fails
    double dev = std::fabs(s.est - s.exp);
    if (dev / s.sd > maxz) worst = s;
    maxz = std::max(maxz, dev / s.sd);
    if (dev > 6. * s.sd) neededB = true;
    return dev > 6. * s.sd + b * s.scale;
  };
  // pooled statistic of a class
  auto pooled = [&](int cls, int iv, int jv, Stat& s) {
    std::vector<std::array<int, 3>> L;
    for (auto& pr : P.pairs) if (pr[2] == cls) L.push_back(pr);
    int K = (int)L.size();
    if (K < 2) return false;
    LD est = 0, ex = 0, sc = 0, var = 0;
    for (auto& p : L)
    {
      est += ecov(p[0] * nvar + iv, p[1] * nvar + jv);
      ex += Cm(p[0], iv, p[1], jv);
      sc += std::sqrt(Cm(p[0], iv, p[0], iv) * Cm(p[1], jv, p[1], jv));
    }
    for (auto& p : L)
      for (auto& q : L)
        var += (LD)Cm(p[0], iv, q[0], iv) * Cm(p[1], jv, q[1], jv) + (LD)Cm(p[0], iv, q[1], jv) * Cm(p[1], jv, q[0], iv);
    s.est = (double)(est / K);
    s.exp = (double)(ex / K);
    s.scale = (double)(sc / K);
    s.sd = std::sqrt((double)(var / ((LD)K * K * R)));
    return true;
  };
  // Phase 0: every variable on its own (variance, pooled variance, lag covariances, pooled lag covariances);
  // phase 1: the same between different variables.  A recorded defect of the cross terms therefore does not
  // hide the per-variable statistics of a multivariate case.
  for (int phase = 0; phase < (nvar > 1 ? 2 : 1); phase++)
  {
    const std::string x = phase ? "x" : "";
    auto wanted = [&](int iv, int jv) { return phase == 0 ? iv == jv : iv != jv; };
    // variance at each probe
    for (auto& pr : P.pairs)
    {
      if (pr[2] != 0) continue;
      for (int iv = 0; iv < nvar; iv++)
        for (int jv = iv; jv < nvar; jv++)
        {
          if (!wanted(iv, jv)) continue;
          Stat s = stat(pr[0], iv, pr[0], jv);
          if (judge(s))
          {
            ctx.fail(x + "var:" + tag + varVariant + ":" + isoTag,
                     fmt("ensemble %s at probe %d (var %d,%d) = %.5g, model %.5g: |diff| = %.1f sigma_MC, allowance %.3g (R=%d)",
                         phase == 0 ? "variance" : "cross-covariance", pr[0], iv, jv, s.est, s.exp, std::fabs(s.est - s.exp) / s.sd, b * s.scale, R));
            return;
          }
        }
    }
    // variance averaged over all probe points
    for (int iv = 0; iv < nvar; iv++)
      for (int jv = iv; jv < nvar; jv++)
      {
        Stat s;
        if (!wanted(iv, jv) || !pooled(0, iv, jv, s)) continue;
        if (judge(s))
        {
          ctx.fail(x + "var:" + tag + varVariant + ":" + isoTag,
                   fmt("%s averaged over the %d probes (var %d,%d) = %.5g, model %.5g: |diff| = %.1f sigma_MC, allowance %.3g (R=%d)",
                       iv == jv ? "variance" : "cross-covariance", np, iv, jv, s.est, s.exp, std::fabs(s.est - s.exp) / s.sd, b * s.scale, R));
          return;
        }
      }
    // lag covariances
    for (auto& pr : P.pairs)
    {
      if (pr[2] == 0) continue;
      for (int iv = 0; iv < nvar; iv++)
        for (int jv = 0; jv < nvar; jv++)
        {
          if (!wanted(iv, jv)) continue;
          Stat s = stat(pr[0], iv, pr[1], jv);
          if (judge(s))
          {
            ctx.fail(x + "cov:" + tag + varVariant + ":" + isoTag,
                     fmt("ensemble covariance between probes %d and %d (lag class %d, var %d,%d) = %.5g, model %.5g: |diff| = %.1f sigma_MC, allowance %.3g (R=%d)",
                         pr[0], pr[1], pr[2], iv, jv, s.est, s.exp, std::fabs(s.est - s.exp) / s.sd, b * s.scale, R));
            return;
          }
        }
    }
    // lag covariances averaged over the anchors
    for (int cls = 1; cls < P.nclass; cls++)
      for (int iv = 0; iv < nvar; iv++)
        for (int jv = 0; jv < nvar; jv++)
        {
          Stat s;
          if (!wanted(iv, jv) || !pooled(cls, iv, jv, s)) continue;
          if (judge(s))
          {
            ctx.fail(x + "cov:" + tag + varVariant + ":" + isoTag,
                     fmt("covariance of lag class %d averaged over the anchors (var %d,%d) = %.5g, model %.5g: |diff| = %.1f sigma_MC, allowance %.3g (R=%d)",
                         cls, iv, jv, s.est, s.exp, std::fabs(s.est - s.exp) / s.sd, b * s.scale, R));
            return;
          }
        }
  }
  ctx.label(fmt("maxz:%d", std::min(9, (int)std::floor(maxz))));
  if (neededB) ctx.label("passed-thanks-to-allowance");
  ctx.nontrivial(c.anisotropic() || nvar > 1 || c.nstruct() >= 2);
  Hash h;
  h.add(c.sim).add(ndim).add(nvar).add(c.grid);
  for (auto& s : c.st) h.add(s.type).addq(s.param).addq(s.ratio.size() > 1 ? s.ratio[1] : 1.).add((int)s.angles.size());
  h.add(c.seed);
  ctx.sig = h.h;
  if (neededB && getenv("VERIF_C14_DUMP"))
    diag(fmt("DUMP worst est=%.6g exp=%.6g sd=%.4g scale=%.4g maxz=%.2f\n", worst.est, worst.exp, worst.sd, worst.scale, maxz) + "sub x\n" + toText(c) + "ENDDUMP");
  if (neededB || getenv("VERIF_C14_DIAG"))
    ctx.label(fmt("worst-stat-rel-dev:%.0f%%", 100. * std::fabs(worst.est - worst.exp) / worst.scale));
  if (getenv("VERIF_TIMING"))
    diag(fmt("T %.2fs %s ndim=%d nvar=%d nst=%d P=%d R=%d nb=%d maxz=%.2f", (double)(clock() - t0) / CLOCKS_PER_SEC, tag.c_str(), ndim, nvar, (int)c.st.size(), np, R, c.nb, maxz));
}

// ---------------------------------------------------------------------- generators per simulator
// number of calls grows with the rapidcheck size: R = 1000 at small sizes (quick), up to 4000
static void genEnsemble(SimCase& c, int nbsimu, int minCalls, int maxCalls)
{
  c.style = G::pct(15) ? 0 : 1;
  c.nbsimu = nbsimu;
  c.ncalls = G::sz(minCalls, maxCalls);
  c.seed = G::seed();
}
static SimCase genTb()
{
  SimCase c;
  c.sim = SIM_TB;
  c.ndim = G::pick<int>({1, 2, 2, 2, 2, 3});
  c.nvar = G::pick<int>({1, 1, 2});
  c.grid = G::pct(45) ? 1 : 0;
  double base = G::pick<double>({1., 30., 1000.});
  double r1 = base * G::u(0.8, 1.25);
  bool aniso = c.ndim >= 2 && G::pct(80);
  std::vector<int> types = {T_EXPO, T_SPHE, T_CUBIC, T_GAUSS, T_MATERN, T_STABLE};
  int ns = G::i(1, 2);
  for (int k = 0; k < ns; k++) c.st.push_back(genStruc(c.ndim, c.nvar, k == 0 ? r1 : r1 * G::u(0.4, 1.2), types, aniso));
  // Stable (alpha < 1) and Matern (nu < 0.5) bands: the migration process falls back to ceil(extension / 1e-5) draws
  // per band when its random scale is tiny (CalcSimuTurningBands::_migrationInit), i.e. 1e8 draws per band for
  // coordinates in the thousands.  Those structures are generated with ranges of order 1 only (see report).
  bool heavy = false;
  for (auto& s : c.st) heavy = heavy || (s.type == T_STABLE && s.param < 1.) || (s.type == T_MATERN && s.param < 0.5);
  if (heavy)
    for (auto& s : c.st) s.range /= base;
  if (G::pct(25)) c.st.push_back(genNugget(c.ndim, c.nvar));
  if (G::pct(50))
    for (int v = 0; v < c.nvar; v++) c.means.push_back(G::r(-12, 12, 4));
  int K = c.grid ? 3 : (c.ndim == 3 ? 4 : 5);
  c.anchors = genAnchors(c.ndim, K, (c.grid ? 1.0 : 3.0) * c.rmax(), heavy ? 0. : G::pick<double>({0., 0., 5000.}));
  c.cpr = c.ndim == 3 ? 2 : G::i(3, 4);
  if (c.grid && c.ndim >= 2 && G::pct(30)) c.gangle = G::r(1, 89, 1);
  c.nb = G::i(30, 60);
  genEnsemble(c, 250, 4, 12);
  return c;
}
// turning bands on 3-D grids with structures simulated by the spectral (cosine) process: the grid recurrence of that
// process has one increment per axis; only this support/structure combination exercises the third one
static SimCase genTb3dGrid()
{
  SimCase c;
  c.sim = SIM_TB;
  c.ndim = 3;
  c.nvar = 1;
  c.grid = 1;
  double base = G::pick<double>({1., 30.});
  double r1 = base * G::u(0.8, 1.25);
  // always anisotropic with a rotation: with equal meshes and an isotropic model the three increments are interchangeable
  Struc s3 = genStruc(c.ndim, c.nvar, r1, {T_GAUSS, T_GAUSS, T_MATERN, T_STABLE}, true);
  if (s3.type == T_MATERN && s3.param <= 0.5) s3.param = 1.5;
  if (s3.type == T_STABLE && s3.param <= 1.) s3.param = 1.5;
  c.st.push_back(s3);
  if (G::pct(25)) c.st.push_back(genNugget(c.ndim, c.nvar));
  if (G::pct(50)) c.means.push_back(G::r(-12, 12, 4));
  c.anchors = genAnchors(c.ndim, 3, 1.0 * c.rmax(), 0.);
  c.cpr = 2;
  c.nb = G::i(30, 60);
  genEnsemble(c, 250, 4, 12);
  return c;
}
static SimCase genFft()
{
  SimCase c;
  c.sim = SIM_FFT;
  c.ndim = G::pick<int>({1, 2, 2, 2, 2, 3});
  c.nvar = 1;
  c.grid = 1;
  double r1 = G::pick<double>({1., 30., 1000.}) * G::u(0.8, 1.25);
  bool aniso = c.ndim == 2 && G::pct(50); // 3-D stays isotropic: the dilated grid must remain small
  std::vector<int> types = {T_EXPO, T_SPHE, T_CUBIC, T_GAUSS, T_MATERN, T_STABLE};
  int ns = G::i(1, 2);
  for (int k = 0; k < ns; k++)
  {
    Struc s = genStruc(c.ndim, 1, k == 0 ? r1 : r1 * G::u(0.5, 1.), types, aniso);
    if (aniso) s.ratio[1] = 1. / G::u(3., 3.3); // the grid has 3 * 3 * ratio cells per axis before dilation: keep it small
    c.st.push_back(s);
  }
  if (G::pct(25)) c.st.push_back(genNugget(c.ndim, 1));
  c.anchors = genAnchors(c.ndim, c.ndim == 3 ? 4 : 6, 1.5 * c.rmax(), G::pick<double>({0., 0., 5000.}));
  c.cpr = c.ndim == 3 ? 2 : 3;
  c.gfac.assign((size_t)c.ndim, 1.);
  if (c.ndim >= 2 && G::pct(50))
  {
    // different extensions along the axes (the probes' box is < 3 ranges: the extension is 3 ranges * gfac)
    std::vector<int> p = G::perm(c.ndim);
    c.gfac[(size_t)p[0]] = G::pick<double>({1.25, 1.5});
    if (c.ndim == 3) c.gfac[(size_t)p[1]] = G::pick<double>({1., 1.25});
  }
  c.opt = G::pct(70) ? 1 : 0;
  // one realisation per call (simfft creates a single output column whatever nbsimu: recorded under C13)
  genEnsemble(c, 1, 1000, 2500);
  return c;
}
static SimCase genSpectral()
{
  SimCase c;
  c.sim = SIM_SPECTRAL;
  c.ndim = G::pick<int>({1, 2, 2, 2, 3});
  c.nvar = 1;
  c.grid = G::pct(40) ? 1 : 0;
  double r1 = G::pick<double>({1., 30., 1000.}) * G::u(0.8, 1.25);
  bool aniso = c.ndim >= 2 && G::pct(75);
  Struc s = genStruc(c.ndim, 1, r1, {T_EXPO, T_GAUSS, T_MATERN}, aniso);
  if (G::pct(50)) s.sill = {1.};
  c.st.push_back(s);
  c.anchors = genAnchors(c.ndim, c.grid ? 3 : 6, (c.grid ? 1.0 : 3.0) * c.rmax(), G::pick<double>({0., 0., 5000.}));
  c.cpr = c.ndim == 3 ? 2 : G::i(3, 4);
  if (c.grid && c.ndim >= 2 && G::pct(30)) c.gangle = G::r(1, 89, 1);
  c.nb = G::i(50, 150); // >= 50 components: the 4th-moment formula of sigma_MC is then exact within 2 %
  genEnsemble(c, 250, 4, 16);
  return c;
}
static SimCase genSpde()
{
  SimCase c;
  c.sim = SIM_SPDE;
  c.ndim = 2;
  c.nvar = 1;
  c.grid = G::pct(40) ? 1 : 0;
  c.opt = G::pct(75) ? 1 : 0;
  double r1 = G::pick<double>({1., 30., 1000.}) * G::u(0.8, 1.25);
  bool aniso = G::pct(c.opt ? 70 : 40);
  int ns = (c.opt && G::pct(25)) ? 2 : 1;
  for (int k = 0; k < ns; k++)
  {
    Struc s = genStruc(2, 1, k == 0 ? r1 : r1 * G::u(0.6, 1.), {T_MATERN}, aniso);
    s.param = G::pick<double>({1., 1., 2.});
    if (aniso) s.ratio[1] = 1. / G::u(3., 3.5); // keeps the mesh (range_i / nb along each axis) below ~4000 vertices
    c.st.push_back(s);
  }
  if (G::pct(25)) c.st.push_back(genNugget(2, 1));
  c.anchors = genAnchors(2, 3, (c.opt ? 1.0 : 0.8) * c.rmax(), G::pick<double>({0., 0., 5000.}));
  c.cpr = 3;
  c.nb = c.opt ? G::i(8, 10) : 8;         // mesh = range / nb  <= range / 8
  c.border = c.nb + G::i(0, 3);           // mesh border >= 1 range
  // one call (meshing and factorisation are paid once), all the realisations through nbsimu
  c.ncalls = 1;
  c.style = G::pct(15) ? 0 : 1;
  c.nbsimu = c.opt ? 250 * G::sz(4, 10) : 1000;
  c.seed = G::seed();
  return c;
}
VERIF_SUB(tb, SimCase, genTb, runSim);
VERIF_SUB(tb_grid3d, SimCase, genTb3dGrid, runSim);
VERIF_SUB(fft, SimCase, genFft, runSim);
VERIF_SUB(spectral, SimCase, genSpectral, runSim);
VERIF_SUB(spde, SimCase, genSpde, runSim);

// ====================================================================== chol ================
// MatrixSquareSymmetricSim(m, inverse): sampler x = f(white noise) whose covariance is m (inverse = false: x = L w)
// or m^-1 (inverse = true, m is a precision: x = L^-T w), L = Cholesky factor (CholeskyDense; CholeskySparse when
// the matrix is sparse).  The covariance C of a model between n points is given either as C or as Q = C^-1
// (inverted here with Eigen); the ensemble covariance of R samples must be C.  Exact method: b = 0.
struct CholCase
{
  int n = 4;
  std::vector<double> xy;
  std::vector<Struc> st;
  int inverse = 0, sparse = 0, R = 2000, seed = 1;
  template<class A> void io(A& a) { a("n", n)("xy", xy)("st", st)("inverse", inverse)("sparse", sparse)("R", R)("seed", seed); }
};
static CholCase genChol()
{
  CholCase c;
  c.n = G::i(2, 9);
  double r1 = G::pick<double>({1., 30.}) * G::u(0.8, 1.25);
  c.st.push_back(genStruc(2, 1, r1, {T_EXPO, T_SPHE, T_CUBIC, T_GAUSS, T_MATERN}, G::pct(70)));
  c.st.push_back(genNugget(2, 1)); // keeps the matrix well conditioned (kappa < 1e3)
  c.xy = genAnchors(2, c.n, 1.5 * r1, 0.);
  c.inverse = G::b() ? 1 : 0;
  c.sparse = G::pct(30) ? 1 : 0;
  c.R = 1000 * G::sz(2, 4);
  c.seed = G::seed();
  return c;
}
static void runChol(const CholCase& c, Ctx& ctx)
{
  resetGlobals(2);
  const int n = c.n, R = c.R;
  std::string tag = std::string(c.sparse ? "chol:sparse" : "chol:dense") + (c.inverse ? ":precision" : ":covariance");
  ctx.label("sim:" + tag);
  ModelOracle orc(2, 1, c.st);
  Eigen::MatrixXd C(n, n);
  for (int i = 0; i < n; i++)
    for (int j = 0; j < n; j++) C(i, j) = orc.cov(&c.xy[(size_t)(2 * i)], &c.xy[(size_t)(2 * j)], i == j, 0, 0);
  Eigen::MatrixXd M = c.inverse ? Eigen::MatrixXd(C.inverse()) : C;
  M = 0.5 * (M + M.transpose());
  MatrixSquareSymmetric ms(n);
  for (int i = 0; i < n; i++)
    for (int j = 0; j <= i; j++) ms.setValue(i, j, M(i, j));
  std::unique_ptr<MatrixSparse> sp;
  const AMatrix* mat = &ms;
  if (c.sparse)
  {
    NF_Triplet T;
    for (int i = 0; i < n; i++)
      for (int j = 0; j < n; j++) T.add(i, j, M(i, j));
    sp.reset(MatrixSparse::createFromTriplet(T, n, n));
    mat = sp.get();
  }
  ctx.at("MatrixSquareSymmetricSim");
  MatrixSquareSymmetricSim sim(mat, c.inverse != 0);
  if (sim.isEmpty()) { ctx.fail("error:" + tag, "the sampler could not be built from a symmetric positive definite matrix"); return; }
  law_set_random_seed(c.seed);
  std::vector<LD> m1((size_t)n, 0.L), m2((size_t)(n * n), 0.L);
  VectorDouble w((size_t)n), x;
  for (int r = 0; r < R; r++)
  {
    for (int i = 0; i < n; i++) w[(size_t)i] = law_gaussian();
    ctx.at("evalSimulate");
    if (sim.evalSimulate(w, x) != 0 || (int)x.size() != n) { ctx.fail("error:" + tag, "evalSimulate failed"); return; }
    for (int i = 0; i < n; i++)
    {
      if (!(std::fabs(x[(size_t)i]) < 1e29)) { ctx.fail("nan:" + tag, "non finite sample"); return; }
      m1[(size_t)i] += x[(size_t)i];
      for (int j = 0; j <= i; j++) m2[(size_t)(i * n + j)] += (LD)x[(size_t)i] * x[(size_t)j];
    }
  }
  double maxz = 0;
  for (int i = 0; i < n; i++)
  {
    double sd = std::sqrt(C(i, i) / R), dev = std::fabs((double)(m1[(size_t)i] / R));
    maxz = std::max(maxz, dev / sd);
    if (dev > 6. * sd) { ctx.fail("mean:" + tag, fmt("mean of component %d = %.4g = %.1f sigma (R=%d)", i, dev, dev / sd, R)); return; }
  }
  for (int i = 0; i < n; i++)
    for (int j = 0; j <= i; j++)
    {
      double est = (double)(m2[(size_t)(i * n + j)] / R);
      double sd = std::sqrt((C(i, i) * C(j, j) + C(i, j) * C(i, j)) / R), dev = std::fabs(est - C(i, j));
      maxz = std::max(maxz, dev / sd);
      if (dev > 6. * sd + 1e-8 * std::sqrt(C(i, i) * C(j, j)))
      { ctx.fail((i == j ? "var:" : "cov:") + tag, fmt("ensemble covariance (%d,%d) = %.5g, expected %.5g: %.1f sigma_MC (R=%d)", i, j, est, C(i, j), dev / sd, R)); return; }
    }
  ctx.label(fmt("maxz:%d", std::min(9, (int)std::floor(maxz))));
  ctx.nontrivial(n >= 3);
  ctx.sig = Hash().add(n).add(c.inverse).add(c.sparse).add(c.st[0].type).add(c.seed).h;
}
VERIF_SUB(chol, CholCase, genChol, runChol);

// ====================================================================== law =================
enum { L_UNIFORM = 0, L_GAUSS, L_EXPO, L_GAMMA, L_BETA1, L_BETA2, L_POISSON, L_BINOMIAL, L_GAMMA_BETA, L_NLAWS };
static const char* lname(int l)
{
  static const char* n[] = {"uniform", "gaussian", "exponential", "gamma", "beta1", "beta2", "poisson", "binomial", "gamma-beta"};
  return n[l];
}
struct LawCase
{
  int law = 0, style = 1; // style 1 = old (library default), 0 = new (std::mt19937)
  double p1 = 0., p2 = 1.;
  int n = 1, N = 100000, seed = 1;
  template<class A> void io(A& a) { a("law", law)("style", style)("p1", p1)("p2", p2)("n", n)("N", N)("seed", seed); }
};
static LawCase genLaw()
{
  LawCase c;
  c.law = G::i(0, L_NLAWS - 1);
  c.style = G::b() ? 1 : 0;
  switch (c.law)
  {
    case L_UNIFORM: c.p1 = G::r(-20, 20, 4); c.p2 = G::pick<double>({0.5, 1., 7.25, 1000.}); break;     // [p1, p1 + p2]
    case L_GAUSS: c.p1 = G::r(-20, 20, 4); c.p2 = G::pick<double>({0.1, 1., 3.5, 100.}); break;          // mean, sigma
    case L_EXPO: c.p1 = G::pick<double>({0.05, 0.5, 1., 4., 60.}); break;                                // lambda
    case L_GAMMA: c.p1 = G::pick<double>({0.3, 0.7, 1., 1.5, 2.5, 9., 40.}); c.p2 = 1.; break;           // alpha
    case L_GAMMA_BETA: c.p1 = G::pick<double>({0.7, 1., 2.5, 9.}); c.p2 = G::pick<double>({0.25, 2., 5.}); break;
    case L_BETA1: c.p1 = G::pick<double>({0.5, 1., 2., 6.}); c.p2 = G::pick<double>({0.5, 1., 3., 8.}); break;
    case L_BETA2: c.p1 = G::pick<double>({0.5, 1., 2., 6.}); c.p2 = G::pick<double>({3.5, 6., 20., 40.}); break;
    case L_POISSON: c.p1 = G::pick<double>({0.2, 1., 4.5, 15.9, 16., 33., 120.}); break;                  // old style: two regimes around 16
    default: c.n = G::pick<int>({1, 5, 40, 200, 1000}); c.p1 = G::pick<double>({0.02, 0.1, 0.3, 0.5, 0.8, 0.97}); break; // BINV below n p = 30, BTPE above
  }
  c.N = 100000;
  c.seed = G::seed();
  return c;
}

// description of a law for the oracle: central moments mu[0..16] (NaN when not finite), cdf, cdf just below x, support
struct LawRef
{
  LD mean = 0;
  std::vector<LD> mu;                         // central moments
  std::function<double(double)> cdf, cdfm;    // F(x), F(x-)
  std::function<double(double)> sf;           // 1 - F(x), accurate in the upper tail (continuous laws only)
  std::function<bool(double)> inside;
};
static const LD kNaN = std::numeric_limits<LD>::quiet_NaN();
// central moments from cumulants k[1..16] (k[1] ignored): m_n = sum_{j=2..n} C(n-1, j-1) k_j m_{n-j}
static std::vector<LD> centralFromCumulants(const std::vector<LD>& k)
{
  std::vector<LD> m(17, 0.L);
  m[0] = 1;
  m[1] = 0;
  for (int n = 2; n <= 16; n++)
  {
    LD s = 0, binom = 1; // C(n-1, j-1), j = 1 -> 1
    for (int j = 1; j <= n; j++)
    {
      if (j >= 2) s += binom * k[(size_t)j] * m[(size_t)(n - j)];
      binom = binom * (LD)(n - j) / (LD)j; // C(n-1, j)
    }
    m[(size_t)n] = s;
  }
  return m;
}
// central moments from raw moments r[0..16] about 0
static std::vector<LD> centralFromRaw(const std::vector<LD>& r)
{
  std::vector<LD> m(17, 0.L);
  LD mean = r[1];
  for (int n = 0; n <= 16; n++)
  {
    if (std::isnan((double)r[(size_t)n])) { m[(size_t)n] = kNaN; continue; }
    LD s = 0, binom = 1, pw = 1; // sum_j C(n,j) r_{n-j} (-mean)^j
    for (int j = 0; j <= n; j++)
    {
      s += binom * r[(size_t)(n - j)] * pw;
      binom = binom * (LD)(n - j) / (LD)(j + 1);
      pw *= -mean;
    }
    m[(size_t)n] = s;
  }
  return m;
}
static LawRef lawGamma(double alpha, double scale)
{
  LawRef L;
  L.mean = (LD)alpha * scale;
  std::vector<LD> k(17, 0.L);
  LD f = 1, sc = scale; // k_n = alpha (n-1)! scale^n
  for (int n = 1; n <= 16; n++) { k[(size_t)n] = (LD)alpha * f * sc; f *= n; sc *= scale; }
  L.mu = centralFromCumulants(k);
  L.cdf = L.cdfm = [=](double x) { return x <= 0 ? 0. : boost::math::gamma_p(alpha, x / scale); };
  L.sf = [=](double x) { return x <= 0 ? 1. : boost::math::gamma_q(alpha, x / scale); };
  L.inside = [](double x) { return x >= 0 && x < 1e29; };
  return L;
}
static LawRef lawRef(const LawCase& c, int convention /* gamma-beta: 0 scale, 1 rate */)
{
  LawRef L;
  L.mu.assign(17, 0.L);
  switch (c.law)
  {
    case L_UNIFORM:
    {
      double a = c.p1, w = c.p2;
      L.mean = a + 0.5 * w;
      for (int k = 0; k <= 16; k++) L.mu[(size_t)k] = (k % 2) ? 0.L : powl(0.5L * w, k) / (k + 1);
      L.cdf = L.cdfm = [=](double x) { return std::min(1., std::max(0., (x - a) / w)); };
      L.sf = [=](double x) { return std::min(1., std::max(0., (a + w - x) / w)); };
      L.inside = [=](double x) { return x >= a && x <= a + w; };
      break;
    }
    case L_GAUSS:
    {
      double m = c.p1, sd = c.p2;
      L.mean = m;
      LD df = 1; // (k-1)!!
      L.mu[0] = 1;
      for (int k = 2; k <= 16; k += 2) { df *= (k - 1); L.mu[(size_t)k] = df * powl(sd, k); }
      L.cdf = L.cdfm = [=](double x) { return 0.5 * std::erfc(-(x - m) / (sd * std::sqrt(2.))); };
      L.sf = [=](double x) { return 0.5 * std::erfc((x - m) / (sd * std::sqrt(2.))); };
      L.inside = [](double x) { return std::fabs(x) < 1e29; };
      break;
    }
    case L_EXPO: L = lawGamma(1., 1. / c.p1); break;
    case L_GAMMA: L = lawGamma(c.p1, 1.); break;
    case L_GAMMA_BETA: L = lawGamma(c.p1, convention == 0 ? c.p2 : 1. / c.p2); break;
    case L_BETA1:
    {
      double a = c.p1, b = c.p2;
      std::vector<LD> r(17, 1.L);
      for (int k = 1; k <= 16; k++) r[(size_t)k] = r[(size_t)(k - 1)] * ((LD)a + k - 1) / ((LD)a + b + k - 1);
      L.mean = r[1];
      L.mu = centralFromRaw(r);
      L.cdf = L.cdfm = [=](double x) { return x <= 0 ? 0. : (x >= 1 ? 1. : boost::math::ibeta(a, b, x)); };
      L.sf = [=](double x) { return x <= 0 ? 1. : (x >= 1 ? 0. : boost::math::ibetac(a, b, x)); };
      L.inside = [](double x) { return x >= 0 && x <= 1; };
      break;
    }
    case L_BETA2: // a/b ratio of gammas (beta prime): raw moment k exists for k < b
    {
      double a = c.p1, b = c.p2;
      std::vector<LD> r(17, 1.L);
      for (int k = 1; k <= 16; k++) r[(size_t)k] = ((LD)b - k > 0.25L) ? r[(size_t)(k - 1)] * ((LD)a + k - 1) / ((LD)b - k) : kNaN;
      L.mean = r[1];
      L.mu = centralFromRaw(r);
      L.cdf = L.cdfm = [=](double x) { return x <= 0 ? 0. : boost::math::ibeta(a, b, x / (1. + x)); };
      L.sf = [=](double x) { return x <= 0 ? 1. : boost::math::ibeta(b, a, 1. / (1. + x)); };
      L.inside = [](double x) { return x >= 0 && x < 1e29; };
      break;
    }
    case L_POISSON:
    {
      double lam = c.p1;
      std::vector<LD> k(17, (LD)lam);
      L.mean = lam;
      L.mu = centralFromCumulants(k);
      L.cdf = [=](double x) { return x < 0 ? 0. : boost::math::gamma_q(std::floor(x) + 1., lam); };
      L.cdfm = [=](double x) { double y = std::ceil(x) - 1.; return y < 0 ? 0. : boost::math::gamma_q(y + 1., lam); };
      L.inside = [](double x) { return x >= 0 && x == std::floor(x) && x < 2e9; };
      break;
    }
    default: // binomial: moments by summation of the probability mass function
    {
      int n = c.n;
      double p = c.p1;
      L.mean = (LD)n * p;
      std::vector<LD> pm((size_t)(n + 1));
      for (int k = 0; k <= n; k++)
        pm[(size_t)k] = expl(lgammal(n + 1.L) - lgammal(k + 1.L) - lgammal(n - k + 1.L) + k * logl((LD)p) + (n - k) * log1pl(-(LD)p));
      for (int q = 0; q <= 16; q++)
      {
        LD s = 0;
        for (int k = 0; k <= n; k++) s += pm[(size_t)k] * powl((LD)k - L.mean, q);
        L.mu[(size_t)q] = s;
      }
      auto F = [=](double y) { return y < 0 ? 0. : (y >= n ? 1. : boost::math::ibetac(y + 1., n - y, p)); };
      L.cdf = [=](double x) { return F(std::floor(x)); };
      L.cdfm = [=](double x) { return F(std::ceil(x) - 1.); };
      L.inside = [=](double x) { return x >= 0 && x <= n && x == std::floor(x); };
      break;
    }
  }
  return L;
}
static double drawLaw(const LawCase& c)
{
  switch (c.law)
  {
    case L_UNIFORM: return law_uniform(c.p1, c.p1 + c.p2);
    case L_GAUSS: return law_gaussian(c.p1, c.p2);
    case L_EXPO: return law_exponential(c.p1);
    case L_GAMMA: return law_gamma(c.p1);
    case L_GAMMA_BETA: return law_gamma(c.p1, c.p2);
    case L_BETA1: return law_beta1(c.p1, c.p2);
    case L_BETA2: return law_beta2(c.p1, c.p2);
    case L_POISSON: return (double)law_poisson(c.p1);
    default: return (double)law_binomial(c.n, c.p1);
  }
}
// Thresholds.  KS: Dvoretzky-Kiefer-Wolfowitz, P(sup|Fn - F| > e) <= 2 exp(-2 N e^2) = 1e-6.
// Moment of order k: T = mean((X - mu)^k), E T = mu_k, Var T = (mu_2k - mu_k^2)/N =: s^2.  T is a mean of N
// independent copies of Y = (X - mu)^k, whose skewness g and excess kurtosis q follow from mu_3k, mu_4k; the
// Cornish-Fisher quantile  z + (g/6 sqrt N)(z^2-1) + (q/24 N)(z^3-3z) - (g^2/36 N)(2z^3-5z)  at z = +-5 (5.7e-7 under
// normality) gives the threshold, never less than 6 s.  When the expansion is not trustworthy (|g|/sqrt N > 0.5 or
// q/N > 1) or the moments needed do not exist, this order is not asserted (label moment-skipped).
static bool momentThreshold(const LawRef& L, int k, int N, double& expect, double& thr, double& sd)
{
  for (int j : {k, 2 * k, 3 * k, 4 * k})
    if (!std::isfinite((double)L.mu[(size_t)j])) return false;
  LD e = L.mu[(size_t)k], m2 = L.mu[(size_t)(2 * k)], m3 = L.mu[(size_t)(3 * k)], m4 = L.mu[(size_t)(4 * k)];
  LD v = m2 - e * e;
  if (!(v > 0)) return false;
  LD c3 = m3 - 3 * e * m2 + 2 * e * e * e;
  LD c4 = m4 - 4 * e * m3 + 6 * e * e * m2 - 3 * e * e * e * e;
  double g = (double)(c3 / powl(v, 1.5L)) / std::sqrt((double)N);
  double q = (double)(c4 / (v * v) - 3.L) / N;
  if (std::fabs(g) > 0.5 || q > 1.) return false;
  auto cf = [&](double z) { return z + g / 6. * (z * z - 1.) + q / 24. * (z * z * z - 3. * z) - g * g / 36. * (2. * z * z * z - 5. * z); };
  double z = std::max(6., std::max(std::fabs(cf(5.)), std::fabs(cf(-5.))));
  expect = (double)e;
  sd = std::sqrt((double)v / N);
  thr = z * sd;
  return true;
}
// battery under one reference law; returns "" or the first failure (key suffix | message)
static std::string lawBattery(const LawCase& c, const LawRef& L, const std::vector<double>& xs, Ctx* ctx, double& maxz)
{
  const int N = (int)xs.size();
  for (int i = 0; i < N; i++)
    if (!L.inside(xs[(size_t)i])) return "support|" + fmt("draw %d = %.17g lies outside the support of the law", i, xs[(size_t)i]);
  for (int k = 1; k <= 4; k++)
  {
    double expect, thr, sd;
    if (!momentThreshold(L, k, N, expect, thr, sd)) { if (ctx) ctx->label(fmt("moment-skipped:%d", k)); continue; }
    LD s = 0;
    for (double x : xs) s += powl((LD)x - L.mean, k);
    double est = (double)(s / N), dev = std::fabs(est - expect);
    maxz = std::max(maxz, dev / sd);
    if (getenv("VERIF_C14_DIAG")) diag(fmt("D moment%d est=%.8g law=%.8g z=%+.2f thr=%.2f", k, est, expect, (est - expect) / sd, thr / sd));
    if (dev > thr)
      return fmt("moment%d|", k) + fmt("central moment of order %d = %.8g, law %.8g: |diff| = %.1f sigma (threshold %.1f sigma, N=%d)", k, est, expect, dev / sd, thr / sd, N);
  }
  std::vector<double> v = xs;
  std::sort(v.begin(), v.end());
  double D = 0;
  for (int i = 0; i < N;)
  {
    int j = i;
    while (j < N && v[(size_t)j] == v[(size_t)i]) j++;
    D = std::max(D, std::fabs((double)j / N - L.cdf(v[(size_t)i])));
    D = std::max(D, std::fabs((double)i / N - L.cdfm(v[(size_t)i])));
    i = j;
  }
  // range actually reached (continuous laws): F(min) and 1 - F(max) are Beta(1, N) variables, so
  // P(F(min) > t) = (1 - t)^N <= exp(-N t) = 2.5e-7 for t = ln(4e6)/N: a generator that cannot reach one tail fails
  if (L.sf)
  {
    double t = std::log(4. / 1e-6) / N;
    double lo = L.cdf(v.front()), hi = L.sf(v.back());
    if (getenv("VERIF_C14_DIAG")) diag(fmt("D tails F(min)=%.3g 1-F(max)=%.3g t=%.3g", lo, hi, t));
    if (lo > t) return "tail|" + fmt("the smallest of %d draws is %.8g: F(min) = %.3g > %.3g, the lower tail of the law is not reached", N, v.front(), lo, t);
    if (hi > t) return "tail|" + fmt("the largest of %d draws is %.8g: 1 - F(max) = %.3g > %.3g, the upper tail of the law is not reached", N, v.back(), hi, t);
  }
  double eps = std::sqrt(std::log(2. / 1e-6) / (2. * N));
  maxz = std::max(maxz, 6. * D / eps); // on the same scale: 6 = at the threshold
  if (getenv("VERIF_C14_DIAG")) diag(fmt("D ks D=%.5f eps=%.5f", D, eps));
  if (D > eps) return "ks|" + fmt("Kolmogorov-Smirnov distance %.5f > %.5f (DKW bound at 1e-6, N=%d)", D, eps, N);
  return "";
}
static void runLaw(const LawCase& c, Ctx& ctx)
{
  resetGlobals(2);
  // variant = code path of the generator (Law.cpp), so that a recorded defect of one path does not hide the others
  std::string variant = lname(c.law);
  if (c.law == L_POISSON && c.style) variant += (c.p1 < 16.) ? "-product" : "-split";
  if (c.law == L_BINOMIAL) variant += (c.n * c.p1 < 30.) ? "-binv" : (c.p1 <= 0.5 ? "-btpe" : "-btpe-phigh");
  if (c.law == L_GAMMA && c.style) variant += (std::fabs(c.p1 - 1.) < 1e-5) ? "-exp" : (c.p1 > 1. ? "-gt1" : "-lt1");
  std::string tag = variant + (c.style ? ":old" : ":new");
  ctx.label("law:" + tag);
  law_set_old_style(c.style != 0);
  law_set_random_seed(c.seed);
  ctx.at("law_" + std::string(lname(c.law)));
  std::vector<double> xs((size_t)c.N);
  for (int i = 0; i < c.N; i++) xs[(size_t)i] = drawLaw(c);
  law_set_old_style(true);
  double maxz = 0;
  std::string f;
  if (c.law == L_GAMMA_BETA)
  {
    // the documentation calls beta "the second parameter": scale and rate readings are both accepted
    double z0 = 0, z1 = 0;
    std::string f0 = lawBattery(c, lawRef(c, 0), xs, nullptr, z0);
    std::string f1 = f0.empty() ? "" : lawBattery(c, lawRef(c, 1), xs, nullptr, z1);
    if (!f0.empty() && !f1.empty()) f = f0 + " [as a scale; as a rate: " + f1.substr(f1.find('|') + 1) + "]";
    maxz = f0.empty() ? z0 : z1;
  }
  else
    f = lawBattery(c, lawRef(c, 0), xs, &ctx, maxz);
  if (!f.empty())
  {
    size_t bar = f.find('|');
    ctx.fail(tag + ":" + f.substr(0, bar), f.substr(bar + 1));
    return;
  }
  ctx.label(fmt("maxz:%d", std::min(9, (int)std::floor(maxz))));
  if (maxz >= 5.) ctx.label("near-threshold:" + tag);
  ctx.nontrivial(true);
  ctx.sig = Hash().add(c.law).add(c.style).addq(c.p1).addq(c.p2).add(c.n).add(c.seed).h;
}
VERIF_SUB(law, LawCase, genLaw, runLaw);

VERIF_MAIN()
