// C16 — grid geometry conversions are mutually inverse (DESIGN.md §5 C16).
// Oracle: the geometry of a regular grid written here from scratch in long double
//   node(i) = x0 + R * (i .* dx),   R = Rz(a0) Ry(a1) Rx(a2)  (2-D: the ccw rotation by a0)
// (elementary rotations composed by the harness; nothing of GeometryHelper/Rotation is used),
// cells known by construction (points are built from a chosen cell + an offset kept 1e-4 cell
// away from the faces), explicit index arithmetic for rank <-> indices, and for derived grids
// the location of the parent node / block centroid the child node is documented to sit on.
#include "verif.hpp"

#include "Basic/Grid.hpp"
#include "Basic/VectorNumT.hpp"
#include "Basic/NamingConvention.hpp"
#include "Db/Db.hpp"
#include "Db/DbGrid.hpp"
#include "Calculators/CalcMigrate.hpp"
#include "Space/ASpaceObject.hpp"
#include "Enum/ELoadBy.hpp"
#include "Enum/ELoc.hpp"
#include "Enum/ESpaceType.hpp"
#include "geoslib_define.h"

#include <memory>
#include <algorithm>

using namespace vf;
typedef long double LD;

static const double MARGIN = 1e-4; // distance (in cells) kept from every cell face

// ------------------------------------------------------------------ grid description ----
struct GSpec
{
  int ndim = 1;
  std::vector<int> nx;
  std::vector<double> dx, x0, ang; // ang: degrees, size ndim (empty in 1-D)
  template<class A> void io(A& a) { a("ndim", ndim)("nx", nx)("dx", dx)("x0", x0)("ang", ang); }
  int ntotal() const
  {
    int n = 1;
    for (int v : nx) n *= v;
    return n;
  }
  bool rotated() const
  {
    for (double a : ang)
      if (a != 0.) return true;
    return false;
  }
  bool obliqueRot() const // some angle which is not a multiple of 90 degrees
  {
    for (double a : ang)
      if (std::fmod(a, 90.) != 0.) return true;
    return false;
  }
  bool nonCubic() const
  {
    for (size_t d = 1; d < dx.size(); d++)
      if (dx[d] != dx[0]) return true;
    return false;
  }
  // plain-data sanity of a replayed file (generated cases always satisfy it)
  bool valid() const
  {
    if (ndim < 1 || ndim > 3) return false;
    if ((int)nx.size() != ndim || (int)dx.size() != ndim || (int)x0.size() != ndim) return false;
    if (!(ang.empty() || (int)ang.size() == ndim)) return false;
    for (int d = 0; d < ndim; d++)
      if (nx[(size_t)d] < 1 || nx[(size_t)d] > 64 || !(dx[(size_t)d] > 0)) return false;
    return ntotal() <= 200000;
  }
};

static double genAngle()
{
  int k = G::i(0, 9);
  if (k < 2) return 0.;
  if (k < 4) return G::pick<double>({90., 180., -90., 270., -180.});
  if (k < 6) return G::pick<double>({30., 45., 60., -30., 120., 10., -135., 1., 89.});
  return G::u(-180., 180.);
}

// maxn: largest node count per axis; dims: 0 = any of 1..3
static GSpec genGrid(int maxn = 12, int dims = 0, int mindim = 1)
{
  GSpec g;
  if (dims) g.ndim = dims;
  else
  {
    g.ndim = G::pick<int>({1, 2, 2, 3, 3});
    if (g.ndim < mindim) g.ndim = G::i(mindim, 3);
  }
  bool cubic = G::pct(25);
  int dxStyle = G::i(0, 2);
  double dx0 = 1.;
  for (int d = 0; d < g.ndim; d++)
  {
    g.nx.push_back(G::sz(1, maxn));
    double v;
    if (dxStyle == 0) v = G::lu(1e-2, 1e2);
    else if (dxStyle == 1) v = G::pick<double>({0.01, 0.1, 0.25, 0.5, 1., 2., 2.5, 10., 100.});
    else v = G::r(1, 40, 4);
    if (d == 0) dx0 = v;
    g.dx.push_back(cubic ? dx0 : v);
    int k = G::i(0, 4);
    g.x0.push_back(k == 0 ? 0. : (k <= 2 ? G::r(-100, 100, 4) : G::u(-1e4, 1e4)));
  }
  if (g.ndim >= 2)
  {
    bool norot = G::pct(20);
    g.ang.assign((size_t)g.ndim, 0.);
    if (!norot)
    {
      g.ang[0] = genAngle();
      if (g.ndim == 3)
      {
        g.ang[1] = genAngle();
        g.ang[2] = genAngle();
      }
    }
  }
  return g;
}

// ------------------------------------------------------------------ the oracle ----------
struct Geo
{
  int nd = 1;
  LD R[3][3];
  LD dx[3], x0[3];
  int nx[3];
  explicit Geo(const GSpec& g) { init(g.ndim, g.nx, g.dx, g.x0, g.ang); }
  Geo(int ndim, const std::vector<int>& n, const std::vector<double>& d, const std::vector<double>& o,
      const std::vector<double>& a)
  {
    init(ndim, n, d, o, a);
  }
  static void mul(const LD a[3][3], const LD b[3][3], LD c[3][3])
  {
    LD t[3][3];
    for (int i = 0; i < 3; i++)
      for (int j = 0; j < 3; j++)
      {
        LD s = 0;
        for (int k = 0; k < 3; k++) s += a[i][k] * b[k][j];
        t[i][j] = s;
      }
    for (int i = 0; i < 3; i++)
      for (int j = 0; j < 3; j++) c[i][j] = t[i][j];
  }
  // right-handed elementary rotation by 'deg' degrees about axis 'ax' (0=x,1=y,2=z)
  static void elem(int ax, LD deg, LD m[3][3])
  {
    const LD pi = 3.14159265358979323846264338327950288L;
    LD c = cosl(deg * pi / 180.L), s = sinl(deg * pi / 180.L);
    for (int i = 0; i < 3; i++)
      for (int j = 0; j < 3; j++) m[i][j] = (i == j) ? 1.L : 0.L;
    int p = (ax + 1) % 3, q = (ax + 2) % 3; // rotation in the (p,q) plane: p -> q
    m[p][p] = c; m[q][p] = s;
    m[p][q] = -s; m[q][q] = c;
  }
  void init(int ndim, const std::vector<int>& n, const std::vector<double>& d, const std::vector<double>& o,
            const std::vector<double>& a)
  {
    nd = ndim;
    for (int i = 0; i < 3; i++)
    {
      nx[i] = 1; dx[i] = 1; x0[i] = 0;
      for (int j = 0; j < 3; j++) R[i][j] = (i == j) ? 1.L : 0.L;
    }
    for (int i = 0; i < nd; i++)
    {
      nx[i] = n[(size_t)i]; dx[i] = d[(size_t)i]; x0[i] = o[(size_t)i];
    }
    if (nd == 2 && !a.empty())
    {
      LD m[3][3];
      elem(2, a[0], m); // only the first angle is meaningful in 2-D
      mul(R, m, R);
    }
    else if (nd == 3 && a.size() == 3)
    {
      LD m[3][3];
      elem(2, a[0], m); mul(R, m, R); // about Oz
      elem(1, a[1], m); mul(R, m, R); // then about the new Oy
      elem(0, a[2], m); mul(R, m, R); // then about the new Ox
    }
  }
  // world coordinates of the fractional index f
  void world(const LD* f, LD* out) const
  {
    for (int i = 0; i < nd; i++)
    {
      LD s = x0[i];
      for (int j = 0; j < nd; j++) s += R[i][j] * f[j] * dx[j];
      out[i] = s;
    }
  }
  void worldI(const std::vector<int>& idx, LD* out) const
  {
    LD f[3] = {0, 0, 0};
    for (int i = 0; i < nd; i++) f[i] = idx[(size_t)i];
    world(f, out);
  }
  // un-rotated variant (flag_rotate = false): x0 + f .* dx
  void flat(const LD* f, LD* out) const
  {
    for (int i = 0; i < nd; i++) out[i] = x0[i] + f[i] * dx[i];
  }
  int rank(const std::vector<int>& idx) const // -1 outside; first index runs fastest
  {
    int r = 0;
    for (int d = nd - 1; d >= 0; d--)
    {
      if (idx[(size_t)d] < 0 || idx[(size_t)d] >= nx[d]) return -1;
      r = r * nx[d] + idx[(size_t)d];
    }
    return r;
  }
  std::vector<int> indices(int r) const
  {
    std::vector<int> idx((size_t)nd);
    for (int d = 0; d < nd; d++)
    {
      idx[(size_t)d] = r % nx[d];
      r /= nx[d];
    }
    return idx;
  }
  int ntotal() const
  {
    int n = 1;
    for (int d = 0; d < nd; d++) n *= nx[d];
    return n;
  }
  // magnitude of the coordinates handled (for tolerances)
  double scale() const
  {
    LD s = 1;
    for (int d = 0; d < nd; d++) s += fabsl(x0[d]) + (nx[d] + 8) * dx[d];
    return (double)s;
  }
  double tol() const { return 1e-10 * scale(); }
};

static VectorInt VI(const std::vector<int>& v) { return VectorInt(v); }
static VectorDouble VD(const std::vector<double>& v) { return VectorDouble(v); }
static std::vector<double> SD(const VectorDouble& v) { return std::vector<double>(v.begin(), v.end()); }
static std::vector<int> SI(const VectorInt& v) { return std::vector<int>(v.begin(), v.end()); }

static std::string istr(const std::vector<int>& v)
{
  std::string s = "(";
  for (size_t k = 0; k < v.size(); k++) s += (k ? "," : "") + std::to_string(v[k]);
  return s + ")";
}
static std::string dstr(const std::vector<double>& v)
{
  std::string s = "(";
  for (size_t k = 0; k < v.size(); k++) s += (k ? "," : "") + fmt("%.12g", v[k]);
  return s + ")";
}
static std::string lstr(const LD* v, int n)
{
  std::string s = "(";
  for (int k = 0; k < n; k++) s += (k ? "," : "") + fmt("%.12Lg", v[k]);
  return s + ")";
}
// compare a library coordinate vector with the oracle
static bool sameCoord(const std::vector<double>& got, const LD* exp, int nd, double tol)
{
  if ((int)got.size() < nd) return false;
  for (int d = 0; d < nd; d++)
    if (!(std::fabs((double)((LD)got[(size_t)d] - exp[d])) <= tol)) return false;
  return true;
}

// build the library grid in one of several ways (all documented to give the same object)
static std::unique_ptr<Grid> buildGrid(const GSpec& g, int variant)
{
  std::unique_ptr<Grid> gr;
  switch (((variant % 4) + 4) % 4)
  {
    case 0:
      gr.reset(new Grid(g.ndim, VI(g.nx), VD(g.x0), VD(g.dx)));
      if (!g.ang.empty()) gr->setRotationByAngles(VD(g.ang));
      break;
    case 1:
      gr.reset(new Grid());
      gr->resetFromVector(VI(g.nx), VD(g.dx), VD(g.x0), VD(g.ang));
      break;
    case 2:
    {
      std::unique_ptr<DbGrid> db(DbGrid::create(VI(g.nx), VD(g.dx), VD(g.x0), VD(g.ang), ELoadBy::SAMPLE, VectorDouble(),
                                                VectorString(), VectorString(), false, false));
      gr.reset(new Grid(db->getGrid()));
      break;
    }
    default:
    {
      Grid tmp;
      tmp.resetFromVector(VI(g.nx), VD(g.dx), VD(g.x0), VD(g.ang));
      gr.reset(new Grid());
      *gr = tmp; // operator=
      break;
    }
  }
  return gr;
}

static void commonLabels(const GSpec& g, Ctx& ctx)
{
  ctx.label(fmt("ndim:%d", g.ndim));
  ctx.label(g.rotated() ? (g.obliqueRot() ? "rot:oblique" : "rot:right-angles") : "rot:none");
  ctx.label(g.nonCubic() ? "mesh:non-cubic" : "mesh:cubic");
}
static uint64_t gridSig(const GSpec& g)
{
  Hash h;
  h.add(g.ndim);
  for (int v : g.nx) h.add(v);
  for (double v : g.dx) h.addq(v);
  for (double v : g.x0) h.addq(v);
  for (double v : g.ang) h.addq(v);
  return h.h;
}
static bool gridNT(const GSpec& g) { return g.ndim >= 2 && g.obliqueRot() && g.nonCubic(); }

// an index tuple in [-2, nx+1] per axis (inside with probability ~ pIn %)
static std::vector<int> genIdx(const GSpec& g, int pIn)
{
  std::vector<int> idx;
  bool in = G::pct(pIn);
  for (int d = 0; d < g.ndim; d++)
    idx.push_back(in ? G::i(0, g.nx[(size_t)d] - 1) : G::i(-2, g.nx[(size_t)d] + 1));
  return idx;
}
// offset inside a cell, kept MARGIN away from both faces; the faces themselves are favoured
static double genOff()
{
  int k = G::i(0, 9);
  if (k == 0) return MARGIN;
  if (k == 1) return 1. - MARGIN;
  if (k == 2) return 0.5;
  return G::u(MARGIN, 1. - MARGIN);
}

// ====================================================================== 1. rank <-> indices
struct RankCase
{
  GSpec g;
  int variant = 0;
  std::vector<std::vector<int>> probes; // index tuples, possibly outside
  template<class A> void io(A& a) { a("g", g)("variant", variant)("probes", probes); }
};
static RankCase genRank()
{
  RankCase c;
  c.g = genGrid();
  c.variant = G::i(0, 3);
  int n = G::sz(1, 12);
  for (int k = 0; k < n; k++) c.probes.push_back(genIdx(c.g, 40));
  return c;
}
static void runRank(const RankCase& c, Ctx& ctx)
{
  const GSpec& g = c.g;
  if (!g.valid()) { ctx.inconclusive("invalid-replay"); return; }
  commonLabels(g, ctx);
  Geo o(g);
  ctx.at("buildGrid");
  auto gr = buildGrid(g, c.variant);
  int N = o.ntotal();
  if (gr->getNTotal() != N || gr->getNDim() != g.ndim)
  {
    ctx.fail("grid:size", fmt("getNTotal %d getNDim %d, expected %d %d", gr->getNTotal(), gr->getNDim(), N, g.ndim));
    return;
  }
  ctx.at("rankToIndice");
  std::vector<int> idx((size_t)g.ndim);
  for (int r = 0; r < N; r++)
  {
    std::fill(idx.begin(), idx.end(), -77);
    gr->rankToIndice(r, idx);
    for (int d = 0; d < g.ndim; d++)
      if (idx[(size_t)d] < 0 || idx[(size_t)d] >= g.nx[(size_t)d])
      {
        ctx.fail("rank2ind:range", fmt("rank %d -> indices %s outside the grid", r, istr(idx).c_str()));
        return;
      }
    int back = gr->indiceToRank(idx);
    if (back != r)
    {
      ctx.fail("rank2ind:roundtrip", fmt("rank %d -> %s -> rank %d", r, istr(idx).c_str(), back));
      return;
    }
    if (idx != o.indices(r))
    {
      ctx.fail("rank2ind:order", fmt("rank %d -> %s, expected %s (first index fastest)", r, istr(idx).c_str(),
                                     istr(o.indices(r)).c_str()));
      return;
    }
  }
  // every index tuple of the grid -> rank -> indices (the reverse composition)
  ctx.at("indiceToRank");
  {
    std::vector<int> it((size_t)g.ndim, 0), out((size_t)g.ndim);
    std::vector<char> seen((size_t)N, 0);
    for (int cnt = 0; cnt < N; cnt++)
    {
      int r = gr->indiceToRank(it);
      if (r < 0 || r >= N || seen[(size_t)r])
      {
        ctx.fail("ind2rank:value", fmt("indices %s -> rank %d (out of range or already used)", istr(it).c_str(), r));
        return;
      }
      seen[(size_t)r] = 1;
      gr->rankToIndice(r, out);
      if (out != it)
      {
        ctx.fail("ind2rank:roundtrip", fmt("indices %s -> rank %d -> %s", istr(it).c_str(), r, istr(out).c_str()));
        return;
      }
      for (int d = 0; d < g.ndim; d++)
      {
        if (++it[(size_t)d] < g.nx[(size_t)d]) break;
        it[(size_t)d] = 0;
      }
    }
  }
  // probes (possibly outside): -1 outside, own arithmetic inside
  for (auto& p : c.probes)
  {
    if ((int)p.size() != g.ndim) continue;
    int exp = o.rank(p);
    int got = gr->indiceToRank(p);
    if (got != exp)
    {
      ctx.fail(exp < 0 ? "ind2rank:outside" : "ind2rank:value",
               fmt("indiceToRank%s = %d, expected %d", istr(p).c_str(), got, exp));
      return;
    }
  }
  // minusOne: the same decomposition in the grid of cells between nodes (nx-1 per axis)
  bool allTwo = true;
  for (int v : g.nx) allTwo = allTwo && v >= 2;
  if (allTwo)
  {
    ctx.at("rankToIndice:minusOne");
    int M = 1;
    for (int v : g.nx) M *= (v - 1);
    for (int r = 0; r < M; r++)
    {
      gr->rankToIndice(r, idx, true);
      int rr = r;
      for (int d = 0; d < g.ndim; d++)
      {
        int e = rr % (g.nx[(size_t)d] - 1);
        rr /= (g.nx[(size_t)d] - 1);
        if (idx[(size_t)d] != e)
        {
          ctx.fail("rank2ind:minusOne", fmt("rank %d (minusOne) -> %s, axis %d expected %d", r, istr(idx).c_str(), d, e));
          return;
        }
      }
    }
  }
  ctx.nontrivial(g.ndim >= 2 && N > 1);
  Hash h;
  h.add(g.ndim);
  for (int v : g.nx) h.add(v);
  ctx.sig = h.h;
}
VERIF_SUB(rank_indices, RankCase, genRank, runRank);

// ====================================================================== 2. indices <-> coordinates
struct Probe
{
  std::vector<int> idx;    // possibly outside the grid
  std::vector<double> off; // in (MARGIN, 1-MARGIN): position inside the cell whose lower corner is the node
  template<class A> void io(A& a) { a("idx", idx)("off", off); }
};
static Probe genProbe(const GSpec& g, int pIn)
{
  Probe p;
  p.idx = genIdx(g, pIn);
  for (int d = 0; d < g.ndim; d++) p.off.push_back(genOff());
  return p;
}
struct IdxCase
{
  GSpec g;
  int variant = 0;
  std::vector<Probe> probes;
  template<class A> void io(A& a) { a("g", g)("variant", variant)("probes", probes); }
};
static IdxCase genIdxCase()
{
  IdxCase c;
  c.g = genGrid();
  c.variant = G::i(0, 3);
  int n = G::sz(1, 16);
  for (int k = 0; k < n; k++) c.probes.push_back(genProbe(c.g, 60));
  return c;
}
static bool probeOk(const Probe& p, int nd)
{
  if ((int)p.idx.size() != nd || (int)p.off.size() != nd) return false;
  for (double v : p.off)
    if (!(v >= MARGIN && v <= 1. - MARGIN)) return false;
  for (int v : p.idx)
    if (v < -1000 || v > 1000) return false;
  return true;
}

static void runIdx(const IdxCase& c, Ctx& ctx)
{
  const GSpec& g = c.g;
  if (!g.valid()) { ctx.inconclusive("invalid-replay"); return; }
  commonLabels(g, ctx);
  Geo o(g);
  const int nd = g.ndim;
  const double tol = o.tol();
  ctx.at("buildGrid");
  auto gr = buildGrid(g, c.variant);
  int N = o.ntotal();

  // (a) every node: indices -> coordinates (all getters) == oracle; back to indices in both conventions
  for (int r = 0; r < N; r++)
  {
    std::vector<int> idx = o.indices(r);
    LD e[3], ef[3], f[3] = {0, 0, 0};
    for (int d = 0; d < nd; d++) f[d] = idx[(size_t)d];
    o.world(f, e);
    o.flat(f, ef);
    ctx.at("indicesToCoordinate");
    std::vector<double> c1 = SD(gr->indicesToCoordinate(VI(idx)));
    if (!sameCoord(c1, e, nd, tol))
    {
      ctx.fail("ind2coord:indicesToCoordinate", fmt("node %s: %s, expected %s", istr(idx).c_str(), dstr(c1).c_str(), lstr(e, nd).c_str()));
      return;
    }
    ctx.at("indicesToCoordinateInPlace");
    std::vector<double> c2((size_t)nd, -1.);
    gr->indicesToCoordinateInPlace(idx, c2);
    if (!sameCoord(c2, e, nd, tol))
    {
      ctx.fail("ind2coord:indicesToCoordinateInPlace", fmt("node %s: %s, expected %s", istr(idx).c_str(), dstr(c2).c_str(), lstr(e, nd).c_str()));
      return;
    }
    ctx.at("getCoordinatesByIndice");
    std::vector<double> c3 = SD(gr->getCoordinatesByIndice(VI(idx)));
    if (!sameCoord(c3, e, nd, tol))
    {
      ctx.fail("ind2coord:getCoordinatesByIndice", fmt("node %s: %s, expected %s", istr(idx).c_str(), dstr(c3).c_str(), lstr(e, nd).c_str()));
      return;
    }
    std::vector<double> c4 = SD(gr->getCoordinatesByIndice(VI(idx), false));
    if (!sameCoord(c4, ef, nd, tol))
    {
      ctx.fail("ind2coord:getCoordinatesByIndice:norotate", fmt("node %s: %s, expected %s", istr(idx).c_str(), dstr(c4).c_str(), lstr(ef, nd).c_str()));
      return;
    }
    ctx.at("indiceToCoordinate");
    for (int d = 0; d < nd; d++)
    {
      double v = gr->indiceToCoordinate(d, idx);
      if (!(std::fabs((double)((LD)v - e[d])) <= tol))
      {
        ctx.fail("ind2coord:indiceToCoordinate", fmt("node %s axis %d: %.17g, expected %.17Lg", istr(idx).c_str(), d, v, e[d]));
        return;
      }
    }
    // back
    ctx.at("coordinateToIndices");
    for (int cen = 0; cen < 2; cen++)
    {
      std::vector<int> back = SI(gr->coordinateToIndices(VD(c1), cen != 0));
      if (back != idx)
      {
        ctx.fail(cen ? "coord2ind:centred:node" : "coord2ind:corner:node",
                 fmt("node %s -> %s -> %s (centered=%d)", istr(idx).c_str(), dstr(c1).c_str(), istr(back).c_str(), cen));
        return;
      }
      VectorInt ip((size_t)nd, -99);
      int err = gr->coordinateToIndicesInPlace(VD(c1), ip, cen != 0);
      if (err != 0 || SI(ip) != idx)
      {
        ctx.fail(cen ? "coord2ind:centred:node" : "coord2ind:corner:node",
                 fmt("InPlace: node %s -> %s -> %s err %d (centered=%d)", istr(idx).c_str(), dstr(c1).c_str(), istr(SI(ip)).c_str(), err, cen));
        return;
      }
    }
  }

  // (b) probes with 'percent', possibly outside the grid
  for (auto& p : c.probes)
  {
    if (!probeOk(p, nd)) continue;
    bool inside = o.rank(p.idx) >= 0;
    for (int cen = 0; cen < 2; cen++)
    {
      // corner convention: the cell of node i is [i, i+1); centred: [i-1/2, i+1/2)
      std::vector<double> pc(p.off);
      if (cen)
        for (auto& v : pc) v -= 0.5;
      LD f[3] = {0, 0, 0}, e[3];
      for (int d = 0; d < nd; d++) f[d] = (LD)p.idx[(size_t)d] + (LD)pc[(size_t)d];
      o.world(f, e);
      ctx.at("indicesToCoordinate:percent");
      std::vector<double> c1 = SD(gr->indicesToCoordinate(VI(p.idx), VD(pc)));
      if (!sameCoord(c1, e, nd, tol))
      {
        ctx.fail("ind2coord:percent", fmt("indices %s percent %s: %s, expected %s", istr(p.idx).c_str(), dstr(pc).c_str(), dstr(c1).c_str(), lstr(e, nd).c_str()));
        return;
      }
      std::vector<double> c2((size_t)nd, -1.);
      gr->indicesToCoordinateInPlace(p.idx, c2, pc);
      if (!sameCoord(c2, e, nd, tol))
      {
        ctx.fail("ind2coord:percent", fmt("InPlace: indices %s percent %s: %s, expected %s", istr(p.idx).c_str(), dstr(pc).c_str(), dstr(c2).c_str(), lstr(e, nd).c_str()));
        return;
      }
      ctx.at("coordinateToIndices:percent");
      std::vector<int> back = SI(gr->coordinateToIndices(VD(c1), cen != 0));
      VectorInt ip((size_t)nd, -99);
      int err = gr->coordinateToIndicesInPlace(VD(c1), ip, cen != 0);
      int rk = gr->coordinateToRank(VD(c1), cen != 0);
      if (inside)
      {
        if (back != p.idx || err != 0 || SI(ip) != p.idx || rk != o.rank(p.idx))
        {
          ctx.fail(cen ? "coord2ind:centred" : "coord2ind:corner",
                   fmt("indices %s percent %s -> %s -> %s / InPlace %s err %d / rank %d (centered=%d)", istr(p.idx).c_str(), dstr(pc).c_str(),
                       dstr(c1).c_str(), istr(back).c_str(), istr(SI(ip)).c_str(), err, rk, cen));
          return;
        }
      }
      else
      {
        if (!back.empty() || err == 0 || rk != -1)
        {
          ctx.fail("coord2ind:outside", fmt("indices %s (outside) percent %s -> %s: coordinateToIndices size %d, InPlace err %d, rank %d (centered=%d)",
                                            istr(p.idx).c_str(), dstr(pc).c_str(), dstr(c1).c_str(), (int)back.size(), err, rk, cen));
          return;
        }
      }
    }
  }
  ctx.nontrivial(gridNT(g));
  ctx.sig = gridSig(g);
}
VERIF_SUB(idx_coord, IdxCase, genIdxCase, runIdx);

// ====================================================================== 3. rank <-> coordinates
struct RkCase
{
  GSpec g;
  int variant = 0;
  std::vector<int> shift; // half-cell shifts (-1,0,1) for getCellCoordinatesByCorner
  std::vector<int> corner; // 0/1 per axis
  template<class A> void io(A& a) { a("g", g)("variant", variant)("shift", shift)("corner", corner); }
};
static RkCase genRk()
{
  RkCase c;
  c.g = genGrid();
  c.variant = G::i(0, 3);
  for (int d = 0; d < c.g.ndim; d++)
  {
    c.shift.push_back(G::i(-1, 1));
    c.corner.push_back(G::i(0, 1));
  }
  return c;
}
static void runRk(const RkCase& c, Ctx& ctx)
{
  const GSpec& g = c.g;
  if (!g.valid() || (int)c.shift.size() != g.ndim || (int)c.corner.size() != g.ndim) { ctx.inconclusive("invalid-replay"); return; }
  commonLabels(g, ctx);
  Geo o(g);
  const int nd = g.ndim;
  const double tol = o.tol();
  ctx.at("buildGrid");
  auto gr = buildGrid(g, c.variant);
  int N = o.ntotal();
  for (int r = 0; r < N; r++)
  {
    std::vector<int> idx = o.indices(r);
    LD e[3], ef[3], f[3] = {0, 0, 0};
    for (int d = 0; d < nd; d++) f[d] = idx[(size_t)d];
    o.world(f, e);
    o.flat(f, ef);
    ctx.at("rankToCoordinates");
    std::vector<double> c1 = SD(gr->rankToCoordinates(r));
    if (!sameCoord(c1, e, nd, tol))
    {
      ctx.fail("rank2coord:rankToCoordinates", fmt("rank %d %s: %s, expected %s", r, istr(idx).c_str(), dstr(c1).c_str(), lstr(e, nd).c_str()));
      return;
    }
    VectorDouble v2((size_t)nd, -1.);
    gr->rankToCoordinatesInPlace(r, v2);
    if (!sameCoord(SD(v2), e, nd, tol))
    {
      ctx.fail("rank2coord:rankToCoordinatesInPlace", fmt("rank %d: %s, expected %s", r, dstr(SD(v2)).c_str(), lstr(e, nd).c_str()));
      return;
    }
    ctx.at("getCoordinatesByRank");
    std::vector<double> c3 = SD(gr->getCoordinatesByRank(r));
    if (!sameCoord(c3, e, nd, tol))
    {
      ctx.fail("rank2coord:getCoordinatesByRank", fmt("rank %d: %s, expected %s", r, dstr(c3).c_str(), lstr(e, nd).c_str()));
      return;
    }
    std::vector<double> c4 = SD(gr->getCoordinatesByRank(r, false));
    if (!sameCoord(c4, ef, nd, tol))
    {
      ctx.fail("rank2coord:getCoordinatesByRank:norotate", fmt("rank %d: %s, expected %s", r, dstr(c4).c_str(), lstr(ef, nd).c_str()));
      return;
    }
    ctx.at("getCoordinate");
    for (int d = 0; d < nd; d++)
    {
      double a = gr->getCoordinate(r, d), b = gr->rankToCoordinate(d, r), n = gr->getCoordinate(r, d, false);
      if (!(std::fabs((double)((LD)a - e[d])) <= tol) || !(std::fabs((double)((LD)b - e[d])) <= tol) ||
          !(std::fabs((double)((LD)n - ef[d])) <= tol))
      {
        ctx.fail("rank2coord:getCoordinate", fmt("rank %d axis %d: getCoordinate %.17g rankToCoordinate %.17g expected %.17Lg; unrotated %.17g expected %.17Lg", r, d, a, b, e[d], n, ef[d]));
        return;
      }
    }
    ctx.at("coordinateToRank");
    for (int cen = 0; cen < 2; cen++)
    {
      int back = gr->coordinateToRank(VD(c1), cen != 0);
      if (back != r)
      {
        ctx.fail(cen ? "coord2rank:centred" : "coord2rank:corner",
                 fmt("rank %d -> %s -> rank %d (centered=%d)", r, dstr(c1).c_str(), back, cen));
        return;
      }
    }
    // half-cell shifted position of the cell (documented: -1 minus half a cell width, +1 plus half)
    ctx.at("getCellCoordinatesByCorner");
    LD fs[3] = {0, 0, 0}, es[3];
    for (int d = 0; d < nd; d++) fs[d] = f[d] + 0.5L * c.shift[(size_t)d];
    o.world(fs, es);
    std::vector<double> c5 = SD(gr->getCellCoordinatesByCorner(r, VI(c.shift)));
    if (!sameCoord(c5, es, nd, tol))
    {
      ctx.fail("rank2coord:getCellCoordinatesByCorner", fmt("rank %d shift %s: %s, expected %s", r, istr(c.shift).c_str(), dstr(c5).c_str(), lstr(es, nd).c_str()));
      return;
    }
  }
  // corner of the grid
  {
    ctx.at("getCoordinatesByCorner");
    LD f[3] = {0, 0, 0}, e[3];
    for (int d = 0; d < nd; d++) f[d] = c.corner[(size_t)d] ? g.nx[(size_t)d] - 1 : 0;
    o.world(f, e);
    std::vector<double> cc = SD(gr->getCoordinatesByCorner(VI(c.corner)));
    if (!sameCoord(cc, e, nd, tol))
    {
      ctx.fail("rank2coord:getCoordinatesByCorner", fmt("corner %s: %s, expected %s", istr(c.corner).c_str(), dstr(cc).c_str(), lstr(e, nd).c_str()));
      return;
    }
  }
  ctx.nontrivial(gridNT(g));
  ctx.sig = gridSig(g);
}
VERIF_SUB(rank_coord, RkCase, genRk, runRk);

// ====================================================================== 4. point -> cell
struct PtCase
{
  GSpec g;
  int variant = 0;
  std::vector<Probe> pts;
  template<class A> void io(A& a) { a("g", g)("variant", variant)("pts", pts); }
};
static PtCase genPt()
{
  PtCase c;
  c.g = genGrid();
  c.variant = G::i(0, 3);
  int n = G::sz(1, 30);
  for (int k = 0; k < n; k++) c.pts.push_back(genProbe(c.g, 65));
  return c;
}
static void runPt(const PtCase& c, Ctx& ctx)
{
  const GSpec& g = c.g;
  if (!g.valid()) { ctx.inconclusive("invalid-replay"); return; }
  commonLabels(g, ctx);
  Geo o(g);
  const int nd = g.ndim;
  const double tol = o.tol();
  ctx.at("buildGrid");
  auto gr = buildGrid(g, c.variant);
  std::unique_ptr<DbGrid> db(DbGrid::create(VI(g.nx), VD(g.dx), VD(g.x0), VD(g.ang), ELoadBy::SAMPLE, VectorDouble(),
                                            VectorString(), VectorString(), true, false));
  int nin = 0, nout = 0;
  for (auto& p : c.pts)
  {
    if (!probeOk(p, nd)) continue;
    int er = o.rank(p.idx);
    (er >= 0 ? nin : nout)++;
    for (int cen = 0; cen < 2; cen++)
    {
      LD f[3] = {0, 0, 0}, e[3];
      for (int d = 0; d < nd; d++) f[d] = (LD)p.idx[(size_t)d] + (LD)p.off[(size_t)d] - (cen ? 0.5L : 0.L);
      o.world(f, e);
      std::vector<double> pt((size_t)nd);
      for (int d = 0; d < nd; d++) pt[(size_t)d] = (double)e[d];
      const char* cv = cen ? "centred" : "corner";
      ctx.at("coordinateToRank");
      int rk = gr->coordinateToRank(VD(pt), cen != 0);
      int rk2 = db->coordinateToRank(VD(pt), cen != 0);
      std::vector<int> ind = SI(gr->coordinateToIndices(VD(pt), cen != 0));
      VectorInt ip((size_t)nd, -99);
      int err = db->coordinateToIndicesInPlace(VD(pt), ip, cen != 0);
      if (er >= 0)
      {
        if (rk != er || rk2 != er || ind != p.idx || err != 0 || SI(ip) != p.idx)
        {
          ctx.fail(std::string("locate:") + cv,
                   fmt("point %s built in cell %s (rank %d, offset %s): coordinateToRank %d / DbGrid %d, coordinateToIndices %s, InPlace %s err %d",
                       dstr(pt).c_str(), istr(p.idx).c_str(), er, dstr(p.off).c_str(), rk, rk2, istr(ind).c_str(), istr(SI(ip)).c_str(), err));
          return;
        }
      }
      else
      {
        if (rk != -1 || rk2 != -1 || !ind.empty() || err == 0)
        {
          ctx.fail(std::string("locate:outside:") + cv,
                   fmt("point %s built in cell %s outside the grid: coordinateToRank %d / DbGrid %d, coordinateToIndices size %d, InPlace err %d",
                       dstr(pt).c_str(), istr(p.idx).c_str(), rk, rk2, (int)ind.size(), err));
          return;
        }
      }
      // centerCoordinateInPlace: the point is moved onto the node of its cell
      if (er >= 0)
      {
        ctx.at("centerCoordinateInPlace");
        VectorDouble cc = VD(pt);
        int e2 = db->centerCoordinateInPlace(cc, cen != 0, true);
        LD en[3];
        o.worldI(p.idx, en);
        if (e2 != 0 || !sameCoord(SD(cc), en, nd, tol))
        {
          ctx.fail(std::string("center:") + cv, fmt("point %s of cell %s centred to %s (err %d), expected node %s", dstr(pt).c_str(),
                                                  istr(p.idx).c_str(), dstr(SD(cc)).c_str(), e2, lstr(en, nd).c_str()));
          return;
        }
      }
      // sampleBelongsToCell (cells centred on the nodes): own cell yes, the next cell along each axis no
      if (cen && er >= 0)
      {
        ctx.at("sampleBelongsToCell");
        if (!gr->sampleBelongsToCell(VD(pt), er))
        {
          ctx.fail("belongs:own", fmt("point %s built inside the cell centred on node %s (offset %s - 0.5) is reported not to belong to it",
                                      dstr(pt).c_str(), istr(p.idx).c_str(), dstr(p.off).c_str()));
          return;
        }
        for (int d = 0; d < nd; d++)
          for (int s = -1; s <= 1; s += 2)
          {
            std::vector<int> nb(p.idx);
            nb[(size_t)d] += s;
            int rn = o.rank(nb);
            if (rn < 0) continue;
            if (gr->sampleBelongsToCell(VD(pt), rn))
            {
              ctx.fail("belongs:neighbour", fmt("point %s built strictly inside the cell of node %s is reported to belong to the cell of node %s",
                                                dstr(pt).c_str(), istr(p.idx).c_str(), istr(nb).c_str()));
              return;
            }
          }
      }
    }
  }
  if (nin) ctx.label("pts:inside");
  if (nout) ctx.label("pts:outside");
  ctx.nontrivial(gridNT(g) && nin > 0);
  ctx.sig = Hash().add(gridSig(g)).add(nin).add(nout).h;
}
VERIF_SUB(point_cell, PtCase, genPt, runPt);

// ====================================================================== 5. DbGrid coordinates
struct DbCase
{
  GSpec g;
  int addRank = 1, addCoord = 1, nvar = 0, regen = 0;
  template<class A> void io(A& a) { a("g", g)("addRank", addRank)("addCoord", addCoord)("nvar", nvar)("regen", regen); }
};
static DbCase genDb()
{
  DbCase c;
  c.g = genGrid(10);
  c.addRank = G::i(0, 1);
  c.addCoord = G::pct(70) ? 1 : 0;
  c.nvar = G::i(0, 2);
  c.regen = G::pct(30) ? 1 : 0;
  return c;
}
static void runDb(const DbCase& c, Ctx& ctx)
{
  const GSpec& g = c.g;
  if (!g.valid() || c.nvar < 0 || c.nvar > 4) { ctx.inconclusive("invalid-replay"); return; }
  commonLabels(g, ctx);
  ctx.label(c.addCoord ? "coords:stored" : "coords:geometry-only");
  defineDefaultSpace(ESpaceType::RN, (unsigned)g.ndim);
  Geo o(g);
  const int nd = g.ndim;
  const double tol = o.tol();
  const int N = o.ntotal();
  VectorDouble tab;
  VectorString names;
  for (int v = 0; v < c.nvar; v++)
  {
    names.push_back("v" + std::to_string(v + 1));
    for (int r = 0; r < N; r++) tab.push_back(1000. * (v + 1) + r);
  }
  ctx.at("DbGrid::create");
  std::unique_ptr<DbGrid> db(DbGrid::create(VI(g.nx), VD(g.dx), VD(g.x0), VD(g.ang), ELoadBy::COLUMN, tab, names, VectorString(),
                                            c.addRank != 0, c.addCoord != 0));
  if (!db) { ctx.fail("dbgrid:create", "DbGrid::create returned nullptr for a valid grid"); return; }
  if (db->getSampleNumber() != N || db->getNDim() != nd)
  {
    ctx.fail("dbgrid:size", fmt("getSampleNumber %d getNDim %d, expected %d %d", db->getSampleNumber(), db->getNDim(), N, nd));
    return;
  }
  if (db->getColumnNumber() != c.addRank + (c.addCoord ? nd : 0) + c.nvar)
  {
    ctx.fail("dbgrid:ncol", fmt("%d columns, expected %d", db->getColumnNumber(), c.addRank + (c.addCoord ? nd : 0) + c.nvar));
    return;
  }
  if (c.regen && !c.addCoord)
  {
    ctx.at("generateCoordinates");
    db->generateCoordinates("gc");
  }
  bool stored = c.addCoord || c.regen;
  std::vector<std::vector<double>> col, byDim, byDimFlat;
  ctx.at("getColumnByLocator");
  if (stored)
    for (int d = 0; d < nd; d++) col.push_back(SD(db->getColumnByLocator(ELoc::X, d)));
  ctx.at("getCoordinates");
  for (int d = 0; d < nd; d++)
  {
    byDim.push_back(SD(db->getCoordinates(d)));
    byDimFlat.push_back(SD(db->getCoordinates(d, false, false)));
    if ((int)byDim.back().size() != N || (stored && (int)col[(size_t)d].size() != N))
    {
      ctx.fail("dbgrid:size", "coordinate vectors do not have one value per node");
      return;
    }
  }
  VectorVectorDouble all = db->getAllCoordinates();
  for (int r = 0; r < N; r++)
  {
    std::vector<int> idx = o.indices(r);
    LD e[3], ef[3], f[3] = {0, 0, 0};
    for (int d = 0; d < nd; d++) f[d] = idx[(size_t)d];
    o.world(f, e);
    o.flat(f, ef);
    ctx.at("DbGrid::getCoordinate");
    std::vector<double> a((size_t)nd), b((size_t)nd), s((size_t)nd), bd((size_t)nd), bf((size_t)nd), al((size_t)nd);
    for (int d = 0; d < nd; d++)
    {
      a[(size_t)d] = db->getCoordinate(r, d);
      b[(size_t)d] = db->getCoordinate(r, d, false);
      if (stored) s[(size_t)d] = col[(size_t)d][(size_t)r];
      bd[(size_t)d] = byDim[(size_t)d][(size_t)r];
      bf[(size_t)d] = byDimFlat[(size_t)d][(size_t)r];
      al[(size_t)d] = all[d][r];
    }
    if (!sameCoord(a, e, nd, tol))
    {
      ctx.fail("dbgrid:getCoordinate", fmt("node %d %s: %s, expected %s", r, istr(idx).c_str(), dstr(a).c_str(), lstr(e, nd).c_str()));
      return;
    }
    if (!sameCoord(b, ef, nd, tol))
    {
      ctx.fail("dbgrid:getCoordinate:norotate", fmt("node %d %s: %s, expected %s", r, istr(idx).c_str(), dstr(b).c_str(), lstr(ef, nd).c_str()));
      return;
    }
    if (stored && !sameCoord(s, e, nd, tol))
    {
      ctx.fail(c.addCoord ? "dbgrid:stored" : "dbgrid:generateCoordinates",
               fmt("node %d %s: stored coordinates %s, geometry %s", r, istr(idx).c_str(), dstr(s).c_str(), lstr(e, nd).c_str()));
      return;
    }
    if (!sameCoord(bd, e, nd, tol) || !sameCoord(al, e, nd, tol) || !sameCoord(bf, ef, nd, tol))
    {
      ctx.fail("dbgrid:getCoordinates", fmt("node %d %s: getCoordinates %s getAllCoordinates %s expected %s; unrotated %s expected %s", r, istr(idx).c_str(),
                                            dstr(bd).c_str(), dstr(al).c_str(), lstr(e, nd).c_str(), dstr(bf).c_str(), lstr(ef, nd).c_str()));
      return;
    }
    ctx.at("getSampleCoordinates");
    std::vector<double> sc = SD(db->getSampleCoordinates(r));
    VectorDouble ps((size_t)nd, -1.);
    db->getCoordinatesPerSampleInPlace(r, ps);
    std::vector<double> pp = SD(db->getCoordinatesPerSample(r));
    if (!sameCoord(sc, e, nd, tol) || !sameCoord(SD(ps), e, nd, tol) || !sameCoord(pp, e, nd, tol))
    {
      ctx.fail("dbgrid:perSample", fmt("node %d: getSampleCoordinates %s getCoordinatesPerSampleInPlace %s getCoordinatesPerSample %s expected %s", r,
                                       dstr(sc).c_str(), dstr(SD(ps)).c_str(), dstr(pp).c_str(), lstr(e, nd).c_str()));
      return;
    }
    // the loaded variables stay attached to their node
    for (int v = 0; v < c.nvar; v++)
    {
      double val = db->getValue(names[v], r);
      if (val != 1000. * (v + 1) + r)
      {
        ctx.fail("dbgrid:value", fmt("variable %d at node %d = %g, expected %g", v, r, val, 1000. * (v + 1) + r));
        return;
      }
    }
  }
  ctx.nontrivial(gridNT(g));
  ctx.sig = Hash().add(gridSig(g)).add(c.addCoord).add(c.addRank).add(c.regen).h;
}
VERIF_SUB(dbgrid_coord, DbCase, genDb, runDb);

// ====================================================================== 6. derived grids
enum Kind { K_GMULT = 0, K_GDIV, K_GDILATE, K_COARSE, K_REFINE, K_MULTIPLE, K_DIVIDER, K_SUB, K_EXTEND, K_SHRINK, K_NK };
static const char* kindName(int k)
{
  static const char* n[] = {"Grid::multiple", "Grid::divider", "Grid::dilate", "createCoarse", "createRefine",
                            "createMultiple", "createDivider", "createSubGrid", "createFromGridExtend", "createFromGridShrink"};
  return (k >= 0 && k < K_NK) ? n[k] : "?";
}
struct DerCase
{
  GSpec g;
  int kind = 0;
  int flagCell = 0;
  int mode = 1;              // dilate: +1 extend, -1 compress
  std::vector<int> fac;      // multiplicity / subdivision factors, or dilation shifts (per axis)
  std::vector<int> lim0, lim1; // sub-grid limits
  std::vector<int> del;      // shrink: deleted axes
  std::vector<int> nxnew;    // extend: node counts of the new axes
  std::vector<double> bots, tops; // extend: one (bot, top) pair of constants per new axis + slopes
  std::vector<std::vector<int>> nodes; // child nodes to look at (raw, reduced modulo the child size)
  template<class A> void io(A& a)
  {
    a("g", g)("kind", kind)("flagCell", flagCell)("mode", mode)("fac", fac)("lim0", lim0)("lim1", lim1)("del", del)("nxnew", nxnew)
     ("bots", bots)("tops", tops)("nodes", nodes);
  }
};
static DerCase genDer()
{
  DerCase c;
  c.kind = G::i(0, K_NK - 1);
  int maxn = (c.kind == K_GDIV || c.kind == K_REFINE || c.kind == K_DIVIDER) ? 6 : 10;
  if (c.kind == K_SHRINK)
  {
    // only configurations in which "suppressing an axis" is geometrically defined: no rotation,
    // or a 3-D grid rotated about Oz only
    c.g = genGrid(maxn, 0, 2);
    if (c.g.ndim == 2) c.g.ang = {0., 0.};
    else { c.g.ang[1] = 0.; c.g.ang[2] = 0.; }
  }
  else if (c.kind == K_EXTEND)
  {
    c.g = genGrid(8, G::i(1, 2));
  }
  else
    c.g = genGrid(maxn);
  const GSpec& g = c.g;
  c.flagCell = G::i(0, 1);
  if (c.kind == K_MULTIPLE || c.kind == K_DIVIDER) c.flagCell = 1;
  c.mode = G::b() ? 1 : -1;
  bool uniform = G::pct(25);
  int f0 = G::i(1, 4);
  for (int d = 0; d < g.ndim; d++)
  {
    int n = g.nx[(size_t)d];
    int f = uniform ? f0 : G::i(1, 4);
    if (c.kind == K_GDILATE)
    {
      f = G::i(0, 3);
      if (c.mode < 0) f = std::min(f, (n - 1) / 2); // at least one node must remain
    }
    else if ((c.kind == K_GMULT || c.kind == K_COARSE || c.kind == K_MULTIPLE) && c.flagCell)
      f = std::min(f, n); // at least one block of cells must fit
    c.fac.push_back(f);
    int l0 = G::i(0, n - 1);
    c.lim0.push_back(l0);
    c.lim1.push_back(G::i(l0 + 1, n));
  }
  if (c.kind == K_SHRINK)
  {
    if (g.ndim == 2) c.del = {G::i(0, 1)};
    else if (g.rotated()) c.del = G::b() ? std::vector<int>{2} : (G::b() ? std::vector<int>{0, 1} : std::vector<int>{1, 0});
    else
    {
      std::vector<int> p = G::perm(3);
      int k = G::i(1, 2);
      c.del.assign(p.begin(), p.begin() + k);
    }
  }
  if (c.kind == K_EXTEND)
  {
    int nnew = G::i(1, 3 - g.ndim);
    for (int k = 0; k < nnew; k++)
    {
      c.nxnew.push_back(G::i(2, 5));
      double b = G::r(-50, 50, 4);
      c.bots.push_back(b);
      c.tops.push_back(b + G::r(1, 40, 4));
    }
  }
  int nn = G::i(1, 8);
  for (int k = 0; k < nn; k++)
  {
    std::vector<int> v;
    for (int d = 0; d < 3; d++) v.push_back(G::i(0, 1000));
    c.nodes.push_back(v);
  }
  return c;
}

// compares child node I (geometry 'ch') with the parent location f(I); checks corners + requested nodes
template<class MapF>
static bool checkChildNodes(const DerCase& c, const Geo& par, const Geo& ch, MapF map, Ctx& ctx, const std::string& key)
{
  const int cd = ch.nd;
  std::vector<std::vector<int>> todo;
  for (int m = 0; m < (1 << cd); m++)
  {
    std::vector<int> I((size_t)cd);
    for (int d = 0; d < cd; d++) I[(size_t)d] = ((m >> d) & 1) ? ch.nx[d] - 1 : 0;
    todo.push_back(I);
  }
  for (auto& raw : c.nodes)
  {
    if (raw.size() < 3) continue;
    std::vector<int> I((size_t)cd);
    for (int d = 0; d < cd; d++) I[(size_t)d] = ((raw[(size_t)d] % ch.nx[d]) + ch.nx[d]) % ch.nx[d];
    todo.push_back(I);
  }
  double tol = 1e-10 * std::max(par.scale(), ch.scale());
  for (auto& I : todo)
  {
    LD pc[3] = {0, 0, 0}, e[3] = {0, 0, 0};
    ch.worldI(I, pc);
    int ncomp = map(I, e); // fills the expected world coordinates, returns how many leading components are asserted
    for (int d = 0; d < ncomp; d++)
      if (!(fabsl(pc[d] - e[d]) <= tol))
      {
        ctx.fail(key, fmt("%s: child node %s lies at %s, the corresponding parent location is %s", kindName(c.kind), istr(I).c_str(),
                          lstr(pc, cd).c_str(), lstr(e, ncomp).c_str()));
        return false;
      }
  }
  return true;
}

static void runDer(const DerCase& c, Ctx& ctx)
{
  const GSpec& g = c.g;
  const int nd = g.ndim;
  if (!g.valid() || c.kind < 0 || c.kind >= K_NK || (int)c.fac.size() != nd || (int)c.lim0.size() != nd || (int)c.lim1.size() != nd)
  {
    ctx.inconclusive("invalid-replay");
    return;
  }
  for (int d = 0; d < nd; d++)
  {
    bool ok = c.fac[(size_t)d] >= 0 && c.fac[(size_t)d] <= 8;
    if (c.kind != K_GDILATE) ok = ok && c.fac[(size_t)d] >= 1;
    if (c.kind == K_GDILATE && c.mode < 0) ok = ok && g.nx[(size_t)d] - 2 * c.fac[(size_t)d] >= 1;
    if ((c.kind == K_GMULT || c.kind == K_COARSE || c.kind == K_MULTIPLE) && c.flagCell) ok = ok && c.fac[(size_t)d] <= g.nx[(size_t)d];
    ok = ok && c.lim0[(size_t)d] >= 0 && c.lim0[(size_t)d] < c.lim1[(size_t)d] && c.lim1[(size_t)d] <= g.nx[(size_t)d];
    if (!ok) { ctx.inconclusive("invalid-replay"); return; }
  }
  if (c.mode != 1 && c.mode != -1) { ctx.inconclusive("invalid-replay"); return; }
  commonLabels(g, ctx);
  ctx.label(std::string("kind:") + kindName(c.kind));
  defineDefaultSpace(ESpaceType::RN, (unsigned)nd);
  Geo par(g);
  bool nonUniform = false;
  for (int d = 1; d < nd; d++) nonUniform = nonUniform || c.fac[(size_t)d] != c.fac[0];
  bool usesFac = c.kind <= K_DIVIDER;
  // class of the configuration, part of the failure key (a defect limited to rotated grids with unequal
  // factors is a different finding from one that shows on plain grids)
  std::string cls = !g.rotated() ? "plain" : ((usesFac && nonUniform) ? "rot-nonuniform" : "rot");
  if (usesFac) ctx.label(nonUniform ? "factors:non-uniform" : "factors:uniform");
  std::string kn = kindName(c.kind);
  const bool cell = c.flagCell != 0;

  std::vector<int> cnx;
  std::vector<double> cdx, cx0, cang = g.ang;
  std::unique_ptr<DbGrid> parent, child;
  int cd = nd; // child dimension

  auto makeParent = [&](const std::vector<std::string>& vn, const std::vector<std::vector<double>>& vv, bool withCoord) {
    VectorDouble tab;
    VectorString names;
    for (size_t k = 0; k < vn.size(); k++)
    {
      names.push_back(vn[k]);
      for (double x : vv[k]) tab.push_back(x);
    }
    parent.reset(DbGrid::create(VI(g.nx), VD(g.dx), VD(g.x0), VD(g.ang), ELoadBy::COLUMN, tab, names, VectorString(), true, withCoord));
  };
  auto takeChild = [&]() -> bool {
    if (!child || child->getNDim() < 1 || child->getSampleNumber() < 1)
    {
      ctx.fail(kn + ":null", "no (or an empty) grid returned for valid arguments");
      return false;
    }
    cd = child->getNDim();
    cnx = SI(child->getNXs());
    cdx = SD(child->getDXs());
    cx0 = SD(child->getX0s());
    cang = SD(child->getAngles());
    if ((int)cang.size() != cd || cd == 1) cang.clear();
    return true;
  };

  std::vector<double> newMin, newMax; // extend
  std::vector<int> kept;              // shrink
  const int Np = par.ntotal();

  switch (c.kind)
  {
    case K_GMULT:
    case K_GDIV:
    case K_GDILATE:
    {
      ctx.at(kn);
      auto gr = buildGrid(g, 1);
      VectorInt nx((size_t)nd, -1);
      VectorDouble dx((size_t)nd, -1.), x0((size_t)nd, -1.);
      if (c.kind == K_GMULT) gr->multiple(VI(c.fac), cell, nx, dx, x0);
      else if (c.kind == K_GDIV) gr->divider(VI(c.fac), cell, nx, dx, x0);
      else gr->dilate(c.mode, VI(c.fac), nx, dx, x0);
      cnx = SI(nx); cdx = SD(dx); cx0 = SD(x0);
      break;
    }
    case K_COARSE:
    case K_REFINE:
    case K_MULTIPLE:
    case K_DIVIDER:
    {
      ctx.at("DbGrid::create");
      makeParent({}, {}, true);
      if (!parent) { ctx.fail("dbgrid:create", "DbGrid::create returned nullptr"); return; }
      ctx.at(kn);
      if (c.kind == K_COARSE) child.reset(DbGrid::createCoarse(parent.get(), VI(c.fac), cell, true));
      else if (c.kind == K_REFINE) child.reset(DbGrid::createRefine(parent.get(), VI(c.fac), cell, true));
      else if (c.kind == K_MULTIPLE) child.reset(DbGrid::createMultiple(parent.get(), VI(c.fac), true));
      else child.reset(DbGrid::createDivider(parent.get(), VI(c.fac), true));
      if (!takeChild()) return;
      break;
    }
    case K_SUB:
    {
      ctx.at("DbGrid::create");
      std::vector<double> v;
      for (int r = 0; r < Np; r++) v.push_back(r + 0.5);
      makeParent({"v"}, {v}, true);
      if (!parent) { ctx.fail("dbgrid:create", "DbGrid::create returned nullptr"); return; }
      ctx.at(kn);
      VectorVectorInt limits;
      for (int d = 0; d < nd; d++) limits.push_back(VectorInt({c.lim0[(size_t)d], c.lim1[(size_t)d]}));
      child.reset(DbGrid::createSubGrid(parent.get(), limits, cell));
      if (!takeChild()) return;
      break;
    }
    case K_EXTEND:
    {
      int nnew = (int)c.nxnew.size();
      if (nnew < 1 || nd + nnew > 3 || (int)c.bots.size() != nnew || (int)c.tops.size() != nnew) { ctx.inconclusive("invalid-replay"); return; }
      std::vector<std::string> vn;
      std::vector<std::vector<double>> vv;
      VectorString tops, bots;
      for (int k = 0; k < nnew; k++)
      {
        if (!(c.tops[(size_t)k] > c.bots[(size_t)k]) || c.nxnew[(size_t)k] < 2 || c.nxnew[(size_t)k] > 16) { ctx.inconclusive("invalid-replay"); return; }
        std::vector<double> b, t;
        double mn = 1e300, mx = -1e300;
        for (int r = 0; r < Np; r++)
        {
          b.push_back(c.bots[(size_t)k] + 0.25 * (r % 3));
          t.push_back(c.tops[(size_t)k] + 0.5 * (r % 2));
          mn = std::min({mn, b.back(), t.back()});
          mx = std::max({mx, b.back(), t.back()});
        }
        newMin.push_back(mn); newMax.push_back(mx);
        vn.push_back("b" + std::to_string(k + 1)); vv.push_back(b); bots.push_back(vn.back());
        vn.push_back("t" + std::to_string(k + 1)); vv.push_back(t); tops.push_back(vn.back());
      }
      ctx.at("DbGrid::create");
      makeParent(vn, vv, true);
      if (!parent) { ctx.fail("dbgrid:create", "DbGrid::create returned nullptr"); return; }
      ctx.at(kn);
      child.reset(DbGrid::createFromGridExtend(*parent, tops, bots, VI(c.nxnew)));
      if (!takeChild()) return;
      if (cd != nd + nnew) { ctx.fail(kn + ":ndim", fmt("child dimension %d, expected %d", cd, nd + nnew)); return; }
      break;
    }
    case K_SHRINK:
    {
      std::vector<int> seen((size_t)nd, 0);
      for (int a : c.del)
      {
        if (a < 0 || a >= nd || seen[(size_t)a]) { ctx.inconclusive("invalid-replay"); return; }
        seen[(size_t)a] = 1;
      }
      for (int d = 0; d < nd; d++)
        if (!seen[(size_t)d]) kept.push_back(d);
      bool rotOk = !g.rotated() || (nd == 3 && g.ang[1] == 0. && g.ang[2] == 0. &&
                                    ((seen[2] && !seen[0] && !seen[1]) || (!seen[2] && seen[0] && seen[1])));
      if (kept.empty() || c.del.empty() || !rotOk) { ctx.inconclusive("invalid-replay"); return; }
      ctx.at("DbGrid::create");
      makeParent({}, {}, true);
      if (!parent) { ctx.fail("dbgrid:create", "DbGrid::create returned nullptr"); return; }
      ctx.at(kn);
      child.reset(DbGrid::createFromGridShrink(*parent, VI(c.del)));
      if (!takeChild()) return;
      if (cd != (int)kept.size()) { ctx.fail(kn + ":ndim", fmt("child dimension %d, expected %d", cd, (int)kept.size())); return; }
      break;
    }
    default: ctx.inconclusive("invalid-replay"); return;
  }

  // ---- node counts and meshes
  if ((int)cnx.size() != cd || (int)cdx.size() != cd || (int)cx0.size() != cd) { ctx.fail(kn + ":nx", "characteristics of the wrong dimension"); return; }
  std::string cp = usesFac && c.kind != K_GDILATE ? (cell ? ":cell" : ":point") : "";
  for (int d = 0; d < cd; d++)
  {
    int en = -1;
    double ed = -1;
    int n = d < nd ? g.nx[(size_t)d] : 0, m = d < nd ? c.fac[(size_t)d] : 1;
    double h = d < nd ? g.dx[(size_t)d] : 0.;
    switch (c.kind)
    {
      case K_GMULT: case K_COARSE: case K_MULTIPLE: en = cell ? n / m : 1 + (n - 1) / m; ed = h * m; break;
      case K_GDIV: case K_REFINE: case K_DIVIDER: en = cell ? n * m : 1 + (n - 1) * m; ed = h / m; break;
      case K_GDILATE: en = n + 2 * c.mode * m; ed = h; break;
      case K_SUB: en = cnx[(size_t)d]; ed = h; break; // the count convention of 'limits' is not documented: not asserted
      case K_EXTEND: en = d < nd ? n : c.nxnew[(size_t)(d - nd)]; ed = d < nd ? h : cdx[(size_t)d]; break;
      case K_SHRINK: en = g.nx[(size_t)kept[(size_t)d]]; ed = g.dx[(size_t)kept[(size_t)d]]; break;
    }
    if (cnx[(size_t)d] != en || cnx[(size_t)d] < 1)
    {
      ctx.fail(kn + cp + ":nx", fmt("%s: axis %d has %d nodes, expected %d (parent %d, factor %d)", kn.c_str(), d, cnx[(size_t)d], en, n, m));
      return;
    }
    if (!(std::fabs(cdx[(size_t)d] - ed) <= 1e-12 * ed) || !(cdx[(size_t)d] > 0))
    {
      ctx.fail(kn + cp + ":dx", fmt("%s: axis %d has mesh %.17g, expected %.17g", kn.c_str(), d, cdx[(size_t)d], ed));
      return;
    }
  }
  long tot = 1;
  for (int v : cnx) tot *= v;
  if (tot > 2000000) { ctx.inconclusive("child-too-large"); return; }

  // ---- node locations
  Geo ch(cd, cnx, cdx, cx0, cang);
  std::string key = kn + cp + ":pos:" + cls;
  auto mapFrac = [&](const std::vector<int>& I, LD* e) -> int {
    LD f[3] = {0, 0, 0};
    for (int d = 0; d < nd; d++)
    {
      LD i = I[(size_t)d], m = c.fac[(size_t)d];
      switch (c.kind)
      {
        case K_GMULT: case K_COARSE: case K_MULTIPLE: f[d] = cell ? i * m + (m - 1) / 2.L : i * m; break; // block centroid / node
        case K_GDIV: case K_REFINE: case K_DIVIDER: f[d] = cell ? (i + 0.5L) / m - 0.5L : i / m; break;   // sub-cell centre / node
        case K_GDILATE: f[d] = i - c.mode * m; break;
        case K_SUB: f[d] = i + c.lim0[(size_t)d]; break;
        case K_EXTEND: f[d] = i; break;
        default: break;
      }
    }
    par.world(f, e);
    return nd;
  };
  auto mapShrink = [&](const std::vector<int>& I, LD* e) -> int {
    std::vector<int> J((size_t)nd, 0);
    for (int j = 0; j < cd; j++) J[(size_t)kept[(size_t)j]] = I[(size_t)j];
    LD w[3];
    par.worldI(J, w);
    for (int j = 0; j < cd; j++) e[j] = w[kept[(size_t)j]];
    return cd;
  };
  bool ok = (c.kind == K_SHRINK) ? checkChildNodes(c, par, ch, mapShrink, ctx, key) : checkChildNodes(c, par, ch, mapFrac, ctx, key);
  if (!ok) return;

  // ---- kind-specific extras
  if (c.kind == K_SUB)
  {
    // the values copied into the child say which parent node each child node stands for
    ctx.at("createSubGrid:values");
    std::vector<double> v = SD(child->getColumn("v"));
    if ((long)v.size() != tot) { ctx.fail(kn + ":values", fmt("copied variable has %d values for %ld nodes", (int)v.size(), tot)); return; }
    for (int r = 0; r < (int)tot; r++)
    {
      std::vector<int> I = ch.indices(r), J(I);
      for (int d = 0; d < nd; d++) J[(size_t)d] += c.lim0[(size_t)d];
      if (v[(size_t)r] != par.rank(J) + 0.5)
      {
        ctx.fail(kn + ":values", fmt("child node %s carries %g, parent node %s carries %g", istr(I).c_str(), v[(size_t)r], istr(J).c_str(), par.rank(J) + 0.5));
        return;
      }
    }
  }
  if (c.kind == K_EXTEND)
  {
    // the new axes must stay within the [min,max] range of the top/bottom variables inflated by eps (default 1e-3)
    for (int k = 0; k < cd - nd; k++)
    {
      double delta = newMax[(size_t)k] - newMin[(size_t)k];
      double lo = cx0[(size_t)(nd + k)], hi = lo + (cnx[(size_t)(nd + k)] - 1) * cdx[(size_t)(nd + k)];
      if (!(lo >= newMin[(size_t)k] - delta * 1.001e-3) || !(hi <= newMax[(size_t)k] + delta * 1.001e-3) || !(hi > lo))
      {
        ctx.fail(kn + ":newaxis", fmt("new axis %d spans [%g,%g], top/bottom range is [%g,%g]", k, lo, hi, newMin[(size_t)k], newMax[(size_t)k]));
        return;
      }
    }
  }
  if (child)
  {
    // coordinates reported by the child data base are those of its geometry (spot check on the first and last node)
    ctx.at("child:getCoordinate");
    for (int r : {0, (int)tot - 1})
    {
      LD e[3];
      ch.worldI(ch.indices(r), e);
      for (int d = 0; d < cd; d++)
      {
        double v = child->getCoordinate(r, d);
        if (!(std::fabs((double)((LD)v - e[d])) <= ch.tol()))
        {
          ctx.fail(kn + ":child-coordinate", fmt("child node %d axis %d: getCoordinate %.17g, geometry %.17Lg", r, d, v, e[d]));
          return;
        }
      }
    }
  }
  ctx.nontrivial(nd >= 2 && g.obliqueRot() && g.nonCubic() && (!usesFac || nonUniform));
  Hash h;
  h.add(gridSig(g)).add(c.kind).add(c.flagCell).add(c.mode);
  for (int v : c.fac) h.add(v);
  ctx.sig = h.h;
}
VERIF_SUB(derived, DerCase, genDer, runDer);

// ====================================================================== 7. migrate grid -> points
struct MigCase
{
  GSpec g;
  std::vector<Probe> pts;
  int api = 0; // 0 migrate(), 1 migrateGridToCoor(), 2 migrateByAttribute()
  template<class A> void io(A& a) { a("g", g)("pts", pts)("api", api); }
};
static MigCase genMig()
{
  MigCase c;
  c.g = genGrid(10);
  int n = G::sz(1, 24);
  for (int k = 0; k < n; k++) c.pts.push_back(genProbe(c.g, 70));
  c.api = G::i(0, 2);
  return c;
}
static void runMig(const MigCase& c, Ctx& ctx)
{
  const GSpec& g = c.g;
  if (!g.valid() || c.pts.empty()) { ctx.inconclusive("invalid-replay"); return; }
  for (auto& p : c.pts)
    if (!probeOk(p, g.ndim)) { ctx.inconclusive("invalid-replay"); return; }
  commonLabels(g, ctx);
  ctx.label(fmt("api:%d", c.api));
  const int nd = g.ndim;
  defineDefaultSpace(ESpaceType::RN, (unsigned)nd);
  Geo o(g);
  const int N = o.ntotal();
  VectorDouble tab;
  for (int r = 0; r < N; r++) tab.push_back(r + 0.5); // a value that names the node
  ctx.at("DbGrid::create");
  std::unique_ptr<DbGrid> grid(DbGrid::create(VI(g.nx), VD(g.dx), VD(g.x0), VD(g.ang), ELoadBy::COLUMN, tab, VectorString({"v"}),
                                              VectorString({"z1"}), true, true));
  if (!grid) { ctx.fail("dbgrid:create", "DbGrid::create returned nullptr"); return; }
  const int np = (int)c.pts.size();
  // points: cell of node i in the convention used by the migration = [i, i+1) in the grid frame
  // (Grid::coordinateToRank with its default arguments, see the report: assumption)
  std::vector<std::vector<double>> P;
  std::vector<double> expect;
  std::vector<int> agree; // both cell conventions give the same node (offset < 1/2 on every axis)
  int nin = 0;
  for (auto& p : c.pts)
  {
    LD f[3] = {0, 0, 0}, e[3];
    bool ag = true;
    for (int d = 0; d < nd; d++)
    {
      f[d] = (LD)p.idx[(size_t)d] + (LD)p.off[(size_t)d];
      ag = ag && p.off[(size_t)d] < 0.5 - MARGIN;
    }
    o.world(f, e);
    std::vector<double> pt((size_t)nd);
    for (int d = 0; d < nd; d++) pt[(size_t)d] = (double)e[d];
    P.push_back(pt);
    int r = o.rank(p.idx);
    if (r >= 0) nin++;
    expect.push_back(r >= 0 ? r + 0.5 : TEST);
    agree.push_back(ag ? 1 : 0);
  }
  std::vector<double> got;
  if (c.api == 1)
  {
    ctx.at("migrateGridToCoor");
    VectorVectorDouble coords;
    for (int d = 0; d < nd; d++)
    {
      VectorDouble v;
      for (int k = 0; k < np; k++) v.push_back(P[(size_t)k][(size_t)d]);
      coords.push_back(v);
    }
    VectorDouble out((size_t)np, -12345.);
    int err = migrateGridToCoor(grid.get(), grid->getUID("v"), coords, out);
    if (err) { ctx.fail("gridToCoor:error", "migrateGridToCoor returned an error for matching dimensions"); return; }
    got = SD(out);
  }
  else
  {
    VectorDouble ptab;
    VectorString names, locs;
    for (int d = 0; d < nd; d++)
    {
      names.push_back("x" + std::to_string(d + 1));
      locs.push_back("x" + std::to_string(d + 1));
    }
    for (int k = 0; k < np; k++)
      for (int d = 0; d < nd; d++) ptab.push_back(P[(size_t)k][(size_t)d]);
    ctx.at("Db::createFromSamples");
    std::unique_ptr<Db> pts(Db::createFromSamples(np, ELoadBy::SAMPLE, ptab, names, locs, true));
    if (!pts || pts->getNDim() != nd) { ctx.fail("db:create", "Db::createFromSamples failed"); return; }
    int ncol0 = pts->getColumnNumber();
    ctx.at("migrate");
    int err;
    if (c.api == 0) err = migrate(grid.get(), pts.get(), "v", 1, VectorDouble(), false, false, false);
    else err = migrateByAttribute(grid.get(), pts.get(), VectorInt({grid->getUID("v")}), 1, VectorDouble(), false, false, false);
    if (err) { ctx.fail("migrate:error", "migrate(grid -> points) returned an error"); return; }
    if (pts->getColumnNumber() != ncol0 + 1) { ctx.fail("migrate:ncol", fmt("%d columns after migration, expected %d", pts->getColumnNumber(), ncol0 + 1)); return; }
    got = SD(pts->getColumnByColIdx(ncol0));
  }
  if ((int)got.size() != np) { ctx.fail("migrate:size", fmt("%d values for %d points", (int)got.size(), np)); return; }
  for (int k = 0; k < np; k++)
  {
    if (got[(size_t)k] == expect[(size_t)k]) continue;
    const Probe& p = c.pts[(size_t)k];
    std::string what = fmt("point %d %s built in cell %s offset %s: migrated value %g, expected %g (value r+0.5 names node r; 1.234e30 = undefined)", k,
                           dstr(P[(size_t)k]).c_str(), istr(p.idx).c_str(), dstr(p.off).c_str(), got[(size_t)k], expect[(size_t)k]);
    std::string api = c.api == 1 ? "gridToCoor" : "migrate";
    if (expect[(size_t)k] == TEST) ctx.fail(api + ":outside", what);
    else ctx.fail(api + (agree[(size_t)k] ? ":value" : ":value:upper-half"), what);
    return;
  }
  if (nin) ctx.label("pts:inside");
  if (nin < np) ctx.label("pts:outside");
  ctx.nontrivial(gridNT(g) && nin > 0);
  ctx.sig = Hash().add(gridSig(g)).add(np).add(nin).add(c.api).h;
}
VERIF_SUB(migrate_g2p, MigCase, genMig, runMig);

VERIF_MAIN()
