// C10 — results depend only on the arguments, not on what was called before; copies are independent;
// incrementally updated objects answer as freshly built ones.  DESIGN.md §5 C10.
//
//  history      a *program* = construction slice + generated noise + observed call.  The harness forks
//               twice: child A runs construction + observed call (a fresh process: the parent never
//               calls the library), child B runs construction + noise + observed call.  The results
//               come back through a pipe as text and are compared (integers / strings exactly,
//               floating point 1e-9 relative to the magnitude of the result).
//  copies       copy (ctor, operator=, clone) of Db, DbGrid, Model, ACovAnisoList, CovAniso, DriftList,
//               NeighMoving (+ checkers), Vario, VarioParam, matrices; mutate one side; the other
//               side's getters are unchanged; destroy either side and keep using the other.
//  vectort      VectorT / VectorNumT against one std::vector per handle.
//  krigcalc     KrigingCalcul after a sequence of set*/get* calls == a new object given the final inputs.
//  modelinc     Model after addCov/delCova/... sequences == a freshly built Model.
#include "verif.hpp"
#include "geo_common.hpp"
#include "krig_common.hpp"

#include "Db/Db.hpp"
#include "Db/DbGrid.hpp"
#include "Model/Model.hpp"
#include "Covariances/CovAniso.hpp"
#include "Covariances/ACovAnisoList.hpp"
#include "Covariances/CovContext.hpp"
#include "Drifts/DriftList.hpp"
#include "Drifts/DriftM.hpp"
#include "Neigh/NeighMoving.hpp"
#include "Neigh/NeighUnique.hpp"
#include "Geometry/BiTargetCheckBench.hpp"
#include "Geometry/BiTargetCheckCode.hpp"
#include "Geometry/BiTargetCheckDate.hpp"
#include "Geometry/BiTargetCheckDistance.hpp"
#include "Variogram/Vario.hpp"
#include "Variogram/VarioParam.hpp"
#include "Variogram/DirParam.hpp"
#include "Estimation/CalcKriging.hpp"
#include "Estimation/KrigingCalcul.hpp"
#include "Simulation/CalcSimuTurningBands.hpp"
#include "Calculators/CalcMigrate.hpp"
#include "Stats/Classical.hpp"
#include "Matrix/Table.hpp"
#include "Matrix/MatrixRectangular.hpp"
#include "Matrix/MatrixSquareGeneral.hpp"
#include "Matrix/MatrixSquareSymmetric.hpp"
#include "Matrix/MatrixSparse.hpp"
#include "Matrix/NF_Triplet.hpp"
#include "Space/ASpaceObject.hpp"
#include "Basic/Law.hpp"
#include "Basic/OptDbg.hpp"
#include "Basic/OptCst.hpp"
#include "Basic/OptCustom.hpp"
#include "Basic/VectorHelper.hpp"
#include "Basic/VectorNumT.hpp"
#include "Enum/ECov.hpp"
#include "Enum/EStatOption.hpp"
#include "Enum/ECalcVario.hpp"
#include "Enum/EKrigOpt.hpp"
#include "geoslib_define.h"

#include <memory>
#include <algorithm>
#include <sys/wait.h>
#include <signal.h>

using namespace vf;

static const double kL = 100.; // size of the box holding every generated point set

// ===================================================================== specifications =====
struct DbSpec
{
  vfgeo::Points pts;
  int nvar = 1;
  std::vector<double> z; // z[i*nvar+v], TEST = undefined
  int hasSel = 0;
  std::vector<int> sel;
  template<class A> void io(A& a) { a("pts", pts)("nvar", nvar)("z", z)("hasSel", hasSel)("sel", sel); }
};
static DbSpec genDbSpec(const vfgeo::Points& pts, int nvar, int naPct, bool mayHaveSel)
{
  DbSpec s;
  s.pts = pts;
  s.nvar = nvar;
  int n = pts.n();
  for (int i = 0; i < n * nvar; i++) s.z.push_back(G::pct(naPct) ? TEST : G::r(-20, 20, 8));
  // at least 3 fully defined samples (kriging / variograms need some data)
  for (int i = 0; i < std::min(n, 3); i++)
    for (int v = 0; v < nvar; v++)
      if (s.z[(size_t)(i * nvar + v)] == TEST) s.z[(size_t)(i * nvar + v)] = (double)(i + v) - 0.5;
  s.hasSel = (mayHaveSel && G::pct(25)) ? 1 : 0;
  if (s.hasSel)
    for (int i = 0; i < n; i++) s.sel.push_back((i < 3 || G::pct(75)) ? 1 : 0);
  return s;
}
static VectorDouble colOf(const vfgeo::Points& p, int d)
{
  VectorDouble v;
  for (int i = 0; i < p.n(); i++) v.push_back(p.at(i, d));
  return v;
}
// zmode: 0 as given, 1 every value undefined, 2 no Z locator
static std::unique_ptr<Db> buildDb(const DbSpec& s, int zmode = 0)
{
  std::unique_ptr<Db> db(Db::create());
  int n = s.pts.n();
  for (int d = 0; d < s.pts.ndim; d++) db->addColumns(colOf(s.pts, d), "x" + std::to_string(d + 1), ELoc::X, d);
  for (int v = 0; v < s.nvar; v++)
  {
    VectorDouble z;
    for (int i = 0; i < n; i++) z.push_back(zmode == 1 ? TEST : s.z[(size_t)(i * s.nvar + v)]);
    db->addColumns(z, "z" + std::to_string(v + 1), zmode == 2 ? ELoc::UNKNOWN : ELoc::Z, v);
  }
  if (s.hasSel)
  {
    VectorDouble t;
    for (int i = 0; i < n; i++) t.push_back((double)s.sel[(size_t)i]);
    db->addColumns(t, "sel", ELoc::SEL, 0);
  }
  return db;
}

struct GridSpec
{
  std::vector<int> nx;
  std::vector<double> dx, x0;
  double angle = 0;
  template<class A> void io(A& a) { a("nx", nx)("dx", dx)("x0", x0)("angle", angle); }
};
static GridSpec genGridSpec(int ndim, const std::vector<double>& origin)
{
  GridSpec g;
  int maxn = ndim == 1 ? 12 : (ndim == 2 ? 5 : 3);
  for (int d = 0; d < ndim; d++)
  {
    g.nx.push_back(G::i(2, maxn));
    g.dx.push_back(G::r(1, 40, 4) * kL / 100.);
    g.x0.push_back(origin[(size_t)d] + G::r(0, 40, 4) + 0.137); // never on a data location
  }
  g.angle = (ndim >= 2 && G::pct(30)) ? G::r(-90, 90, 1) : 0.;
  return g;
}
static std::unique_ptr<DbGrid> buildGrid(const GridSpec& g)
{
  VectorDouble ang;
  if (g.angle != 0)
  {
    ang.resize(g.nx.size(), 0.);
    ang[0] = g.angle;
  }
  return std::unique_ptr<DbGrid>(DbGrid::create(VectorInt(g.nx.begin(), g.nx.end()), VectorDouble(g.dx.begin(), g.dx.end()),
                                                VectorDouble(g.x0.begin(), g.x0.end()), ang));
}

static const ECov& covType(int t)
{
  switch (t)
  {
    case 0: return ECov::NUGGET;
    case 1: return ECov::SPHERICAL;
    case 2: return ECov::EXPONENTIAL;
    case 3: return ECov::CUBIC;
    case 4: return ECov::MATERN;
    default: return ECov::GAUSSIAN;
  }
}
struct CovSpec
{
  int type = 1;
  std::vector<double> ranges;
  double angle = 0;
  std::vector<double> sill; // nvar*nvar
  double param = 1;
  template<class A> void io(A& a) { a("type", type)("ranges", ranges)("angle", angle)("sill", sill)("param", param); }
};
struct ModelSpec
{
  int ndim = 2, nvar = 1;
  std::vector<CovSpec> covs;
  int drift = -1; // -1: known means, 0/1: order of the IRF
  std::vector<double> means;
  template<class A> void io(A& a) { a("ndim", ndim)("nvar", nvar)("covs", covs)("drift", drift)("means", means); }
};
static CovSpec genCovSpec(int ndim, int nvar, bool allowGauss)
{
  CovSpec c;
  c.type = G::i(0, allowGauss ? 5 : 4);
  bool iso = G::pct(40);
  double r0 = G::r(5, 200, 2) * kL / 100.;
  for (int d = 0; d < ndim; d++) c.ranges.push_back((iso || d == 0) ? r0 : G::r(5, 200, 2) * kL / 100.);
  c.angle = (ndim >= 2 && !iso) ? G::r(-180, 180, 1) : 0.;
  c.param = (c.type == 4) ? G::pick<double>({0.5, 1., 1.5}) : 1.;
  // sill = A A' + eps I
  std::vector<double> A;
  for (int k = 0; k < nvar * nvar; k++) A.push_back(G::r(-2, 2, 4));
  double eps = G::pick<double>({0.25, 1.});
  for (int i = 0; i < nvar; i++)
    for (int j = 0; j < nvar; j++)
    {
      double v = (i == j) ? eps : 0.;
      for (int k = 0; k < nvar; k++) v += A[(size_t)(i * nvar + k)] * A[(size_t)(j * nvar + k)];
      c.sill.push_back(v);
    }
  return c;
}
static ModelSpec genModelSpec(int ndim, int nvar, bool allowGauss = false)
{
  ModelSpec m;
  m.ndim = ndim;
  m.nvar = nvar;
  int nc = G::i(1, 3);
  for (int k = 0; k < nc; k++) m.covs.push_back(genCovSpec(ndim, nvar, allowGauss));
  m.drift = G::pick<int>({-1, 0, 0, 1});
  for (int v = 0; v < nvar; v++) m.means.push_back(G::r(-3, 3, 2));
  return m;
}
static void addCovTo(Model* m, const CovSpec& c, int ndim)
{
  VectorDouble sills(c.sill.begin(), c.sill.end());
  if (c.type == 0)
  {
    m->addCovFromParam(ECov::NUGGET, 0., 0., 1., VectorDouble(), sills);
    return;
  }
  VectorDouble ranges(c.ranges.begin(), c.ranges.end());
  VectorDouble angles;
  if (ndim >= 2)
  {
    angles.resize((size_t)ndim, 0.);
    angles[0] = c.angle;
  }
  m->addCovFromParam(covType(c.type), 0., 0., c.param, ranges, sills, angles, true);
}
static std::unique_ptr<Model> buildModel(const ModelSpec& s)
{
  std::unique_ptr<Model> m(Model::createFromEnvironment(s.nvar, s.ndim));
  for (auto& c : s.covs) addCovTo(m.get(), c, s.ndim);
  if (s.drift >= 0)
    m->setDriftIRF(s.drift);
  else
    m->setMeans(VectorDouble(s.means.begin(), s.means.end()));
  return m;
}

struct NeighSpec
{
  int moving = 0, nmaxi = 8, nmini = 1, nsect = 1;
  double radius = 50;
  template<class A> void io(A& a) { a("moving", moving)("nmaxi", nmaxi)("nmini", nmini)("nsect", nsect)("radius", radius); }
};
static NeighSpec genNeighSpec(int ndim)
{
  NeighSpec n;
  n.moving = G::pct(60) ? 1 : 0;
  n.nmaxi = G::i(6, 12);
  n.nmini = G::i(1, 3);
  n.nsect = (ndim >= 2 && G::pct(30)) ? G::pick<int>({2, 4}) : 1;
  n.radius = G::pick<double>({0.31, 0.57, 1.13, 5.}) * kL;
  return n;
}
// The anisotropy coefficients are always given: without them the distance checker of the library is 2-D whatever the
// space (finding of C06, agents/C06/nocoeff-1d-overflow.case), which is not the subject here.
static std::unique_ptr<ANeigh> buildNeigh(const NeighSpec& n, int ndim)
{
  if (!n.moving) return std::unique_ptr<ANeigh>(NeighUnique::create());
  return std::unique_ptr<ANeigh>(NeighMoving::create(false, n.nmaxi, n.radius, n.nmini, n.nsect, n.nmaxi, VectorDouble((size_t)ndim, 1.)));
}

struct VarioSpec
{
  int nlag = 5, ndir = 1;
  double dlag = 10, toldis = 0.5, angref = 0;
  template<class A> void io(A& a) { a("nlag", nlag)("ndir", ndir)("dlag", dlag)("toldis", toldis)("angref", angref); }
};
static VarioSpec genVarioSpec(int ndim)
{
  VarioSpec v;
  v.nlag = G::i(2, 7);
  v.ndir = (ndim == 2) ? G::i(1, 3) : 1;
  v.dlag = G::r(4, 30, 2) * kL / 100.;
  v.toldis = G::pick<double>({0.5, 0.3});
  v.angref = G::r(0, 90, 1);
  return v;
}
static std::unique_ptr<VarioParam> buildVarioParam(const VarioSpec& v, int ndim)
{
  if (ndim == 2 && v.ndir > 1) return std::unique_ptr<VarioParam>(VarioParam::createMultiple(v.ndir, v.nlag, v.dlag, v.toldis, v.angref));
  return std::unique_ptr<VarioParam>(VarioParam::createOmniDirection(v.nlag, v.dlag, v.toldis));
}

// ===================================================================== digests ============
// Text image of the public state of an object, built from getters only.
static void put(std::string& s, double v)
{
  char b[40];
  snprintf(b, sizeof b, "%.17g ", v);
  s += b;
}
static void put(std::string& s, const VectorDouble& v)
{
  s += "[" + std::to_string(v.size()) + ": ";
  for (double x : v.getVector()) put(s, x);
  s += "] ";
}
static void put(std::string& s, const VectorInt& v)
{
  s += "[" + std::to_string(v.size()) + ": ";
  for (int x : v.getVector()) s += std::to_string(x) + " ";
  s += "] ";
}
static std::string serDb(const Db* db)
{
  std::string s = "Db ncol=" + std::to_string(db->getColumnNumber()) + " nech=" + std::to_string(db->getSampleNumber()) + "\n";
  for (int ic = 0; ic < db->getColumnNumber(); ic++)
  {
    ELoc loc = ELoc::UNKNOWN;
    int item = -1;
    bool has = db->getLocatorByColIdx(ic, &loc, &item);
    s += db->getNameByColIdx(ic) + " " + (has ? std::string(loc.getKey()) + std::to_string(item) : std::string("-")) + " ";
    put(s, db->getColumnByColIdx(ic, false, false));
    s += "\n";
  }
  const DbGrid* g = dynamic_cast<const DbGrid*>(db);
  if (g != nullptr)
  {
    s += "grid ";
    put(s, g->getNXs());
    put(s, g->getDXs());
    put(s, g->getX0s());
    put(s, g->getAngles());
    s += "\n";
  }
  return s;
}
static std::string serCov(const CovAniso* c)
{
  std::string s = std::string(c->getType().getKey()) + " ";
  if (c->hasRange()) { put(s, c->getRanges()); put(s, c->getAnisoAngles()); }
  if (c->hasParam()) put(s, c->getParam());
  put(s, c->getSill().getValues());
  return s;
}
static std::string serCovList(const ACovAnisoList* l)
{
  std::string s = "ncov=" + std::to_string(l->getCovaNumber()) + "\n";
  for (int i = 0; i < l->getCovaNumber(); i++) s += serCov(l->getCova(i)) + (l->isFiltered(i) ? " F" : "") + "\n";
  return s;
}
static std::string serDrifts(const DriftList* d)
{
  if (d == nullptr) return "nodrift\n";
  std::string s = "ndrift=" + std::to_string(d->getDriftNumber()) + " ";
  for (int i = 0; i < d->getDriftNumber(); i++) s += d->getDrift(i)->getDriftName() + (d->isFiltered(i) ? "(F) " : " ");
  return s + "\n";
}
static std::string serModel(const Model* m)
{
  std::string s = "Model nvar=" + std::to_string(m->getVariableNumber()) + " ndim=" + std::to_string(m->getDimensionNumber()) + "\n";
  s += serCovList(m->getCovAnisoList());
  s += serDrifts(m->getDriftList());
  s += "means ";
  put(s, m->getMeans());
  return s + "\n";
}
static std::string serNeigh(const ANeigh* a)
{
  const NeighMoving* n = dynamic_cast<const NeighMoving*>(a);
  if (n == nullptr) return "unique\n";
  std::string s = "moving " + std::to_string(n->getNMaxi()) + " " + std::to_string(n->getNMini()) + " " + std::to_string(n->getNSect()) + " " +
                  std::to_string(n->getNSMax()) + " ";
  put(s, n->getRadius());
  put(s, n->getDistCont());
  put(s, n->getAnisoCoeffs());
  s += "nchk=" + std::to_string((int)n->getBipts().size()) + " ";
  for (auto* b : n->getBipts()) s += b->toString();
  return s + "\n";
}
static std::string serVarioParam(const VarioParam* v)
{
  std::string s = "VarioParam ndir=" + std::to_string(v->getDirectionNumber()) + " ";
  put(s, v->getScale());
  put(s, v->getDates());
  for (int i = 0; i < v->getDirectionNumber(); i++)
  {
    const DirParam& d = v->getDirParam(i);
    s += "\n dir " + std::to_string(d.getLagNumber()) + " ";
    put(s, d.getDPas());
    put(s, d.getTolDist());
    put(s, d.getTolAngle());
    put(s, d.getCodirs());
  }
  return s + "\n";
}
static std::string serVario(const Vario* v)
{
  std::string s = "Vario nvar=" + std::to_string(v->getVariableNumber()) + " ";
  s += serVarioParam(&v->getVarioParam());
  put(s, v->getVars());
  for (int i = 0; i < v->getDirectionNumber(); i++)
  {
    s += "\n d" + std::to_string(i) + " ";
    put(s, v->getAllGg(i));
    put(s, v->getAllHh(i));
    put(s, v->getAllSw(i));
  }
  return s + "\n";
}
static std::string serMat(const AMatrix* m)
{
  std::string s = "Mat " + std::to_string(m->getNRows()) + "x" + std::to_string(m->getNCols()) + " ";
  for (int i = 0; i < m->getNRows(); i++)
    for (int j = 0; j < m->getNCols(); j++) put(s, m->getValue(i, j));
  return s + "\n";
}

// ===================================================================== sub: history =======
enum CallKind
{
  K_COV = 0,    // a: variant (0 plain, 1 optim, 2 symmetric, 3 symmetric optim); b,c: Dbs; d,e: ivar0/jvar0; i1,i2: nbgh
  K_KRIG,       // a: dbin; b: dbout; c: flag_std
  K_XVALID,     // a: db
  K_SIMTUB,     // a: 0 non conditional, else dbin; b: dbout; c: nbsimu; d: nbtuba; seed
  K_VARIO,      // a: db; b: calcul
  K_MIGRATE,    // a: dbin; b: dbout; c: dist_type; d: flag_fill
  K_STATS,      // a: db; b: flagIso
  K_BOX,        // a: nech; seed
  K_SELECT,     // a: dbin; b: dbout; i1: targets
  K_SAMPLE,     // a: ntotal; b: number; c: sort; seed
  K_NOBS,       // ---- the kinds below only appear as noise
  K_FAILCOV = K_NOBS, // a: variant; b: 0 all-NA Db, 1 nbgh made of undefined samples, 2 variable rank out of range; d: model
  K_FAILKRIG,   // a: 0 no Z locator, 1 all-NA, 2 duplicated samples (singular), 3 model of another dimension, 4 model without structure
  K_FAILMISC,   // a: 0 variogram without variable, 1 migrate unknown name, 2 statistics of unknown names, 3 simtub without model, 4 xvalid all-NA
  K_LAW,        // a: 0 uniform draws (generator as it is), 1 reseed + gaussian draws, 2 reseed, 3 new-style generator used and switched back; b: count
  K_GLOBAL,     // a: switch; nested successful call described by (b,c,d,e,seed,i1)
  K_CREATE,     // a: what is created and destroyed
  K_CONST,      // a: family of logically-const calls on the shared objects
  K_NEIGHMUT,   // neighbourhood parameter changed, used, restored
  K_NKINDS
};
static const char* kindName(int k)
{
  static const char* n[] = {"cov", "krig", "xvalid", "simtub", "vario", "migrate", "stats", "box", "select", "sample",
                            "failcov", "failkrig", "failmisc", "law", "global", "create", "const", "neighmut"};
  return (k >= 0 && k < K_NKINDS) ? n[k] : "?";
}
struct Call
{
  int kind = 0, a = 0, b = 0, c = 0, d = 0, e = 0, seed = 1;
  std::vector<int> i1, i2;
  template<class A> void io(A& ar) { ar("kind", kind)("a", a)("b", b)("c", c)("d", d)("e", e)("seed", seed)("i1", i1)("i2", i2); }
};
static std::string callName(const Call& c)
{
  std::string s = kindName(c.kind);
  if (c.kind == K_COV || c.kind == K_FAILCOV) s += std::string(":") + (const char*[]){"plain", "optim", "sym", "symoptim"}[c.a & 3];
  if (c.kind == K_FAILCOV) s += std::string(":") + (const char*[]){"allna", "nbghna", "badvar"}[c.b % 3];
  if (c.kind == K_FAILKRIG) s += std::string(":") + (const char*[]){"noz", "allna", "dup", "baddim", "nocov"}[c.a % 5];
  if (c.kind == K_FAILMISC) s += std::string(":") + (const char*[]){"vario", "migrate", "stats", "simtub", "xvalid"}[c.a % 5];
  if (c.kind == K_LAW) s += std::string(":") + (const char*[]){"uniform", "gaussian", "reseed", "newstyle"}[c.a & 3];
  if (c.kind == K_GLOBAL) s += std::string(":") + (const char*[]){"optdbg", "dbgref", "optcst", "optcustom", "eigen", "space", "newstyle", "dbgall"}[c.a & 7];
  return s;
}

struct HistCase
{
  int ndim = 2, nvar = 1;
  DbSpec d1, d2;
  vfgeo::Points targ;
  GridSpec grid;
  ModelSpec m1, m2;
  NeighSpec ng;
  VarioSpec vp;
  Call obs;
  std::vector<Call> noise;
  template<class A> void io(A& a)
  {
    a("ndim", ndim)("nvar", nvar)("d1", d1)("d2", d2)("targ", targ)("grid", grid)("m1", m1)("m2", m2)("ng", ng)("vp", vp)("obs", obs)("noise", noise);
  }
};

static Call genCall(bool noise, int forcedKind = -1)
{
  Call c;
  if (forcedKind >= 0)
    c.kind = forcedKind;
  else if (!noise)
    c.kind = G::pick<int>({K_COV, K_COV, K_COV, K_KRIG, K_KRIG, K_XVALID, K_SIMTUB, K_SIMTUB, K_VARIO, K_MIGRATE, K_STATS, K_BOX, K_SELECT, K_SELECT, K_SAMPLE});
  else
    c.kind = G::pick<int>({K_COV, K_COV, K_KRIG, K_XVALID, K_SIMTUB, K_VARIO, K_MIGRATE, K_STATS, K_BOX, K_SELECT, K_SAMPLE, K_FAILCOV, K_FAILCOV,
                           K_FAILCOV, K_FAILKRIG, K_FAILKRIG, K_FAILMISC, K_LAW, K_LAW, K_GLOBAL, K_GLOBAL, K_CREATE, K_CONST, K_NEIGHMUT});
  c.a = G::i(0, 11);
  c.b = G::i(0, 11);
  c.c = G::i(0, 11);
  c.d = G::i(0, 11);
  c.e = G::i(0, 11);
  c.seed = G::seed();
  bool sel = (c.kind == K_SELECT || c.kind == K_NEIGHMUT);
  if (G::pct(40) || sel)
  {
    int n = G::i(1, sel ? 3 : 5);
    for (int k = 0; k < n; k++) c.i1.push_back(sel ? G::i(0, 5) : G::i(0, 999));
  }
  if (G::pct(30))
  {
    int n = G::i(1, 5);
    for (int k = 0; k < n; k++) c.i2.push_back(G::i(0, 999));
  }
  return c;
}
// a noise call that touches what the observed call depends on (same model cache, same neighbourhood memo, the random generator...)
static Call genRelatedNoise(const Call& obs)
{
  int k;
  switch (obs.kind)
  {
    case K_COV: k = G::pick<int>({K_COV, K_COV, K_COV, K_FAILCOV, K_FAILCOV, K_KRIG, K_GLOBAL}); break;
    case K_KRIG:
    case K_XVALID: k = G::pick<int>({K_COV, K_FAILCOV, K_FAILKRIG, K_SELECT, K_NEIGHMUT, K_KRIG, K_XVALID, K_SIMTUB, K_GLOBAL}); break;
    case K_SIMTUB: k = G::pick<int>({K_LAW, K_LAW, K_BOX, K_SAMPLE, K_SIMTUB, K_CREATE, K_SELECT, K_FAILKRIG, K_GLOBAL}); break;
    case K_BOX:
    case K_SAMPLE: k = G::pick<int>({K_LAW, K_LAW, K_BOX, K_SAMPLE, K_SIMTUB, K_CREATE, K_GLOBAL}); break;
    case K_SELECT: k = G::pick<int>({K_SELECT, K_SELECT, K_SELECT, K_KRIG, K_XVALID, K_SIMTUB, K_NEIGHMUT, K_NEIGHMUT, K_FAILKRIG, K_GLOBAL}); break;
    default: k = G::pick<int>({obs.kind, obs.kind, K_FAILMISC, K_CONST, K_GLOBAL}); break;
  }
  Call c = genCall(true, k);
  if (k == K_COV || k == K_FAILCOV)
  {
    c.a = G::pick<int>({0, 1, 1, 3, 3, 2}); // mostly the accelerated variants
    c.e &= ~4;                              // the model of the observed call
    c.d &= ~1;
  }
  if (k == K_GLOBAL) c.b = obs.kind; // the nested call has the kind of the observed one
  if ((k == K_SELECT || k == K_NEIGHMUT) && G::pct(50)) c.i1 = obs.i1;
  if (k == obs.kind && G::pct(30)) { c.a = obs.a; c.b = obs.b; }
  return c;
}
static HistCase genHist()
{
  HistCase c;
  c.ndim = G::pick<int>({1, 2, 2, 2, 3});
  c.nvar = G::pick<int>({1, 1, 2});
  int n1 = G::sz(4, 14), n2 = G::sz(3, 10), n3 = G::sz(1, 8);
  vfgeo::Lattice lat;
  auto sets = vfgeo::genPointSets(c.ndim, {n1, n2, n3}, G::pct(30), true, kL, &lat);
  int na = G::pick<int>({0, 0, 15});
  c.d1 = genDbSpec(sets[0], c.nvar, na, true);
  c.d2 = genDbSpec(sets[1], c.nvar, na, true);
  c.targ = sets[2];
  c.grid = genGridSpec(c.ndim, lat.origin);
  c.m1 = genModelSpec(c.ndim, c.nvar);
  c.m2 = genModelSpec(c.ndim, c.nvar);
  c.ng = genNeighSpec(c.ndim);
  c.vp = genVarioSpec(c.ndim);
  c.obs = genCall(false);
  int nn = G::sz(1, 6);
  for (int k = 0; k < nn; k++) c.noise.push_back(G::pct(50) ? genRelatedNoise(c.obs) : genCall(true));
  return c;
}

struct World
{
  int ndim = 2, nvar = 1;
  std::unique_ptr<Db> db1, db2, dbT, dbNA, dbNoZ, dbDup;
  std::unique_ptr<DbGrid> grid;
  std::unique_ptr<Model> m1, m2, mBadDim, mEmpty;
  std::unique_ptr<ANeigh> ng;
  std::unique_ptr<VarioParam> vp;
};
static void buildWorld(const HistCase& c, World& w)
{
  defineDefaultSpace(ESpaceType::RN, (unsigned)c.ndim);
  w.ndim = c.ndim;
  w.nvar = c.nvar;
  w.db1 = buildDb(c.d1);
  w.db2 = buildDb(c.d2);
  DbSpec t;
  t.pts = c.targ;
  t.nvar = 0;
  w.dbT = buildDb(t);
  w.dbNA = buildDb(c.d1, 1);
  w.dbNoZ = buildDb(c.d1, 2);
  {
    // the data of d1 with its first sample repeated: singular kriging systems in unique neighbourhood
    DbSpec dup = c.d1;
    for (int d = 0; d < c.ndim; d++) dup.pts.c.push_back(c.d1.pts.at(0, d));
    for (int v = 0; v < c.nvar; v++) dup.z.push_back(c.d1.z[(size_t)v]);
    if (dup.hasSel) dup.sel.push_back(1);
    w.dbDup = buildDb(dup);
  }
  w.grid = buildGrid(c.grid);
  w.m1 = buildModel(c.m1);
  w.m2 = buildModel(c.m2);
  {
    ModelSpec bad;
    bad.ndim = (c.ndim == 2) ? 3 : 2;
    bad.nvar = c.nvar;
    CovSpec cs;
    cs.type = 1;
    cs.ranges.assign((size_t)bad.ndim, 30.);
    for (int i = 0; i < c.nvar; i++)
      for (int j = 0; j < c.nvar; j++) cs.sill.push_back(i == j ? 1. : 0.);
    bad.covs.push_back(cs);
    bad.drift = 0;
    w.mBadDim = buildModel(bad);
    w.mEmpty.reset(Model::createFromEnvironment(c.nvar, c.ndim));
  }
  w.ng = buildNeigh(c.ng, c.ndim);
  w.vp = buildVarioParam(c.vp, c.ndim);
}
// public state of everything an observed call can take as argument
static std::string worldDigest(const World& w)
{
  return serDb(w.db1.get()) + serDb(w.db2.get()) + serDb(w.dbT.get()) + serDb(w.grid.get()) + serModel(w.m1.get()) + serModel(w.m2.get()) +
         serNeigh(w.ng.get()) + serVarioParam(w.vp.get());
}

struct Out
{
  int status = -1;       // 0 completed, 1 the library called its exit function, 2 exception
  int noiseThrew = 0;    // an exception crossed a noise call (the library may be left in any state)
  std::string err;
  std::vector<long> iv;
  std::vector<double> dv;
  std::string txt;
  long digest = 0;
  std::string tag;       // outcome class of a noise call (not compared)
  template<class A> void io(A& a) { a("status", status)("noiseThrew", noiseThrew)("err", err)("iv", iv)("dv", dv)("txt", txt)("digest", digest); }
};
static void outMat(Out& o, const AMatrix& m)
{
  o.iv.push_back(m.getNRows());
  o.iv.push_back(m.getNCols());
  for (int i = 0; i < m.getNRows(); i++)
    for (int j = 0; j < m.getNCols(); j++) o.dv.push_back(m.getValue(i, j));
}
static void outNewColumns(Out& o, const Db* db, int ncolBefore)
{
  o.iv.push_back(db->getColumnNumber() - ncolBefore);
  for (int ic = ncolBefore; ic < db->getColumnNumber(); ic++)
  {
    o.txt += db->getNameByColIdx(ic) + ";";
    VectorDouble v = db->getColumnByColIdx(ic, false, false);
    for (double x : v.getVector()) o.dv.push_back(x);
  }
}
static Db* dataDb(World& w, int k) { return (k & 1) ? w.db2.get() : w.db1.get(); }
static Db* targetDb(World& w, int k) { return (k & 1) ? (Db*)w.grid.get() : w.dbT.get(); }
static Db* anyDb(World& w, int k)
{
  switch (k & 3)
  {
    case 0: return w.db1.get();
    case 1: return w.db2.get();
    case 2: return w.dbT.get();
    default: return w.grid.get();
  }
}
// distinct sample ranks of 'db' from raw integers (empty = no restriction)
static VectorInt ranksOf(const std::vector<int>& raw, const Db* db)
{
  VectorInt r;
  int n = db->getSampleNumber();
  for (int x : raw)
  {
    int k = x % n;
    if (std::find(r.getVector().begin(), r.getVector().end(), k) == r.getVector().end()) r.push_back(k);
  }
  return r;
}
static int varRank(int k, int nvar) { return (k % (nvar + 1)) - 1; } // -1 (all) .. nvar-1

static void runCall(World& w, const Call& c, Out& o, bool noise);

// the call executed while a global switch is set
static Call nestedOf(const Call& c)
{
  Call n;
  n.kind = c.b % K_NOBS;
  n.a = c.c;
  n.b = c.d;
  n.c = c.e;
  n.d = c.c + c.d;
  n.e = c.e + 1;
  n.seed = c.seed;
  n.i1 = c.i1;
  n.i2 = c.i2;
  if (n.kind == K_SELECT && n.i1.empty()) n.i1.push_back(c.e);
  return n;
}
static void runGlobal(World& w, const Call& c, Out& dummy)
{
  Call n = nestedOf(c);
  switch (c.a & 7)
  {
    case 0:
    {
      const EDbg& f = EDbg::fromValue(c.d % 15);
      OptDbg::define(f);
      runCall(w, n, dummy, true);
      OptDbg::undefine(f);
      break;
    }
    case 1:
      OptDbg::setReference(1 + c.d % 5);
      runCall(w, n, dummy, true);
      OptDbg::setReference(-1);
      break;
    case 2:
    {
      const ECst& k = ECst::fromValue(1 + c.d % 9);
      double old = OptCst::query(k);
      OptCst::define(k, (double)(1 + c.e % 7));
      runCall(w, n, dummy, true);
      OptCst::define(k, old);
      break;
    }
    case 3:
      OptCustom::define("verif_c10", (double)c.d);
      runCall(w, n, dummy, true);
      OptCustom::undefine("verif_c10");
      break;
    case 4:
    {
      bool old = isGlobalFlagEigen();
      setGlobalFlagEigen(!old);
      runCall(w, n, dummy, true);
      setGlobalFlagEigen(old);
      break;
    }
    case 5:
      // the default space is changed while *other* objects are created and destroyed, then restored
      defineDefaultSpace(ESpaceType::RN, (unsigned)(w.ndim == 3 ? 2 : w.ndim + 1));
      {
        std::unique_ptr<Model> m(Model::createFromParam(ECov::SPHERICAL, 10., 2.));
        std::unique_ptr<NeighMoving> nm(NeighMoving::create(false, 5, 10., 1, 1, 5, VectorDouble((size_t)getDefaultSpaceDimension(), 1.)));
        (void)m->toString();
      }
      defineDefaultSpace(ESpaceType::RN, (unsigned)w.ndim);
      break;
    case 6:
      law_set_old_style(false);
      runCall(w, n, dummy, true);
      law_set_old_style(true);
      break;
    default:
      OptDbg::defineAll();
      runCall(w, n, dummy, true);
      OptDbg::undefineAll();
      break;
  }
}

static void runCall(World& w, const Call& c, Out& o, bool noise)
{
  const int nvar = w.nvar;
  switch (c.kind)
  {
    case K_COV:
    {
      Model* m = (noise && (c.e & 4)) ? w.m2.get() : w.m1.get();
      Db* A = anyDb(w, c.b);
      Db* B = anyDb(w, c.c);
      int iv = varRank(c.d, nvar), jv = varRank(c.e, nvar);
      VectorInt n1 = ranksOf(c.i1, A), n2 = ranksOf(c.i2, B);
      switch (c.a & 3)
      {
        case 0: outMat(o, m->evalCovMatrix(A, B, iv, jv, n1, n2)); break;
        case 1: outMat(o, m->evalCovMatrixOptim(A, B, iv, jv, n1, n2)); break;
        case 2: outMat(o, m->evalCovMatrixSymmetric(A, iv, n1)); break;
        default: outMat(o, m->evalCovMatrixSymmetricOptim(A, iv, n1)); break;
      }
      if (o.iv.size() >= 2 && o.iv[o.iv.size() - 2] == 0) o.tag = "empty";
      break;
    }
    case K_KRIG:
    {
      Db* in = dataDb(w, c.a);
      Db* out = targetDb(w, c.b);
      std::unique_ptr<Db> tmp;
      if (noise) { tmp.reset(out->clone()); out = tmp.get(); }
      int nb = out->getColumnNumber();
      int rc = kriging(in, out, w.m1.get(), w.ng.get(), EKrigOpt::POINT, true, (c.c & 1) != 0, false);
      o.iv.push_back(rc);
      outNewColumns(o, out, nb);
      break;
    }
    case K_XVALID:
    {
      Db* db = dataDb(w, c.a);
      std::unique_ptr<Db> tmp;
      if (noise) { tmp.reset(db->clone()); db = tmp.get(); }
      int nb = db->getColumnNumber();
      int rc = xvalid(db, w.m1.get(), w.ng.get(), false, 1, 1, 0);
      o.iv.push_back(rc);
      outNewColumns(o, db, nb);
      break;
    }
    case K_SIMTUB:
    {
      Db* in = (c.a % 3 == 0) ? nullptr : dataDb(w, c.a);
      Db* out = targetDb(w, c.b);
      std::unique_ptr<Db> tmp;
      if (noise) { tmp.reset(out->clone()); out = tmp.get(); }
      int nb = out->getColumnNumber();
      int rc = simtub(in, out, w.m1.get(), w.ng.get(), 1 + c.c % 2, c.seed, 4 + c.d);
      o.iv.push_back(rc);
      outNewColumns(o, out, nb);
      break;
    }
    case K_VARIO:
    {
      Db* db = dataDb(w, c.a);
      const ECalcVario& calc = (c.b % 3 == 0) ? ECalcVario::COVARIANCE : ECalcVario::VARIOGRAM;
      std::unique_ptr<Vario> v(Vario::computeFromDb(*w.vp, db, calc));
      o.iv.push_back(v ? 1 : 0);
      if (v)
        for (int id = 0; id < v->getDirectionNumber(); id++)
        {
          for (double x : v->getAllGg(id).getVector()) o.dv.push_back(x);
          for (double x : v->getAllHh(id).getVector()) o.dv.push_back(x);
          for (double x : v->getAllSw(id).getVector()) o.dv.push_back(x);
        }
      break;
    }
    case K_MIGRATE:
    {
      Db* in = dataDb(w, c.a);
      Db* out = targetDb(w, c.b);
      std::unique_ptr<Db> tmp;
      if (noise) { tmp.reset(out->clone()); out = tmp.get(); }
      int nb = out->getColumnNumber();
      int rc = migrate(in, out, "z1", 1 + (c.c & 1), VectorDouble(), (c.d & 1) != 0, false, false);
      o.iv.push_back(rc);
      outNewColumns(o, out, nb);
      break;
    }
    case K_STATS:
    {
      Db* db = dataDb(w, c.a);
      VectorString names;
      for (int v = 0; v < nvar; v++) names.push_back("z" + std::to_string(v + 1));
      Table t = dbStatisticsMono(db, names, EStatOption::fromKeys({"NUM", "MEAN", "VAR", "MINI", "MAXI"}), (c.b & 1) != 0);
      outMat(o, t);
      break;
    }
    case K_BOX:
    {
      VectorDouble lo((size_t)w.ndim, -3.), hi((size_t)w.ndim, 7.5);
      std::unique_ptr<Db> db(Db::createFromBox(1 + c.a, lo, hi, c.seed));
      o.iv.push_back(db ? db->getSampleNumber() : -1);
      if (db)
        for (int d = 0; d < w.ndim; d++)
        {
          VectorDouble xs = db->getCoordinates(d, false);
          for (double x : xs.getVector()) o.dv.push_back(x);
        }
      break;
    }
    case K_SELECT:
    {
      Db* in = dataDb(w, c.a);
      Db* out = (c.b % 3 == 2) ? in : targetDb(w, c.b); // (targets that are the data themselves)
      o.iv.push_back(w.ng->attach(in, out));
      for (int t : c.i1)
      {
        VectorInt ranks;
        w.ng->select(t % out->getSampleNumber(), ranks);
        o.iv.push_back((long)ranks.size());
        for (int r : ranks.getVector()) o.iv.push_back(r);
      }
      break;
    }
    case K_SAMPLE:
    {
      int ntotal = 5 + c.a * 3;
      VectorInt r = VH::sampleRanks(ntotal, 0., 1 + c.b % ntotal, c.seed, (c.c % 3) - 1);
      for (int x : r.getVector()) o.iv.push_back(x);
      break;
    }
    // ------------------------------------------------------------- failing calls
    case K_FAILCOV:
    {
      Model* m = (c.d & 1) ? w.m2.get() : w.m1.get();
      Db* A = w.dbNA.get();
      Db* B = anyDb(w, c.c);
      int iv = -1;
      VectorInt n1;
      if (c.b % 3 == 1)
      {
        // restrict a partially undefined Db to samples whose first variable is undefined; when there is none the
        // call simply succeeds
        A = w.db1.get();
        iv = 0;
        for (int i = 0; i < A->getSampleNumber(); i++)
          if (FFFF(A->getLocVariable(ELoc::Z, i, 0))) n1.push_back(i);
        if (n1.empty()) A = w.dbNA.get();
      }
      if (c.b % 3 == 2) { A = w.db1.get(); iv = nvar + 1; }
      MatrixRectangular r;
      switch (c.a & 3)
      {
        case 0: r = m->evalCovMatrix(A, B, iv, -1, n1); break;
        case 1: r = m->evalCovMatrixOptim(A, B, iv, -1, n1); break;
        case 2: (void)m->evalCovMatrixSymmetric(A, iv, n1); break;
        default: (void)m->evalCovMatrixSymmetricOptim(A, iv, n1); break;
      }
      break;
    }
    case K_FAILKRIG:
    {
      std::unique_ptr<Db> out(targetDb(w, c.b)->clone());
      Db* in = w.db1.get();
      Model* m = w.m1.get();
      switch (c.a % 5)
      {
        case 0: in = w.dbNoZ.get(); break;
        case 1: in = w.dbNA.get(); break;
        case 2: in = w.dbDup.get(); break;
        case 3: m = w.mBadDim.get(); break;
        default: m = w.mEmpty.get(); break;
      }
      (void)kriging(in, out.get(), m, w.ng.get(), EKrigOpt::POINT, true, true, false);
      break;
    }
    case K_FAILMISC:
    {
      switch (c.a % 5)
      {
        case 0: { std::unique_ptr<Vario> v(Vario::computeFromDb(*w.vp, w.dbNoZ.get())); break; }
        case 1: { std::unique_ptr<Db> out(targetDb(w, c.b)->clone()); (void)migrate(w.db1.get(), out.get(), "no_such_variable"); break; }
        case 2: { (void)dbStatisticsMono(w.db1.get(), {"no_such_variable"}); break; }
        case 3: { std::unique_ptr<Db> out(targetDb(w, c.b)->clone()); (void)simtub(nullptr, out.get(), nullptr, nullptr, 1, c.seed, 5); break; }
        default: { std::unique_ptr<Db> db(w.dbNA->clone()); (void)xvalid(db.get(), w.m1.get(), w.ng.get()); break; }
      }
      break;
    }
    case K_LAW:
    {
      int n = 1 + c.b;
      switch (c.a & 3)
      {
        case 0: for (int k = 0; k < n; k++) (void)law_uniform(0., 1.); break;
        case 1:
          law_set_random_seed(c.seed);
          for (int k = 0; k < n; k++) (void)law_gaussian();
          break;
        case 2: law_set_random_seed(c.seed); break;
        default:
          law_set_old_style(false);
          law_set_random_seed(c.seed);
          for (int k = 0; k < n; k++) (void)law_gaussian();
          law_set_old_style(true);
          break;
      }
      break;
    }
    case K_GLOBAL: runGlobal(w, c, o); break;
    case K_CREATE:
    {
      switch (c.a % 4)
      {
        case 0: { std::unique_ptr<Db> d(Db::createFromBox(3 + c.b, VectorDouble((size_t)w.ndim, 0.), VectorDouble((size_t)w.ndim, 1.), c.seed)); break; }
        case 1: { std::unique_ptr<Model> m(w.m1->clone()); m->delCova(0); std::unique_ptr<Model> m3(new Model(*w.m2)); break; }
        case 2: { std::unique_ptr<Db> d(w.db1->clone()); d->deleteColumn("z1"); std::unique_ptr<DbGrid> g(w.grid->clone()); break; }
        default:
        {
          NeighMoving* nm = dynamic_cast<NeighMoving*>(w.ng.get());
          if (nm != nullptr) { NeighMoving cp(*nm); cp.setNMaxi(2); }
          std::unique_ptr<VarioParam> v(w.vp->clone());
          break;
        }
      }
      break;
    }
    case K_CONST:
    {
      switch (c.a % 5)
      {
        case 0:
          (void)w.m1->toString();
          (void)w.m1->eval0(0, 0);
          (void)w.m1->evalDriftMatrix(dataDb(w, c.b));
          (void)w.m1->getTotalSills();
          break;
        case 1:
        {
          Db* db = anyDb(w, c.b);
          (void)db->toString();
          (void)db->getExtremas();
          (void)db->getSampleNumber(true);
          (void)db->getAllColumns(true);
          break;
        }
        case 2:
        {
          DbGrid* g = w.grid.get();
          VectorInt ind((size_t)w.ndim, 0);
          for (int k = 0; k < g->getSampleNumber(); k += 2)
          {
            g->rankToIndice(k, ind);
            VectorDouble x = g->indicesToCoordinate(ind);
            (void)g->coordinateToRank(x);
          }
          (void)g->getCellSize();
          break;
        }
        case 3: (void)w.ng->toString(); (void)w.ng->getMaxSampleNumber(w.db1.get()); (void)w.vp->toString(); break;
        default:
        {
          // point-wise evaluations of the shared model
          SpacePoint p1(w.db1->getSampleCoordinates(0)), p2(w.db1->getSampleCoordinates(1));
          (void)w.m1->eval(p1, p2, 0, 0);
          (void)w.m1->evalCovMatrixV(w.db1.get(), w.db2.get());
          break;
        }
      }
      break;
    }
    case K_NEIGHMUT:
    {
      NeighMoving* nm = dynamic_cast<NeighMoving*>(w.ng.get());
      Db* in = dataDb(w, c.a);
      Db* out = targetDb(w, c.b);
      if (nm == nullptr) break;
      int oldMaxi = nm->getNMaxi(), oldSect = nm->getNSect(), oldMini = nm->getNMini();
      nm->setNMaxi(1 + c.c % 4);
      if (w.ndim >= 2) nm->setNSect(1 + c.d % 3);
      nm->setNMini(1);
      nm->attach(in, out);
      for (int t : c.i1)
      {
        VectorInt ranks;
        nm->select(t % out->getSampleNumber(), ranks);
      }
      nm->setNMaxi(oldMaxi);
      nm->setNSect(oldSect);
      nm->setNMini(oldMini);
      break;
    }
    default: break;
  }
}

static bool isFailingKind(int k) { return k == K_FAILCOV || k == K_FAILKRIG || k == K_FAILMISC; }
// the call involves an object that the observed calls also use
static bool isSharedKind(int k) { return k != K_LAW && k != K_BOX && k != K_SAMPLE && k != K_CREATE; }

static void noopDeath() {}
static bool verbose() { return getenv("C10_VERBOSE") != nullptr; }

// Body of a child process: never returns.
static void childMain(const HistCase& c, const std::vector<Call>& noise, int fd)
{
  stats().outPrefix.clear();
  __sanitizer_set_death_callback(noopDeath);
  if (!verbose())
  {
    int nul = open("/dev/null", O_WRONLY);
    if (nul >= 0) dup2(nul, 2);
  }
  alarm(120);
  Out o;
  auto say = [&](const std::string& s) { ssize_t k = write(fd, s.data(), s.size()); (void)k; };
  try
  {
    World w;
    buildWorld(c, w);
    for (size_t idx = 0; idx < noise.size(); idx++)
    {
      say("N " + std::to_string(idx) + "\n");
      Out dummy;
      try
      {
        runCall(w, noise[idx], dummy, true);
      }
      catch (const LibExit&)
      {
        dummy.tag = "abort"; // a noise call that ends in messageAbort is a failing call
      }
      catch (const std::exception&)
      {
        o.noiseThrew = 1;
      }
      say("T " + std::to_string(idx) + " " + dummy.tag + "\n");
    }
    say("O\n");
    o.digest = (long)(hashText(worldDigest(w)) >> 1);
    runCall(w, c.obs, o, false);
    o.status = 0;
  }
  catch (const LibExit&)
  {
    o.status = 1;
  }
  catch (const std::exception& e)
  {
    o.status = 2;
    o.err = e.what();
  }
  say("R\n" + toText(o));
  _exit(0);
}

struct ChildResult
{
  bool complete = false; // the result record arrived
  int lastNoise = -1;    // index of the last noise call started
  bool reachedObs = false;
  int wstatus = 0;
  std::map<int, std::string> tags;
  Out out;
};
static ChildResult runChild(const HistCase& c, const std::vector<Call>& noise)
{
  ChildResult r;
  int fd[2];
  if (pipe(fd) != 0) return r;
  fflush(nullptr);
  pid_t pid = fork();
  if (pid < 0) return r;
  if (pid == 0)
  {
    ::close(fd[0]);
    childMain(c, noise, fd[1]);
    _exit(0);
  }
  ::close(fd[1]);
  std::string all;
  char buf[65536];
  for (;;)
  {
    ssize_t k = read(fd[0], buf, sizeof buf);
    if (k > 0) all.append(buf, (size_t)k);
    else if (k == 0) break;
    else if (errno != EINTR) break;
  }
  ::close(fd[0]);
  while (waitpid(pid, &r.wstatus, 0) < 0 && errno == EINTR) {}
  size_t pos = 0;
  while (pos < all.size())
  {
    size_t nl = all.find('\n', pos);
    if (nl == std::string::npos) break;
    std::string line = all.substr(pos, nl - pos);
    pos = nl + 1;
    if (line.rfind("N ", 0) == 0) r.lastNoise = atoi(line.c_str() + 2);
    else if (line.rfind("T ", 0) == 0)
    {
      size_t sp = line.find(' ', 2);
      if (sp != std::string::npos) r.tags[atoi(line.c_str() + 2)] = line.substr(sp + 1);
    }
    else if (line == "O") r.reachedObs = true;
    else if (line == "R")
    {
      r.complete = fromText(all.substr(pos), r.out);
      break;
    }
  }
  return r;
}

// "" when equal; otherwise what differs.  'soft' is set when only floating-point values differ by less than 1e-6 relative.
static std::string compareOut(const Out& a, const Out& b, bool& soft)
{
  soft = false;
  if (a.status != b.status) return fmt("completion status %d (fresh) vs %d (after history) %s", a.status, b.status, b.err.c_str());
  if (a.iv.size() != b.iv.size()) return fmt("%zu integers (fresh) vs %zu (after history)", a.iv.size(), b.iv.size());
  for (size_t k = 0; k < a.iv.size(); k++)
    if (a.iv[k] != b.iv[k]) return fmt("integer #%zu: %ld (fresh) vs %ld (after history)", k, a.iv[k], b.iv[k]);
  if (a.txt != b.txt) return "names: '" + a.txt + "' (fresh) vs '" + b.txt + "' (after history)";
  if (a.dv.size() != b.dv.size()) return fmt("%zu values (fresh) vs %zu (after history)", a.dv.size(), b.dv.size());
  double scale = 0;
  for (double x : a.dv)
    if (x != TEST && std::isfinite(x)) scale = std::max(scale, std::fabs(x));
  double worst = 0;
  size_t wk = 0;
  for (size_t k = 0; k < a.dv.size(); k++)
  {
    double x = a.dv[k], y = b.dv[k];
    if (x == y) continue;
    if (std::isnan(x) && std::isnan(y)) continue;
    double d = (x == TEST || y == TEST || !std::isfinite(x) || !std::isfinite(y)) ? INFINITY : std::fabs(x - y);
    if (d > worst) { worst = d; wk = k; }
  }
  if (worst <= 1e-9 * scale + 1e-300) return "";
  soft = worst <= 1e-6 * scale;
  return fmt("value #%zu: %.17g (fresh) vs %.17g (after history), magnitude of the result %.3g", wk, a.dv[wk], b.dv[wk], scale);
}

static std::string withTag(const std::string& name, const std::string& tag) { return tag.empty() ? name : name + ":" + tag; }

// Name of the single noise call that is enough to make 'differs' true ("combination" when none is).  A call executed
// under a global switch is named after the nested call when that call alone has the same effect.
template<class F> static std::string findCulprit(const HistCase& c, F differs)
{
  for (auto& cand : c.noise)
  {
    ChildResult S = runChild(c, {cand});
    if (!S.complete && WIFSIGNALED(S.wstatus) && WTERMSIG(S.wstatus) == SIGALRM) continue;
    if (!differs(S)) continue;
    std::string tag = S.tags.count(0) ? S.tags[0] : std::string();
    if (cand.kind == K_GLOBAL && (cand.a & 7) != 5)
    {
      Call n = nestedOf(cand);
      ChildResult S2 = runChild(c, {n});
      if (differs(S2)) return withTag(callName(n), S2.tags.count(0) ? S2.tags[0] : std::string());
      return withTag(callName(n), tag) + "@" + callName(cand);
    }
    return withTag(callName(cand), tag);
  }
  return "combination";
}

static void runHist(const HistCase& c, Ctx& ctx)
{
  std::string obs = callName(c.obs);
  ctx.label("obs:" + std::string(kindName(c.obs.kind)));
  bool nt = false;
  for (auto& n : c.noise)
  {
    ctx.label("noise:" + std::string(kindName(n.kind)));
    if (isFailingKind(n.kind) || isSharedKind(n.kind)) nt = true;
  }

  // wall-clock caps never produce a violation (DESIGN 7): a child stopped by its alarm makes the case inconclusive
  auto timedOut = [](const ChildResult& r) { return !r.complete && WIFSIGNALED(r.wstatus) && WTERMSIG(r.wstatus) == SIGALRM; };
  ChildResult A = runChild(c, {});
  if (timedOut(A)) { ctx.inconclusive("child-timeout"); return; }
  if (!A.complete)
  {
    ctx.fail("fresh-crash:" + obs, fmt("the observed call alone does not complete in a fresh process (wait status 0x%x)", A.wstatus));
    return;
  }
  ChildResult B = runChild(c, c.noise);
  if (timedOut(B)) { ctx.inconclusive("child-timeout"); return; }
  if (!B.complete)
  {
    if (B.reachedObs)
    {
      std::string who = findCulprit(c, [&](const ChildResult& S) { return !S.complete && S.reachedObs; });
      ctx.fail("hist-crash:after-" + who + ":" + obs,
               fmt("the observed call completes in a fresh process and crashes after the history (wait status 0x%x)", B.wstatus));
    }
    else
    {
      std::string nk = (B.lastNoise >= 0) ? callName(c.noise[(size_t)B.lastNoise]) : std::string("construction");
      if (B.lastNoise >= 0 && c.noise[(size_t)B.lastNoise].kind == K_GLOBAL) nk = callName(nestedOf(c.noise[(size_t)B.lastNoise])) + "@" + nk;
      ctx.fail("noise-crash:" + nk, fmt("the process dies inside noise call #%d (wait status 0x%x)", B.lastNoise, B.wstatus));
    }
    return;
  }
  if (B.out.noiseThrew)
  {
    ctx.inconclusive("exception-in-noise");
    return;
  }
  ctx.label(A.out.status == 0 ? "obs-completed" : "obs-aborted");
  for (auto& t : B.tags)
    if (!t.second.empty()) ctx.label("noise-outcome:" + t.second);
  bool soft = false;
  std::string diff = compareOut(A.out, B.out, soft);
  if (diff.empty() && A.out.digest != B.out.digest)
  {
    // a noise call changed the public state of an argument without changing the result
    std::string who = findCulprit(c, [&](const ChildResult& S) { return S.complete && S.out.digest != A.out.digest; });
    ctx.fail("noise-changes-arguments:" + who, "a call meant to leave the shared objects unchanged modified their public state");
    return;
  }
  if (diff.empty())
  {
    ctx.nontrivial(nt);
    ctx.sig = Hash().add(obs).add((int)c.noise.size()).add(c.noise.empty() ? std::string() : callName(c.noise[0])).add((int)A.out.dv.size()).h;
    return;
  }
  if (soft)
  {
    ctx.inconclusive("roundoff-sized-difference");
    return;
  }
  std::string who = findCulprit(c, [&](const ChildResult& S) {
    bool s2 = false;
    return !S.complete || !compareOut(A.out, S.out, s2).empty();
  });
  ctx.fail("hist:after-" + who + ":" + obs, diff);
}
VERIF_SUB(history, HistCase, genHist, runHist);


// ===================================================================== sub: vectort =======
// Model-based test of the copy-on-write vectors: one std::vector per handle is the model.
//
// Iterators kept across operations follow these rules (each is at least as permissive as what a caller of a
// copy-on-write container can expect, and never more permissive than std::vector):
//  * an iterator of handle h is dropped from the model as soon as h is resized, assigned, swapped, cleared...;
//  * a const iterator of h is also dropped by any non-const access to h (that is when a shared handle takes its copy);
//  * nothing done to *another* handle may invalidate it: after every operation the address an iterator designates
//    must still be the address of the same element of h (compared as addresses, nothing is dereferenced);
//  * writing through a non-const iterator / reference obtained *before* h was copied is reported under its own key
//    ("vectort:write-through-iterator-taken-before-copy"): with std::vector the copy is unaffected.
struct VOp
{
  int op = 0, h = 0, h2 = 0, pos = 0, n = 0;
  double v = 0;
  template<class A> void io(A& a) { a("op", op)("h", h)("h2", h2)("pos", pos)("n", n)("v", v); }
};
enum
{
  V_NEW_EMPTY = 0, V_NEW_COUNT, V_NEW_COPY, V_NEW_STD, V_ASSIGN, V_ASSIGN_STD, V_MOVE_ASSIGN, V_PUSH_BACK, V_PUSH_FRONT, V_INSERT, V_INSERT_N,
  V_REMOVE, V_REMOVE_N, V_ERASE_CIT, V_ERASE_RANGE_CIT, V_INSERT_RANGE_CIT, V_RESIZE, V_RESIZE_V, V_FILL, V_SWAP, V_CLEAR, V_WRITE_IDX,
  V_WRITE_AT, V_SETAT, V_WRITE_FRONTBACK, V_WRITE_DATA, V_WRITE_BEGIN, V_TAKE_CIT, V_TAKE_MIT, V_WRITE_MIT, V_DESTROY, V_APPEND, V_APPEND_VEC,
  V_RESERVE, V_ASSIGN_RANGE, V_NUM_ADD, V_NUM_SCALAR, V_SELF_ASSIGN, V_NOPS
};
static const char* vopName(int o)
{
  static const char* n[] = {"new-empty", "new-count", "copy-ctor", "from-std", "assign", "assign-std", "move-assign", "push_back", "push_front",
                            "insert", "insert-n", "remove", "remove-n", "erase-const-iterator", "erase-const-range", "insert-range-const-iterator",
                            "resize", "resize-value", "fill", "swap", "clear", "write-index", "write-at", "setAt", "write-front-back", "write-data",
                            "write-begin", "take-const-iterator", "take-iterator", "write-iterator", "destroy", "append", "append-vector",
                            "reserve", "assign-range", "numeric-vector-op", "numeric-scalar-op", "self-assign"};
  return (o >= 0 && o < V_NOPS) ? n[o] : "?";
}
struct VecCase
{
  int kind = 0;         // 0: VectorNumT<double>, 1: VectorT<int>
  int iterAfterCopy = 0; // operations of the last rule above are executed
  std::vector<VOp> ops;
  template<class A> void io(A& a) { a("kind", kind)("iterAfterCopy", iterAfterCopy)("ops", ops); }
};
static VecCase genVec()
{
  VecCase c;
  c.kind = G::i(0, 1);
  c.iterAfterCopy = G::pct(25) ? 1 : 0;
  int n = G::sz(3, 40);
  for (int k = 0; k < n; k++)
  {
    VOp o;
    o.op = G::i(0, V_NOPS - 1);
    // copies are what the test is about: make them frequent
    if (G::pct(20)) o.op = G::pick<int>({V_NEW_COPY, V_ASSIGN, V_NEW_COPY, V_ASSIGN, V_SWAP, V_MOVE_ASSIGN});
    else if (G::pct(12)) o.op = G::pick<int>({V_TAKE_CIT, V_TAKE_MIT, V_WRITE_MIT, V_RESERVE});
    o.h = G::i(0, 7);
    o.h2 = G::i(0, 7);
    o.pos = G::i(0, 9);
    o.n = G::i(0, 6);
    o.v = (double)G::i(-9, 9);
    c.ops.push_back(o);
  }
  return c;
}

template<class V, class T> struct VecRun
{
  struct H
  {
    std::unique_ptr<V> v;
    std::vector<T> m;
    bool cOk = false, mOk = false, copiedSince = false;
    typename V::const_iterator cit;
    typename V::iterator mit;
    size_t cpos = 0, mpos = 0;
  };
  std::vector<H> hs;
  Ctx& ctx;
  bool hazard = false;
  explicit VecRun(Ctx& c) : ctx(c) {}

  static T val(double v) { return (T)v; }
  void drop(H& h) { h.cOk = h.mOk = false; }
  void touched(H& h) { h.cOk = false; } // non-const access
  bool shared(size_t i) const
  {
    for (size_t k = 0; k < hs.size(); k++)
      if (k != i && hs[k].v->getVectorPtr() == hs[i].v->getVectorPtr()) return true;
    return false;
  }
  bool verify(const std::string& opn)
  {
    for (size_t k = 0; k < hs.size(); k++)
    {
      const V& v = *hs[k].v;
      const std::vector<T>& m = hs[k].m;
      bool same = v.size() == m.size();
      for (size_t i = 0; same && i < m.size(); i++) same = (v[i] == m[i]);
      if (!same)
      {
        std::string key = hazard ? "vectort:write-through-iterator-taken-before-copy" : "vectort:" + opn;
        ctx.fail(key, fmt("after '%s': handle #%zu has %zu elements, the model %zu%s", opn.c_str(), k, v.size(), m.size(),
                          same ? "" : " (or an element differs)"));
        return false;
      }
      if (hs[k].cOk && !hazard && &*hs[k].cit != v.constData() + hs[k].cpos)
      {
        ctx.fail("vectort:const-iterator-invalidated:" + opn,
                 fmt("a const iterator of handle #%zu no longer designates its element after '%s' on another handle", k, opn.c_str()));
        return false;
      }
    }
    return true;
  }
  // erase / insert through const iterators of a handle that shares its storage may corrupt memory: try it in a child first
  template<class F> bool safeInChild(F f, const std::string& opn)
  {
    fflush(nullptr);
    pid_t pid = fork();
    if (pid == 0)
    {
      stats().outPrefix.clear();
      __sanitizer_set_death_callback(noopDeath);
      if (!verbose()) { int nul = open("/dev/null", O_WRONLY); if (nul >= 0) dup2(nul, 2); }
      _exit(f() ? 0 : 1);
    }
    int st = 0;
    while (waitpid(pid, &st, 0) < 0 && errno == EINTR) {}
    if (WIFEXITED(st) && WEXITSTATUS(st) == 0) return true;
    ctx.fail("vectort:" + opn + ":shared-storage", fmt("'%s' on a handle that shares its storage %s (wait status 0x%x)", opn.c_str(),
                                                      (WIFEXITED(st) && WEXITSTATUS(st) == 1) ? "gives a wrong content" : "crashes", st));
    return false;
  }

  void run(const VecCase& c)
  {
    hs.emplace_back();
    hs[0].v.reset(new V());
    for (const VOp& o : c.ops)
    {
      size_t a = (size_t)o.h % hs.size(), b = (size_t)o.h2 % hs.size();
      H& A = hs[a];
      std::string opn = vopName(o.op);
      ctx.at(opn);
      T x = val(o.v);
      size_t sz = A.m.size();
      size_t pos = sz ? (size_t)o.pos % sz : 0;
      switch (o.op)
      {
        case V_NEW_EMPTY: if (hs.size() < 8) { hs.emplace_back(); hs.back().v.reset(new V()); } break;
        case V_NEW_COUNT: if (hs.size() < 8) { hs.emplace_back(); hs.back().v.reset(new V((size_t)o.n, x)); hs.back().m.assign((size_t)o.n, x); } break;
        case V_NEW_COPY:
          if (hs.size() < 8)
          {
            H n;
            n.v.reset(new V(*A.v));
            n.m = A.m;
            A.copiedSince = true;
            hs.push_back(std::move(n));
          }
          break;
        case V_NEW_STD: if (hs.size() < 8) { H n; n.v.reset(new V(A.m)); n.m = A.m; hs.push_back(std::move(n)); } break;
        case V_ASSIGN:
          if (a == b) break;
          *A.v = *hs[b].v;
          A.m = hs[b].m;
          drop(A);
          A.copiedSince = false;
          hs[b].copiedSince = true;
          break;
        case V_SELF_ASSIGN: { V& r = *A.v; *A.v = r; touched(A); break; }
        case V_ASSIGN_STD: { std::vector<T> t((size_t)o.n, x); *A.v = t; A.m = t; drop(A); break; }
        case V_MOVE_ASSIGN:
          if (a == b) break;
          *A.v = std::move(*hs[b].v);
          A.m = hs[b].m;
          drop(A);
          drop(hs[b]);
          // the source is "valid but unspecified": give it a known content again
          *hs[b].v = V();
          hs[b].m.clear();
          break;
        case V_PUSH_BACK: A.v->push_back(x); A.m.push_back(x); drop(A); break;
        case V_PUSH_FRONT: A.v->push_front(x); A.m.insert(A.m.begin(), x); drop(A); break;
        case V_INSERT: { size_t p = (size_t)o.pos % (sz + 1); A.v->insert(p, x); A.m.insert(A.m.begin() + (long)p, x); drop(A); break; }
        case V_INSERT_N: { size_t p = (size_t)o.pos % (sz + 1); A.v->insert(p, (size_t)o.n, x); A.m.insert(A.m.begin() + (long)p, (size_t)o.n, x); drop(A); break; }
        case V_REMOVE: if (sz) { A.v->remove(pos); A.m.erase(A.m.begin() + (long)pos); drop(A); } break;
        case V_REMOVE_N:
          if (sz)
          {
            size_t cnt = std::min((size_t)o.n, sz - pos);
            A.v->remove(pos, cnt);
            A.m.erase(A.m.begin() + (long)pos, A.m.begin() + (long)(pos + cnt));
            drop(A);
          }
          break;
        case V_ERASE_CIT:
        case V_ERASE_RANGE_CIT:
          if (sz)
          {
            size_t cnt = (o.op == V_ERASE_CIT) ? 1 : std::min((size_t)o.n, sz - pos);
            std::vector<T> want = A.m;
            want.erase(want.begin() + (long)pos, want.begin() + (long)(pos + cnt));
            auto doit = [&](V& v) {
              if (o.op == V_ERASE_CIT) v.erase(v.cbegin() + (long)pos);
              else v.erase(v.cbegin() + (long)pos, v.cbegin() + (long)(pos + cnt));
            };
            if (shared(a))
            {
              ctx.label("const-iterator-op-on-shared");
              if (!safeInChild([&]() { doit(*A.v); return std::vector<T>(A.v->getVector()) == want; }, opn)) return;
            }
            doit(*A.v);
            A.m = want;
            drop(A);
          }
          break;
        case V_INSERT_RANGE_CIT:
          if (a != b)
          {
            size_t p = (size_t)o.pos % (sz + 1);
            std::vector<T> want = A.m;
            want.insert(want.begin() + (long)p, hs[b].m.begin(), hs[b].m.end());
            auto doit = [&](V& v, const V& src) { v.insert(v.cbegin() + (long)p, src.cbegin(), src.cend()); };
            if (shared(a))
            {
              ctx.label("const-iterator-op-on-shared");
              if (!safeInChild([&]() { doit(*A.v, *hs[b].v); return std::vector<T>(A.v->getVector()) == want; }, opn)) return;
            }
            doit(*A.v, *hs[b].v);
            A.m = want;
            drop(A);
          }
          break;
        case V_RESIZE: A.v->resize((size_t)o.n); A.m.resize((size_t)o.n); drop(A); break;
        case V_RESIZE_V: A.v->resize((size_t)o.n, x); A.m.resize((size_t)o.n, x); drop(A); break;
        case V_FILL:
          A.v->fill(x, (size_t)o.n);
          if (o.n > 0) A.m.resize((size_t)o.n);
          std::fill(A.m.begin(), A.m.end(), x);
          drop(A);
          break;
        case V_SWAP:
          if (a == b) break;
          A.v->swap(*hs[b].v);
          std::swap(A.m, hs[b].m);
          drop(A);
          drop(hs[b]);
          std::swap(A.copiedSince, hs[b].copiedSince);
          break;
        case V_CLEAR: A.v->clear(); A.m.clear(); drop(A); break;
        case V_WRITE_IDX: if (sz) { (*A.v)[pos] = x; A.m[pos] = x; touched(A); } break;
        case V_WRITE_AT: if (sz) { A.v->at(pos) = x; A.m[pos] = x; touched(A); } break;
        case V_SETAT: if (sz) { A.v->setAt((int)pos, x); A.m[pos] = x; touched(A); } break;
        case V_WRITE_FRONTBACK: if (sz) { A.v->front() = x; A.m.front() = x; A.v->back() = x + 1; A.m.back() = x + 1; touched(A); } break;
        case V_WRITE_DATA: if (sz) { A.v->data()[pos] = x; A.m[pos] = x; touched(A); } break;
        case V_WRITE_BEGIN: if (sz) { *(A.v->begin() + (long)pos) = x; A.m[pos] = x; touched(A); } break;
        case V_TAKE_CIT:
          if (sz)
          {
            const V& cv = *A.v;
            A.cit = cv.begin() + (long)pos;
            A.cpos = pos;
            A.cOk = true;
          }
          break;
        case V_TAKE_MIT:
          if (sz)
          {
            A.mit = A.v->begin() + (long)pos;
            A.mpos = pos;
            A.mOk = true;
            A.cOk = false;
            A.copiedSince = false;
          }
          break;
        case V_WRITE_MIT:
          if (A.mOk && (!A.copiedSince || c.iterAfterCopy))
          {
            if (A.copiedSince)
            {
              // the kept iterator may dangle by now (the handle detached from the storage and every other owner released it):
              // the write is executed only while the storage it points into is still owned by a live handle
              const T* p = &*A.mit;
              bool alive = false;
              for (auto& H : hs)
              {
                const V& cv = *H.v;
                if (!cv.empty() && p >= cv.data() && p < cv.data() + cv.size()) alive = true;
              }
              if (!alive) { ctx.label("iterator-kept-across-copy:dangling-not-written"); A.mOk = false; break; }
              hazard = true;
              ctx.label("write-through-iterator-taken-before-copy");
            }
            *A.mit = x;
            A.m[A.mpos] = x;
            A.cOk = false;
          }
          break;
        case V_DESTROY: if (hs.size() > 1) hs.erase(hs.begin() + (long)a); break;
        case V_APPEND: *A.v << x; A.m.push_back(x); drop(A); break;
        case V_APPEND_VEC:
        {
          std::vector<T> src = hs[b].m; // (a == b: the vector appended to itself)
          if (a == b) break;
          *A.v << *hs[b].v;
          A.m.insert(A.m.end(), src.begin(), src.end());
          drop(A);
          break;
        }
        case V_RESERVE: A.v->reserve(sz + (size_t)o.n * 8); drop(A); break;
        case V_ASSIGN_RANGE: if (a != b) { A.v->assign(hs[b].m.begin(), hs[b].m.end()); A.m = hs[b].m; drop(A); } break;
        case V_NUM_ADD:
        case V_NUM_SCALAR:
          if constexpr (std::is_same<V, VectorNumT<T>>::value)
          {
            if (o.op == V_NUM_ADD)
            {
              if (hs[b].m.size() != sz) break;
              std::vector<T> src = hs[b].m;
              if (o.n & 1) { A.v->add(*hs[b].v); for (size_t i = 0; i < sz; i++) A.m[i] = A.m[i] + src[i]; }
              else { A.v->multiply(*hs[b].v); for (size_t i = 0; i < sz; i++) A.m[i] = A.m[i] * src[i]; }
            }
            else
            {
              if (o.n & 1) { A.v->add(x); for (auto& e : A.m) e = e + x; }
              else { A.v->multiply(x); for (auto& e : A.m) e = e * x; }
            }
            touched(A);
          }
          break;
        default: break;
      }
      if (!verify(opn)) return;
    }
    // destroy the handles one by one (generated order is the creation order reversed or not), checking the survivors
    while (hs.size() > 1)
    {
      hs.erase(hs.begin() + (long)((c.ops.size() + hs.size()) % hs.size()));
      if (!verify("destroy")) return;
    }
  }
};
static void runVec(const VecCase& c, Ctx& ctx)
{
  ctx.label(c.kind == 0 ? "VectorNumT<double>" : "VectorT<int>");
  int copies = 0;
  for (auto& o : c.ops)
    if (o.op == V_NEW_COPY || o.op == V_ASSIGN || o.op == V_MOVE_ASSIGN || o.op == V_SWAP) copies++;
  ctx.nontrivial(copies > 0);
  if (c.kind == 0)
  {
    VecRun<VectorNumT<double>, double> r(ctx);
    r.run(c);
  }
  else
  {
    VecRun<VectorT<int>, int> r(ctx);
    r.run(c);
  }
}
VERIF_SUB(vectort, VecCase, genVec, runVec);


// ===================================================================== sub: krigcalc ======
// KrigingCalcul keeps pointers to its inputs and computes every result lazily.  After any sequence of set*() calls
// (including refused ones and "the content behind the pointer changed, set*() called again") interleaved with getters,
// every getter must answer as a new object that is given the current inputs.
struct KOp
{
  int op = 0, i = 0, j = 0, g = 0, chk = 1; // chk: every getter is compared after this operation (which also fills every cache)
  template<class A> void io(A& a) { a("op", op)("i", i)("j", j)("g", g)("chk", chk); }
};
enum { KO_SETDATA = 0, KO_SETLHS, KO_SETRHS, KO_SETVAR, KO_GET, KO_BADDATA, KO_BADLHS, KO_BADRHS, KO_BADVAR, KO_TOUCH_Z, KO_TOUCH_SIGMA, KO_TOUCH_SIGMA0,
       KO_SETBAYES, KO_SETCOLCOK, KO_NOPS };
static const char* kopName(int o)
{
  static const char* n[] = {"setData", "setLHS", "setRHS", "setVar", "get", "setData-refused", "setLHS-refused", "setRHS-refused", "setVar-refused",
                            "Z-changed+setData", "Sigma-changed+setLHS", "Sigma0-changed+setRHS", "setBayes", "setColCokUnique"};
  return (o >= 0 && o < KO_NOPS) ? n[o] : "?";
}
enum { KG_ESTIM = 0, KG_STDV, KG_VARZ, KG_POSTMEAN, KG_MU, KG_LAMBDA, KG_POSTCOV, KG_STDVMAT, KG_VARZMAT, KG_Y0, KG_LAMBDA0, KG_NG };
static const char* kgName(int g)
{
  static const char* n[] = {"getEstimation", "getStdv", "getVarianceZstar", "getPostMean", "getMu", "getLambda", "getPostCov", "getStdvMat",
                            "getVarianceZstarMat", "getY0", "getLambda0"};
  return n[g];
}
struct KCase
{
  int neq = 3, nbfl = 1, nrhs = 1, dual = 0, useBayes = 0, useColCok = 0;
  std::vector<std::vector<double>> Z, M, S, X, S0, X0, S00, PM, PC, ZP; // pools (matrices row-major; S, S00, PC as factors: A A' + I)
  std::vector<int> colcok;
  std::vector<KOp> ops;
  template<class A> void io(A& a)
  {
    a("neq", neq)("nbfl", nbfl)("nrhs", nrhs)("dual", dual)("useBayes", useBayes)("useColCok", useColCok)("Z", Z)("M", M)("S", S)("X", X)("S0", S0)("X0", X0)(
      "S00", S00)("PM", PM)("PC", PC)("ZP", ZP)("colcok", colcok)("ops", ops);
  }
};
static std::vector<double> genVals(int n, int lo = -3, int hi = 3)
{
  std::vector<double> v;
  for (int k = 0; k < n; k++) v.push_back(G::r(lo, hi, 4));
  return v;
}
static KCase genK()
{
  KCase c;
  c.neq = G::sz(2, 7);
  c.nbfl = G::pick<int>({0, 1, 1, 2});
  if (c.nbfl >= c.neq) c.nbfl = c.neq - 1;
  c.nrhs = G::i(1, 3);
  c.dual = G::pct(15) ? 1 : 0;
  c.useBayes = (!c.dual && c.nbfl > 0 && G::pct(25)) ? 1 : 0;
  c.useColCok = (!c.dual && c.nrhs >= 2 && G::pct(25)) ? 1 : 0;
  int np = G::i(2, 3);
  for (int k = 0; k < np; k++)
  {
    c.Z.push_back(genVals(c.neq, -5, 5));
    c.M.push_back(genVals(c.nrhs));
    c.S.push_back(genVals(c.neq * c.neq, -1, 1));
    c.X.push_back(genVals(c.neq * c.nbfl));
    c.S0.push_back(genVals(c.neq * c.nrhs, -1, 1));
    c.X0.push_back(genVals(c.nrhs * c.nbfl));
    c.S00.push_back(genVals(c.nrhs * c.nrhs, -1, 1));
    c.PM.push_back(genVals(c.nbfl));
    c.PC.push_back(genVals(c.nbfl * c.nbfl, -1, 1));
    c.ZP.push_back(genVals(c.nrhs));
  }
  // first drift function is the constant (full column rank with the jittered second one)
  for (auto& x : c.X)
    for (int i = 0; i < c.neq && c.nbfl > 0; i++) x[(size_t)(i * c.nbfl)] = 1.;
  if (c.useColCok)
  {
    int ncc = G::i(1, c.nrhs - 1);
    std::vector<int> p = G::perm(c.nrhs);
    c.colcok.assign(p.begin(), p.begin() + ncc);
    std::sort(c.colcok.begin(), c.colcok.end());
  }
  int n = G::sz(2, 25);
  for (int k = 0; k < n; k++)
  {
    KOp o;
    o.op = G::pick<int>({KO_SETDATA, KO_SETLHS, KO_SETLHS, KO_SETRHS, KO_SETRHS, KO_SETVAR, KO_SETVAR, KO_GET, KO_GET, KO_GET, KO_GET, KO_BADDATA, KO_BADLHS,
                         KO_BADRHS, KO_BADVAR, KO_TOUCH_Z, KO_TOUCH_SIGMA, KO_TOUCH_SIGMA0, KO_SETBAYES, KO_SETCOLCOK});
    o.i = G::i(0, 5);
    o.j = G::i(0, 5);
    o.g = G::i(0, KG_NG - 1);
    o.chk = G::pct(50) ? 1 : 0;
    c.ops.push_back(o);
  }
  return c;
}
static MatrixSquareSymmetric spdOf(const std::vector<double>& a, int n, double shift)
{
  MatrixSquareSymmetric m(n);
  for (int i = 0; i < n; i++)
    for (int j = 0; j <= i; j++)
    {
      double v = (i == j) ? shift : 0.;
      for (int k = 0; k < n; k++) v += a[(size_t)(i * n + k)] * a[(size_t)(j * n + k)];
      m.setValue(i, j, v);
    }
  return m;
}
static MatrixRectangular rectOf(const std::vector<double>& a, int nr, int nc)
{
  MatrixRectangular m(nr, nc);
  for (int i = 0; i < nr; i++)
    for (int j = 0; j < nc; j++) m.setValue(i, j, a[(size_t)(i * nc + j)]);
  return m;
}
struct KInputs
{
  std::vector<VectorDouble> Z, M, PM, ZP;
  std::vector<MatrixSquareSymmetric> S, S00, PC;
  std::vector<MatrixRectangular> X, S0, X0;
  VectorInt colcok;
  VectorDouble badZ;
  MatrixSquareSymmetric badS;
  MatrixRectangular badS0;
};
struct KState // indices into the pools; -1: absent
{
  int z = -1, m = -1, s = -1, x = -1, s0 = -1, x0 = -1, s00 = -1, bayes = -1, colcok = -1;
};
static void kcollect(KrigingCalcul& k, int g, std::vector<double>& out, std::vector<long>& shape)
{
  auto vec = [&](const VectorDouble& v) { shape.push_back((long)v.size()); for (double x : v.getVector()) out.push_back(x); };
  auto mat = [&](const AMatrix* m) {
    if (m == nullptr) { shape.push_back(-1); return; }
    shape.push_back(m->getNRows());
    shape.push_back(m->getNCols());
    for (int i = 0; i < m->getNRows(); i++)
      for (int j = 0; j < m->getNCols(); j++) out.push_back(m->getValue(i, j));
  };
  switch (g)
  {
    case KG_ESTIM: vec(k.getEstimation()); break;
    case KG_STDV: vec(k.getStdv()); break;
    case KG_VARZ: vec(k.getVarianceZstar()); break;
    case KG_POSTMEAN: vec(k.getPostMean()); break;
    case KG_MU: mat(k.getMu()); break;
    case KG_LAMBDA: mat(k.getLambda()); break;
    case KG_POSTCOV: mat(k.getPostCov()); break;
    case KG_STDVMAT: mat(k.getStdvMat()); break;
    case KG_VARZMAT: mat(k.getVarianceZstarMat()); break;
    case KG_Y0: mat(k.getY0()); break;
    default: mat(k.getLambda0()); break;
  }
}
// getters whose formulas need inputs that the current state lacks dereference null pointers in the library (whatever
// the history): they are outside the generated domain
static bool getterInDomain(const KCase& c, const KState& st, int g)
{
  if (st.z < 0 || st.m < 0 || st.s < 0 || st.s0 < 0 || st.s00 < 0) return false;
  bool uk = st.x >= 0;
  if (uk && st.x0 < 0) return false;
  if (g == KG_LAMBDA0 && st.colcok < 0) return false;
  if ((g == KG_MU || g == KG_POSTCOV || g == KG_POSTMEAN || g == KG_Y0) && !uk) return false;
  if (st.bayes >= 0 && !uk) return false;
  if (c.dual && g != KG_ESTIM && g != KG_LAMBDA) return false;
  return true;
}
// Executes the first 'nops' operations (comparisons where the case asks for them and after the last one).
// Returns false when a getter differs: failOp / failG / what describe it.
static bool kExec(const KCase& c, size_t nops, Ctx& ctx, size_t& failOp, int& failG, std::string& what, int& sets)
{
  KInputs in;
  size_t np = c.Z.size();
  for (size_t k = 0; k < np; k++)
  {
    in.Z.push_back(VectorDouble(c.Z[k].begin(), c.Z[k].end()));
    in.M.push_back(VectorDouble(c.M[k].begin(), c.M[k].end()));
    in.PM.push_back(VectorDouble(c.PM[k].begin(), c.PM[k].end()));
    in.ZP.push_back(VectorDouble(c.ZP[k].begin(), c.ZP[k].end()));
    in.S.push_back(spdOf(c.S[k], c.neq, 1.));
    in.S00.push_back(spdOf(c.S00[k], c.nrhs, (double)c.neq + 2.)); // larger than any explained variance of these sizes is not needed: stdv clips at 0
    in.PC.push_back(spdOf(c.PC[k], c.nbfl, 1.));
    in.X.push_back(rectOf(c.X[k], c.neq, c.nbfl));
    in.S0.push_back(rectOf(c.S0[k], c.neq, c.nrhs));
    in.X0.push_back(rectOf(c.X0[k], c.nrhs, c.nbfl));
  }
  in.colcok = VectorInt(c.colcok.begin(), c.colcok.end());
  in.badZ = VectorDouble((size_t)c.neq + 1, 1.);
  in.badS = MatrixSquareSymmetric(c.neq + 1);
  in.badS0 = MatrixRectangular(c.neq + 1, c.nrhs);

  // the object under test starts complete (dimensions are fixed by the first inputs it sees)
  KState st;
  st.z = st.m = st.s = st.s0 = st.s00 = 0;
  st.x = st.x0 = (c.nbfl > 0) ? 0 : -1;
  auto X = [&](int i) { return i >= 0 ? &in.X[(size_t)i] : nullptr; };
  auto X0 = [&](int i) { return i >= 0 ? &in.X0[(size_t)i] : nullptr; };
  ctx.at("KrigingCalcul()");
  std::unique_ptr<KrigingCalcul> inc(new KrigingCalcul(c.dual != 0, &in.Z[0], &in.S[0], X(st.x), &in.S00[0], &in.M[0]));
  inc->setRHS(&in.S0[0], X0(st.x0));

  auto fresh = [&](const KState& s) {
    std::unique_ptr<KrigingCalcul> f(new KrigingCalcul(c.dual != 0, &in.Z[(size_t)s.z], &in.S[(size_t)s.s], X(s.x), &in.S00[(size_t)s.s00], &in.M[(size_t)s.m]));
    f->setRHS(&in.S0[(size_t)s.s0], X0(s.x0));
    if (s.bayes >= 0) f->setBayes(&in.PM[(size_t)s.bayes], &in.PC[(size_t)s.bayes]);
    if (s.colcok >= 0) f->setColCokUnique(&in.ZP[(size_t)s.colcok], &in.colcok);
    return f;
  };
  // compare every getter of the domain; returns the name of the first that differs
  auto compare = [&](std::string& what) -> int {
    std::unique_ptr<KrigingCalcul> f = fresh(st);
    for (int g = 0; g < KG_NG; g++)
    {
      if (!getterInDomain(c, st, g)) continue;
      std::vector<double> a, b;
      std::vector<long> sa, sb;
      ctx.at(std::string("incremental:") + kgName(g));
      kcollect(*inc, g, a, sa);
      ctx.at(std::string("fresh:") + kgName(g));
      kcollect(*f, g, b, sb);
      if (sa != sb) { what = "shape"; return g; }
      double scale = 0, worst = 0;
      for (double x : b) scale = std::max(scale, std::fabs(x));
      for (size_t k = 0; k < a.size(); k++) worst = std::max(worst, std::fabs(a[k] - b[k]));
      if (!(worst <= 1e-9 * std::max(scale, 1e-300))) { what = fmt("values differ by %.3g (magnitude %.3g)", worst, scale); return g; }
    }
    return -1;
  };

  sets = 0;
  size_t mp = np;
  for (size_t io = 0; io < nops; io++)
  {
    const KOp& o = c.ops[io];
    int i = (int)((size_t)o.i % mp), j = (int)((size_t)o.j % mp);
    ctx.at(kopName(o.op));
    switch (o.op)
    {
      case KO_SETDATA:
        if (o.j == 5) { inc->setData(&in.Z[(size_t)i], nullptr); st.z = i; }
        else { inc->setData(&in.Z[(size_t)i], &in.M[(size_t)j]); st.z = i; st.m = j; }
        break;
      case KO_SETLHS:
      {
        int x = (c.nbfl > 0 && o.j != 5) ? j : -1;
        inc->setLHS(&in.S[(size_t)i], X(x));
        st.s = i;
        st.x = x;
        break;
      }
      case KO_SETRHS:
        inc->setRHS(&in.S0[(size_t)i], X0(c.nbfl > 0 ? j : -1));
        st.s0 = i;
        st.x0 = (c.nbfl > 0) ? j : -1;
        break;
      case KO_SETVAR: inc->setVar(&in.S00[(size_t)i]); st.s00 = i; break;
      case KO_GET:
        if (getterInDomain(c, st, o.g))
        {
          std::vector<double> a;
          std::vector<long> sa;
          kcollect(*inc, o.g, a, sa);
        }
        continue; // nothing to compare after a getter alone
      case KO_BADDATA: (void)inc->setData(&in.badZ, nullptr); break;
      case KO_BADLHS: (void)inc->setLHS(&in.badS, X(st.x)); break;
      case KO_BADRHS: (void)inc->setRHS(&in.badS0, X0(st.x0)); break; // refused before anything is stored
      case KO_BADVAR: { MatrixSquareSymmetric bad(c.nrhs + 1); (void)inc->setVar(&bad); break; }
      case KO_TOUCH_Z:
        for (auto& e : in.Z[(size_t)st.z]) e = e * 0.5 + (double)(o.j + 1);
        inc->setData(nullptr, nullptr);
        break;
      case KO_TOUCH_SIGMA:
        for (int d = 0; d < c.neq; d++) in.S[(size_t)st.s].setValue(d, d, in.S[(size_t)st.s].getValue(d, d) + 0.5 + 0.25 * o.j);
        inc->setLHS(nullptr, X(st.x));
        break;
      case KO_TOUCH_SIGMA0:
        for (int d = 0; d < c.neq; d++) in.S0[(size_t)st.s0].setValue(d, 0, in.S0[(size_t)st.s0].getValue(d, 0) * 0.5 + 0.125 * o.j);
        inc->setRHS(&in.S0[(size_t)st.s0], X0(st.x0));
        break;
      case KO_SETBAYES:
        if (!c.useBayes) continue;
        if (o.j == 5) { inc->setBayes(nullptr, nullptr); st.bayes = -1; }
        else { inc->setBayes(&in.PM[(size_t)i], &in.PC[(size_t)i]); st.bayes = i; }
        break;
      case KO_SETCOLCOK:
        if (!c.useColCok) continue;
        if (o.j == 5) { inc->setColCokUnique(nullptr, nullptr); st.colcok = -1; }
        else { inc->setColCokUnique(&in.ZP[(size_t)i], &in.colcok); st.colcok = i; }
        break;
      default: continue;
    }
    // KO_BADRHS: the refused call leaves the previous right-hand side in place
    sets++;
    if (!o.chk && io + 1 < nops) continue;
    int g = compare(what);
    if (g >= 0)
    {
      failOp = io;
      failG = g;
      return false;
    }
  }
  return true;
}
static void runK(const KCase& c, Ctx& ctx)
{
  ctx.label(c.dual ? "dual" : (c.nbfl > 0 ? "drift" : "no-drift"));
  if (c.useBayes) ctx.label("bayes");
  if (c.useColCok) ctx.label("colcok");
  size_t failOp = 0;
  int failG = 0, sets = 0;
  std::string what;
  if (kExec(c, c.ops.size(), ctx, failOp, failG, what, sets))
  {
    ctx.nontrivial(sets >= 2);
    return;
  }
  // the difference may have been introduced before the operation after which it was seen: shortest failing prefix
  for (size_t n = 1; n <= failOp; n++)
  {
    size_t fo = 0;
    int fg = 0, s2 = 0;
    std::string w2;
    if (!kExec(c, n, ctx, fo, fg, w2, s2))
    {
      failOp = fo;
      failG = fg;
      what = w2;
      break;
    }
  }
  const char* opn = kopName(c.ops[failOp].op);
  // the optional parts of the object have caches of their own: they are named in the key when the sequence has activated them
  bool cc = false, by = false;
  for (size_t k = 0; k <= failOp; k++)
  {
    if (c.useColCok && c.ops[k].op == KO_SETCOLCOK) cc = true;
    if (c.useBayes && c.ops[k].op == KO_SETBAYES) by = true;
  }
  ctx.fail(std::string("krigcalc:") + (cc ? "colcok:" : "") + kgName(failG) + ":after-" + opn + (by ? ":bayes" : ""),
           fmt("%s after operation #%zu (%s): %s between the updated object and a new object given the same inputs", kgName(failG), failOp, opn, what.c_str()));
}

VERIF_SUB(krigcalc, KCase, genK, runK);


// ===================================================================== sub: modelinc ======
// A Model edited step by step (structures added / removed / modified, drift and means changed, covariance matrices
// requested in between) answers as a Model built in one go from the final description.
struct MOp
{
  int op = 0, i = 0;
  CovSpec cov;
  template<class A> void io(A& a) { a("op", op)("i", i)("cov", cov); }
};
enum { MO_ADD = 0, MO_DEL, MO_DELALL, MO_SILL, MO_RANGES, MO_PARAM, MO_DRIFT, MO_MEANS, MO_EVAL, MO_SETLIST, MO_FILTER, MO_NOPS };
static const char* mopName(int o)
{
  static const char* n[] = {"addCov", "delCova", "delAllCovas", "setSill", "setRanges", "setParam", "setDriftIRF", "setMeans", "evalCovMatrix",
                            "setCovList", "setCovaFiltered"};
  return (o >= 0 && o < MO_NOPS) ? n[o] : "?";
}
struct MCase
{
  ModelSpec base, other;
  DbSpec db;
  std::vector<MOp> ops;
  template<class A> void io(A& a) { a("base", base)("other", other)("db", db)("ops", ops); }
};
static MCase genM()
{
  MCase c;
  int ndim = G::pick<int>({1, 2, 2, 3}), nvar = G::pick<int>({1, 1, 2});
  c.base = genModelSpec(ndim, nvar, true);
  c.other = genModelSpec(ndim, nvar, true);
  auto sets = vfgeo::genPointSets(ndim, {G::sz(3, 9)}, false, true, kL);
  c.db = genDbSpec(sets[0], nvar, 0, false);
  int n = G::sz(1, 14);
  for (int k = 0; k < n; k++)
  {
    MOp o;
    // (setParam is not generated: the library keeps the scale, not the range, when the third parameter changes, and which
    //  of the two a caller may expect to be kept is nowhere stated)
    o.op = G::pick<int>({MO_ADD, MO_ADD, MO_DEL, MO_DEL, MO_DELALL, MO_SILL, MO_RANGES, MO_DRIFT, MO_MEANS, MO_EVAL, MO_EVAL, MO_SETLIST, MO_FILTER});
    o.i = G::i(0, 7);
    o.cov = genCovSpec(ndim, nvar, true);
    c.ops.push_back(o);
  }
  return c;
}
struct ModelImage
{
  std::string ser;
  std::vector<double> vals;
};
static ModelImage imageOf(Model* m, Db* db, Ctx& ctx, const char* who)
{
  ModelImage im;
  ctx.at(std::string(who) + ":getters");
  im.ser = serModel(m);
  if (m->getCovaNumber() <= 0) return im;
  auto add = [&](const AMatrix& a) {
    im.vals.push_back(a.getNRows());
    im.vals.push_back(a.getNCols());
    for (int i = 0; i < a.getNRows(); i++)
      for (int j = 0; j < a.getNCols(); j++) im.vals.push_back(a.getValue(i, j));
  };
  ctx.at(std::string(who) + ":evalCovMatrix");
  add(m->evalCovMatrix(db, db));
  ctx.at(std::string(who) + ":evalCovMatrixOptim");
  add(m->evalCovMatrixOptim(db, db));
  ctx.at(std::string(who) + ":evalCovMatrixSymmetricOptim");
  add(m->evalCovMatrixSymmetricOptim(db));
  ctx.at(std::string(who) + ":eval0/drift");
  add(m->eval0Nvar());
  if (m->getDriftNumber() > 0) add(m->evalDriftMatrix(db));
  return im;
}
static void runM(const MCase& c, Ctx& ctx)
{
  int ndim = c.base.ndim, nvar = c.base.nvar;
  defineDefaultSpace(ESpaceType::RN, (unsigned)ndim);
  std::unique_ptr<Db> db = buildDb(c.db);
  ModelSpec cur = c.base;
  std::vector<int> filt(cur.covs.size(), 0);
  ctx.at("build");
  std::unique_ptr<Model> inc = buildModel(cur);
  std::unique_ptr<Model> oth = buildModel(c.other);
  int edits = 0;
  for (size_t io = 0; io < c.ops.size(); io++)
  {
    const MOp& o = c.ops[io];
    int n = (int)cur.covs.size();
    int i = n ? o.i % n : 0;
    ctx.at(mopName(o.op));
    switch (o.op)
    {
      case MO_ADD: addCovTo(inc.get(), o.cov, ndim); cur.covs.push_back(o.cov); filt.push_back(0); break;
      case MO_DEL: if (n) { inc->delCova(i); cur.covs.erase(cur.covs.begin() + i); filt.erase(filt.begin() + i); } break;
      case MO_DELALL: inc->delAllCovas(); cur.covs.clear(); filt.clear(); break;
      case MO_SILL:
        if (n)
        {
          MatrixSquareSymmetric S(nvar);
          for (int a = 0; a < nvar; a++)
            for (int b = 0; b <= a; b++) S.setValue(a, b, o.cov.sill[(size_t)(a * nvar + b)]);
          inc->getCova(i)->setSill(S);
          cur.covs[(size_t)i].sill = o.cov.sill;
        }
        break;
      case MO_RANGES:
        if (n && cur.covs[(size_t)i].type != 0)
        {
          inc->getCova(i)->setRanges(VectorDouble(o.cov.ranges.begin(), o.cov.ranges.end()));
          cur.covs[(size_t)i].ranges = o.cov.ranges;
        }
        break;
      case MO_PARAM:
        if (n && cur.covs[(size_t)i].type == 4)
        {
          double p = (o.i & 1) ? 0.75 : 1.25;
          inc->getCova(i)->setParam(p);
          cur.covs[(size_t)i].param = p;
        }
        break;
      case MO_DRIFT: inc->setDriftIRF(o.i % 2); cur.drift = o.i % 2; break;
      case MO_MEANS:
      {
        VectorDouble mm;
        for (int v = 0; v < nvar; v++) mm.push_back(0.5 * (o.i + v) - 1.);
        inc->setMeans(mm);
        cur.means.assign(mm.begin(), mm.end());
        break;
      }
      case MO_EVAL:
        if (n)
        {
          if (o.i % 3 == 0) (void)inc->evalCovMatrix(db.get(), db.get());
          else if (o.i % 3 == 1) (void)inc->evalCovMatrixOptim(db.get(), db.get());
          else (void)inc->evalCovMatrixSymmetricOptim(db.get());
        }
        continue;
      case MO_SETLIST:
        inc->setCovList(oth->getCovAnisoList());
        cur.covs = c.other.covs;
        filt.assign(cur.covs.size(), 0);
        break;
      case MO_FILTER:
        if (n) { inc->setCovaFiltered(i, (o.i & 1) != 0); filt[(size_t)i] = (o.i & 1); }
        break;
      default: continue;
    }
    edits++;
    // a Model built in one go from the current description (the means of a Model with a drift are not used: the
    // description keeps them as they were given)
    ctx.at("rebuild");
    std::unique_ptr<Model> fresh(Model::createFromEnvironment(nvar, ndim));
    for (auto& cs : cur.covs) addCovTo(fresh.get(), cs, ndim);
    for (size_t k = 0; k < filt.size(); k++)
      if (filt[k]) fresh->setCovaFiltered((int)k, true);
    bool meansGiven = false, driftGiven = false;
    // replay the drift / means settings in the order of their last occurrence
    int lastDrift = -1, lastMeans = -1;
    for (size_t k = 0; k <= io; k++)
    {
      if (c.ops[k].op == MO_DRIFT) lastDrift = (int)k;
      if (c.ops[k].op == MO_MEANS) lastMeans = (int)k;
    }
    auto giveDrift = [&]() { if (cur.drift >= 0) { fresh->setDriftIRF(cur.drift); driftGiven = true; } };
    auto giveMeans = [&]() { if (c.base.drift < 0 || lastMeans >= 0) { fresh->setMeans(VectorDouble(cur.means.begin(), cur.means.end())); meansGiven = true; } };
    if (lastDrift <= lastMeans) { giveDrift(); giveMeans(); }
    else { giveMeans(); giveDrift(); }
    (void)meansGiven;
    (void)driftGiven;
    ModelImage a = imageOf(inc.get(), db.get(), ctx, "edited");
    ModelImage b = imageOf(fresh.get(), db.get(), ctx, "rebuilt");
    if (a.ser != b.ser)
    {
      ctx.fail(std::string("modelinc:getters:after-") + mopName(o.op), fmt("after operation #%zu the edited Model reads\n%s\nthe rebuilt one\n%s", io, a.ser.c_str(), b.ser.c_str()));
      return;
    }
    if (a.vals.size() != b.vals.size())
    {
      ctx.fail(std::string("modelinc:shape:after-") + mopName(o.op), fmt("after operation #%zu: %zu values from the edited Model, %zu from the rebuilt one", io, a.vals.size(), b.vals.size()));
      return;
    }
    double scale = 0, worst = 0;
    for (double x : b.vals) scale = std::max(scale, std::fabs(x));
    for (size_t k = 0; k < a.vals.size(); k++) worst = std::max(worst, std::fabs(a.vals[k] - b.vals[k]));
    if (!(worst <= 1e-9 * std::max(scale, 1e-300)))
    {
      ctx.fail(std::string("modelinc:values:after-") + mopName(o.op), fmt("after operation #%zu matrices differ by %.3g (magnitude %.3g)", io, worst, scale));
      return;
    }
  }
  ctx.nontrivial(edits >= 2);
}
VERIF_SUB(modelinc, MCase, genM, runM);


// ===================================================================== sub: copies ========
// copy (constructor, operator= onto an object that already has a content, clone) -> the copy reads as the source;
// mutate one side -> the other side still reads as before; destroy one side -> the survivor is still usable and can be
// destroyed.  Each case runs in a child process: a shallow copy shows up as a use-after-free / double free there.
struct Mut
{
  int op = 0, a = 0, b = 0;
  double v = 1;
  template<class A> void io(A& ar) { ar("op", op)("a", a)("b", b)("v", v); }
};
enum { CK_DB = 0, CK_GRID, CK_MODEL, CK_COVLIST, CK_COV, CK_DRIFTS, CK_NEIGH, CK_VARIO, CK_VARIOPARAM, CK_MATRECT, CK_MATSYM, CK_MATSPARSE, CK_N };
static const char* ckName(int k)
{
  static const char* n[] = {"Db", "DbGrid", "Model", "ACovAnisoList", "CovAniso", "DriftList", "NeighMoving", "Vario", "VarioParam",
                            "MatrixRectangular", "MatrixSquareSymmetric", "MatrixSparse"};
  return n[k];
}
struct CopyCase
{
  int kind = 0, how = 0, mutSide = 0, destroyFirst = 0, ndim = 2, nvar = 1;
  DbSpec d1, d2;
  GridSpec g1, g2;
  ModelSpec m1, m2;
  NeighSpec n1, n2;
  std::vector<int> chk1, chk2; // additional checkers of the two neighbourhoods
  VarioSpec v1, v2;
  int nr = 2, nc = 2, sparseEigen = 0;
  std::vector<double> a1, a2;
  std::vector<Mut> muts;
  template<class A> void io(A& a)
  {
    a("kind", kind)("how", how)("mutSide", mutSide)("destroyFirst", destroyFirst)("ndim", ndim)("nvar", nvar)("d1", d1)("d2", d2)("g1", g1)("g2", g2)("m1", m1)(
      "m2", m2)("n1", n1)("n2", n2)("chk1", chk1)("chk2", chk2)("v1", v1)("v2", v2)("nr", nr)("nc", nc)("sparseEigen", sparseEigen)("a1", a1)("a2", a2)("muts", muts);
  }
};
static CopyCase genCopy()
{
  CopyCase c;
  c.kind = G::i(0, CK_N - 1);
  c.how = G::i(0, 2);
  c.mutSide = G::i(0, 1);
  c.destroyFirst = G::i(0, 1);
  c.ndim = G::pick<int>({1, 2, 2, 3});
  c.nvar = G::pick<int>({1, 2});
  auto sets = vfgeo::genPointSets(c.ndim, {G::sz(3, 8), G::sz(3, 8)}, false, true, kL);
  c.d1 = genDbSpec(sets[0], c.nvar, 10, true);
  c.d2 = genDbSpec(sets[1], c.nvar, 10, true);
  std::vector<double> org((size_t)c.ndim, 0.);
  c.g1 = genGridSpec(c.ndim, org);
  c.g2 = genGridSpec(c.ndim, org);
  c.m1 = genModelSpec(c.ndim, c.nvar, true);
  c.m2 = genModelSpec(c.ndim, c.nvar, true);
  if (c.kind == CK_DRIFTS) { c.m1.drift = G::i(0, 2); c.m2.drift = G::i(0, 2); }
  c.n1 = genNeighSpec(c.ndim);
  c.n2 = genNeighSpec(c.ndim);
  c.n1.moving = c.n2.moving = 1;
  int k1 = G::i(0, 2), k2 = G::i(0, 2);
  for (int k = 0; k < k1; k++) c.chk1.push_back(G::i(0, 2));
  for (int k = 0; k < k2; k++) c.chk2.push_back(G::i(0, 2));
  c.v1 = genVarioSpec(c.ndim);
  c.v2 = genVarioSpec(c.ndim);
  c.nr = G::i(1, 4);
  c.nc = (c.kind == CK_MATRECT || c.kind == CK_MATSPARSE) ? G::i(1, 4) : c.nr;
  c.sparseEigen = G::i(0, 1);
  for (int k = 0; k < 16; k++) { c.a1.push_back(G::pct(30) ? 0. : G::r(-4, 4, 2)); c.a2.push_back(G::pct(30) ? 0. : G::r(-4, 4, 2)); }
  int nm = G::sz(1, 5);
  for (int k = 0; k < nm; k++)
  {
    Mut m;
    m.op = G::i(0, 7);
    m.a = G::i(0, 9);
    m.b = G::i(0, 9);
    m.v = G::r(1, 9, 2);
    c.muts.push_back(m);
  }
  return c;
}
static ABiTargetCheck* newChecker(int k)
{
  switch (k % 3)
  {
    case 0: return BiTargetCheckBench::create(0, 2.5);
    case 1: return BiTargetCheckCode::create(1, 0.5);
    default: return BiTargetCheckDate::create(-1., 3.);
  }
}
static std::unique_ptr<NeighMoving> buildMoving(const NeighSpec& n, const std::vector<int>& chk, int ndim)
{
  std::unique_ptr<NeighMoving> nm(NeighMoving::create(false, n.nmaxi, n.radius, n.nmini, n.nsect, n.nmaxi, VectorDouble((size_t)ndim, 1.)));
  for (int k : chk) nm->addBiTargetCheck(newChecker(k));
  return nm;
}

// The scenario, for one class.  'say' reports the stage reached (to the parent, through the pipe).
template<class T, class Ser, class Mutate, class Clone>
static void copyScenario(const CopyCase& c, Ctx& ctx, std::unique_ptr<T> src, std::unique_ptr<T> other, Ser ser, Mutate mutate, Clone clone,
                         const std::function<void(const char*)>& say)
{
  static const char* hows[] = {"copy-constructor", "operator=", "clone"};
  std::string pre = std::string("copy:") + ckName(c.kind) + ":" + hows[c.how] + ":";
  say("built");
  std::string s0 = ser(*src);
  std::unique_ptr<T> cpy;
  if (c.how == 0) cpy.reset(new T(*src));
  else if (c.how == 1) { cpy = std::move(other); *cpy = *src; }
  else cpy.reset(clone(*src));
  other.reset();
  say("copied");
  std::string s1 = ser(*cpy);
  if (s1 != s0) { ctx.fail(pre + "copy-differs-from-source", "the source reads\n" + s0 + "\nits copy\n" + s1); return; }
  if (ser(*src) != s0) { ctx.fail(pre + "copying-changes-the-source", "the source reads\n" + s0 + "\nand after being copied\n" + ser(*src)); return; }
  T& mutated = c.mutSide ? *cpy : *src;
  T& kept = c.mutSide ? *src : *cpy;
  int applied = 0;
  for (auto& m : c.muts)
  {
    say("mutating");
    std::string name = mutate(mutated, m);
    if (name.empty()) continue;
    applied++;
    std::string sk = ser(kept);
    if (sk != s0)
    {
      ctx.fail(pre + "mutation-leaks:" + name, std::string("after '") + name + "' on the " + (c.mutSide ? "copy" : "source") + ", the " + (c.mutSide ? "source" : "copy") +
                                                 " reads\n" + sk + "\ninstead of\n" + s0);
      return;
    }
  }
  say("mutated");
  std::string sm = ser(mutated);
  // destroy one side, keep using the other
  bool destroySrc = (c.destroyFirst == 0);
  std::unique_ptr<T>& first = destroySrc ? src : cpy;
  std::unique_ptr<T>& second = destroySrc ? cpy : src;
  bool survivorIsMutated = (&*second == &mutated);
  first.reset();
  say("destroyed-one-side");
  std::string ss = ser(*second);
  if (ss != (survivorIsMutated ? sm : s0))
  {
    ctx.fail(pre + "destruction-changes-the-other", "after the destruction of the other side the object reads\n" + ss + "\ninstead of\n" + (survivorIsMutated ? sm : s0));
    return;
  }
  for (auto& m : c.muts) (void)mutate(*second, m);
  (void)ser(*second);
  say("used-survivor");
  second.reset();
  say("destroyed-both");
  ctx.nontrivial(applied > 0);
}

static VectorDouble constCol(int n, double v) { return VectorDouble((size_t)n, v); }
static std::string mutateDb(Db& db, const Mut& m, bool isGrid)
{
  int ncol = db.getColumnNumber(), nech = db.getSampleNumber();
  if (ncol <= 0 || nech <= 0) return "";
  int ic = m.a % ncol, ie = m.b % nech;
  switch (m.op % 8)
  {
    case 0: db.setValueByColIdx(ie, ic, m.v); return "setValueByColIdx";
    case 1: db.addColumns(constCol(nech, m.v), "added", ELoc::UNKNOWN); return "addColumns";
    case 2: if (ncol < 2) return ""; db.deleteColumn(db.getNameByColIdx(ic)); return "deleteColumn";
    case 3: db.setName(db.getNameByColIdx(ic), "renamed"); return "setName";
    case 4: db.setLocator(db.getNameByColIdx(ic), ELoc::Z, 0); return "setLocator";
    case 5: if (isGrid) return ""; db.addSamples(1, m.v); return "addSamples";
    case 6: if (isGrid || nech < 2) return ""; db.deleteSample(ie); return "deleteSample";
    default: db.setColumn(constCol(nech, m.v), db.getNameByColIdx(ic)); return "setColumn";
  }
}
static std::string mutateCov(CovAniso& cv, const Mut& m, int ndim)
{
  switch (m.op % 4)
  {
    case 0: cv.setSill(0, 0, cv.getSill(0, 0) + m.v); return "setSill";
    case 1: if (!cv.hasRange()) return ""; cv.setRangeIsotropic(m.v * 3.); return "setRangeIsotropic";
    case 2:
    {
      if (!cv.hasRange()) return "";
      VectorDouble r;
      for (int d = 0; d < ndim; d++) r.push_back(m.v * (d + 2));
      cv.setRanges(r);
      return "setRanges";
    }
    default:
    {
      if (!cv.hasRange() || ndim < 2) return "";
      VectorDouble a((size_t)ndim, 0.);
      a[0] = 10. * m.v;
      cv.setAnisoAngles(a);
      return "setAnisoAngles";
    }
  }
}
static std::string mutateMat(AMatrix& a, const Mut& m)
{
  int nr = a.getNRows(), nc = a.getNCols();
  if (nr <= 0 || nc <= 0) return "";
  switch (m.op % 4)
  {
    case 0: a.setValue(m.a % nr, m.b % nc, m.v + 100.); return "setValue";
    case 1: a.prodScalar(m.v + 1.); return "prodScalar";
    case 2: if (nr != nc) return ""; a.addScalarDiag(m.v); return "addScalarDiag";
    default: a.fill(m.v); return "fill";
  }
}

static void copyBody(const CopyCase& c, Ctx& ctx, const std::function<void(const char*)>& say)
{
  defineDefaultSpace(ESpaceType::RN, (unsigned)c.ndim);
  int ndim = c.ndim;
  switch (c.kind)
  {
    case CK_DB:
      copyScenario<Db>(c, ctx, buildDb(c.d1), buildDb(c.d2), [](const Db& d) { return serDb(&d); }, [](Db& d, const Mut& m) { return mutateDb(d, m, false); },
                       [](const Db& d) { return d.clone(); }, say);
      break;
    case CK_GRID:
      copyScenario<DbGrid>(c, ctx, buildGrid(c.g1), buildGrid(c.g2), [](const DbGrid& d) { return serDb(&d); },
                           [](DbGrid& d, const Mut& m) { return mutateDb(d, m, true); }, [](const DbGrid& d) { return d.clone(); }, say);
      break;
    case CK_MODEL:
    {
      CovSpec extra = c.m2.covs[0];
      copyScenario<Model>(c, ctx, buildModel(c.m1), buildModel(c.m2), [](const Model& m) { return serModel(&m); },
                          [&](Model& md, const Mut& m) -> std::string {
                            int n = md.getCovaNumber();
                            switch (m.op % 7)
                            {
                              case 0: addCovTo(&md, extra, ndim); return "addCov";
                              case 1: if (n < 1) return ""; md.delCova(m.a % n); return "delCova";
                              case 2: if (n < 1) return ""; return mutateCov(*md.getCova(m.a % n), m, ndim);
                              case 3: md.setDriftIRF(m.a % 3); return "setDriftIRF";
                              case 4: md.setMeans(VectorDouble((size_t)md.getVariableNumber(), m.v)); return "setMeans";
                              case 5: if (n < 1) return ""; md.setCovaFiltered(m.a % n, true); return "setCovaFiltered";
                              default: md.delAllCovas(); return "delAllCovas";
                            }
                          },
                          [](const Model& m) { return m.clone(); }, say);
      break;
    }
    case CK_COVLIST:
    {
      std::unique_ptr<Model> ma = buildModel(c.m1), mb = buildModel(c.m2);
      std::unique_ptr<ACovAnisoList> la(new ACovAnisoList(*ma->getCovAnisoList())), lb(new ACovAnisoList(*mb->getCovAnisoList()));
      copyScenario<ACovAnisoList>(c, ctx, std::move(la), std::move(lb), [](const ACovAnisoList& l) { return serCovList(&l); },
                                  [&](ACovAnisoList& l, const Mut& m) -> std::string {
                                    int n = l.getCovaNumber();
                                    switch (m.op % 5)
                                    {
                                      case 0: l.addCov(mb->getCova(0)); return "addCov";
                                      case 1: if (n < 1) return ""; l.delCov(m.a % n); return "delCov";
                                      case 2: if (n < 1) return ""; return mutateCov(*l.getCova(m.a % n), m, ndim);
                                      case 3: if (n < 1) return ""; l.setFiltered(m.a % n, true); return "setFiltered";
                                      default: l.delAllCov(); return "delAllCov";
                                    }
                                  },
                                  [](const ACovAnisoList& l) { return l.clone(); }, say);
      break;
    }
    case CK_COV:
    {
      std::unique_ptr<Model> ma = buildModel(c.m1), mb = buildModel(c.m2);
      std::unique_ptr<CovAniso> ca(ma->getCova(0)->clone()), cb(mb->getCova(0)->clone());
      ma.reset();
      mb.reset();
      copyScenario<CovAniso>(c, ctx, std::move(ca), std::move(cb), [](const CovAniso& v) { return serCov(&v); },
                             [&](CovAniso& v, const Mut& m) { return mutateCov(v, m, ndim); }, [](const CovAniso& v) { return v.clone(); }, say);
      break;
    }
    case CK_DRIFTS:
    {
      std::unique_ptr<Model> ma = buildModel(c.m1), mb = buildModel(c.m2);
      std::unique_ptr<DriftList> da(ma->getDriftList()->clone()), dbb(mb->getDriftList()->clone());
      copyScenario<DriftList>(c, ctx, std::move(da), std::move(dbb), [](const DriftList& d) { return serDrifts(&d); },
                              [&](DriftList& d, const Mut& m) -> std::string {
                                int n = d.getDriftNumber();
                                switch (m.op % 4)
                                {
                                  case 0: { VectorInt pw((size_t)ndim, 0); pw[0] = 1 + m.a % 2; DriftM dm(pw); d.addDrift(&dm); return "addDrift"; }
                                  case 1: if (n < 1) return ""; d.delDrift((unsigned)(m.a % n)); return "delDrift";
                                  case 2: if (n < 1) return ""; d.setFiltered(m.a % n, true); return "setFiltered";
                                  default: d.delAllDrifts(); return "delAllDrifts";
                                }
                              },
                              [](const DriftList& d) { return d.clone(); }, say);
      break;
    }
    case CK_NEIGH:
      copyScenario<NeighMoving>(c, ctx, buildMoving(c.n1, c.chk1, ndim), buildMoving(c.n2, c.chk2, ndim), [](const NeighMoving& n) { return serNeigh(&n); },
                                [&](NeighMoving& n, const Mut& m) -> std::string {
                                  switch (m.op % 5)
                                  {
                                    case 0: n.setNMaxi(20 + m.a); return "setNMaxi";
                                    case 1: n.setNMini(4 + m.a); return "setNMini";
                                    case 2: n.setNSect(5 + m.a); n.setNSMax(3 + m.b); return "setNSect";
                                    case 3: n.setDistCont(0.25 + 0.05 * m.a); return "setDistCont";
                                    default: n.addBiTargetCheck(newChecker(m.a)); return "addBiTargetCheck";
                                  }
                                },
                                [](const NeighMoving& n) { return new NeighMoving(n); }, say);
      break;
    case CK_VARIO:
    {
      std::unique_ptr<Db> da = buildDb(c.d1), dbb = buildDb(c.d2);
      std::unique_ptr<VarioParam> pa = buildVarioParam(c.v1, ndim), pb = buildVarioParam(c.v2, ndim);
      std::unique_ptr<Vario> va(Vario::computeFromDb(*pa, da.get())), vb(Vario::computeFromDb(*pb, dbb.get()));
      if (!va || !vb) { ctx.inconclusive("variogram-not-computed"); return; }
      da.reset(); dbb.reset(); pa.reset(); pb.reset();
      copyScenario<Vario>(c, ctx, std::move(va), std::move(vb), [](const Vario& v) { return serVario(&v); },
                          [&](Vario& v, const Mut& m) -> std::string {
                            int idir = m.a % v.getDirectionNumber(), ipas = m.b % v.getLagNumber(idir);
                            switch (m.op % 4)
                            {
                              case 0: v.setGg(idir, 0, 0, ipas, m.v + 50.); return "setGg";
                              case 1: v.setSw(idir, 0, 0, ipas, m.v + 50.); return "setSw";
                              case 2: v.setHh(idir, 0, 0, ipas, m.v + 50.); return "setHh";
                              default: v.setVar(m.v + 50., 0, 0); return "setVar";
                            }
                          },
                          [](const Vario& v) { return v.clone(); }, say);
      break;
    }
    case CK_VARIOPARAM:
      copyScenario<VarioParam>(c, ctx, buildVarioParam(c.v1, ndim), buildVarioParam(c.v2, ndim), [](const VarioParam& v) { return serVarioParam(&v); },
                               [&](VarioParam& v, const Mut& m) -> std::string {
                                 int n = v.getDirectionNumber();
                                 switch (m.op % 5)
                                 {
                                   case 0: { std::unique_ptr<DirParam> d(DirParam::createOmniDirection(3 + m.a, m.v)); v.addDir(*d); return "addDir"; }
                                   case 1: if (n < 1) return ""; v.delDir(m.a % n); return "delDir";
                                   case 2: v.setScale(m.v); return "setScale";
                                   case 3: v.setDates({0., m.v, m.v, 2. * m.v}); return "setDates";
                                   default: v.delAllDirs(); return "delAllDirs";
                                 }
                               },
                               [](const VarioParam& v) { return v.clone(); }, say);
      break;
    case CK_MATRECT:
      copyScenario<MatrixRectangular>(c, ctx, std::make_unique<MatrixRectangular>(rectOf(c.a1, c.nr, c.nc)), std::make_unique<MatrixRectangular>(rectOf(c.a2, c.nc, c.nr)),
                                      [](const MatrixRectangular& a) { return serMat(&a); }, [](MatrixRectangular& a, const Mut& m) { return mutateMat(a, m); },
                                      [](const MatrixRectangular& a) { return a.clone(); }, say);
      break;
    case CK_MATSYM:
      copyScenario<MatrixSquareSymmetric>(c, ctx, std::make_unique<MatrixSquareSymmetric>(spdOf(c.a1, c.nr, 1.)), std::make_unique<MatrixSquareSymmetric>(spdOf(c.a2, c.nr, 2.)),
                                          [](const MatrixSquareSymmetric& a) { return serMat(&a); }, [](MatrixSquareSymmetric& a, const Mut& m) { return mutateMat(a, m); },
                                          [](const MatrixSquareSymmetric& a) { return a.clone(); }, say);
      break;
    default:
    {
      auto mk = [&](const std::vector<double>& a, int nr, int nc) {
        NF_Triplet T;
        for (int i = 0; i < nr; i++)
          for (int j = 0; j < nc; j++)
            if (a[(size_t)(i * nc + j)] != 0) T.add(i, j, a[(size_t)(i * nc + j)]);
        if (a[(size_t)(nr * nc - 1)] == 0) T.force(nr, nc);
        return std::unique_ptr<MatrixSparse>(MatrixSparse::createFromTriplet(T, nr, nc, c.sparseEigen));
      };
      copyScenario<MatrixSparse>(c, ctx, mk(c.a1, c.nr, c.nc), mk(c.a2, c.nc, c.nr), [](const MatrixSparse& a) { return serMat(&a); },
                                 [](MatrixSparse& a, const Mut& m) -> std::string {
                                   // only entries of the pattern can be set; scaling is always possible
                                   if (m.op % 2 == 0 || a.getNRows() != a.getNCols()) { a.prodScalar(m.v + 1.); return "prodScalar"; }
                                   a.addScalarDiag(m.v);
                                   return "addScalarDiag";
                                 },
                                 [](const MatrixSparse& a) { return a.clone(); }, say);
      break;
    }
  }
}

struct CopyResult
{
  int failed = 0, nt = 0, inc = 0;
  std::string key, msg;
  template<class A> void io(A& a) { a("failed", failed)("nt", nt)("inc", inc)("key", key)("msg", msg); }
};
static void runCopy(const CopyCase& c, Ctx& ctx)
{
  static const char* hows[] = {"copy-constructor", "operator=", "clone"};
  ctx.label(std::string("class:") + ckName(c.kind));
  ctx.label(std::string("how:") + hows[c.how]);
  int fd[2];
  if (pipe(fd) != 0) { ctx.inconclusive("pipe"); return; }
  fflush(nullptr);
  pid_t pid = fork();
  if (pid == 0)
  {
    ::close(fd[0]);
    stats().outPrefix.clear();
    __sanitizer_set_death_callback(noopDeath);
    if (!verbose()) { int nul = open("/dev/null", O_WRONLY); if (nul >= 0) dup2(nul, 2); }
    alarm(60);
    int wfd = fd[1];
    auto say = [wfd](const char* s) { std::string t = std::string("S ") + s + "\n"; ssize_t k = write(wfd, t.data(), t.size()); (void)k; };
    Ctx cc;
    std::string res;
    try
    {
      copyBody(c, cc, say);
    }
    catch (const LibExit&)
    {
      cc.fail("lib-exit", "the library called its exit function");
    }
    catch (const std::exception& e)
    {
      cc.fail("exception", e.what());
    }
    CopyResult r;
    r.failed = cc.failed();
    r.nt = cc.nt;
    r.inc = cc.inconc;
    if (cc.failed()) { r.key = cc.fails[0].key; r.msg = cc.fails[0].msg; }
    std::string t = "R\n" + toText(r);
    ssize_t k = write(wfd, t.data(), t.size());
    (void)k;
    _exit(0);
  }
  ::close(fd[1]);
  std::string all;
  char buf[65536];
  for (;;)
  {
    ssize_t k = read(fd[0], buf, sizeof buf);
    if (k > 0) all.append(buf, (size_t)k);
    else if (k == 0) break;
    else if (errno != EINTR) break;
  }
  ::close(fd[0]);
  int st = 0;
  while (waitpid(pid, &st, 0) < 0 && errno == EINTR) {}
  std::string stage = "start";
  size_t pos = 0;
  while (pos < all.size())
  {
    size_t nl = all.find('\n', pos);
    if (nl == std::string::npos) break;
    std::string line = all.substr(pos, nl - pos);
    pos = nl + 1;
    if (line.rfind("S ", 0) == 0) stage = line.substr(2);
    else if (line == "R")
    {
      CopyResult r;
      if (!fromText(all.substr(pos), r)) break;
      if (r.failed) ctx.fail(r.key, r.msg);
      else if (r.inc) ctx.inconclusive("child");
      else ctx.nontrivial(r.nt != 0);
      return;
    }
  }
  if (WIFSIGNALED(st) && WTERMSIG(st) == SIGALRM) { ctx.inconclusive("child-timeout"); return; }
  ctx.fail(std::string("copy:") + ckName(c.kind) + ":" + hows[c.how] + ":crash-after-" + stage,
           fmt("the process dies after stage '%s' (mutated side: %s, destroyed first: %s; wait status 0x%x)", stage.c_str(), c.mutSide ? "copy" : "source",
               c.destroyFirst ? "copy" : "source", st));
}
VERIF_SUB(copies, CopyCase, genCopy, runCopy);


// =================================================================== target_order =======
// Within one kriging() call the targets are processed in sequence with a neighbourhood memo and a reusable
// inverse: the result at a target must not depend on which targets were processed before it (including
// targets whose system cannot be established).  Oracle: the same targets in a generated other order.
struct TOrderCase
{
  vfkrig::KCase k;
  std::vector<int> perm;
  template<class A> void io(A& a) { a("k", k)("perm", perm); }
};
static TOrderCase genTOrder()
{
  TOrderCase c;
  vfkrig::GenOpt o;
  o.family = G::pick<int>({1, 2, 2});
  o.nvarMax = 2;
  o.movingPct = 100;
  o.blockMode = 0;
  o.verrPct = 10;
  o.intrinsicPct = 0;
  o.nMax = 14;
  o.farPct = 35;
  o.sectorPct = 15;
  o.onDataPct = 5;
  o.naFdataPct = 0;
  c.k = vfkrig::genCase(o);
  // consecutive targets sharing their neighbourhood: near-duplicates of some targets (1e-3 L apart)
  vfgeo::Points t2;
  t2.ndim = c.k.targ.ndim;
  for (int i = 0; i < c.k.targ.n(); i++)
  {
    t2.push(c.k.targ.p(i));
    if (G::pct(60))
    {
      std::vector<double> x(c.k.targ.p(i), c.k.targ.p(i) + t2.ndim);
      x[0] += 1e-3 * c.k.L;
      t2.push(x.data());
    }
  }
  c.k.targ = t2;
  // small neighbourhoods so that some universal-kriging systems cannot be established
  if (G::pct(60)) { c.k.nmaxi = G::i(1, 4); c.k.nmini = 1; }
  c.perm = G::perm(c.k.targ.n());
  return c;
}
static void runTOrder(const TOrderCase& c, Ctx& ctx)
{
  const vfkrig::KCase& k = c.k;
  if (k.nfex > 0 || k.block) { ctx.label("skipped"); return; }
  int nt = k.targ.n();
  if ((int)c.perm.size() != nt) { ctx.label("skipped"); return; }
  vfkrig::resetGlobals(k.ndim);
  vfkrig::World w1;
  if (!vfkrig::buildWorld(k, w1, ctx)) { ctx.label("world-not-built"); return; }
  vfkrig::KOut o1 = vfkrig::runKriging(k, w1, ctx, false);
  vfkrig::KCase k2 = k;
  k2.targ.c.clear();
  for (int j = 0; j < nt; j++) k2.targ.push(k.targ.p(c.perm[(size_t)j]));
  vfkrig::World w2;
  if (!vfkrig::buildWorld(k2, w2, ctx)) { ctx.label("world-not-built"); return; }
  vfkrig::KOut o2 = vfkrig::runKriging(k2, w2, ctx, false);
  std::string var = k.variant();
  if (o1.err != o2.err) { ctx.fail("target-order:status:" + var, fmt("kriging returns %d, %d for the permuted targets", o1.err, o2.err)); return; }
  if (o1.err || !o1.cols || !o2.cols) { ctx.label("kriging-refused"); return; }
  bool moved = false, anyNA = false;
  for (int j = 0; j < nt; j++)
  {
    int t = c.perm[(size_t)j];
    if (t != j) moved = true;
    for (int v = 0; v < k.nvar; v++)
    {
      double e1 = o1.estim[(size_t)(t * k.nvar + v)], e2 = o2.estim[(size_t)(j * k.nvar + v)];
      double s1 = o1.stdev[(size_t)(t * k.nvar + v)], s2 = o2.stdev[(size_t)(j * k.nvar + v)];
      bool n1 = vfkrig::isNA(e1), n2 = vfkrig::isNA(e2);
      anyNA = anyNA || n1;
      if (n1 != n2)
      {
        ctx.fail("target-order:defined:" + var, fmt("target %d var %d: estimate %s in the original order, %s at position %d of the permuted order (%.12g / %.12g)", t, v,
                                                     n1 ? "undefined" : "defined", n2 ? "undefined" : "defined", j, e1, e2));
        return;
      }
      if (n1) continue;
      double sc = std::max({std::fabs(e1), std::fabs(e2), std::fabs(s1), std::fabs(s2), 1e-300});
      if (!(std::fabs(e1 - e2) <= 1e-7 * sc) || !(std::fabs(s1 - s2) <= 1e-7 * sc))
      {
        ctx.fail("target-order:value:" + var, fmt("target %d var %d: estim %.12g / %.12g, stdev %.12g / %.12g (original order / position %d of the permuted order)", t, v, e1, e2, s1, s2, j));
        return;
      }
    }
  }
  ctx.label(anyNA ? "has-failing-target" : "all-targets-estimated");
  ctx.nontrivial(moved && nt >= 2);
  ctx.sig = Hash().add(vfkrig::signature(k)).add(nt).add(anyNA ? 1 : 0).h;
}
VERIF_SUB(target_order, TOrderCase, genTOrder, runTOrder);

VERIF_MAIN()
