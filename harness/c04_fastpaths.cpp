// C04 — accelerated code paths give the same answers as the plain ones.  DESIGN.md §5 C04.
// One sub-property per differential pair (fast path, reference path); see agents/C04/REPORT.txt.
#include "verif.hpp"
#include "geo_common.hpp"
#include "krig_common.hpp"

#include "Estimation/KrigingCalcul.hpp"
#include "Calculators/CalcMigrate.hpp"
#include "Covariances/CovCalcMode.hpp"
#include "Covariances/ACovAnisoList.hpp"
#include "Matrix/MatrixSquareSymmetric.hpp"
#include "Matrix/MatrixRectangular.hpp"
#include "Enum/ECalcMember.hpp"

using namespace vf;
using namespace vfkrig;

// ====================================================================== shared helpers ==
static std::vector<int> admissibleAll(const KCase& c)
{
  std::vector<int> r;
  for (int i = 0; i < c.n(); i++)
    if (c.active(i) && c.anyDef(i)) r.push_back(i);
  return r;
}
static KCase dropSample(const KCase& c, int i0)
{
  KCase r = c;
  int n = c.n();
  r.data.c.clear();
  r.z.clear();
  r.sel.clear();
  r.verr.clear();
  r.fdat.clear();
  for (int i = 0; i < n; i++)
  {
    if (i == i0) continue;
    r.data.push(c.data.p(i));
    for (int v = 0; v < c.nvar; v++) r.z.push_back(c.z[(size_t)(i * c.nvar + v)]);
    if (!c.sel.empty()) r.sel.push_back(c.sel[(size_t)i]);
    if (!c.verr.empty())
      for (int v = 0; v < c.nvar; v++) r.verr.push_back(c.verr[(size_t)(i * c.nvar + v)]);
    for (int f = 0; f < c.nfex; f++) r.fdat.push_back(c.fdat[(size_t)(i * c.nfex + f)]);
  }
  return r;
}
static KCase addSample(const KCase& c, const double* x, const std::vector<double>& z, const double* f)
{
  KCase r = c;
  r.data.push(x);
  for (int v = 0; v < c.nvar; v++) r.z.push_back(z[(size_t)v]);
  if (!c.sel.empty()) r.sel.push_back(1);
  if (!c.verr.empty())
    for (int v = 0; v < c.nvar; v++) r.verr.push_back(0.);
  for (int k = 0; k < c.nfex; k++) r.fdat.push_back(f[k]);
  return r;
}
static KCase oneTarget(const KCase& c, const double* x, const double* f)
{
  KCase r = c;
  r.block = 0;
  r.targ.c.clear();
  r.targ.ndim = c.ndim;
  r.targ.push(x);
  r.ftar.clear();
  for (int k = 0; k < c.nfex; k++) r.ftar.push_back(f[k]);
  return r;
}

// results of one kriging() call, read by prefix
struct KRes
{
  int err = 0;
  bool cols = true;
  std::vector<double> est, sd, vz; // [k*nvar+v]
};
static KRes runK(Db* dbin, Db* dbout, Model* model, ANeigh* neigh, int nvar, bool block, const VectorInt& nd,
                 const VectorInt& colcok, const std::string& prefix, bool wantVarz)
{
  KRes o;
  int nt = dbout->getSampleNumber();
  o.err = kriging(dbin, dbout, model, neigh, block ? EKrigOpt::BLOCK : EKrigOpt::POINT, true, true, wantVarz, nd, colcok,
                  nullptr, NamingConvention(prefix));
  if (o.err) return o;
  o.est.assign((size_t)(nt * nvar), NA);
  o.sd.assign((size_t)(nt * nvar), NA);
  if (wantVarz) o.vz.assign((size_t)(nt * nvar), NA);
  for (int v = 0; v < nvar; v++)
  {
    std::string base = prefix + ".z" + std::to_string(v + 1);
    if (dbout->getUID(base + ".estim") < 0 || dbout->getUID(base + ".stdev") < 0 || (wantVarz && dbout->getUID(base + ".varz") < 0))
    {
      o.cols = false;
      return o;
    }
    VectorDouble e = dbout->getColumn(base + ".estim", false), s = dbout->getColumn(base + ".stdev", false), z;
    if (wantVarz) z = dbout->getColumn(base + ".varz", false);
    if ((int)e.size() != nt || (int)s.size() != nt || (wantVarz && (int)z.size() != nt)) { o.cols = false; return o; }
    for (int k = 0; k < nt; k++)
    {
      o.est[(size_t)(k * nvar + v)] = e[k];
      o.sd[(size_t)(k * nvar + v)] = s[k];
      if (wantVarz) o.vz[(size_t)(k * nvar + v)] = z[k];
    }
  }
  return o;
}

struct Orc
{
  std::unique_ptr<Model> om;
  std::unique_ptr<Oracle> o;
};
// the KCase must outlive the oracle
static bool makeOracle(const KCase& c, const Db* dbout, Orc& R)
{
  Ctx d;
  R.om = buildModel(c, d);
  if (!R.om) return false;
  R.om->setField(Oracle::fieldOf(c, dbout));
  R.o.reset(new Oracle(c, R.om.get()));
  return true;
}
static TargetGeom pointGeom(int ndim, const double* x)
{
  TargetGeom g;
  g.x0.assign(x, x + ndim);
  return g;
}

// tolerances for two evaluations of the same kriging system (DESIGN §3): kappa-scaled, factor 2 because both
// sides carry round-off
struct Tol
{
  LD e = 0, v = 0;
};
static Tol tolOf(const Sys& S, double eta, int tv, double kappa)
{
  double ek = epsK(std::max(S.kappa, kappa), eta);
  Tol t;
  t.e = 2 * ((LD)ek * S.scaleE[(size_t)tv] + floorE(S, eta));
  t.v = 2 * ((LD)ek * S.scaleV[(size_t)tv] + floorV(S, eta, tv));
  return t;
}
static bool bothNA(double a, double b) { return isNA(a) && isNA(b); }

// compare one (target, variable) of two result sets; a = fast path, b = reference path
static bool cmpVal(Ctx& ctx, const std::string& key, const char* what, int k, int tv, double a, double b, LD tol, double kappa,
                   bool squared = false)
{
  if (bothNA(a, b)) return true;
  if (isNA(a) || isNA(b) || std::isnan(a) || std::isnan(b))
  {
    ctx.fail(key + ":na", fmt("target %d var %d: %s fast path %g, reference path %g (one side undefined; kappa %.3g)", k, tv, what, a, b, kappa));
    return false;
  }
  LD x = squared ? (LD)a * a : (LD)a, y = squared ? (LD)b * b : (LD)b;
  if (fabsl(x - y) > tol)
  {
    ctx.fail(key, fmt("target %d var %d: %s%s fast path %.15Lg, reference path %.15Lg (diff %.3Lg, tol %.3Lg, kappa %.3g)", k, tv, what,
                      squared ? "^2" : "", x, y, fabsl(x - y), tol, kappa));
    return false;
  }
  return true;
}

static bool interesting(const KCase& c) { return !c.sel.empty() || c.heterotopic() || c.st.size() >= 2 || c.rotatedAniso(); }

// ====================================================================== 1. covariance matrices ==
struct CovCase
{
  KCase k;                 // db1 = data of k; structures of k; db2 = k.targ
  int db2mode = 0;         // 0: db2 absent (db1 itself); 1: separate Db without variables; 2: separate Db with variables
  std::vector<double> z2;  // ntarg*nvar (db2mode 2)
  std::vector<int> sel2;   // empty or ntarg flags
  int ivar0 = -1, jvar0 = -1;
  std::vector<int> nbgh1, nbgh2;
  int hasMode = 0, asVario = 0, unitary = 0, orderVario = 0, allActive = 1;
  std::vector<int> active;
  int optimFirst = 0;
  template<class A> void io(A& a)
  {
    a("k", k)("db2mode", db2mode)("z2", z2)("sel2", sel2)("ivar0", ivar0)("jvar0", jvar0)("nbgh1", nbgh1)("nbgh2", nbgh2)(
      "hasMode", hasMode)("asVario", asVario)("unitary", unitary)("orderVario", orderVario)("allActive", allActive)("active", active)(
      "optimFirst", optimFirst);
  }
};
static std::vector<int> genSubset(int n)
{
  std::vector<int> r;
  if (n <= 0 || G::pct(35)) return r;
  std::vector<int> p = G::perm(n);
  int m = G::i(1, n);
  r.assign(p.begin(), p.begin() + m);
  if (G::pct(50)) std::sort(r.begin(), r.end());
  return r;
}
static CovCase genCov()
{
  CovCase c;
  GenOpt o;
  o.heteroPct = 50;
  o.selPct = 40;
  o.verrPct = 40;
  o.movingPct = 0;
  o.intrinsicPct = 20;
  o.nMax = 30;
  o.onDataPct = 20;
  c.k = genCase(o);
  int nv = c.k.nvar, nt = c.k.ntarg(), n = c.k.n();
  c.db2mode = G::pick<int>({0, 1, 1, 2});
  if (c.db2mode == 2)
  {
    c.z2.resize((size_t)(nt * nv));
    for (auto& v : c.z2) v = G::pct(25) ? NA : G::r(-10, 10, 4);
  }
  if (c.db2mode != 0 && nt > 1 && G::pct(30))
  {
    c.sel2.assign((size_t)nt, 1);
    for (int i = 1; i < nt; i++)
      if (G::pct(30)) c.sel2[(size_t)i] = 0;
  }
  c.ivar0 = G::pct(60) ? -1 : G::i(0, nv - 1);
  c.jvar0 = G::pct(60) ? -1 : G::i(0, nv - 1);
  c.nbgh1 = genSubset(n);
  c.nbgh2 = genSubset(c.db2mode == 0 ? n : nt);
  c.hasMode = G::pct(70) ? 1 : 0;
  if (c.hasMode)
  {
    c.asVario = G::pct(30) ? 1 : 0;
    c.unitary = G::pct(20) ? 1 : 0;
    c.orderVario = G::pct(80) ? 0 : G::i(1, 3);
    if (G::pct(35))
    {
      int ns = (int)c.k.st.size();
      c.allActive = 0;
      std::vector<int> p = G::perm(ns);
      int m = G::i(1, ns);
      c.active.assign(p.begin(), p.begin() + m);
      if (G::pct(70)) std::sort(c.active.begin(), c.active.end());
    }
  }
  c.optimFirst = G::b() ? 1 : 0;
  return c;
}
static VectorInt toVI(const std::vector<int>& v)
{
  VectorInt r;
  for (int x : v) r.push_back(x);
  return r;
}
static void runCov(const CovCase& c, Ctx& ctx, bool sym)
{
  const KCase& k = c.k;
  labelCase(k, ctx);
  World w;
  if (!buildWorld(k, w, ctx)) return;
  int nv = k.nvar, nt = k.ntarg();
  Db* db1 = w.dbin.get();
  Db* db2 = nullptr;
  if (!sym && c.db2mode != 0)
  {
    db2 = w.dbout.get();
    if (c.db2mode == 2)
      for (int v = 0; v < nv; v++)
      {
        VectorDouble zz((size_t)nt);
        for (int i = 0; i < nt; i++) zz[i] = c.z2[(size_t)(i * nv + v)];
        db2->addColumns(zz, "z" + std::to_string(v + 1), ELoc::Z, v);
      }
    if (!c.sel2.empty())
    {
      VectorDouble e((size_t)nt);
      for (int i = 0; i < nt; i++) e[i] = (double)c.sel2[(size_t)i];
      db2->addColumns(e, "sel", ELoc::SEL, 0);
    }
  }
  bool restricted = false;
  std::unique_ptr<CovCalcMode> mode;
  if (c.hasMode)
  {
    mode.reset(new CovCalcMode(ECalcMember::LHS, c.asVario != 0, c.unitary != 0, c.orderVario, c.allActive != 0, toVI(c.active)));
    if (!c.allActive)
    {
      std::vector<int> s = c.active;
      std::sort(s.begin(), s.end());
      restricted = (int)s.size() != (int)k.st.size();
    }
  }
  std::string cls = restricted ? "activelist" : (c.hasMode ? "mode" : "nomode");
  std::string var = std::string("covmat:") + (sym ? "sym" : "rect");
  ctx.label("mode:" + cls);
  if (c.asVario) ctx.label("mode:vario");
  if (c.unitary) ctx.label("mode:unitary");
  if (c.orderVario) ctx.label("mode:order>0");
  ctx.label(sym ? "db2:n/a" : ("db2mode:" + std::to_string(c.db2mode)));
  if (!c.nbgh1.empty()) ctx.label("nbgh1");
  if (c.ivar0 >= 0) ctx.label("ivar0");
  VectorInt nb1 = toVI(c.nbgh1), nb2 = sym ? VectorInt() : toVI(c.nbgh2);
  Model* m = w.model.get();

  // each path on its own Model: the comparison is about the values, not about what one call leaves behind (C10)
  Ctx dctx;
  std::unique_ptr<Model> m2 = buildModel(k, dctx);
  if (!m2) { ctx.fail("harness:model", "second model"); return; }
  int r1 = 0, c1 = 0, r2 = 0, c2 = 0;
  std::vector<double> P, O;
  auto grab = [](const AMatrix& M, int& r, int& cc, std::vector<double>& out) {
    r = M.getNRows();
    cc = M.getNCols();
    out.resize((size_t)r * (size_t)cc);
    for (int i = 0; i < r; i++)
      for (int j = 0; j < cc; j++) out[(size_t)i * (size_t)cc + (size_t)j] = M.getValue(i, j);
  };
  for (int pass = 0; pass < 2; pass++)
  {
    bool optim = (pass == 0) == (c.optimFirst != 0);
    if (optim)
    {
      ctx.at(var + ":optim");
      if (sym) { MatrixSquareSymmetric M = m->evalCovMatrixSymmetricOptim(db1, c.ivar0, nb1, mode.get()); grab(M, r2, c2, O); }
      else { MatrixRectangular M = m->evalCovMatrixOptim(db1, db2, c.ivar0, c.jvar0, nb1, nb2, mode.get()); grab(M, r2, c2, O); }
    }
    else
    {
      ctx.at(var + ":plain");
      if (sym) { MatrixSquareSymmetric M = m2->evalCovMatrixSymmetric(db1, c.ivar0, nb1, mode.get()); grab(M, r1, c1, P); }
      else { MatrixRectangular M = m2->evalCovMatrix(db1, db2, c.ivar0, c.jvar0, nb1, nb2, mode.get()); grab(M, r1, c1, P); }
    }
  }
  if (r1 != r2 || c1 != c2)
  {
    ctx.fail(var + ":dims", fmt("plain %dx%d, optimised %dx%d", r1, c1, r2, c2));
    return;
  }
  if (r1 == 0 || c1 == 0) { ctx.label("empty-matrix"); return; }
  double scale = 0;
  for (double v : P) scale = std::max(scale, std::fabs(v));
  // the entries are sums / differences (variogram mode) of terms of the size of the sills: that is the scale of the
  // round-off, even when the entries themselves are tiny (far points)
  {
    double ss = 0;
    for (auto& st : k.st)
    {
      double mx = 0;
      for (double v : st.sill) mx = std::max(mx, std::fabs(v));
      ss += c.unitary ? 1. : mx;
    }
    scale = std::max(scale, ss);
  }
  if (!(scale > 0)) scale = 1.;
  double eta = etaIn(k);
  double tabs = (1e-12 + 20. * eta) * scale;
  for (int i = 0; i < r1; i++)
    for (int j = 0; j < c1; j++)
    {
      double a = O[(size_t)i * (size_t)c1 + (size_t)j], b = P[(size_t)i * (size_t)c1 + (size_t)j];
      if (!vf::close(a, b, 1e-10, tabs))
      {
        ctx.fail(var + ":values:" + cls, fmt("entry (%d,%d) of %dx%d: optimised %.15g, plain %.15g (diff %.3g, scale %.3g, %d structures, active list size %d allActive %d)", i, j,
                                             r1, c1, a, b, std::fabs(a - b), scale, (int)k.st.size(), (int)c.active.size(), c.allActive));
        return;
      }
    }
  const ACovAnisoList* cl = m->getCovAnisoList();
  bool fast = cl != nullptr && cl->isOptimEnabled();
  ctx.nontrivial(fast && r1 * c1 >= 2 && interesting(k));
  ctx.sig = Hash().add(signature(k)).add(sym ? 1 : 0).add(c.db2mode).add(cls).add(c.asVario).add(c.unitary).add(c.orderVario).add(c.ivar0 >= 0 ? 1 : 0).add(c.nbgh1.empty() ? 0 : 1).h;
}
static void runCovRect(const CovCase& c, Ctx& ctx) { runCov(c, ctx, false); }
static void runCovSym(const CovCase& c, Ctx& ctx) { runCov(c, ctx, true); }
VERIF_SUB(covmat_rect, CovCase, genCov, runCovRect);
VERIF_SUB(covmat_sym, CovCase, genCov, runCovSym);

// ====================================================================== 2. unique vs wide moving ==
struct UMCase
{
  KCase k;
  int extra = 0, hasRadius = 1;
  double radFactor = 2.;
  std::vector<double> ncoef, nang;
  template<class A> void io(A& a) { a("k", k)("extra", extra)("hasRadius", hasRadius)("radFactor", radFactor)("ncoef", ncoef)("nang", nang); }
};
static UMCase genUM()
{
  UMCase c;
  GenOpt o;
  o.movingPct = 0;
  o.heteroPct = 45;
  o.selPct = 30;
  c.k = genCase(o);
  c.extra = G::pick<int>({0, 0, 1, 5, 1000});
  c.hasRadius = G::pct(75) ? 1 : 0;
  c.radFactor = G::lu(1.5, 10.);
  bool iso = G::pct(50);
  for (int d = 0; d < c.k.ndim; d++) c.ncoef.push_back(iso ? 1. : G::lu(0.25, 4.));
  if (c.k.ndim >= 2 && G::pct(50))
  {
    int na = (c.k.ndim == 2) ? 1 : 3;
    for (int q = 0; q < na; q++) c.nang.push_back(G::r(-180, 180, 2));
  }
  return c;
}
static void runUM(const UMCase& uc, Ctx& ctx)
{
  const KCase& c = uc.k;
  labelCase(c, ctx);
  ctx.sig = Hash().add(signature(c)).add(uc.hasRadius).add(uc.extra).add((int)uc.nang.size()).h;
  int n = c.n(), nt = c.ntarg(), nv = c.nvar;
  // moving twin: radius larger than any data-target distance in the neighbourhood metric, nmaxi >= n, nmini 1, one sector
  KCase m = c;
  m.moving = 1;
  m.nmaxi = n + uc.extra;
  m.nmini = 1;
  m.nsect = 1;
  m.nsmax = 0;
  m.hasRadius = uc.hasRadius;
  m.ncoef = uc.ncoef;
  m.nang = uc.nang;
  double dmax = 0, cmin = 1e300;
  for (int k = 0; k < nt; k++)
    for (int i = 0; i < n; i++) dmax = std::max(dmax, vfgeo::euclid(c.ndim, c.targ.p(k), c.data.p(i)));
  for (double v : uc.ncoef) cmin = std::min(cmin, v);
  m.radius = uc.radFactor * std::max(dmax, 1e-3 * c.L) / cmin;
  std::vector<int> all = admissibleAll(c);
  for (int k = 0; k < nt; k++)
  {
    NbRef r = refNeigh(m, m.targ.p(k));
    if (r.nb != all) { ctx.fail("harness:moving-not-all", "generated moving neighbourhood does not hold all samples"); return; }
  }
  World wu, wm;
  if (!buildWorld(c, wu, ctx)) return;
  if (!buildWorld(m, wm, ctx)) return;
  bool wantVarz = c.flagVarz != 0;
  std::string V = std::string(c.family());
  ctx.at("kriging:unique:" + V);
  KRes A = runK(wu.dbin.get(), wu.dbout.get(), wu.model.get(), wu.neigh.get(), nv, false, VectorInt(), VectorInt(), "KU", wantVarz);
  ctx.at("kriging:moving:" + V);
  KRes B = runK(wm.dbin.get(), wm.dbout.get(), wm.model.get(), wm.neigh.get(), nv, false, VectorInt(), VectorInt(), "KM", wantVarz);
  if (A.err != B.err || A.cols != B.cols)
  {
    ctx.fail("unique-moving:status:" + V, fmt("unique: err %d cols %d; moving: err %d cols %d", A.err, (int)A.cols, B.err, (int)B.cols));
    return;
  }
  if (A.err || !A.cols) { ctx.label("kriging-error-both"); return; }
  if (all.empty()) { ctx.label("no-data"); return; }
  Orc orc;
  if (!makeOracle(c, wu.dbout.get(), orc)) { ctx.fail("harness:model", "oracle model"); return; }
  double eta = etaIn(c);
  int nChecked = 0, nIll = 0;
  for (int k = 0; k < nt; k++)
  {
    Sys S;
    orc.o->solve(k, pointGeom(c.ndim, c.targ.p(k)), all, S);
    if (!S.solved || !(S.kappa <= kKappaMax)) { nIll++; continue; }
    nChecked++;
    for (int tv = 0; tv < nv; tv++)
    {
      Tol t = tolOf(S, eta, tv, 0.);
      size_t q = (size_t)(k * nv + tv);
      if (!cmpVal(ctx, "unique-moving:estim:" + V, "estim", k, tv, A.est[q], B.est[q], t.e, S.kappa)) return;
      if (!cmpVal(ctx, "unique-moving:stdev:" + V, "stdev", k, tv, A.sd[q], B.sd[q], t.v, S.kappa, true)) return;
      if (wantVarz && !cmpVal(ctx, "unique-moving:varz:" + V, "varz", k, tv, A.vz[q], B.vz[q], t.v, S.kappa)) return;
    }
  }
  if (nChecked == 0 && nIll > 0) ctx.inconclusive("ill-conditioned");
  ctx.nontrivial(nChecked > 0 && (int)all.size() >= 2 && interesting(c));
}
VERIF_SUB(unique_vs_moving, UMCase, genUM, runUM);

// ====================================================================== 3. xvalid unique vs leave-one-out ==
static KCase genXV()
{
  GenOpt o;
  o.movingPct = 0;
  o.nvarMin = 1;
  o.nvarMax = 1;
  o.nMax = 24;
  o.heteroPct = 40;
  o.selPct = 30;
  o.verrPct = 12;
  o.family = G::pick<int>({0, 1, 1, 2, 2, 3});
  return genCase(o);
}
static void runXV(const KCase& c, Ctx& ctx)
{
  labelCase(c, ctx);
  ctx.sig = signature(c);
  World w;
  if (!buildWorld(c, w, ctx)) return;
  int n = c.n();
  std::string V = c.family();
  std::unique_ptr<NeighUnique> nu(NeighUnique::create());
  ctx.at("xvalid:unique:" + V);
  int err = xvalid(w.dbin.get(), w.model.get(), nu.get(), false, -1, -1, 0, VectorInt(), NamingConvention("XV"));
  std::vector<int> all = admissibleAll(c);
  if (err != 0)
  {
    ctx.fail("xvalid:error:" + V, "xvalid() in unique neighbourhood returns an error on a valid configuration");
    return;
  }
  if (w.dbin->getUID("XV.z1.estim") < 0 || w.dbin->getUID("XV.z1.stdev") < 0)
  {
    ctx.fail("xvalid:columns:" + V, "xvalid(flag_xvalid_est=-1, flag_xvalid_std=-1) did not create XV.z1.estim / XV.z1.stdev");
    return;
  }
  VectorDouble xe = w.dbin->getColumn("XV.z1.estim", false), xs = w.dbin->getColumn("XV.z1.stdev", false);
  if ((int)xe.size() != n || (int)xs.size() != n) { ctx.fail("xvalid:columns:" + V, "result columns have the wrong size"); return; }
  if ((int)all.size() < 2) { ctx.label("fewer-than-2-data"); return; }

  // conditioning of the full system (the shortcut inverts it once)
  double eta = etaIn(c);
  Orc full;
  if (!makeOracle(c, w.dbin.get(), full)) { ctx.fail("harness:model", "oracle model"); return; }
  Sys SF;
  full.o->solve(0, pointGeom(c.ndim, c.data.p(all[0])), all, SF);
  if (!SF.solved || !(SF.kappa <= kKappaMax)) { ctx.inconclusive("ill-conditioned"); return; }
  bool hasVerr = !c.verr.empty();
  int nChecked = 0, nIll = 0;
  for (int i : all)
  {
    // explicit leave-one-out: krige at x_i from the data set without sample i
    KCase l = oneTarget(dropSample(c, i), c.data.p(i), c.nfex ? &c.fdat[(size_t)(i * c.nfex)] : nullptr);
    l.moving = 0;
    World wl;
    if (!buildWorld(l, wl, ctx)) return;
    ctx.at("kriging:loo:" + V);
    KRes R = runK(wl.dbin.get(), wl.dbout.get(), wl.model.get(), wl.neigh.get(), 1, false, VectorInt(), VectorInt(), "LOO", false);
    if (R.err || !R.cols) { ctx.fail("xvalid:loo-error:" + V, "leave-one-out kriging returns an error"); return; }
    Orc lo;
    if (!makeOracle(l, wl.dbout.get(), lo)) { ctx.fail("harness:model", "oracle model"); return; }
    Sys S;
    std::vector<int> nb = admissibleAll(l);
    lo.o->solve(0, pointGeom(c.ndim, c.data.p(i)), nb, S);
    if (!S.solved || !(S.kappa <= kKappaMax)) { nIll++; continue; }
    nChecked++;
    double kap = std::max(S.kappa, SF.kappa);
    Tol t = tolOf(S, eta, 0, SF.kappa);
    // the shortcut goes through 1 / inv(A)(i,i): its error is |d inv(A)| var^2 <= kappa eps |inv(A)| var^2
    LD var = std::max((LD)0, S.var[0]);
    LD z1 = 0;
    for (int j : all) z1 += fabsl((LD)c.z[(size_t)j] - (c.order < 0 ? (LD)c.means[0] : 0.L));
    LD relB = (LD)epsK(kap, eta) * (LD)SF.sminInv;
    t.v += relB * var * var;
    t.e += relB * var * z1 * 2;
    if (!cmpVal(ctx, "xvalid:estim:" + V, "Z*", i, 0, xe[i], R.est[0], t.e, kap)) return;
    std::string ks = hasVerr ? "xvalid:stdev:verr:" + V : "xvalid:stdev:" + V;
    if (!cmpVal(ctx, ks, "S", i, 0, xs[i], R.sd[0], t.v, kap, true)) return;
  }
  // masked / undefined samples keep undefined results
  for (int i = 0; i < n; i++)
    if ((!c.active(i) || !c.anyDef(i)) && !(isNA(xe[i]) && isNA(xs[i])))
    {
      ctx.fail("xvalid:inactive-result:" + V, fmt("sample %d is masked or undefined but received results %g / %g", i, xe[i], xs[i]));
      return;
    }
  if (nChecked == 0 && nIll > 0) ctx.inconclusive("ill-conditioned");
  ctx.nontrivial(nChecked >= 2 && (interesting(c) || c.order >= 0 || (int)all.size() < n));
}
VERIF_SUB(xvalid_unique, KCase, genXV, runXV);

// ====================================================================== 5. block (1 point) vs point ==
static KCase genB1()
{
  GenOpt o;
  o.blockMode = G::pick<int>({1, 2});
  o.nMax = 30;
  o.heteroPct = 45;
  o.selPct = 25;
  KCase c = genCase(o);
  for (auto& v : c.ndisc) v = 1;
  return c;
}
static void runB1(const KCase& c, Ctx& ctx)
{
  labelCase(c, ctx);
  ctx.sig = signature(c);
  World w;
  if (!buildWorld(c, w, ctx)) return;
  int nt = c.ntarg(), nv = c.nvar;
  VectorInt nd;
  for (int v : c.ndisc) nd.push_back(v);
  bool wantVarz = c.flagVarz != 0;
  std::string V = std::string(c.family()) + (c.moving ? ":moving" : ":unique");
  ctx.at("kriging:block1:" + V);
  KRes A = runK(w.dbin.get(), w.dbout.get(), w.model.get(), w.neigh.get(), nv, true, nd, VectorInt(), "KB", wantVarz);
  World w2;
  if (!buildWorld(c, w2, ctx)) return;
  ctx.at("kriging:point:" + V);
  KRes B = runK(w2.dbin.get(), w2.dbout.get(), w2.model.get(), w2.neigh.get(), nv, false, VectorInt(), VectorInt(), "KP", wantVarz);
  if (A.err != B.err || A.cols != B.cols)
  {
    ctx.fail("block1:status:" + V, fmt("block: err %d cols %d; point: err %d cols %d", A.err, (int)A.cols, B.err, (int)B.cols));
    return;
  }
  if (A.err || !A.cols) { ctx.label("kriging-error-both"); return; }
  Orc orc;
  if (!makeOracle(c, w.dbout.get(), orc)) { ctx.fail("harness:model", "oracle model"); return; }
  double eta = etaIn(c);
  int nChecked = 0, nIll = 0, maxNb = 0;
  for (int k = 0; k < nt; k++)
  {
    std::vector<double> x0((size_t)c.ndim);
    for (int d = 0; d < c.ndim; d++) x0[(size_t)d] = w.dbout->getCoordinate(k, d);
    NbRef nr = refNeigh(c, x0.data());
    if (nr.ambiguous) { ctx.label("target:ambiguous-neigh"); continue; }
    size_t q0 = (size_t)(k * nv);
    if (nr.empty())
    {
      for (int tv = 0; tv < nv; tv++)
        if (!bothNA(A.est[q0 + tv], B.est[q0 + tv])) { ctx.fail("block1:empty-neigh:" + V, fmt("target %d: empty neighbourhood, block %g point %g", k, A.est[q0 + tv], B.est[q0 + tv])); return; }
      continue;
    }
    Sys S;
    orc.o->solve(k, pointGeom(c.ndim, x0.data()), nr.nb, S);
    if (!S.solved || !(S.kappa <= kKappaMax)) { nIll++; continue; }
    nChecked++;
    maxNb = std::max(maxNb, (int)nr.nb.size());
    for (int tv = 0; tv < nv; tv++)
    {
      Tol t = tolOf(S, eta, tv, 0.);
      if (!cmpVal(ctx, "block1:estim:" + V, "estim", k, tv, A.est[q0 + tv], B.est[q0 + tv], t.e, S.kappa)) return;
      if (wantVarz && !cmpVal(ctx, "block1:varz:" + V, "varz", k, tv, A.vz[q0 + tv], B.vz[q0 + tv], t.v, S.kappa)) return;
    }
    // weights (krigtest: iech0 = 0 loops over all targets, usable only with one target)
    if (k >= 1 || nt == 1)
    {
      ctx.at("krigtest:block1:" + V);
      Krigtest_Res ka = krigtest(w.dbin.get(), w.dbout.get(), w.model.get(), w.neigh.get(), k, EKrigOpt::BLOCK, nd, false, false);
      ctx.at("krigtest:point:" + V);
      Krigtest_Res kb = krigtest(w2.dbin.get(), w2.dbout.get(), w2.model.get(), w2.neigh.get(), k, EKrigOpt::POINT, VectorInt(), false, false);
      if (ka.wgt.getNRows() != kb.wgt.getNRows() || ka.wgt.getNCols() != kb.wgt.getNCols() || ka.wgt.getNRows() != S.N)
      {
        ctx.fail("block1:wgt-dims:" + V, fmt("target %d: block weights %dx%d, point weights %dx%d, system %d", k, ka.wgt.getNRows(), ka.wgt.getNCols(), kb.wgt.getNRows(), kb.wgt.getNCols(), S.N));
        return;
      }
      for (int tv = 0; tv < ka.wgt.getNCols() && tv < nv; tv++)
      {
        LD wmax = 0;
        for (int r = 0; r < S.N; r++) wmax = std::max(wmax, fabsl(S.sol(r, tv)));
        LD tol = 2 * (LD)epsK(S.kappa, eta) * wmax + (LD)10 * (LD)epsIn(eta) * (LD)S.covScale * (LD)S.sminInv * sqrtl((LD)S.N);
        for (int r = 0; r < S.N; r++)
          if (!cmpVal(ctx, "block1:wgt:" + V, "weight", k, tv, ka.wgt.getValue(r, tv), kb.wgt.getValue(r, tv), tol, S.kappa)) return;
      }
      ctx.label("weights-compared");
    }
  }
  if (nChecked == 0 && nIll > 0) ctx.inconclusive("ill-conditioned");
  ctx.nontrivial(nChecked > 0 && maxNb >= 2 && (interesting(c) || c.gridRotated()));
}
VERIF_SUB(block1_vs_point, KCase, genB1, runB1);

//@@NEXT@@
VERIF_MAIN()
