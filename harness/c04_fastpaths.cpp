// C04 — accelerated code paths give the same answers as the plain ones.  DESIGN.md §5 C04.
// One sub-property per differential pair (fast path, reference path); see agents/C04/REPORT.txt.
#include "verif.hpp"
#include "geo_common.hpp"
#include "krig_common.hpp"

#include "Estimation/KrigingCalcul.hpp"
#include "Calculators/CalcMigrate.hpp"
#include "Covariances/CovCalcMode.hpp"
#include "Covariances/ACovAnisoList.hpp"
#include "Matrix/MatrixSquareSymmetric.hpp"
#include "Matrix/MatrixRectangular.hpp"
#include "Enum/ECalcMember.hpp"

using namespace vf;
using namespace vfkrig;

// ====================================================================== shared helpers ==
static std::vector<int> admissibleAll(const KCase& c)
{
  std::vector<int> r;
  for (int i = 0; i < c.n(); i++)
    if (c.active(i) && c.anyDef(i)) r.push_back(i);
  return r;
}
static KCase dropSample(const KCase& c, int i0)
{
  KCase r = c;
  int n = c.n();
  r.data.c.clear();
  r.z.clear();
  r.sel.clear();
  r.verr.clear();
  r.fdat.clear();
  for (int i = 0; i < n; i++)
  {
    if (i == i0) continue;
    r.data.push(c.data.p(i));
    for (int v = 0; v < c.nvar; v++) r.z.push_back(c.z[(size_t)(i * c.nvar + v)]);
    if (!c.sel.empty()) r.sel.push_back(c.sel[(size_t)i]);
    if (!c.verr.empty())
      for (int v = 0; v < c.nvar; v++) r.verr.push_back(c.verr[(size_t)(i * c.nvar + v)]);
    for (int f = 0; f < c.nfex; f++) r.fdat.push_back(c.fdat[(size_t)(i * c.nfex + f)]);
  }
  return r;
}
static KCase addSample(const KCase& c, const double* x, const std::vector<double>& z, const double* f)
{
  KCase r = c;
  r.data.push(x);
  for (int v = 0; v < c.nvar; v++) r.z.push_back(z[(size_t)v]);
  if (!c.sel.empty()) r.sel.push_back(1);
  if (!c.verr.empty())
    for (int v = 0; v < c.nvar; v++) r.verr.push_back(0.);
  for (int k = 0; k < c.nfex; k++) r.fdat.push_back(f[k]);
  return r;
}
static KCase oneTarget(const KCase& c, const double* x, const double* f)
{
  KCase r = c;
  r.block = 0;
  r.targ.c.clear();
  r.targ.ndim = c.ndim;
  r.targ.push(x);
  r.ftar.clear();
  for (int k = 0; k < c.nfex; k++) r.ftar.push_back(f[k]);
  return r;
}

// results of one kriging() call, read by prefix
struct KRes
{
  int err = 0;
  bool cols = true;
  std::vector<double> est, sd, vz; // [k*nvar+v]
};
static KRes runK(Db* dbin, Db* dbout, Model* model, ANeigh* neigh, int nvar, bool block, const VectorInt& nd,
                 const VectorInt& colcok, const std::string& prefix, bool wantVarz)
{
  KRes o;
  int nt = dbout->getSampleNumber();
  o.err = kriging(dbin, dbout, model, neigh, block ? EKrigOpt::BLOCK : EKrigOpt::POINT, true, true, wantVarz, nd, colcok,
                  nullptr, NamingConvention(prefix));
  if (o.err) return o;
  o.est.assign((size_t)(nt * nvar), NA);
  o.sd.assign((size_t)(nt * nvar), NA);
  if (wantVarz) o.vz.assign((size_t)(nt * nvar), NA);
  for (int v = 0; v < nvar; v++)
  {
    std::string base = prefix + ".z" + std::to_string(v + 1);
    if (dbout->getUID(base + ".estim") < 0 || dbout->getUID(base + ".stdev") < 0 || (wantVarz && dbout->getUID(base + ".varz") < 0))
    {
      o.cols = false;
      return o;
    }
    VectorDouble e = dbout->getColumn(base + ".estim", false), s = dbout->getColumn(base + ".stdev", false), z;
    if (wantVarz) z = dbout->getColumn(base + ".varz", false);
    if ((int)e.size() != nt || (int)s.size() != nt || (wantVarz && (int)z.size() != nt)) { o.cols = false; return o; }
    for (int k = 0; k < nt; k++)
    {
      o.est[(size_t)(k * nvar + v)] = e[k];
      o.sd[(size_t)(k * nvar + v)] = s[k];
      if (wantVarz) o.vz[(size_t)(k * nvar + v)] = z[k];
    }
  }
  return o;
}

struct Orc
{
  std::unique_ptr<Model> om;
  std::unique_ptr<Oracle> o;
};
// the KCase must outlive the oracle
static bool makeOracle(const KCase& c, const Db* dbout, Orc& R)
{
  Ctx d;
  R.om = buildModel(c, d);
  if (!R.om) return false;
  R.om->setField(Oracle::fieldOf(c, dbout));
  R.o.reset(new Oracle(c, R.om.get()));
  return true;
}
static TargetGeom pointGeom(int ndim, const double* x)
{
  TargetGeom g;
  g.x0.assign(x, x + ndim);
  return g;
}

// tolerances for two evaluations of the same kriging system (DESIGN §3): kappa-scaled, factor 2 because both
// sides carry round-off
struct Tol
{
  LD e = 0, v = 0;
};
static Tol tolOf(const Sys& S, double eta, int tv, double kappa)
{
  double ek = epsK(std::max(S.kappa, kappa), eta);
  Tol t;
  t.e = 2 * ((LD)ek * S.scaleE[(size_t)tv] + floorE(S, eta));
  t.v = 2 * ((LD)ek * S.scaleV[(size_t)tv] + floorV(S, eta, tv));
  return t;
}
static bool bothNA(double a, double b) { return isNA(a) && isNA(b); }

// compare one (target, variable) of two result sets; a = fast path, b = reference path
static bool cmpVal(Ctx& ctx, const std::string& key, const char* what, int k, int tv, double a, double b, LD tol, double kappa,
                   bool squared = false)
{
  if (bothNA(a, b)) return true;
  if (isNA(a) || isNA(b) || std::isnan(a) || std::isnan(b))
  {
    ctx.fail(key + ":na", fmt("target %d var %d: %s fast path %g, reference path %g (one side undefined; kappa %.3g)", k, tv, what, a, b, kappa));
    return false;
  }
  LD x = squared ? (LD)a * a : (LD)a, y = squared ? (LD)b * b : (LD)b;
  if (fabsl(x - y) > tol)
  {
    ctx.fail(key, fmt("target %d var %d: %s%s fast path %.15Lg, reference path %.15Lg (diff %.3Lg, tol %.3Lg, kappa %.3g)", k, tv, what,
                      squared ? "^2" : "", x, y, fabsl(x - y), tol, kappa));
    return false;
  }
  return true;
}

static bool interesting(const KCase& c) { return !c.sel.empty() || c.heterotopic() || c.st.size() >= 2 || c.rotatedAniso(); }

// ====================================================================== 1. covariance matrices ==
struct CovCase
{
  KCase k;                 // db1 = data of k; structures of k; db2 = k.targ
  int db2mode = 0;         // 0: db2 absent (db1 itself); 1: separate Db without variables; 2: separate Db with variables
  std::vector<double> z2;  // ntarg*nvar (db2mode 2)
  std::vector<int> sel2;   // empty or ntarg flags
  int ivar0 = -1, jvar0 = -1;
  std::vector<int> nbgh1, nbgh2;
  int hasMode = 0, asVario = 0, unitary = 0, orderVario = 0, allActive = 1;
  std::vector<int> active;
  int optimFirst = 0;
  template<class A> void io(A& a)
  {
    a("k", k)("db2mode", db2mode)("z2", z2)("sel2", sel2)("ivar0", ivar0)("jvar0", jvar0)("nbgh1", nbgh1)("nbgh2", nbgh2)(
      "hasMode", hasMode)("asVario", asVario)("unitary", unitary)("orderVario", orderVario)("allActive", allActive)("active", active)(
      "optimFirst", optimFirst);
  }
};
static std::vector<int> genSubset(int n)
{
  std::vector<int> r;
  if (n <= 0 || G::pct(35)) return r;
  std::vector<int> p = G::perm(n);
  int m = G::i(1, n);
  r.assign(p.begin(), p.begin() + m);
  if (G::pct(50)) std::sort(r.begin(), r.end());
  return r;
}
static CovCase genCov()
{
  CovCase c;
  GenOpt o;
  o.heteroPct = 50;
  o.selPct = 40;
  o.verrPct = 40;
  o.movingPct = 0;
  o.intrinsicPct = 20;
  o.nMax = 30;
  o.onDataPct = 20;
  c.k = genCase(o);
  int nv = c.k.nvar, nt = c.k.ntarg(), n = c.k.n();
  c.db2mode = G::pick<int>({0, 1, 1, 2});
  if (c.db2mode == 2)
  {
    c.z2.resize((size_t)(nt * nv));
    for (auto& v : c.z2) v = G::pct(25) ? NA : G::r(-10, 10, 4);
  }
  if (c.db2mode != 0 && nt > 1 && G::pct(30))
  {
    c.sel2.assign((size_t)nt, 1);
    for (int i = 1; i < nt; i++)
      if (G::pct(30)) c.sel2[(size_t)i] = 0;
  }
  c.ivar0 = G::pct(60) ? -1 : G::i(0, nv - 1);
  c.jvar0 = G::pct(60) ? -1 : G::i(0, nv - 1);
  c.nbgh1 = genSubset(n);
  c.nbgh2 = genSubset(c.db2mode == 0 ? n : nt);
  c.hasMode = G::pct(70) ? 1 : 0;
  if (c.hasMode)
  {
    c.asVario = G::pct(30) ? 1 : 0;
    c.unitary = G::pct(20) ? 1 : 0;
    c.orderVario = G::pct(80) ? 0 : G::i(1, 3);
    if (G::pct(35))
    {
      int ns = (int)c.k.st.size();
      c.allActive = 0;
      std::vector<int> p = G::perm(ns);
      int m = G::i(1, ns);
      c.active.assign(p.begin(), p.begin() + m);
      if (G::pct(70)) std::sort(c.active.begin(), c.active.end());
    }
  }
  c.optimFirst = G::b() ? 1 : 0;
  return c;
}
static VectorInt toVI(const std::vector<int>& v)
{
  VectorInt r;
  for (int x : v) r.push_back(x);
  return r;
}
static void runCov(const CovCase& c, Ctx& ctx, bool sym)
{
  const KCase& k = c.k;
  labelCase(k, ctx);
  World w;
  if (!buildWorld(k, w, ctx)) return;
  int nv = k.nvar, nt = k.ntarg();
  Db* db1 = w.dbin.get();
  Db* db2 = nullptr;
  if (!sym && c.db2mode != 0)
  {
    db2 = w.dbout.get();
    if (c.db2mode == 2)
      for (int v = 0; v < nv; v++)
      {
        VectorDouble zz((size_t)nt);
        for (int i = 0; i < nt; i++) zz[i] = c.z2[(size_t)(i * nv + v)];
        db2->addColumns(zz, "z" + std::to_string(v + 1), ELoc::Z, v);
      }
    if (!c.sel2.empty())
    {
      VectorDouble e((size_t)nt);
      for (int i = 0; i < nt; i++) e[i] = (double)c.sel2[(size_t)i];
      db2->addColumns(e, "sel", ELoc::SEL, 0);
    }
  }
  bool restricted = false;
  std::unique_ptr<CovCalcMode> mode;
  if (c.hasMode)
  {
    mode.reset(new CovCalcMode(ECalcMember::LHS, c.asVario != 0, c.unitary != 0, c.orderVario, c.allActive != 0, toVI(c.active)));
    if (!c.allActive)
    {
      std::vector<int> s = c.active;
      std::sort(s.begin(), s.end());
      restricted = (int)s.size() != (int)k.st.size();
    }
  }
  std::string cls = restricted ? "activelist" : (c.hasMode ? "mode" : "nomode");
  std::string var = std::string("covmat:") + (sym ? "sym" : "rect");
  ctx.label("mode:" + cls);
  if (c.asVario) ctx.label("mode:vario");
  if (c.unitary) ctx.label("mode:unitary");
  if (c.orderVario) ctx.label("mode:order>0");
  ctx.label(sym ? "db2:n/a" : ("db2mode:" + std::to_string(c.db2mode)));
  if (!c.nbgh1.empty()) ctx.label("nbgh1");
  if (c.ivar0 >= 0) ctx.label("ivar0");
  VectorInt nb1 = toVI(c.nbgh1), nb2 = sym ? VectorInt() : toVI(c.nbgh2);
  Model* m = w.model.get();

  // each path on its own Model: the comparison is about the values, not about what one call leaves behind (C10)
  Ctx dctx;
  std::unique_ptr<Model> m2 = buildModel(k, dctx);
  if (!m2) { ctx.fail("harness:model", "second model"); return; }
  int r1 = 0, c1 = 0, r2 = 0, c2 = 0;
  std::vector<double> P, O;
  auto grab = [](const AMatrix& M, int& r, int& cc, std::vector<double>& out) {
    r = M.getNRows();
    cc = M.getNCols();
    out.resize((size_t)r * (size_t)cc);
    for (int i = 0; i < r; i++)
      for (int j = 0; j < cc; j++) out[(size_t)i * (size_t)cc + (size_t)j] = M.getValue(i, j);
  };
  for (int pass = 0; pass < 2; pass++)
  {
    bool optim = (pass == 0) == (c.optimFirst != 0);
    if (optim)
    {
      ctx.at(var + ":optim");
      if (sym) { MatrixSquareSymmetric M = m->evalCovMatrixSymmetricOptim(db1, c.ivar0, nb1, mode.get()); grab(M, r2, c2, O); }
      else { MatrixRectangular M = m->evalCovMatrixOptim(db1, db2, c.ivar0, c.jvar0, nb1, nb2, mode.get()); grab(M, r2, c2, O); }
    }
    else
    {
      ctx.at(var + ":plain");
      if (sym) { MatrixSquareSymmetric M = m2->evalCovMatrixSymmetric(db1, c.ivar0, nb1, mode.get()); grab(M, r1, c1, P); }
      else { MatrixRectangular M = m2->evalCovMatrix(db1, db2, c.ivar0, c.jvar0, nb1, nb2, mode.get()); grab(M, r1, c1, P); }
    }
  }
  if (r1 != r2 || c1 != c2)
  {
    ctx.fail(var + ":dims", fmt("plain %dx%d, optimised %dx%d", r1, c1, r2, c2));
    return;
  }
  if (r1 == 0 || c1 == 0) { ctx.label("empty-matrix"); return; }
  double scale = 0;
  for (double v : P) scale = std::max(scale, std::fabs(v));
  if (!(scale > 0)) scale = 1.;
  double eta = etaIn(k);
  double tabs = (1e-12 + 20. * eta) * scale;
  for (int i = 0; i < r1; i++)
    for (int j = 0; j < c1; j++)
    {
      double a = O[(size_t)i * (size_t)c1 + (size_t)j], b = P[(size_t)i * (size_t)c1 + (size_t)j];
      if (!vf::close(a, b, 1e-10, tabs))
      {
        ctx.fail(var + ":values:" + cls, fmt("entry (%d,%d) of %dx%d: optimised %.15g, plain %.15g (diff %.3g, scale %.3g, %d structures, active list size %d allActive %d)", i, j,
                                             r1, c1, a, b, std::fabs(a - b), scale, (int)k.st.size(), (int)c.active.size(), c.allActive));
        return;
      }
    }
  const ACovAnisoList* cl = m->getCovAnisoList();
  bool fast = cl != nullptr && cl->isOptimEnabled();
  ctx.nontrivial(fast && r1 * c1 >= 2 && interesting(k));
  ctx.sig = Hash().add(signature(k)).add(sym ? 1 : 0).add(c.db2mode).add(cls).add(c.asVario).add(c.unitary).add(c.orderVario).add(c.ivar0 >= 0 ? 1 : 0).add(c.nbgh1.empty() ? 0 : 1).h;
}
static void runCovRect(const CovCase& c, Ctx& ctx) { runCov(c, ctx, false); }
static void runCovSym(const CovCase& c, Ctx& ctx) { runCov(c, ctx, true); }
VERIF_SUB(covmat_rect, CovCase, genCov, runCovRect);
VERIF_SUB(covmat_sym, CovCase, genCov, runCovSym);

//@@NEXT@@
VERIF_MAIN()
